import Driver.Common
import IoraModel.Model.DnsCache
import IoraModel.Model.DnsTransport
import IoraModel.Model.DnsTcp
namespace Iora.Driver.Dns
open Iora Iora.Dns Iora.DnsCache Iora.Driver

def showErr : Err → String
  | .tooShort => "tooShort" | .bounds => "bounds" | .badPointer => "badPointer" | .loop => "loop"
  | .labelTooLong => "labelTooLong" | .nameTooLong => "nameTooLong" | .unterminated => "unterminated" | .tooManyJumps => "tooManyJumps"
  | .malicious => "malicious" | .rdShort => "rdShort" | .rdBadPointer => "rdBadPointer" | .rdBeyond => "rdBeyond"
  | .rdLabel => "rdLabel" | .rdExtends => "rdExtends" | .typedLen => "typedLen" | .encLabel => "encLabel"
  | .encName => "encName" | .oob => "OOB" | .fuel => "FUEL"

def sep (xs : List String) : String := if xs.isEmpty then "-" else ";".intercalate xs

def showQ (q : Question) : String := s!"{toHex q.qname}:{q.qtype}:{q.qclass}"
def showRR (r : RR) : String := s!"{toHex r.name}:{r.type}:{r.cls}:{r.ttl}:{r.rdlength}:{toHex r.rdata}"

def dotted (a : Bytes) : String := ".".intercalate (a.map fun b => toString b.toNat)

def showTyped : Typed → String
  | .a n a t => s!"{toHex n}:{dotted a}:{t}"
  | .aaaa n a t => s!"{toHex n}:{toHex a}:{t}"
  | .srv n p w po tg t => s!"{toHex n}:{p}:{w}:{po}:{toHex tg}:{t}"
  | .naptr n o p f s r rp t => s!"{toHex n}:{o}:{p}:{toHex f}:{toHex s}:{toHex r}:{toHex rp}:{t}"
  | .cname n c t => s!"{toHex n}:{toHex c}:{t}"
  | .mx n p e t => s!"{toHex n}:{p}:{toHex e}:{t}"
  | .txt n ts t => s!"{toHex n}:{if ts.isEmpty then "~" else ",".intercalate (ts.map toHex)}:{t}"
  | .ptr n p t => s!"{toHex n}:{toHex p}:{t}"
  | .soa n mn rn se rf rt ex mi t => s!"{toHex n}:{toHex mn}:{toHex rn}:{se}:{rf}:{rt}:{ex}:{mi}:{t}"

def group (ts : List Typed) (ty : Nat) : String := sep ((ts.filter (·.type = ty)).map showTyped)

def showResult (r : Result) : String :=
  let h := r.header
  s!"ok h={h.id},{bit h.qr},{h.opcode},{bit h.aa},{bit h.tc},{bit h.rd},{bit h.ra},{h.z},{h.rcode},{h.qd},{h.an},{h.ns},{h.ar}" ++
  s!" q={sep (r.questions.map showQ)} an={sep (r.answers.map showRR)} ns={sep (r.authority.map showRR)} ar={sep (r.additional.map showRR)}" ++
  s!" A={group r.typed 1} AAAA={group r.typed 28} SRV={group r.typed 33} NAPTR={group r.typed 35} CNAME={group r.typed 5}" ++
  s!" MX={group r.typed 15} TXT={group r.typed 16} PTR={group r.typed 12} SOA={group r.typed 6}"

structure St where
  dc : DC := DC.new Gen.Dns.cacheDefaultTtl
  now : Nat := 0
  tcap : Nat := Gen.Dns.tcpDefaultBuffer        -- `config_.maxTcpBufferSize` of the transport under test
  ts : Option Iora.DnsTcp.TSt := none           -- receive side of the transport (`t reset` creates it)
  both : Bool := false                          -- `config_.transportMode == Both` (truncated UDP answers fall back to TCP)

def sortPairs (xs : List (Nat × Nat)) : List (Nat × Nat) :=
  (xs.toArray.qsort (fun a b => a.1 < b.1 ∨ (a.1 = b.1 ∧ a.2 < b.2))).toList

def showPending (p : List (Nat × Nat)) : String :=
  if p.isEmpty then "-" else ",".intercalate ((sortPairs p).map fun (i, s) => s!"{i}@{s}")

def showOut : Iora.DnsTcp.Out → String
  | .done (.result id r) s => s!"R:{id}@{s}:{r.header.id}:{r.answers.length}"
  | .done (.parseError id) s => s!"E:{id}@{s}:parse"
  | .closed sid => s!"C:{sid}"
  | .resent id _ t => s!"F:{t}:0002{toHex (be16 id)}"     -- the harness gives every pending query the 2-byte query data be16 id

def showT (outs : List Iora.DnsTcp.Out) (buf : Option Nat) (t : Iora.DnsTcp.TSt) : String :=
  let ev := if outs.isEmpty then "-" else ";".intercalate (outs.map showOut)
  let b := match buf with | some n => s!" | buf={n}" | none => ""
  s!"{ev}{b} | pending={showPending t.pending}"

def bufLen (t : Iora.DnsTcp.TSt) (sid : Nat) : Nat := (Iora.DnsTcp.bufOf sid t.bufs).length

def parsePend (s : String) : Option (List (Nat × Nat)) :=
  if s = "-" then some [] else
    (s.splitOn ",").mapM fun it =>
      match it.splitOn "@" with
      | [a, b] => match a.toNat?, b.toNat? with
        | some a, some b => if a < 65536 ∧ b < 3 then some (a, b) else none
        | _, _ => none
      | _ => none

def showDc (d : DC) : String :=
  let s := d.stats
  s!"n={d.cache.entries.length} cur={s.currentEntries.toNat} neg={s.currentNegativeEntries.toNat}"

def showStats (d : DC) : String :=
  let s := d.stats
  s!"stats {s.hits.toNat} {s.misses.toNat} {s.negativeHits.toNat} {s.insertions.toNat} {s.replacements.toNat} {s.negativeInsertions.toNat} {s.negativeReplacements.toNat} {s.currentEntries.toNat} {s.currentNegativeEntries.toNat}"

def parseNats (s : String) : Option (List Nat) :=
  if s = "-" then some [] else (s.splitOn ",").mapM String.toNat?

/-- the `DnsResult` the harness builds for `c put … <id> <ttls>`: header id + one A-typed raw answer per TTL -/
def mkResult (id : Nat) (ttls : List Nat) : Result :=
  { header := { id := id, qr := false, opcode := 0, aa := false, tc := false, rd := true, ra := false, z := 0, rcode := 0,
                qd := 0, an := 0, ns := 0, ar := 0 },
    answers := ttls.map fun t => { name := [], type := 1, cls := 1, ttl := t, rdlength := 0, rdata := [] } }

def mkQ (n : Bytes) (t c : Nat) : Question := { qname := n, qtype := t, qclass := c }

def parseQs : List String → Option (List Question)
  | [] => some []
  | n :: t :: c :: rest =>
    match ofHex n, t.toNat?, c.toNat?, parseQs rest with
    | some n, some t, some c, some qs => some (mkQ n t c :: qs)
    | _, _, _, _ => none
  | _ => none

def upd (st : St) (d : DC) (pre : String := "ok") : St × String := ({ st with dc := d }, s!"{pre} | {showDc d}")

def step (st : St) : List String → St × String
  | ["parse", hx] =>
    match ofHex hx with
    | some m => (st, match parse m with | .ok r => showResult r | .error e => s!"err {showErr e}")
    | none => (st, "bad-op")
  | ["parsev", hx] =>
    -- the public wrapper `parse(const std::vector<uint8_t>&)` = `parse(data.data(), data.size())`
    match ofHex hx with
    | some m => (st, match parse m with | .ok r => showResult r | .error e => s!"err {showErr e}")
    | none => (st, "bad-op")
  | ["query1", id, n, t, c] =>
    -- `buildQuery(question, id)` = `buildQuery({question}, true, id)`
    match id.toNat?, parseQs [n, t, c] with
    | some id, some qs =>
      if id = 0 ∨ id > 65535 then (st, "bad-op")
      else (st, match buildQuery qs true id 1 with | .ok w => toHex w | .error e => s!"err {showErr e}")
    | _, _ => (st, "bad-op")
  | "queryd" :: id :: rest =>
    -- `buildQuery(questions, id)` = `buildQuery(questions, true, id)`
    match id.toNat?, parseQs rest with
    | some id, some qs =>
      if id = 0 ∨ id > 65535 then (st, "bad-op")
      else (st, match buildQuery qs true id 1 with | .ok w => toHex w | .error e => s!"err {showErr e}")
    | _, _ => (st, "bad-op")
  | ["name", hx, off] =>
    match ofHex hx, off.toNat? with
    | some m, some o => (st, match decodeName m o with | .ok (n, nx) => s!"ok {toHex n} {nx}" | .error e => s!"err {showErr e}")
    | _, _ => (st, "bad-op")
  | ["namev", hx, off, vs] =>
    -- the public decodeNameWithLoopDetection with a caller-supplied visited set
    match ofHex hx, off.toNat?, parseNats vs with
    | some m, some o, some vs => (st, match decodeNameVisited m o vs with | .ok (n, nx) => s!"ok {toHex n} {nx}" | .error e => s!"err {showErr e}")
    | _, _, _ => (st, "bad-op")
  | ["rdname", hx, rdStart, rdOff, rdLen] =>
    match ofHex hx, rdStart.toNat?, rdOff.toNat?, rdLen.toNat? with
    | some m, some s, some o, some l =>
      if s + l ≤ m.length then
        (st, match rdataName m s o (slice m s l) with | .ok (n, nx) => s!"ok {toHex n} {nx}" | .error e => s!"err {showErr e}")
      else (st, "bad-op")
    | _, _, _, _ => (st, "bad-op")
  | ["enc", hx] =>
    match ofHex hx with
    | some n => (st, match encodeName n with | .ok w => toHex w | .error e => s!"err {showErr e}")
    | none => (st, "bad-op")
  | "query" :: rd :: id :: rest =>
    match parseBit rd, id.toNat?, parseQs rest with
    | some rd, some id, some qs =>
      -- id 0: the code generates an id in 1..65535; both sides print `xxxx` for those two bytes
      (st, match buildQuery qs rd id 1 with
           | .ok w => if id = 0 then "xxxx" ++ toHex (w.drop 2) else toHex w
           | .error e => s!"err {showErr e}")
    | _, _, _ => (st, "bad-op")
  | ["resp", mode, ids, hx] =>
    -- N6: DnsTransport::processResponse with the given pending query ids (mode udp|tcp: no difference outside TCP fallback)
    match (if mode = "udp" ∨ mode = "tcp" then some () else none), parseNats ids, ofHex hx with
    | some (), some pend, some m =>
      (st, match Iora.DnsTransport.processResponse pend m with
           | .error e => s!"ESCAPED {showErr e}"
           | .ok (c, rest) =>
             let ev := match c with
               | none => "-"
               | some (.result id r) => s!"R:{id}:{r.header.id}:{r.answers.length}"
               | some (.parseError id) => s!"E:{id}:parse"
             let sorted := rest.toArray.qsort (· < ·) |>.toList
             s!"{ev} | pending={if sorted.isEmpty then "-" else ",".intercalate (sorted.map toString)}")
    | _, _, _ => (st, "bad-op")
  | ["t", "reset", cap, mode] =>
    match cap.toNat?, (if mode = "udp" ∨ mode = "tcp" ∨ mode = "both" then some () else none) with
    | some c, some () => ({ st with tcap := c, ts := some {}, both := decide (mode = "both") }, "ok")
    | _, _ => (st, "bad-op")
  | ["t", "sess", sid, si] =>
    match st.ts, sid.toNat?, si.toNat? with
    | some t, some sid, some si =>
      if si < 3 then ({ st with ts := some { t with sessions := (sid, si) :: t.sessions.filter (fun p => p.1 ≠ sid) } }, "ok") else (st, "bad-op")
    | _, _, _ => (st, "bad-op")
  | ["t", "pend", lst] =>
    match st.ts, parsePend lst with
    | some t, some ps =>
      -- `pendingQueries_.emplace`: an existing key is kept
      let t' := { t with pending := ps.foldl (fun acc p => if acc.contains p then acc else acc ++ [p]) t.pending }
      ({ st with ts := some t' }, showT [] none t')
    | _, _ => (st, "bad-op")
  | ["t", "tcp", sid, hx] =>
    match st.ts, sid.toNat?, ofHex hx with
    | some t, some sid, some d =>
      match Iora.DnsTcp.handleTcpData st.tcap t sid d with
      | .error e => (st, s!"ESCAPED {showErr e}")
      | .ok (outs, t') => ({ st with ts := some t' }, showT outs (some (bufLen t' sid)) t')
    | _, _, _ => (st, "bad-op")
  | ["t", "udp", sid, hx] =>
    match st.ts, sid.toNat?, ofHex hx with
    | some t, some sid, some d =>
      match (if st.both then Iora.DnsTcp.handleUdpDataBoth t sid d else Iora.DnsTcp.handleUdpData t sid d) with
      | .error e => (st, s!"ESCAPED {showErr e}")
      | .ok (outs, t') => ({ st with ts := some t' }, showT outs none t')
    | _, _, _ => (st, "bad-op")
  | ["t", "close", sid] =>
    match st.ts, sid.toNat? with
    | some t, some sid =>
      let t' := Iora.DnsTcp.handleClose t sid
      ({ st with ts := some t' }, showT [] (some (bufLen t' sid)) t')
    | _, _ => (st, "bad-op")
  | ["c", "new", ttl] =>
    match ttl.toNat? with
    | some t => let d := DC.new t; ({ dc := d, now := 0 }, s!"ok | {showDc d}")
    | none => (st, "bad-op")
  | ["c", "t", ms] =>
    match ms.toNat? with
    | some t => ({ st with now := t * 1000000 }, "ok")
    | none => (st, "bad-op")
  | ["c", "put", n, t, c, id, ttls] =>
    match ofHex n, t.toNat?, c.toNat?, id.toNat?, parseNats ttls with
    | some n, some t, some c, some id, some ttls => upd st (st.dc.put (mkQ n t c) (mkResult id ttls) st.now)
    | _, _, _, _, _ => (st, "bad-op")
  | ["c", "putmsg", n, t, c, hx] =>
    match ofHex n, t.toNat?, c.toNat?, ofHex hx with
    | some n, some t, some c, some m =>
      match parse m with
      | .ok r => upd st (st.dc.put (mkQ n t c) r st.now)
      | .error e => (st, s!"err {showErr e}")
    | _, _, _, _ => (st, "bad-op")
  | ["c", "putneg", n, t, c, id, ttl, ttls] =>
    match ofHex n, t.toNat?, c.toNat?, id.toNat?, ttl.toNat?, parseNats ttls with
    | some n, some t, some c, some id, some ttl, some ttls => upd st (st.dc.putNegative (mkQ n t c) (mkResult id ttls) ttl [] st.now)
    | _, _, _, _, _, _ => (st, "bad-op")
  | ["c", "putnegmsg", n, t, c, hx] =>
    match ofHex n, t.toNat?, c.toNat?, ofHex hx with
    | some n, some t, some c, some m =>
      match parse m with
      | .ok r => upd st (st.dc.putNegativeAuto (mkQ n t c) r [] st.now)
      | .error e => (st, s!"err {showErr e}")
    | _, _, _, _ => (st, "bad-op")
  | ["c", "get", n, t, c] =>
    match ofHex n, t.toNat?, c.toNat? with
    | some n, some t, some c =>
      let (v, d) := st.dc.get (mkQ n t c) st.now
      upd st d (match v with
                | none => "miss"
                | some e => s!"hit {e.result.header.id} {e.result.answers.length}")
    | _, _, _ => (st, "bad-op")
  | ["c", "remove", n, t, c] =>
    match ofHex n, t.toNat?, c.toNat? with
    | some n, some t, some c => upd st (st.dc.remove (mkQ n t c))
    | _, _, _ => (st, "bad-op")
  | ["c", "clear", r] =>
    match parseBit r with
    | some r => upd st (st.dc.clear r)
    | none => (st, "bad-op")
  | ["c", "setdefault", ttl] =>
    match ttl.toNat? with
    | some t => upd st (st.dc.setDefaultTtl t)
    | none => (st, "bad-op")
  | ["c", "purge"] => upd st (st.dc.purge st.now)
  | ["c", "stats"] => (st, showStats st.dc)
  | _ => (st, "bad-op")

def main : IO Unit := runLines ({} : St) step

end Iora.Driver.Dns
