import Driver.Common
import IoraModel.Model.KvStore
import IoraModel.Model.JsonFileStore
/-! `iora_model kv`: line-protocol driver of the KVStore model (C11, C12).  Same protocol as `harness/kv_common.hpp`. -/
namespace Iora.Driver.Kv
open Iora Iora.Kv Iora.Driver

structure St where
  cfg : Cfg := { lim := Lim.gen, crc := crc32, maxCache := 1000, maxLog := 10485760, inlineCompact := true }
  w : W := {}
  live : Bool := false
  /-- the directory before the last step (for `crashat`) -/
  prevFs : Fs := {}

def fname : F → String
  | .snap => "snap" | .log => "log" | .tmp => "tmp"

/-- consecutive appends to one file are one event (the harness coalesces consecutive `write`s the same way) -/
def coalesce : List FsOp → List FsOp
  | .append f a :: .append g b :: r =>
    if f = g then coalesce (.append f (a ++ b) :: r) else .append f a :: coalesce (.append g b :: r)
  | x :: r => x :: coalesce r
  | [] => []
termination_by l => l.length

def showFsOp : FsOp → String
  | .append f bs => s!"A:{fname f}:{toHex bs}"
  | .trunc f n => s!"T:{fname f}:{n}"
  | .rename a b => s!"R:{fname a}:{fname b}"

def showTr (tr : List FsOp) : String :=
  if tr.isEmpty then "-" else ";".intercalate ((coalesce tr).map showFsOp)

def errName : ApiErr → String
  | .emptyKey => "emptyKey" | .keyTooLarge => "keyTooLarge" | .valueTooLarge => "valueTooLarge"
  | .badTtl => "badTtl" | .badBatch => "badBatch" | .loadFailed => "loadFailed"

def showOut : Out → String
  | .ok => "ok"
  | .count n => s!"count:{n}"
  | .value none => "none"
  | .value (some v) => s!"val:{toHex v}"
  | .err e => s!"err:{errName e}"

def insertSorted (x : String) : List String → List String
  | [] => [x]
  | y :: r => if x ≤ y then x :: y :: r else y :: insertSorted x r
def sortStrs (xs : List String) : List String := xs.foldr insertSorted []
def csv (xs : List String) : String := if xs.isEmpty then "-" else ",".intercalate xs

def showRead (m : Mem) (now : Int) (p : Bytes) (ks : List Key) : String :=
  let keys := csv (sortStrs ((rdKeys m now).map toHex))
  let pfx := csv (sortStrs ((keysWithPrefix m now p).map toHex))
  let batch := csv (sortStrs ((rdGetBatch m now ks).map (fun x => s!"{toHex x.1}:{toHex x.2}")))
  let ex := String.join (ks.map (fun k => bit (rdExists m now k)))
  let ttl := csv (ks.map (fun k => match rdTtl m now k with | some t => toString t | none => "n"))
  s!"size={rdSize m now} keys={keys} pfx={pfx} batch={batch} ex={if ks.isEmpty then "-" else ex} ttl={ttl}"

def showLState (kv : Map Val) (exp : List (Key × Int)) : String :=
  let a := csv (sortStrs (kv.map (fun x => s!"{toHex x.1}:{toHex x.2}")))
  let b := csv (sortStrs (exp.map (fun x => s!"{toHex x.1}:{x.2}")))
  s!"kv={a} exp={b}"

def showState (m : Mem) : String := showLState m.kv (m.expiry.map (fun x => (x.1, x.2.at_)))

def parsePairs : List String → Option (List (Key × Val))
  | [] => some []
  | [_] => none
  | k :: v :: r =>
    match ofHex k, ofHex v, parsePairs r with
    | some k, some v, some r => some ((k, v) :: r)
    | _, _, _ => none

def parseKeys : List String → Option (List Key)
  | [] => some []
  | k :: r =>
    match ofHex k, parseKeys r with
    | some k, some r => some (k :: r)
    | _, _ => none

def optHex (s : String) : Option (Option Bytes) :=
  if s = "none" then some none else (ofHex s).map some

def errLoad : LoadErr → String
  | .badMagic => "badMagic" | .badVersion => "badVersion" | .badCount => "badCount" | .countTooLarge => "countTooLarge"
  | .badKeyLen => "badKeyLen" | .badKey => "badKey" | .badExpiry => "badExpiry" | .badValLen => "badValLen"
  | .badValue => "badValue"

def doOp (st : St) (op : Op) : St × String :=
  let (w, out) := Kv.step st.cfg st.w op
  ({ st with w := w, prevFs := st.w.fs }, s!"{showOut out} | {showTr w.tr}")

def showOptHex : Option Bytes → String
  | none => "none"
  | some b => toHex b

def step (st : St) (toks0 : List String) : St × String :=
  let toks := match toks0 with
    | "resetfree" :: r => "reset" :: r
    | t => t
  match toks with
  | ["reset", mc, ml, ic, now] =>
    match mc.toNat?, ml.toNat?, parseBit ic, now.toInt? with
    | some mc, some ml, some ic, some now =>
      let cfg : Cfg := { lim := Lim.gen, crc := crc32, maxCache := mc, maxLog := ml, inlineCompact := ic }
      let (w, out) := opOpen cfg { now := now }
      ({ cfg := cfg, w := w, live := true }, s!"{showOut out} | {showTr w.tr}")
    | _, _, _, _ => (st, "bad-op")
  | ["crashimg", mc, ml, ic, now, snap, log, tmp] =>
    -- a new process on a crash image given as bytes: constructor (load + openLogFile + postLoadArm)
    match mc.toNat?, ml.toNat?, parseBit ic, now.toInt?, optHex snap, optHex log, optHex tmp with
    | some mc, some ml, some ic, some now, some snap, some log, some tmp =>
      let cfg : Cfg := { lim := Lim.gen, crc := crc32, maxCache := mc, maxLog := ml, inlineCompact := ic }
      let (w, out) := opOpen cfg { fs := { snap := snap, log := log, tmp := tmp }, now := now }
      match out with
      | .ok => ({ cfg := cfg, w := w, live := true }, s!"ok | {showTr w.tr}")
      | _ => ({ cfg := cfg, w := w, live := false }, s!"{showOut out} | -")
    | _, _, _, _, _, _, _ => (st, "bad-op")
  | ["jflush", d] =>
    -- JsonFileStore::saveToFile on text `d`: the file operations it issues
    match ofHex d with
    | some d => (st, s!"ok | {showTr (Iora.Jfs.saveToFile d)}")
    | none => (st, "bad-op")
  | _ =>
  if !st.live then (st, "bad-op") else
  match toks with
  | ["now", t] =>
    match t.toInt? with
    | some t => if t < st.w.now then (st, "bad-op") else doOp st (.advance (t - st.w.now).toNat)
    | none => (st, "bad-op")
  | ["set", k, v] =>
    match ofHex k, ofHex v with
    | some k, some v => doOp st (.set k v)
    | _, _ => (st, "bad-op")
  | ["setttl", k, v, ttl] =>
    match ofHex k, ofHex v, ttl.toInt? with
    | some k, some v, some ttl => doOp st (.setTtl k v ttl)
    | _, _, _ => (st, "bad-op")
  | "setbatch" :: r =>
    match parsePairs r with
    | some kvs => doOp st (.setBatch kvs)
    | none => (st, "bad-op")
  | "setbatchttl" :: ttl :: r =>
    match ttl.toInt?, parsePairs r with
    | some ttl, some kvs => doOp st (.setBatchTtl kvs ttl)
    | _, _ => (st, "bad-op")
  | ["get", k] =>
    match ofHex k with
    | some k => doOp st (.get k)
    | none => (st, "bad-op")
  | ["remove", k] =>
    match ofHex k with
    | some k => doOp st (.remove k)
    | none => (st, "bad-op")
  | "rmprefix" :: p :: ord =>
    -- `rmprefix <prefix> [<key>*]`: the keys are the order `keysWithPrefix` returned in the implementation (hash-map iteration
    -- order, an INPUT of the model); the answer carries the order the model used as a third field
    match ofHex p, parseKeys ord with
    | some p, some ord =>
      let used := Kv.prefixOrder st.w.mem st.w.now p ord
      let (st', line) := doOp st (.removeWithPrefix p ord)
      (st', s!"{line} | order:{csv (used.map toHex)}")
    | _, _ => (st, "bad-op")
  | ["clear"] => doOp st .clear
  | ["expireat", k, t] =>
    match ofHex k, t.toInt? with
    | some k, some t => doOp st (.expireAt k t)
    | _, _ => (st, "bad-op")
  | ["persist", k] =>
    match ofHex k with
    | some k => doOp st (.persist k)
    | none => (st, "bad-op")
  | ["compact"] => doOp st .compact
  | ["evict", k, mode] =>
    match ofHex k with
    | some k =>
      let cur := (st.w.mem.expiry.get? k).map (·.timer)
      if mode = "cur" then doOp st (.evictFire k (cur.getD (st.w.mem.nextTimer + 7)))
      else if mode = "stale" then doOp st (.evictFire k ((cur.getD st.w.mem.nextTimer) + 1))
      else if mode = "zero" then doOp st (.evictFire k 0)
      else (st, "bad-op")
    | none => (st, "bad-op")
  | ["reopen"] => doOp st .reopen
  | "read" :: p :: ks =>
    match ofHex p, parseKeys ks with
    | some p, some ks => (st, showRead st.w.mem st.w.now p ks)
    | _, _ => (st, "bad-op")
  | ["state"] => (st, showState st.w.mem)
  | ["crashat", k, cut] =>
    -- the crash image `crashImage` of the last step's file operations (model only)
    match k.toNat?, cut.toNat? with
    | some k, some cut =>
      let img := crashImage st.prevFs st.w.tr k cut
      (st, s!"img {showOptHex img.snap} {showOptHex img.log} {showOptHex img.tmp}")
    | _, _ => (st, "bad-op")
  | ["sleep", _] => (st, "ok")
  | ["stress", _, _] => (st, "ok")
  | ["stats"] => (st, "stats")
  | _ => (st, "bad-op")

/-- `racegate <key> <writer op> [args]` (deterministic schedule of the implementation: a writer of the key is released while
`get(key)` stands at its exclusive acquisition of `_cacheMutex` on the cache-miss path).  With the lock scopes of `Gen.Kv`
(`Props/C12.lean`, `M6_get_miss_race`) the writer cannot start before the `get` has returned: the model runs `get key`, then the
writer, as two sequential steps, and answers `<get result>;<writer result> | <file operations>`.

`wracegate <key> <v1> <writer op> [args]`: the same with `set key v1` as the gated call (two writers; it stands at the cache update
inside its `updateCache`).  Writers update `_cache` while they hold `_mutex` exclusively (`Gen.Kv.writersTouchCacheUnderStoreLock`,
`M6_any_threads`), so again the only outcome is the two calls in sequence.  The file operations of the two steps are one trace
(consecutive appends to the log coalesce, as in the harness, which collects the events once after both calls). -/
def gated (st : St) (first : List String) (k wop : String) (args : List String) : St × String :=
  let wtoks : Option (List String) :=
    if wop = "clear" && args.isEmpty then some ["clear"]
    else if wop = "remove" || wop = "persist" || wop = "set" || wop = "setttl" || wop = "expireat" then some (wop :: k :: args)
    else none
  match wtoks with
  | none => (st, "bad-op")
  | some wtoks =>
    let (st1, l1) := step st first
    let (st2, l2) := step st1 wtoks
    match l1.splitOn " | ", l2.splitOn " | " with
    | [r1, t1], [r2, t2] =>
      let t :=
        if t1 = showTr st1.w.tr && t2 = showTr st2.w.tr then showTr (st1.w.tr ++ st2.w.tr)
        else if t1 = "-" then t2 else if t2 = "-" then t1 else t1 ++ ";" ++ t2
      (st2, s!"{r1};{r2} | {t}")
    | _, _ => (st, "bad-op")

def stepTop (st : St) (toks : List String) : St × String :=
  match toks with
  | "racegate" :: k :: wop :: args => gated st ["get", k] k wop args
  | "wracegate" :: k :: v1 :: wop :: args => gated st ["set", k, v1] k wop args
  | _ => step st toks

def main : IO Unit := runLines ({} : St) stepTop

end Iora.Driver.Kv
