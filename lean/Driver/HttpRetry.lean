import Driver.Common
import IoraModel.Model.HttpRetry
import IoraModel.Model.HttpLease
import IoraModel.Model.HttpClientLife
/-! Line-protocol driver of the C17 model (`iora_model httpretry`).  Same operation lines as `harness/c17_httpretry.cpp`;
the part of a script token after `@` (concrete bytes/offsets for the scripted server) is ignored here. -/
namespace Iora.Driver.HttpRetry
open Iora Iora.HttpRetry Iora.Driver

structure St where
  cfg : Cfg := {}
  client : Client := {}
  tmo : Timeouts := {}
  closing : Bool := false      -- `_closing`: set by the `cleanup` op, cleared by `reset` (a new client)

def strOfBytes (bs : Bytes) : String := String.ofList (bs.map fun b => Char.ofNat b.toNat)

/-- `<status>,<conn hex | ~>,<version hex>,<surplus 0|1>` -/
def parseResp (s : String) : Option RespInfo :=
  match s.splitOn "," with
  | [st, conn, ver, sp] =>
    match st.toNat?, (if conn = "~" then some none else (ofHex conn).map some), ofHex ver, parseBit sp with
    | some st, some conn, some ver, some sp => some { status := st, conn := conn, version := ver, surplus := sp }
    | _, _, _, _ => none
  | _ => none

/-- semantic part of a script token: `[I]<class>[:<resp>[:<setAsync>]]` -/
def parseSem (s : String) : Option Attempt :=
  let (idle, s) := if s.startsWith "I" then (true, (s.drop 1).toString) else (false, s)
  let base : Attempt := { cacheFresh := !idle }
  match s.splitOn ":" with
  -- client-side faults: whatever the fault does not prevent goes on against a well-behaved server (plain 200)
  | ["L"] => some { base with lease := .timedOut }
  | ["R"] => some { base with connect := .refused, recvs := [.more, .complete {}] }
  | ["B"] => some { base with connect := .timedOut, recvs := [.more, .complete {}] }
  | ["M"] => some { base with setSync := false }
  | ["E"] => some { base with send := false }
  | ["T"] => some { base with recvs := [.more, .timeout] }
  | ["C"] => some { base with recvs := [.peerClosed none] }
  | ["F"] => some { base with recvs := [.more, .malformed] }
  | ["P"] => some { base with recvs := [.more, .capExceeded] }
  | ["V"] => some { base with recvs := [.overflow] }
  | ["S"] => some { base with recvs := [.shuttingDown] }
  | ["O"] => some { base with recvs := [.otherErr] }                     -- receiveSync answers Cancelled (any other TransportError)
  | ["H"] => some { base with connect := .timedOut, recvs := [.more, .complete {}] }  -- TLS handshake that never completes
  | ["D", r] => (parseResp r).map fun r => { base with recvs := [.more, .peerClosed (some r)] }
  | ["K", r, a] =>
    match parseResp r, parseBit a with
    | some r, some a => some { base with recvs := [.more, .complete r], setAsync := a }
    | _, _ => none
  -- 4th field: the transport still holds bytes behind the message when the reuse decision is taken (residualDataPending)
  | ["K", r, a, res] =>
    match parseResp r, parseBit a, parseBit res with
    | some r, some a, some res => some { base with recvs := [.more, .complete r], setAsync := a, residue := res }
    | _, _, _ => none
  | _ => none

def parseTok (t : String) : Option Attempt :=
  match t.splitOn "@" with
  | [sem, _] => parseSem sem
  | _ => none

def parseScript : List String → Option (List Attempt)
  | [] => some []
  | t :: ts =>
    match parseTok t, parseScript ts with
    | some a, some as => some (a :: as)
    | _, _ => none

/-- beyond the scripted attempts the harness' server answers a plain `200` that allows reuse -/
def defaultAttempt : Attempt := { recvs := [.complete {}] }

def scriptFn (as : List Attempt) (i : Nat) : Attempt :=
  match as[i]? with
  | some a => a
  | none => defaultAttempt

def showEv : Ev → Option String
  | .connect _ sid => some s!"c{sid}"
  | .send sid => some s!"s{sid}"
  | .close sid => some s!"x{sid}"
  | _ => none

def showEvs (evs : List Ev) : String :=
  let l := evs.filterMap showEv
  if l.isEmpty then "-" else ",".intercalate l

def showExn : Exn → String
  | .framing => "framing"
  | .notSent => "notsent"
  | .runtime => "runtime"
  | .invalidArg => "invalid"
  | .other => "other"

def showRes : Except Exn RespInfo → String
  | .ok r => s!"ok:{r.status}"
  | .error e => s!"err:{showExn e}"

def insertSorted (x : String) : List String → List String
  | [] => [x]
  | y :: ys => if x < y then x :: y :: ys else y :: insertSorted x ys

def showCache (c : Client) : String :=
  let items := (c.conns.map fun p => s!"h{p.1}#{p.2}").foldr insertSorted []
  let s := if items.isEmpty then "-" else ",".intercalate items
  s!"cache={s} leased={c.leased.length}"

/-- `<method hex>/<budget>/<url kind>/<token>;<token>;...` -/
def parseThread (s : String) : Option Request :=
  match s.splitOn "/" with
  | [m, b, uk, toks] =>
    match ofHex m, b.toInt?, uk.toNat?, parseScript (toks.splitOn ";") with
    | some m, some b, some uk, some as =>
      some { method := strOfBytes m, urlOk := uk ≠ 9, host := if uk = 1 then 1 else 0, retries := b, script := scriptFn as }
    | _, _, _, _ => none
  | _ => none

def parseThreads : List String → Option (List Request)
  | [] => some []
  | t :: ts =>
    match parseThread t, parseThreads ts with
    | some r, some rs => some (r :: rs)
    | _, _ => none

def parseNats : List String → Option (List Nat)
  | [] => some []
  | t :: ts =>
    match t.toNat?, parseNats ts with
    | some n, some ns => some (n :: ns)
    | _, _ => none

/-- concurrent callers: replay the observed order of exchanges (each = acquire step + exchange step of that thread) -/
def runPar (cfg : Cfg) (c : Client) (rqs : List Request) (sched : List Nat) : World :=
  runSched cfg { World.init rqs with client := c } (sched.flatMap fun i => [i, i])

def showThreadEvs (w : World) (i : Nat) : String :=
  showEvs ((w.evs.filter fun p => p.1 = i).map (·.2))

def showThreadRes (t : Thread) : String :=
  match t.pc with
  | .done res => s!"{showRes res}/{t.log.length}"
  | .start n => s!"pending-start-{n}"
  | .holding n => s!"pending-holding-{n}"

def idxList (n : Nat) : List Nat := List.range n

/-- per attempt: the milliseconds of the timed wait that ends by its time-out (`-` if none does) -/
def showTimedOut (st : St) (rq : Request) (n : Nat) : String :=
  let rec go (i : Nat) (fuel : Nat) (c : Client) (acc : List String) : List String :=
    match fuel with
    | 0 => acc.reverse
    | fuel + 1 =>
      let a := rq.script i
      let w := match timedOutWait c rq.urlOk rq.host a with
        | some k => (match waitMs st.tmo k with
          | some ms => toString ms
          | none => "?")
        | none => "-"
      go (i + 1) fuel (executeRequest st.cfg c rq.urlOk rq.host a).1 (w :: acc)
  let l := go 0 n st.client []
  if l.isEmpty then "-" else ",".intercalate l

/-- per attempt: `0` = the receive loop never called receiveSync (`AttemptLog.receives = 0`), `+` = it did -/
def showRz (log : List AttemptLog) : String :=
  if log.isEmpty then "-" else ",".intercalate (log.map fun lg => if lg.receives = 0 then "0" else "+")

def mkRequest (m : String) (b : Int) (uk : Nat) (as : List Attempt) : Request :=
  let https := uk = 2
  -- url kinds: 0 = 127.0.0.1:P, 1 = localhost:P, 2 = https, 3 = 127.0.0.1:(P + 65536) (parseUrl wraps it to P: the SAME key as kind 0),
  -- 5 = 127.0.0.1:P2 (a second port: another key), 9 = no URL at all; kind 4 (port beyond `int`) never gets here
  { method := m, urlOk := uk ≠ 9, host := if uk = 1 then 1 else if uk = 5 then 2 else 0, retries := b,
    script := fun i => { scriptFn as i with https := https } }

def kindsOf (evs : List Ev) : String :=
  let l := evs.filterMap fun e => match e with
    | .connect _ _ => some "c"
    | .send _ => some "s"
    | .close _ => some "x"
    | _ => none
  if l.isEmpty then "-" else ",".intercalate l

def dashes (n : Nat) : String := if n = 0 then "-" else ",".intercalate (List.replicate n "-")

/-- three callers on one client (seed C17-d): T1 holds host 0 behind a silent peer, T2 asks for host 0 and waits for the lease
(`leaseAcquireTimeout = lease`), T3 completes `n` exchanges with host 1, one every `step` ms, each release waking T2 -/
def runContend (lease step n : Nat) : String :=
  let cfg : Cfg := {}
  let out := acquireLeaseTimed lease false false (foreignWakes step n 0)
  let r1 := performRequest cfg {} { method := "POST", script := fun _ => { recvs := [.more, .timeout] } }
  let r2 := performRequest cfg {} { method := "GET", script := fun _ => { lease := out.ans, recvs := [.complete {}] } }
  let rq3 : Request := { method := "GET", host := 1, script := fun _ => { recvs := [.complete {}] } }
  let (c3, ev3, rs3) := runRequests cfg {} (List.replicate n rq3)
  let ok3 := (rs3.filter fun r => match r.result with | .ok _ => true | _ => false).length
  let hosts := (c3.conns.map fun p => s!"h{p.1}").foldr insertSorted []
  let cache := if hosts.isEmpty then "-" else ",".intercalate hosts
  s!"t1={showRes r1.result}/{r1.log.length}/{kindsOf r1.evs} t2={showRes r2.result}/{r2.log.length}/{kindsOf r2.evs} round={roundOf step out.time n 0} t3={ok3}/{kindsOf ev3} cache={cache} leased={c3.leased.length}"

def runRequest (st : St) (rq : Request) (fn : Option String) : St × String :=
  let rq := if st.closing then forceClosing rq else rq
  let r := performRequestL st.cfg { client := st.client, closing := st.closing } rq
  let fo := if r.fuelOut then " FUEL" else ""
  -- entry points that throw when the returned response is not 2xx
  let res : Except Exn RespInfo := match fn, r.result with
    | some f, .ok ri =>
      if Gen.HttpRetry.entryFailsOnNon2xx.contains f then
        -- postStream returns nothing: it throws unless the response is 2xx (the harness prints a successful call as `ok:200`)
        (if 200 ≤ ri.status && ri.status < 300 then .ok { ri with status := 200 } else .error .runtime)
      else .ok ri
    | _, x => x
  ({ st with client := r.client },
   s!"ev={showEvs r.evs} res={showRes res} att={r.log.length} tw={showTimedOut st rq r.log.length} rz={showRz r.log} {showCache r.client}{fo}")

def step (st : St) : List String → St × String
  | "call" :: fn :: budget :: urlKind :: _bodyLen :: toks =>
    match budget.toInt?, urlKind.toNat?, parseScript toks with
    | some b, some uk, some as =>
      if toks.isEmpty then (st, "bad-op") else
      match entryMethod 4 fn with
      | some m => runRequest st (mkRequest m b uk as) (some fn)
      | none => (st, "unknown-entry")
    | _, _, _ => (st, "bad-op")
  | ["srvclose", _] => (st, "ok")
  -- a header field the caller supplies: copied into the request text, looked at by nothing on the client side
  | ["hdr", n, _] => if n = "-" then (st, "bad-op") else match ofHex n with
    | some _ => (st, "ok")
    | none => (st, "bad-op")
  | ["cleanup"] =>
    let (lc, evs) := cleanup { client := st.client, closing := st.closing }
    let xs := (evs.filterMap showEv).foldr insertSorted []
    ({ st with client := lc.client, closing := lc.closing }, s!"ev={if xs.isEmpty then "-" else ",".intercalate xs} {showCache lc.client}")
  | ["contend", lease, stp, n] =>
    match lease.toNat?, stp.toNat?, n.toNat? with
    | some l, some s, some n => if l = 0 ∨ s = 0 then (st, "bad-op") else (st, runContend l s n)
    | _, _, _ => (st, "bad-op")
  | "parm" :: sched :: threads =>
    match parseNats (if sched = "-" then [] else sched.splitOn ","), parseThreads threads with
    | some sc, some rqs =>
      let w := runPar st.cfg st.client rqs sc
      let evs := "|".intercalate ((idxList rqs.length).map fun i => s!"t{i}:{showThreadEvs w i}")
      let rs := " ".intercalate ((idxList rqs.length).map fun i =>
        match w.threads[i]? with
        | some t => s!"r{i}={showThreadRes t}"
        | none => s!"r{i}=?")
      ({ st with client := w.client }, s!"ev={evs} {rs} {showCache w.client}")
    | _, _ => (st, "bad-op")
  | ["reset", reuse, _cap, lease, request, connect] =>
    match parseBit reuse, lease.toNat?, request.toNat?, connect.toNat? with
    | some r, some l, some rq, some cn => ({ cfg := { reuse := r }, client := {}, tmo := { request := rq, connect := cn, lease := l } }, "ok")
    | _, _, _, _ => (st, "bad-op")
  | "req" :: m :: budget :: urlKind :: _bodyLen :: toks =>
    match ofHex m, budget.toInt?, urlKind.toNat?, parseScript toks with
    | some m, some b, some uk, some as =>
      if toks.isEmpty then (st, "bad-op")
      else if uk = 4 then
        -- a port beyond `int`: parseUrl (std::stoi) throws std::out_of_range on every attempt, before the lease
        match parseUrlPort { port := some (Gen.HttpRetry.portParseMax + 1) } with
        | .error e =>
          let n := failAttempts (strOfBytes m) b e
          (st, s!"ev=- res={showRes (.error e)} att={n} tw={dashes n} rz={if n = 0 then "-" else ",".intercalate (List.replicate n "0")} {showCache st.client}")
        | .ok _ => (st, "model-accepts-the-port")
      else runRequest st (mkRequest (strOfBytes m) b uk as) none
    | _, _, _, _ => (st, "bad-op")
  | ["vclock", _] => (st, "ok")
  | ["pause", _] => (st, "ok")
  | ["rrc", conn, ver] =>
    match (if conn = "~" then some none else (ofHex conn).map some), ofHex ver with
    | some c, some v => (st, bit (responseRequestsClose c v))
    | _, _ => (st, "bad-op")
  | ["idem", m] =>
    match ofHex m with
    | some m => (st, bit (isIdempotent (strOfBytes m)))
    | none => (st, "bad-op")
  | _ => (st, "bad-op")

def main : IO Unit := runLines ({} : St) step

end Iora.Driver.HttpRetry
