import Driver.Common
import IoraModel.Model.JsonFloat
import IoraModel.Model.JsonSpec
import IoraModel.Model.JsonApi
/-! Line-protocol driver of the JSON model (C13).  Same ops and answers as `harness/c13_json.cpp`; `order` is an
implementation-only op (the iteration order of the real hash map is an input of `ser`, not something the model computes). -/
namespace Iora.Driver.Json
open Iora Iora.Json Iora.Driver

def kindName : ErrKind → String
  | .eof => "eof" | .extra => "extra" | .depth => "depth" | .char => "char" | .null => "null" | .bool => "bool"
  | .number => "number" | .quote => "quote" | .strlen => "strlen" | .eos => "eos" | .unicode => "unicode"
  | .escape => "escape" | .unterminated => "unterminated" | .arrsize => "arrsize" | .eoa => "eoa" | .arrsep => "arrsep"
  | .objsize => "objsize" | .colon => "colon" | .eoo => "eoo" | .objsep => "objsep" | .fuel => "model-fuel"

def hexStr (bs : Bytes) : String := if bs.isEmpty then "" else toHex bs

def hex16 (n : Nat) : String :=
  String.ofList ((List.range 16).map fun i => hexDigit (n / 16 ^ (15 - i) % 16))

def sortMembers (ms : List (Bytes × Json)) : List (Bytes × Json) := ms.mergeSort (fun a b => bytesLe a.1 b.1)

partial def dump (sorted : Bool) : Json → String
  | .null => "n"
  | .bool b => if b then "t" else "f"
  | .int i => s!"i{i};"
  | .dbl d => "d" ++ hex16 d.toNat
  | .str s => s!"s{hexStr s};"
  | .arr xs => "[" ++ String.join (xs.map (dump sorted)) ++ "]"
  | .obj ms =>
    let ms := if sorted then sortMembers ms else ms
    "{" ++ String.join (ms.map fun (k, v) => s!"s{hexStr k};" ++ dump sorted v) ++ "}"

/-- members sorted recursively: the canonical representative of a value up to member order -/
partial def canon : Json → Json
  | .arr xs => .arr (xs.map canon)
  | .obj ms => .obj (sortMembers (ms.map fun (k, v) => (k, canon v)))
  | j => j

def sameValue (a b : Json) : Bool := dump true a == dump true b

def splitAtCuts (bs : Bytes) (cuts : List Nat) : List Bytes :=
  let rec go (rest : Bytes) (off : Nat) : List Nat → List Bytes
    | [] => [rest]
    | c :: cs => rest.take (c - off) :: go (rest.drop (c - off)) (max c off) cs
  go bs 0 cuts

/-- reader of the value syntax; members are stored with `insertOrAssign` in the order given -/
partial def readValue : List Char → Option (Json × List Char)
  | 'n' :: r => some (.null, r)
  | 't' :: r => some (.bool true, r)
  | 'f' :: r => some (.bool false, r)
  | 'i' :: r =>
    let (d, r') := r.span (· ≠ ';')
    match r', (String.ofList d).toInt? with
    | _ :: r'', some i => some (.int i, r'')
    | _, _ => none
  | 'd' :: r =>
    let h := r.take 16
    if h.length ≠ 16 then none else
    match h.foldl (fun (acc : Option Nat) c => match acc, Iora.hexVal c with | some a, some v => some (a * 16 + v) | _, _ => none) (some 0) with
    | some n => some (.dbl (UInt64.ofNat n), r.drop 16)
    | none => none
  | 's' :: r =>
    let (h, r') := r.span (· ≠ ';')
    match r', ofHexChars h with
    | _ :: r'', some bs => some (.str bs, r'')
    | _, _ => none
  | '[' :: r =>
    let rec elems (acc : List Json) : List Char → Option (Json × List Char)
      | ']' :: r => some (.arr acc.reverse, r)
      | r => match readValue r with
        | some (v, r') => elems (v :: acc) r'
        | none => none
    elems [] r
  | '{' :: r =>
    let rec members (acc : List (Bytes × Json)) : List Char → Option (Json × List Char)
      | '}' :: r => some (.obj acc, r)
      | 's' :: r =>
        let (h, r') := r.span (· ≠ ';')
        match r', ofHexChars h with
        | _ :: r'', some k =>
          match readValue r'' with
          | some (v, r3) => members (insertOrAssign k v acc) r3
          | none => none
        | _, _ => none
      | _ => none
    members [] r
  | _ => none

def readWhole (s : String) : Option Json :=
  match readValue s.toList with
  | some (v, []) => some v
  | _ => none

/-- the floating-point primitives of a process whose LC_NUMERIC decimal point is `dp` (driver state; `locale` op) -/
def fopsIn (dp : Bytes) : FloatOps := opsIn FloatRef.libc dp

def showErr (bs : Bytes) (e : Err) : String :=
  let (l, c) := location bs e.2
  s!"err {kindName e.1} {e.2} {l} {c}"

/-- src -> value or the answer line -/
def loadSrc (fops : FloatOps) (src : String) : Except String Json :=
  match src.toList with
  | 't' :: h =>
    match (if h.isEmpty then some [] else ofHexChars h) with
    | some bs =>
      match parse fops {} bs with
      | .ok v => .ok v
      | .error e => .error (showErr bs e)
    | none => .error "bad-op"
  | 'v' :: b =>
    match readValue b with
    | some (v, []) => .ok v
    | _ => .error "bad-op"
  | _ => .error "bad-op"

/-- `<hex text> <1 iff the text parses back (default limits) to a value equal to w for Json::operator== >` -/
def serAnswer (fops : FloatOps) (text : Bytes) (w : Json) (lim : Limits := {}) : String :=
  let eq := match parse fops lim text with
    | .ok v' => eqv v' w
    | .error _ => false
  s!"{toHex text} {bit eq}"

/-- the value in the member order of the real hash map, as reported by the implementation (`-` = keep the order of `v`) -/
def withOrder (v : Json) (order : String) : Option Json :=
  if order = "-" then some v else
  match readWhole order with
  | some w => if sameValue w v && dump false w == order then some w else none
  | none => none

def showThrown (t : Thrown) : String := s!"errw {kindName t.1} {t.2.1} {t.2.2}"

/-- `v<value>` sources only (no text) -/
def loadSrcV (src : String) : Option Json :=
  match src.toList with
  | 'v' :: b => match readValue b with
    | some (v, []) => some v
    | _ => none
  | _ => none

/-- answer of the `api` ops: the constructed value, the (unchanged) operand it was copied from, its sorted compact text and whether
    that text parses back to an equal value -/
def apiAnswer (fops : FloatOps) (r base : Json) : String :=
  s!"ok {dump true r} {dump true base} " ++ serAnswer fops (serialize fops { sortKeys := true } 0 r) r

def stepIn (fops : FloatOps) : List String → String
  | ["parse", d, a, m, s, hx] =>
    match d.toNat?, a.toNat?, m.toNat?, s.toNat?, ofHex hx with
    | some d, some a, some m, some s, some bs =>
      match parse fops { depthMax := d, arrayItemsMax := a, membersMax := m, stringLengthMax := s } bs with
      | .ok v => ("ok " ++ dump true v)
      | .error e => (showErr bs e)
    | _, _, _, _, _ => ("bad-op")
  | ["ser", pretty, sort, indent, src, order] =>
    match parseBit pretty, parseBit sort, ofHex indent with
    | some pretty, some sort, some indent =>
      match loadSrc fops src with
      | .error l => (l)
      | .ok v =>
        match withOrder v order with
        | none => ("order-invalid")
        | some w => (serAnswer fops (serialize fops { pretty := pretty, sortKeys := sort, indent := indent } 0 w) w)
    | _, _, _ => ("bad-op")
  -- ---- public wrappers (thin; same model answers)
  | ["pvia", which, hx] =>
    match ofHex hx with
    | none => "bad-op"
    | some bs =>
      let r : Option (Except Thrown Json) :=
        if which = "orthrow" || which = "pstring" then some (parseOrThrow fops {} bs)
        else if which = "str" then some (parseFlag fops true bs)
        else if which = "istream" then some (readStream fops bs)
        else if which = "noexc" || which = "safe" then some (parseFlag fops false bs)
        else none
      match r with
      | none => "bad-op"
      | some (.ok v) => "ok " ++ dump true v
      | some (.error t) => showThrown t
  | ["pthrow", d, a, m, s, hx] =>
    match d.toNat?, a.toNat?, m.toNat?, s.toNat?, ofHex hx with
    | some d, some a, some m, some s, some bs =>
      match parseOrThrow fops { depthMax := d, arrayItemsMax := a, membersMax := m, stringLengthMax := s } bs with
      | .ok v => "ok " ++ dump true v
      | .error t => showThrown t
    | _, _, _, _, _ => "bad-op"
  | ["stream", d, a, m, s, cuts, hx] =>
    match d.toNat?, a.toNat?, m.toNat?, s.toNat?, ofHex hx with
    | some d, some a, some m, some s, some bs =>
      let lim : Limits := { depthMax := d, arrayItemsMax := a, membersMax := m, stringLengthMax := s }
      let cs : Option (List Nat) := if cuts = "-" then some [] else (cuts.splitOn ",").mapM String.toNat?
      match cs with
      | none => "bad-op"
      | some cs =>
        let chunks := splitAtCuts bs cs
        -- the feed() results, one by one (the same `StreamSt.feed` the theorems S1-S3 are about)
        let (_, bits) := chunks.foldl (fun (acc : StreamSt × String) ch =>
          let (st', ok) := acc.1.feed fops lim ch
          (st', acc.2 ++ bit ok)) (({} : StreamSt), "")
        let (st, fin) := streamRun fops lim chunks
        let state := if st.complete then "ok " ++ dump true st.value else
          match st.error with
          | some (b, e) => showErr b e
          | none => "none"
        s!"s {bits} {bit fin} {state}"
    | _, _, _, _, _ => "bad-op"
  | ["svia", "dump", indent, ch, _ea, sort, src, order] =>
    match indent.toInt?, ch.toNat?, parseBit sort with
    | some indent, some ch, some sort =>
      match loadSrc fops src with
      | .error l => l
      | .ok v =>
        match withOrder v order with
        | none => "order-invalid"
        | some w => serAnswer fops (Iora.Json.dump fops indent (b8 ch) sort w) w
    | _, _, _ => "bad-op"
  | ["svia", which, src, order] =>
    match loadSrc fops src with
    | .error l => l
    | .ok v =>
      match withOrder v order with
      | none => "order-invalid"
      | some w =>
        if which = "ostream" then serAnswer fops (writeStream fops w) w
        else if which = "string" then serAnswer fops (toStdString fops w) w
        else "bad-op"
  -- ---- serialize, re-parse under the GIVEN limits (J2's `within lim` at its boundary)
  | ["serlim", d, a, m, sl, pretty, sort, indent, src, order] =>
    match d.toNat?, a.toNat?, m.toNat?, sl.toNat?, parseBit pretty, parseBit sort, ofHex indent with
    | some d, some a, some m, some sl, some pretty, some sort, some indent =>
      match loadSrcV src with
      | none => "bad-op"
      | some v =>
        match withOrder v order with
        | none => "order-invalid"
        | some w =>
          let lim : Limits := { depthMax := d, arrayItemsMax := a, membersMax := m, stringLengthMax := sl }
          let text := serialize fops { pretty := pretty, sortKeys := sort, indent := indent } 0 w
          let eq := match parse fops lim text with
            | .ok v' => eqv v' w
            | .error _ => false
          s!"{text.length} {bit eq}"
    | _, _, _, _, _, _, _ => "bad-op"
  -- ---- value-construction API
  | ["api", "u64", n] =>
    match n.toNat? with
    | some n => if n < 2 ^ 64 then apiAnswer fops (ofUInt64 n) .null else "bad-op"
    | none => "bad-op"
  | ["api", "f32", hx] =>
    match ofHex hx with
    | some [b0, b1, b2, b3] =>
      apiAnswer fops (ofFloat (UInt32.ofNat (((b0.toNat * 256 + b1.toNat) * 256 + b2.toNat) * 256 + b3.toNat))) .null
    | _ => "bad-op"
  | ["api", "initlist", v] =>
    match readWhole v with
    | some (.arr xs) => if xs.length ≤ 4 then apiAnswer fops (ofInitList xs) (.arr xs) else "bad-op"
    | _ => "bad-op"
  | ["api", "pushback", base, v] =>
    match readWhole base, readWhole v with
    | some base, some v => apiAnswer fops (pushBack base v) base
    | _, _ => "bad-op"
  | ["api", "setidx", base, i, v] =>
    match readWhole base, i.toNat?, readWhole v with
    | some base, some i, some v => if i ≤ 64 then apiAnswer fops (setIndex base i v) base else "bad-op"
    | _, _, _ => "bad-op"
  | ["api", "setkey", base, k, v] =>
    match readWhole base, ofHex k, readWhole v with
    | some base, some k, some v => apiAnswer fops (setKey base k v) base
    | _, _, _ => "bad-op"
  | _ => "bad-op"

/-- driver state: the decimal point of the process locale (`locale <name> <decimal point hex>`) -/
def step (dp : Bytes) : List String → Bytes × String
  | ["locale", _name, hx] =>
    match ofHex hx with
    | some d => if d.isEmpty then (dp, "bad-op") else (d, s!"locale {toHex d}")
    | none => (dp, "bad-op")
  | l => (dp, stepIn (fopsIn dp) l)

def main : IO Unit := runLines pointC step

end Iora.Driver.Json
