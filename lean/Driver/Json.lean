import Driver.Common
import IoraModel.Model.JsonFloat
import IoraModel.Model.JsonSpec
/-! Line-protocol driver of the JSON model (C13).  Same ops and answers as `harness/c13_json.cpp`; `order` is an
implementation-only op (the iteration order of the real hash map is an input of `ser`, not something the model computes). -/
namespace Iora.Driver.Json
open Iora Iora.Json Iora.Driver

def kindName : ErrKind → String
  | .eof => "eof" | .extra => "extra" | .depth => "depth" | .char => "char" | .null => "null" | .bool => "bool"
  | .number => "number" | .quote => "quote" | .strlen => "strlen" | .eos => "eos" | .unicode => "unicode"
  | .escape => "escape" | .unterminated => "unterminated" | .arrsize => "arrsize" | .eoa => "eoa" | .arrsep => "arrsep"
  | .objsize => "objsize" | .colon => "colon" | .eoo => "eoo" | .objsep => "objsep" | .fuel => "model-fuel"

def hexStr (bs : Bytes) : String := if bs.isEmpty then "" else toHex bs

def hex16 (n : Nat) : String :=
  String.ofList ((List.range 16).map fun i => hexDigit (n / 16 ^ (15 - i) % 16))

def sortMembers (ms : List (Bytes × Json)) : List (Bytes × Json) := ms.mergeSort (fun a b => bytesLe a.1 b.1)

partial def dump (sorted : Bool) : Json → String
  | .null => "n"
  | .bool b => if b then "t" else "f"
  | .int i => s!"i{i};"
  | .dbl d => "d" ++ hex16 d.toNat
  | .str s => s!"s{hexStr s};"
  | .arr xs => "[" ++ String.join (xs.map (dump sorted)) ++ "]"
  | .obj ms =>
    let ms := if sorted then sortMembers ms else ms
    "{" ++ String.join (ms.map fun (k, v) => s!"s{hexStr k};" ++ dump sorted v) ++ "}"

/-- members sorted recursively: the canonical representative of a value up to member order -/
partial def canon : Json → Json
  | .arr xs => .arr (xs.map canon)
  | .obj ms => .obj (sortMembers (ms.map fun (k, v) => (k, canon v)))
  | j => j

def sameValue (a b : Json) : Bool := dump true a == dump true b

/-- error answer of the throwing wrappers: `parse_error`'s message carries line, column and the parser's message, no offset -/
def showErrW (bs : Bytes) (e : Err) : String :=
  let (l, c) := location bs e.2
  s!"errw {kindName e.1} {l} {c}"

/-- `JsonStreamParser`: every `feed` appends the chunk and re-parses the whole buffer; the first complete parse latches `_complete`;
    `finish` re-parses only when nothing was complete yet.  (thin wrapper: mirrored here, not part of the theorems) -/
structure StreamSt where
  buf : Bytes := []
  value : Json := .null
  complete : Bool := false
  error : Option (Bytes × Err) := none

def streamFeed (ops : FloatOps) (lim : Limits) (st : StreamSt) (chunk : Bytes) : StreamSt × Bool :=
  let buf := st.buf ++ chunk
  match parse ops lim buf with
  | .ok v => ({ buf := buf, value := v, complete := true, error := none }, true)
  | .error e => ({ st with buf := buf, error := some (buf, e) }, false)

def streamFinish (ops : FloatOps) (lim : Limits) (st : StreamSt) : StreamSt × Bool :=
  if st.complete then (st, true) else
  match parse ops lim st.buf with
  | .ok v => ({ st with value := v, complete := true, error := none }, true)
  | .error e => ({ st with error := some (st.buf, e) }, false)

def splitAtCuts (bs : Bytes) (cuts : List Nat) : List Bytes :=
  let rec go (rest : Bytes) (off : Nat) : List Nat → List Bytes
    | [] => [rest]
    | c :: cs => rest.take (c - off) :: go (rest.drop (c - off)) (max c off) cs
  go bs 0 cuts

/-- reader of the value syntax; members are stored with `insertOrAssign` in the order given -/
partial def readValue : List Char → Option (Json × List Char)
  | 'n' :: r => some (.null, r)
  | 't' :: r => some (.bool true, r)
  | 'f' :: r => some (.bool false, r)
  | 'i' :: r =>
    let (d, r') := r.span (· ≠ ';')
    match r', (String.ofList d).toInt? with
    | _ :: r'', some i => some (.int i, r'')
    | _, _ => none
  | 'd' :: r =>
    let h := r.take 16
    if h.length ≠ 16 then none else
    match h.foldl (fun (acc : Option Nat) c => match acc, Iora.hexVal c with | some a, some v => some (a * 16 + v) | _, _ => none) (some 0) with
    | some n => some (.dbl (UInt64.ofNat n), r.drop 16)
    | none => none
  | 's' :: r =>
    let (h, r') := r.span (· ≠ ';')
    match r', ofHexChars h with
    | _ :: r'', some bs => some (.str bs, r'')
    | _, _ => none
  | '[' :: r =>
    let rec elems (acc : List Json) : List Char → Option (Json × List Char)
      | ']' :: r => some (.arr acc.reverse, r)
      | r => match readValue r with
        | some (v, r') => elems (v :: acc) r'
        | none => none
    elems [] r
  | '{' :: r =>
    let rec members (acc : List (Bytes × Json)) : List Char → Option (Json × List Char)
      | '}' :: r => some (.obj acc, r)
      | 's' :: r =>
        let (h, r') := r.span (· ≠ ';')
        match r', ofHexChars h with
        | _ :: r'', some k =>
          match readValue r'' with
          | some (v, r3) => members (insertOrAssign k v acc) r3
          | none => none
        | _, _ => none
      | _ => none
    members [] r
  | _ => none

def readWhole (s : String) : Option Json :=
  match readValue s.toList with
  | some (v, []) => some v
  | _ => none

def fops : FloatOps := FloatRef.ops

def showErr (bs : Bytes) (e : Err) : String :=
  let (l, c) := location bs e.2
  s!"err {kindName e.1} {e.2} {l} {c}"

/-- src -> value or the answer line -/
def loadSrc (src : String) : Except String Json :=
  match src.toList with
  | 't' :: h =>
    match (if h.isEmpty then some [] else ofHexChars h) with
    | some bs =>
      match parse fops {} bs with
      | .ok v => .ok v
      | .error e => .error (showErr bs e)
    | none => .error "bad-op"
  | 'v' :: b =>
    match readValue b with
    | some (v, []) => .ok v
    | _ => .error "bad-op"
  | _ => .error "bad-op"

/-- `<hex text> <1 iff the text parses back (default limits) to a value equal to w for Json::operator== >` -/
def serAnswer (text : Bytes) (w : Json) : String :=
  let eq := match parse fops {} text with
    | .ok v' => eqv v' w
    | .error _ => false
  s!"{toHex text} {bit eq}"

/-- the value in the member order of the real hash map, as reported by the implementation (`-` = keep the order of `v`) -/
def withOrder (v : Json) (order : String) : Option Json :=
  if order = "-" then some v else
  match readWhole order with
  | some w => if sameValue w v && dump false w == order then some w else none
  | none => none

def step (_ : Unit) : List String → Unit × String
  | ["parse", d, a, m, s, hx] =>
    match d.toNat?, a.toNat?, m.toNat?, s.toNat?, ofHex hx with
    | some d, some a, some m, some s, some bs =>
      match parse fops { depthMax := d, arrayItemsMax := a, membersMax := m, stringLengthMax := s } bs with
      | .ok v => ((), "ok " ++ dump true v)
      | .error e => ((), showErr bs e)
    | _, _, _, _, _ => ((), "bad-op")
  | ["ser", pretty, sort, indent, src, order] =>
    match parseBit pretty, parseBit sort, ofHex indent with
    | some pretty, some sort, some indent =>
      match loadSrc src with
      | .error l => ((), l)
      | .ok v =>
        match withOrder v order with
        | none => ((), "order-invalid")
        | some w => ((), serAnswer (serialize fops { pretty := pretty, sortKeys := sort, indent := indent } 0 w) w)
    | _, _, _ => ((), "bad-op")
  -- ---- public wrappers (thin; same model answers)
  | ["pvia", which, hx] =>
    match ofHex hx with
    | none => ((), "bad-op")
    | some bs =>
      let r := parse fops {} bs
      if which = "orthrow" || which = "str" || which = "pstring" || which = "istream" then
        match r with
        | .ok v => ((), "ok " ++ dump true v)
        | .error e => ((), showErrW bs e)
      else if which = "noexc" || which = "safe" then
        match r with
        | .ok v => ((), "ok " ++ dump true v)
        | .error _ => ((), "ok n")
      else ((), "bad-op")
  | ["pthrow", d, a, m, s, hx] =>
    match d.toNat?, a.toNat?, m.toNat?, s.toNat?, ofHex hx with
    | some d, some a, some m, some s, some bs =>
      match parse fops { depthMax := d, arrayItemsMax := a, membersMax := m, stringLengthMax := s } bs with
      | .ok v => ((), "ok " ++ dump true v)
      | .error e => ((), showErrW bs e)
    | _, _, _, _, _ => ((), "bad-op")
  | ["stream", d, a, m, s, cuts, hx] =>
    match d.toNat?, a.toNat?, m.toNat?, s.toNat?, ofHex hx with
    | some d, some a, some m, some s, some bs =>
      let lim : Limits := { depthMax := d, arrayItemsMax := a, membersMax := m, stringLengthMax := s }
      let cs : Option (List Nat) := if cuts = "-" then some [] else (cuts.splitOn ",").mapM String.toNat?
      match cs with
      | none => ((), "bad-op")
      | some cs =>
        let (st, bits) := (splitAtCuts bs cs).foldl (fun (acc : StreamSt × String) ch =>
          let (st', ok) := streamFeed fops lim acc.1 ch
          (st', acc.2 ++ bit ok)) (({} : StreamSt), "")
        let (st, fin) := streamFinish fops lim st
        let state := if st.complete then "ok " ++ dump true st.value else
          match st.error with
          | some (b, e) => showErr b e
          | none => "none"
        ((), s!"s {bits} {bit fin} {state}")
    | _, _, _, _, _ => ((), "bad-op")
  | ["svia", "dump", indent, ch, _ea, sort, src, order] =>
    match indent.toInt?, ch.toNat?, parseBit sort with
    | some indent, some ch, some sort =>
      match loadSrc src with
      | .error l => ((), l)
      | .ok v =>
        match withOrder v order with
        | none => ((), "order-invalid")
        | some w =>
          let o : Opts := if indent ≥ 0 then { pretty := true, sortKeys := sort, indent := List.replicate indent.toNat (b8 ch) }
            else { pretty := false, sortKeys := sort, indent := Gen.Json.indentDefault.map b8 }
          ((), serAnswer (serialize fops o 0 w) w)
    | _, _, _ => ((), "bad-op")
  | ["svia", which, src, order] =>
    match loadSrc src with
    | .error l => ((), l)
    | .ok v =>
      match withOrder v order with
      | none => ((), "order-invalid")
      | some w =>
        if which = "ostream" then ((), serAnswer (serialize fops {} 0 w) w)
        else if which = "string" then
          match w with
          | .str s => ((), serAnswer s w)
          | _ => ((), serAnswer (serialize fops {} 0 w) w)
        else ((), "bad-op")
  | _ => ((), "bad-op")

def main : IO Unit := runLines () step

end Iora.Driver.Json
