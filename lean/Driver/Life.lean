import Driver.Common
import IoraModel.Model.EngineLifecycle
import IoraModel.Model.CloseFanout
import IoraModel.Model.CloseDeliver
import IoraModel.Gen.CloseSites
import IoraModel.Model.LifecycleSites
/-! Driver of component `life` (C02): engine lifecycle acceptor ops + close fan-out lockstep ops. -/
namespace Iora.Driver.Life
open Iora Iora.Driver Iora.Lifecycle

def showOrigin : Origin → String
  | .app => "app" | .connectTimeout => "connectTimeout" | .handshakeTimeout => "handshakeTimeout" | .writeStall => "writeStall"

/-- the reason (`TransportError` code / message class) the source passes at each close site -/
def reasonOf : Site → String
  | .drainSession => "Unknown/shutdown"
  | .drainResidual => "ShuttingDown/shutdown"
  | .procClose .app => "Unknown/app"
  | .procClose .connectTimeout => "Timeout/connectTimeout"
  | .procClose .handshakeTimeout => "TLSHandshake/hsTimeout"
  | .procClose .writeStall => "Timeout/writeStall"
  | .gc => "GCClosed/gc"
  | .tlsRefused => "Config/tlsRefused"
  | .resolveThrow => "Resolve/gaiThread"
  | .resolveTimeout => "Resolve/dnsTimeout"
  | .resolveFail => "Resolve/gai"
  | .refused => "Connect/refused"
  | .noSocket => "Connect/*"
  | .sslNewFail => "TLSHandshake/sslNew"
  | .sniFail => "TLSHandshake/sni"
  | .immGsoFail => "Socket/gso"
  | .immPeerFail => "Connect/*"
  | .immSoErr => "Connect/*"
  | .evSoErrEarly => "Connect/*"
  | .evGsoFail => "Socket/gso"
  | .evPeerFail => "Connect/*"
  | .evSoErr => "Connect/*"
  | .hup => "PeerClosed/hup"
  | .hsTimeoutInline => "TLSHandshake/hsTimeout"
  | .hsHookBefore => "TLSHandshake/hook"
  | .hsHookAfterOk => "TLSHandshake/hook"
  | .hsHookAfterErr => "TLSHandshake/hook"
  | .hsFatal => "TLSHandshake/*"
  | .rdHook => "TLSIO/hook"
  | .tlsZeroReturn => "PeerClosed/tlsClosed"
  | .tlsReadErr => "TLSIO/*"
  | .recvErr => "Socket/*"
  | .fin => "PeerClosed/fin"
  | .wrHook => "TLSIO/hook"
  | .tlsWriteErr => "TLSIO/*"
  | .sendErr => "Socket/*"
  | .dsHook => "TLSIO/hook"
  | .dsTlsErr => "TLSIO/*"
  | .dsSendErr => "Socket/*"
  | .backpressure => "WriteBackpressure/overflow"
  | .uResolveFail => "Resolve/gai"
  | .uNoSocket => "Connect/*"
  | .vNoListener => "Config/noListener"
  | .vAfUnknown => "Config/afUnknown"
  | .vResolveFail => "Resolve/gai"
  | .vAfMismatch => "Config/afMismatch"
  | .vKeyFail => "Config/keyFail"
  | .vCap => "Config/cap"
  | .ucRecvErr => "Socket/*"
  | .ucWriteErr => "Socket/*"
  | .usBackpressure => "WriteBackpressure/overflow"
  | .usSendErr => "Socket/*"
  | .usListenerGone => "Unknown/lstGone"
  | .usLstBackpressure => "WriteBackpressure/lstOverflow"
  | .usPeerSendErr => "Socket/*"

/-- the model's name of a close site (constructor name; `procClose.<origin>` for the four origins of the Close command) - appended to
every `K` token as `~<site>` so that the plugin can count which close TRANSITIONS of the model the correspondence run went through -/
def siteName : Site → String
  | .procClose o => s!"procClose.{showOrigin o}"
  | s => (toString (repr s)).replace "Iora.Lifecycle.Site." ""

/-- every close site of the two tables (the `closeNow(` of process() stands for the four origins) -/
def allSites (t : List (Sites.GSite × Sites.Role)) (origins : List Origin) : List String :=
  (t.flatMap fun p => match p.2 with
    | .close s => [siteName s]
    | .closeProc => origins.map fun o => siteName (.procClose o)
    | .prim _ => [])

def showOut : Out → String
  | .ret sid true => s!"R{sid}:1"
  | .ret _ false => "R?:0"
  | .announce sid .accept => s!"A{sid}"
  | .announce sid .connect => s!"N{sid}"
  | .data sid => s!"D{sid}"
  | .close sid site => s!"K{sid}:{reasonOf site}~{siteName site}"

def parseA (s : String) : Option A :=
  match s with
  | "ok" => some .ok | "again" => some .again | "fail" => some .fail | "refused" => some .refused
  | "soerr" => some .soerr | "data" => some .data | "eof" => some .eof | "full" => some .full
  | "part" => some .part | "timeout" => some .timeout | "no" => some .no
  | "affail" => some .afFail | "nomatch" => some .noMatch | "keyfail" => some .keyFail | "dgnokey" => some .dgramNoKey | "throw" => some .throw
  | _ => if s.startsWith "dg" then (s.drop 2).toNat?.map A.dgram
         else if s.startsWith "ad" then (s.drop 2).toNat?.map A.addrs else none

def parseAs : List String → Option (List A)
  | [] => some []
  | s :: r => do let a ← parseA s; let as ← parseAs r; pure (a :: as)

def parseNats : List String → Option (List Nat)
  | [] => some []
  | s :: r => do let a ← s.toNat?; let as ← parseNats r; pure (a :: as)

def parseOrigin : String → Option Origin
  | "app" => some .app | "connectTimeout" => some .connectTimeout
  | "handshakeTimeout" => some .handshakeTimeout | "writeStall" => some .writeStall | _ => none

/-- TlsMode of connect(): 0 None, 1 Client, 2 Server -/
def parseTls : String → Option TlsReq
  | "0" => some .none | "1" => some .client | "2" => some .server | _ => none

structure St where
  udp : Bool := false
  g : G := {}
  fan : Fanout.F := {}
  dl : Deliver.T := {}
  win : List (Fanout.Where × (Deliver.Op ⊕ Deliver.Op)) := []   -- calls scripted INSIDE close callbacks: inl = on a helper thread (complete call), inr = on the I/O thread itself (refused)

def stepf (st : St) : G → In → G := if st.udp then Udp.step else Tcp.step

def showInt (i : Int) : String := if i < 0 then s!"-{i.natAbs}" else s!"{i.natAbs}"

/-- answer line: callbacks of this op | gauges, plus flags when the model left its intended domain -/
def answer (old : G) (g : G) (left : Nat) (stats : Bool := true) : String :=
  let outs := g.tr.drop old.tr.length
  let cbs := if outs.isEmpty then "-" else ",".intercalate (outs.map showOut)
  let s := s!"{cbs}|{g.accepted},{g.connected},{g.closedCnt},{showInt g.current}"
  let s := if g.stale then s ++ " !stale" else s
  let s := if left > 0 then s ++ s!" !left={left}" else s
  let _ := stats
  s

def run1 (st : St) (i : In) : St × String :=
  let g' := stepf st st.g i
  ({ st with g := g' }, answer st.g g' 0)

/-- process(): swap, then the command loop over the whole batch with one flat answer list -/
def procAll (udp : Bool) : Nat → List A → G → G × List A
  | 0, as, g => (g, as)
  | fuel + 1, as, g =>
    match g.batch with
    | [] => (g, as)
    | _ :: _ =>
      let (g, as) := if udp then Udp.dispatch as g else Tcp.dispatch as g
      procAll udp fuel as g

def doProc (st : St) (as : List A) (drain : Bool) : St × String :=
  let g0 := st.g
  let ok := if drain then g0.phase = .drainProc else g0.phase = .loop
  if !ok || g0.cur.isSome then (st, answer g0 g0 0 ++ " !phase") else
  let g := if drain then g0 else ioSwap g0
  let (g, rest) := procAll st.udp (g.batch.length + 1) as g
  ({ st with g := g }, answer g0 g rest.length)

def fanShow : Fanout.Out → String
  | .global sid => s!"G{sid}"
  | .observer sid o => s!"O{sid}.{o}"
  | .cleanup sid tag => s!"C{sid}.{tag}"
  | .unobserved o ok => s!"U{o}{if ok then "+" else "-"}"

def fanAnswer (outs : List Fanout.Out) : String :=
  if outs.isEmpty then "-" else ",".intercalate (outs.map fanShow)

def parseAct : List String → Option Fanout.Act
  | ["observe", sid] => sid.toNat?.map Fanout.Act.observe
  | ["unobserve", o] => o.toNat?.map Fanout.Act.unobserve
  | ["setdata", sid, tag] => do let s ← sid.toNat?; let t ← tag.toNat?; pure (.setData s t true)
  | ["setdatanc", sid, tag] => do let s ← sid.toNat?; let t ← tag.toNat?; pure (.setData s t false)
  | _ => none

def parseWhere (s : String) : Option Fanout.Where :=
  if s = "G" then some .global
  else if s.startsWith "O" then (s.drop 1).toNat?.map Fanout.Where.obs
  else if s.startsWith "C" then (s.drop 1).toNat?.map Fanout.Where.cleanup
  else none

/-! Transport-level delivery ops (Model/CloseDeliver.lean); payloads are lower-case hex, `-` = empty -/
def hexDigit (c : Char) : Option Nat :=
  if '0' ≤ c ∧ c ≤ '9' then some (c.toNat - '0'.toNat)
  else if 'a' ≤ c ∧ c ≤ 'f' then some (c.toNat - 'a'.toNat + 10)
  else none

def parseHexL : List Char → Option (List UInt8)
  | [] => some []
  | [_] => none
  | a :: b :: r => do
    let x ← hexDigit a
    let y ← hexDigit b
    let t ← parseHexL r
    pure (UInt8.ofNat (x * 16 + y) :: t)

def parseHex (s : String) : Option (List UInt8) := if s = "-" then some [] else parseHexL s.toList

def hexChar (n : Nat) : Char := if n < 10 then Char.ofNat ('0'.toNat + n) else Char.ofNat ('a'.toNat + (n - 10))
def showHex (b : List UInt8) : String := String.ofList (b.flatMap (fun x => [hexChar (x.toNat / 16), hexChar (x.toNat % 16)]))

def dlShow : Deliver.Out → String
  | .acceptCb sid => s!"A{sid}"
  | .connectCb sid => s!"N{sid}"
  | .dataCb sid b => s!"D{sid}:{showHex b}"
  | .closeH _ => ""
  | .modeRet sid ok => s!"M{sid}{if ok then "+" else "-"}"
  | .recvRet sid (.bytes b) => s!"R{sid}:{showHex b}"
  | .recvRet sid .timeout => s!"R{sid}:T"
  | .recvRet sid .peerClosed => s!"R{sid}:P"
  | .recvRet sid .overflow => s!"R{sid}:V"

def dlStep (st : St) (op : Deliver.Op) : St × String :=
  let (t, outs) := Deliver.step st.dl op
  ({ st with dl := t }, if outs.isEmpty then "-" else ",".intercalate (outs.map dlShow))

def parseMode : String → Option Deliver.Mode
  | "a" => some .async | "s" => some .sync | "d" => some .disabled | _ => none

/-- the model instance: the three source variants are what the translator found in the working tree -/
def dlInit (dcb : Bool) (maxBuf gcThr : Nat) (allowSwitch : Bool := true) : Deliver.T :=
  Deliver.init { hasDataCb := dcb, maxBuf := maxBuf, gcThreshold := gcThr, allowSwitch := allowSwitch,
                 eraseAlways := Iora.Gen.CloseSites.closeErasesModeAlways, tombGuard := Iora.Gen.CloseSites.setReadModeRefusesTombstone,
                 markFirst := Iora.Gen.CloseSites.closeMarksBeforeCallbacks }

def fanStep (st : St) (op : Fanout.Op) : St × String :=
  let (f, outs) := Fanout.step st.fan op
  ({ st with fan := f }, fanAnswer outs)

/-! One run of the Transport close handler = the two halves of `Model/CloseDeliver.lean` in the order the translator found
(`cfg.markFirst`), with `Fanout.closeFan` (global callback, observers, cleanup) where the callbacks run, and - inside each callback -
the application calls the script put there: `tmode` / `trecv` run on a helper thread (a complete setReadMode / receiveSync(0 ms) of
another thread while the I/O thread is inside that callback: `Deliver.step`), `mode` / `recv` are called on the I/O thread itself and
are refused (std::logic_error: token `M<sid>!` / `R<sid>:!`, no effect). -/
def whereOf : Fanout.Out → Option Fanout.Where
  | .global _ => some .global
  | .observer _ o => some (.obs o)
  | .cleanup _ tag => some (.cleanup tag)
  | .unobserved _ _ => none

def refusedShow : Deliver.Op → String
  | .setMode sid _ => s!"M{sid}!"
  | .recv sid _ => s!"R{sid}:!"
  | _ => "?"

/-- the calls scripted for callback `w` (one-shot), run after that callback's own fan-out actions -/
def runWin (w : Fanout.Where) (st : St) : St × List String :=
  let mine := (st.win.filter (·.1 = w)).map (·.2)
  let st := { st with win := st.win.filter (·.1 != w) }
  mine.foldl (fun (acc : St × List String) a =>
    match a with
    | .inl op => let (t, outs) := Deliver.step acc.1.dl op; ({ acc.1 with dl := t }, acc.2 ++ (outs.map dlShow).filter (· != ""))
    | .inr op => (acc.1, acc.2 ++ [refusedShow op])) (st, [])

def weave : List Fanout.Out → Option Fanout.Where → St → List String → St × List String
  | [], none, st, acc => (st, acc)
  | [], some w, st, acc => let (st, o) := runWin w st; (st, acc ++ o)
  | e :: r, cur, st, acc =>
    match whereOf e with
    | some w' =>
      let (st, o) := match cur with | none => (st, ([] : List String)) | some w => runWin w st
      weave r (some w') st (acc ++ o ++ [fanShow e])
    | none => weave r cur st (acc ++ [fanShow e])

/-- the callbacks of step 7 (user-data cleanup) run after BOTH halves: split the fan-out outputs there -/
def splitCleanup : List Fanout.Out → List Fanout.Out × List Fanout.Out
  | [] => ([], [])
  | e :: r => match e with
    | .cleanup _ _ => ([], e :: r)
    | _ => let (a, b) := splitCleanup r; (e :: a, b)

def fanClose (st : St) (sid : Nat) (pre : List String) : St × String :=
  let (f, outs) := Fanout.step st.fan (.close sid)
  let st := { st with fan := f }
  let (cbs, cleanup) := splitCleanup outs
  let first : Deliver.Op := if st.dl.cfg.markFirst then .closeMark sid else .closeCbs sid
  let second : Deliver.Op := if st.dl.cfg.markFirst then .closeCbs sid else .closeMark sid
  let st := { st with dl := (Deliver.step st.dl first).1 }
  -- with the callbacks-first order the window is open while the callbacks run; with the mark-first order the calls made from inside
  -- the callbacks come after both halves - the same thing for the model, `closeCbs` only sets the ghost
  let st := if st.dl.cfg.markFirst then { st with dl := (Deliver.step st.dl second).1 } else st
  let (st, a1) := weave cbs none st []
  let st := if st.dl.cfg.markFirst then st else { st with dl := (Deliver.step st.dl second).1 }
  let (st, a2) := weave cleanup none st []
  let all := pre ++ a1 ++ a2
  (st, if all.isEmpty then "-" else ",".intercalate all)

def parseWinAct : List String → Option (Deliver.Op ⊕ Deliver.Op)
  | ["tmode", sid, m] => do let s ← sid.toNat?; let m ← parseMode m; pure (.inl (.setMode s m))
  | ["trecv", sid, n] => do let s ← sid.toNat?; let n ← n.toNat?; pure (.inl (.recv s n))
  | ["mode", sid, m] => do let s ← sid.toNat?; let m ← parseMode m; pure (.inr (.setMode s m))
  | ["recv", sid, n] => do let s ← sid.toNat?; let n ← n.toNat?; pure (.inr (.recv s n))
  | _ => none

def step (st : St) : List String → St × String
  | ["reset", proto, cli, srv, inl, mwq, cob, maxs, sni] =>
    match parseBit cli, parseBit srv, parseBit inl, mwq.toNat?, parseBit cob, maxs.toNat?, parseBit sni with
    | some cli, some srv, some inl, some mwq, some cob, some maxs, some sni =>
      let cfg : Cfg := { cliCtx := cli, srvCtx := srv, inlineHsTimeout := inl, maxWriteQueue := mwq, closeOnBackpressure := cob,
                         maxSessions := maxs,
                         tlsRefuse := true,    -- (the site table proved equal to the source contains the tlsRefused site)
                         sniCheck := sni,      -- clientTls.verifyPeer: SSL_set1_host runs for connects by name
                         peerEraseGuarded := Gen.CloseSites.udpPeerEraseGuardedCloseNow,
                         peerEraseGuardedDrain := Gen.CloseSites.udpPeerEraseGuardedDrain }
      ({ st with udp := proto = "udp", g := { cfg := cfg } }, "-|0,0,0,0")
    | _, _, _, _, _, _, _ => (st, "bad-op")
  | ["addl", lid, tls] =>
    match lid.toNat?, parseBit tls with
    | some lid, some tls => run1 st (.apiAddListener lid tls)
    | _, _ => (st, "bad-op")
  | ["apiconnect", tls, named] =>
    match parseTls tls, parseBit named with
    | some tls, some named => run1 st (.apiConnect tls named)
    | _, _ => (st, "bad-op")
  | ["apivia", lid, k] =>
    match lid.toNat?, k.toNat? with
    | some lid, some k => run1 st (.apiVia lid k)
    | _, _ => (st, "bad-op")
  | ["apiclose", sid] => match sid.toNat? with | some sid => run1 st (.apiClose sid) | none => (st, "bad-op")
  | ["apisend", sid] => match sid.toNat? with | some sid => run1 st (.apiSend sid) | none => (st, "bad-op")
  | ["apistop"] => run1 st .apiStop
  | ["apistart"] => run1 st .apiStart
  | ["timer", sid, o] =>
    match sid.toNat?, parseOrigin o with
    | some sid, some o => run1 st (.timer sid o)
    | _, _ => (st, "bad-op")
  | "proc" :: as => match parseAs as with | some as => doProc st as false | none => (st, "bad-op")
  | "drainproc" :: as => match parseAs as with | some as => doProc st as true | none => (st, "bad-op")
  | "acc" :: tls :: as =>
    match parseBit tls, parseAs as with
    | some tls, some as =>
      if st.g.phase = .loop then
        let (g, rest) := Tcp.onListener tls as st.g
        ({ st with g := g }, answer st.g g rest.length)
      else (st, answer st.g st.g 0 ++ " !phase")
    | _, _ => (st, "bad-op")
  | "sess" :: sid :: i :: o :: h :: as =>
    match sid.toNat?, parseBit i, parseBit o, parseBit h, parseAs as with
    | some sid, some i, some o, some h, some as =>
      if st.g.phase = .loop then
        let (g, rest) := if st.udp then Udp.onClient sid i o as st.g else Tcp.onSession sid i o h as st.g
        -- `!envin`: this INPUT breaks the environment contract of T3c (payload offered to a session whose connect is pending)
        let envin := !st.udp && !Tcp.envOkSession sid i o h as st.g
        ({ st with g := g }, answer st.g g rest.length ++ (if envin then " !envin" else ""))
      else (st, answer st.g st.g 0 ++ " !phase")
    | _, _, _, _, _ => (st, "bad-op")
  | "lst" :: lid :: i :: o :: as =>
    match lid.toNat?, parseBit i, parseBit o, parseAs as with
    | some lid, some i, some o, some as =>
      if st.g.phase = .loop then
        let (g, rest) := if i then Udp.readFromListener lid as st.g else (st.g, as)
        let (g, rest) := if o then Udp.flushListener lid rest g else (g, rest)
        ({ st with g := g }, answer st.g g rest.length)
      else (st, answer st.g st.g 0 ++ " !phase")
    | _, _, _, _ => (st, "bad-op")
  | "gc" :: picks => match parseNats picks with | some p => run1 st (.ioGc p) | none => (st, "bad-op")
  | ["drainbegin"] => run1 st .ioDrainBegin
  | ["drainclose", sid] => match sid.toNat? with | some sid => run1 st (.ioDrainClose sid) | none => (st, "bad-op")
  | ["drainfinish"] => run1 st .ioDrainFinish
  -- the close sites of the model's tables (what the plugin's reach counters must cover)
  | ["sites", "tcp"] => (st, " ".intercalate (allSites Sites.tcpTable [.app, .connectTimeout, .handshakeTimeout, .writeStall]))
  | ["sites", "udp"] => (st, " ".intercalate (allSites Sites.udpTable [.app]))   -- UdpEngine::process passes no origin: every Close is an application close
  -- close fan-out (Transport over the scripted engine)
  | ["fan", "reset", gl] =>
    match parseBit gl with
    | some gl => ({ st with fan := { hasGlobal := gl }, dl := dlInit true 1048576 1024, win := [] }, "-")
    | none => (st, "bad-op")
  | ["fan", "reset", gl, dcb] =>
    match parseBit gl, parseBit dcb with
    | some gl, some dcb => ({ st with fan := { hasGlobal := gl }, dl := dlInit dcb 1048576 1024, win := [] }, "-")
    | _, _ => (st, "bad-op")
  | ["fan", "reset", gl, dcb, mb, gt] =>
    match parseBit gl, parseBit dcb, mb.toNat?, gt.toNat? with
    | some gl, some dcb, some mb, some gt => ({ st with fan := { hasGlobal := gl }, dl := dlInit dcb mb gt, win := [] }, "-")
    | _, _, _, _ => (st, "bad-op")
  | ["fan", "reset", gl, dcb, mb, gt, sw] =>
    -- ... <allowReadModeSwitch>
    match parseBit gl, parseBit dcb, mb.toNat?, gt.toNat?, parseBit sw with
    | some gl, some dcb, some mb, some gt, some sw => ({ st with fan := { hasGlobal := gl }, dl := dlInit dcb mb gt sw, win := [] }, "-")
    | _, _, _, _, _ => (st, "bad-op")
  | ["fan", "close", sid] =>
    -- one close handler run on the I/O thread: both halves (Deliver) around / before the callbacks (Fanout), scripted calls woven in
    match sid.toNat? with
    | some sid => fanClose st sid []
    | none => (st, "bad-op")
  | ["fan", "csync", sid] =>
    -- Transport::connectSync over the scripted engine, answered by the engine's connect callback: the id is handed to the application by
    -- the RETURN value (no connect callback, nothing registered, nothing left behind): the session is an ordinary open session afterwards
    match sid.toNat? with
    | some sid => (st, s!"S{sid}+")
    | none => (st, "bad-op")
  | ["fan", "tclose", sid] =>
    -- the application calls the public Transport::close(sid): nothing happens locally (no observer, no callback, no tombstone), the
    -- request is forwarded to the engine (`X<sid>`); the scripted engine honours it: one close handler run
    match sid.toNat? with
    | some sid => fanClose st sid [s!"X{sid}"]
    | none => (st, "bad-op")
  | ["fan", "data", sid, hex] =>
    match sid.toNat?, parseHex hex with
    | some sid, some b => dlStep st (.engData sid b)
    | _, _ => (st, "bad-op")
  | ["fan", "mode", sid, m] =>
    match sid.toNat?, parseMode m with
    | some sid, some m => dlStep st (.setMode sid m)
    | _, _ => (st, "bad-op")
  | ["fan", "recv", sid, n] =>
    match sid.toNat?, n.toNat? with
    | some sid, some n => dlStep st (.recv sid n)
    | _, _ => (st, "bad-op")
  | ["fan", "connect", sid] => match sid.toNat? with | some sid => dlStep st (.engConnect sid) | none => (st, "bad-op")
  | ["fan", "accept", sid] => match sid.toNat? with | some sid => dlStep st (.engAccept sid) | none => (st, "bad-op")
  | ["fan", "getdata", sid] =>
    match sid.toNat? with
    | some sid => (st, match st.fan.data sid with | some (tag, _) => s!"D{tag}" | none => "D0")
    | none => (st, "bad-op")
  | "fan" :: "inside" :: w :: act =>
    match parseWhere w, parseAct act with
    | some w, some a => fanStep st (.inside w a)
    | some w, none =>
      match parseWinAct act with
      | some a => ({ st with win := st.win ++ [(w, a)] }, "-")
      | none => (st, "bad-op")
    | _, _ => (st, "bad-op")
  | "fan" :: act =>
    match parseAct act with
    | some a => fanStep st (.act a)
    | none => (st, "bad-op")
  | _ => (st, "bad-op")

def main : IO Unit := runLines ({} : St) step

end Iora.Driver.Life
