import Driver.Common
import IoraModel.Model.EngineLifecycle
import IoraModel.Model.CloseFanout
import IoraModel.Model.CloseDeliver
import IoraModel.Gen.CloseSites
/-! Driver of component `life` (C02): engine lifecycle acceptor ops + close fan-out lockstep ops. -/
namespace Iora.Driver.Life
open Iora Iora.Driver Iora.Lifecycle

def showOrigin : Origin → String
  | .app => "app" | .connectTimeout => "connectTimeout" | .handshakeTimeout => "handshakeTimeout" | .writeStall => "writeStall"

/-- the reason (`TransportError` code / message class) the source passes at each close site -/
def reasonOf : Site → String
  | .drainSession => "Unknown/shutdown"
  | .drainResidual => "ShuttingDown/shutdown"
  | .procClose .app => "Unknown/app"
  | .procClose .connectTimeout => "Timeout/connectTimeout"
  | .procClose .handshakeTimeout => "TLSHandshake/hsTimeout"
  | .procClose .writeStall => "Timeout/writeStall"
  | .gc => "GCClosed/gc"
  | .tlsRefused => "Config/tlsRefused"
  | .resolveTimeout => "Resolve/dnsTimeout"
  | .resolveFail => "Resolve/gai"
  | .refused => "Connect/refused"
  | .noSocket => "Connect/*"
  | .sslNewFail => "TLSHandshake/sslNew"
  | .sniFail => "TLSHandshake/sni"
  | .immGsoFail => "Socket/gso"
  | .immPeerFail => "Connect/*"
  | .immSoErr => "Connect/*"
  | .evSoErrEarly => "Connect/*"
  | .evGsoFail => "Socket/gso"
  | .evPeerFail => "Connect/*"
  | .evSoErr => "Connect/*"
  | .hup => "PeerClosed/hup"
  | .hsTimeoutInline => "TLSHandshake/hsTimeout"
  | .hsHookBefore => "TLSHandshake/hook"
  | .hsHookAfterOk => "TLSHandshake/hook"
  | .hsHookAfterErr => "TLSHandshake/hook"
  | .hsFatal => "TLSHandshake/*"
  | .rdHook => "TLSIO/hook"
  | .tlsZeroReturn => "PeerClosed/tlsClosed"
  | .tlsReadErr => "TLSIO/*"
  | .recvErr => "Socket/*"
  | .fin => "PeerClosed/fin"
  | .wrHook => "TLSIO/hook"
  | .tlsWriteErr => "TLSIO/*"
  | .sendErr => "Socket/*"
  | .dsHook => "TLSIO/hook"
  | .dsTlsErr => "TLSIO/*"
  | .dsSendErr => "Socket/*"
  | .backpressure => "WriteBackpressure/overflow"
  | .uResolveFail => "Resolve/gai"
  | .uNoSocket => "Connect/*"
  | .vNoListener => "Config/noListener"
  | .vAfUnknown => "Config/afUnknown"
  | .vResolveFail => "Resolve/gai"
  | .vAfMismatch => "Config/afMismatch"
  | .vKeyFail => "Config/keyFail"
  | .vCap => "Config/cap"
  | .ucRecvErr => "Socket/*"
  | .ucWriteErr => "Socket/*"
  | .usBackpressure => "WriteBackpressure/overflow"
  | .usSendErr => "Socket/*"
  | .usListenerGone => "Unknown/lstGone"
  | .usLstBackpressure => "WriteBackpressure/lstOverflow"
  | .usPeerSendErr => "Socket/*"

def showOut : Out → String
  | .ret sid true => s!"R{sid}:1"
  | .ret _ false => "R?:0"
  | .announce sid .accept => s!"A{sid}"
  | .announce sid .connect => s!"N{sid}"
  | .data sid => s!"D{sid}"
  | .close sid site => s!"K{sid}:{reasonOf site}"

def parseA (s : String) : Option A :=
  match s with
  | "ok" => some .ok | "again" => some .again | "fail" => some .fail | "refused" => some .refused
  | "soerr" => some .soerr | "data" => some .data | "eof" => some .eof | "full" => some .full
  | "part" => some .part | "timeout" => some .timeout | "no" => some .no
  | "affail" => some .afFail | "nomatch" => some .noMatch | "keyfail" => some .keyFail | "dgnokey" => some .dgramNoKey
  | _ => if s.startsWith "dg" then (s.drop 2).toNat?.map A.dgram
         else if s.startsWith "ad" then (s.drop 2).toNat?.map A.addrs else none

def parseAs : List String → Option (List A)
  | [] => some []
  | s :: r => do let a ← parseA s; let as ← parseAs r; pure (a :: as)

def parseNats : List String → Option (List Nat)
  | [] => some []
  | s :: r => do let a ← s.toNat?; let as ← parseNats r; pure (a :: as)

def parseOrigin : String → Option Origin
  | "app" => some .app | "connectTimeout" => some .connectTimeout
  | "handshakeTimeout" => some .handshakeTimeout | "writeStall" => some .writeStall | _ => none

/-- TlsMode of connect(): 0 None, 1 Client, 2 Server -/
def parseTls : String → Option TlsReq
  | "0" => some .none | "1" => some .client | "2" => some .server | _ => none

structure St where
  udp : Bool := false
  g : G := {}
  fan : Fanout.F := {}
  dl : Deliver.T := {}

def stepf (st : St) : G → In → G := if st.udp then Udp.step else Tcp.step

def showInt (i : Int) : String := if i < 0 then s!"-{i.natAbs}" else s!"{i.natAbs}"

/-- answer line: callbacks of this op | gauges, plus flags when the model left its intended domain -/
def answer (old : G) (g : G) (left : Nat) (stats : Bool := true) : String :=
  let outs := g.tr.drop old.tr.length
  let cbs := if outs.isEmpty then "-" else ",".intercalate (outs.map showOut)
  let s := s!"{cbs}|{g.accepted},{g.connected},{g.closedCnt},{showInt g.current}"
  let s := if g.stale then s ++ " !stale" else s
  let s := if left > 0 then s ++ s!" !left={left}" else s
  let _ := stats
  s

def run1 (st : St) (i : In) : St × String :=
  let g' := stepf st st.g i
  ({ st with g := g' }, answer st.g g' 0)

/-- process(): swap, then the command loop over the whole batch with one flat answer list -/
def procAll (udp : Bool) : Nat → List A → G → G × List A
  | 0, as, g => (g, as)
  | fuel + 1, as, g =>
    match g.batch with
    | [] => (g, as)
    | _ :: _ =>
      let (g, as) := if udp then Udp.dispatch as g else Tcp.dispatch as g
      procAll udp fuel as g

def doProc (st : St) (as : List A) (drain : Bool) : St × String :=
  let g0 := st.g
  let ok := if drain then g0.phase = .drainProc else g0.phase = .loop
  if !ok || g0.cur.isSome then (st, answer g0 g0 0 ++ " !phase") else
  let g := if drain then g0 else ioSwap g0
  let (g, rest) := procAll st.udp (g.batch.length + 1) as g
  ({ st with g := g }, answer g0 g rest.length)

def fanShow : Fanout.Out → String
  | .global sid => s!"G{sid}"
  | .observer sid o => s!"O{sid}.{o}"
  | .cleanup sid tag => s!"C{sid}.{tag}"
  | .unobserved o ok => s!"U{o}{if ok then "+" else "-"}"

def fanAnswer (outs : List Fanout.Out) : String :=
  if outs.isEmpty then "-" else ",".intercalate (outs.map fanShow)

def parseAct : List String → Option Fanout.Act
  | ["observe", sid] => sid.toNat?.map Fanout.Act.observe
  | ["unobserve", o] => o.toNat?.map Fanout.Act.unobserve
  | ["setdata", sid, tag] => do let s ← sid.toNat?; let t ← tag.toNat?; pure (.setData s t true)
  | ["setdatanc", sid, tag] => do let s ← sid.toNat?; let t ← tag.toNat?; pure (.setData s t false)
  | _ => none

def parseWhere (s : String) : Option Fanout.Where :=
  if s = "G" then some .global
  else if s.startsWith "O" then (s.drop 1).toNat?.map Fanout.Where.obs
  else if s.startsWith "C" then (s.drop 1).toNat?.map Fanout.Where.cleanup
  else none

/-! Transport-level delivery ops (Model/CloseDeliver.lean); payloads are lower-case hex, `-` = empty -/
def hexDigit (c : Char) : Option Nat :=
  if '0' ≤ c ∧ c ≤ '9' then some (c.toNat - '0'.toNat)
  else if 'a' ≤ c ∧ c ≤ 'f' then some (c.toNat - 'a'.toNat + 10)
  else none

def parseHexL : List Char → Option (List UInt8)
  | [] => some []
  | [_] => none
  | a :: b :: r => do
    let x ← hexDigit a
    let y ← hexDigit b
    let t ← parseHexL r
    pure (UInt8.ofNat (x * 16 + y) :: t)

def parseHex (s : String) : Option (List UInt8) := if s = "-" then some [] else parseHexL s.toList

def hexChar (n : Nat) : Char := if n < 10 then Char.ofNat ('0'.toNat + n) else Char.ofNat ('a'.toNat + (n - 10))
def showHex (b : List UInt8) : String := String.ofList (b.flatMap (fun x => [hexChar (x.toNat / 16), hexChar (x.toNat % 16)]))

def dlShow : Deliver.Out → String
  | .acceptCb sid => s!"A{sid}"
  | .connectCb sid => s!"N{sid}"
  | .dataCb sid b => s!"D{sid}:{showHex b}"
  | .closeH _ => ""
  | .modeRet sid ok => s!"M{sid}{if ok then "+" else "-"}"
  | .recvRet sid (.bytes b) => s!"R{sid}:{showHex b}"
  | .recvRet sid .timeout => s!"R{sid}:T"
  | .recvRet sid .peerClosed => s!"R{sid}:P"
  | .recvRet sid .overflow => s!"R{sid}:V"

def dlStep (st : St) (op : Deliver.Op) : St × String :=
  let (t, outs) := Deliver.step st.dl op
  ({ st with dl := t }, if outs.isEmpty then "-" else ",".intercalate (outs.map dlShow))

def parseMode : String → Option Deliver.Mode
  | "a" => some .async | "s" => some .sync | "d" => some .disabled | _ => none

/-- the model instance: the two source variants are what the translator found in the working tree -/
def dlInit (dcb : Bool) (maxBuf gcThr : Nat) : Deliver.T :=
  Deliver.init { hasDataCb := dcb, maxBuf := maxBuf, gcThreshold := gcThr,
                 eraseAlways := Iora.Gen.CloseSites.closeErasesModeAlways, tombGuard := Iora.Gen.CloseSites.setReadModeRefusesTombstone }

def fanStep (st : St) (op : Fanout.Op) : St × String :=
  let (f, outs) := Fanout.step st.fan op
  ({ st with fan := f }, fanAnswer outs)

def step (st : St) : List String → St × String
  | ["reset", proto, cli, srv, inl, mwq, cob, maxs, sni] =>
    match parseBit cli, parseBit srv, parseBit inl, mwq.toNat?, parseBit cob, maxs.toNat?, parseBit sni with
    | some cli, some srv, some inl, some mwq, some cob, some maxs, some sni =>
      let cfg : Cfg := { cliCtx := cli, srvCtx := srv, inlineHsTimeout := inl, maxWriteQueue := mwq, closeOnBackpressure := cob,
                         maxSessions := maxs,
                         tlsRefuse := true,    -- (the site table proved equal to the source contains the tlsRefused site)
                         sniCheck := sni,      -- clientTls.verifyPeer: SSL_set1_host runs for connects by name
                         peerEraseGuarded := Gen.CloseSites.udpPeerEraseGuardedCloseNow,
                         peerEraseGuardedDrain := Gen.CloseSites.udpPeerEraseGuardedDrain }
      ({ st with udp := proto = "udp", g := { cfg := cfg } }, "-|0,0,0,0")
    | _, _, _, _, _, _, _ => (st, "bad-op")
  | ["addl", lid, tls] =>
    match lid.toNat?, parseBit tls with
    | some lid, some tls => run1 st (.apiAddListener lid tls)
    | _, _ => (st, "bad-op")
  | ["apiconnect", tls, named] =>
    match parseTls tls, parseBit named with
    | some tls, some named => run1 st (.apiConnect tls named)
    | _, _ => (st, "bad-op")
  | ["apivia", lid, k] =>
    match lid.toNat?, k.toNat? with
    | some lid, some k => run1 st (.apiVia lid k)
    | _, _ => (st, "bad-op")
  | ["apiclose", sid] => match sid.toNat? with | some sid => run1 st (.apiClose sid) | none => (st, "bad-op")
  | ["apisend", sid] => match sid.toNat? with | some sid => run1 st (.apiSend sid) | none => (st, "bad-op")
  | ["apistop"] => run1 st .apiStop
  | ["apistart"] => run1 st .apiStart
  | ["timer", sid, o] =>
    match sid.toNat?, parseOrigin o with
    | some sid, some o => run1 st (.timer sid o)
    | _, _ => (st, "bad-op")
  | "proc" :: as => match parseAs as with | some as => doProc st as false | none => (st, "bad-op")
  | "drainproc" :: as => match parseAs as with | some as => doProc st as true | none => (st, "bad-op")
  | "acc" :: tls :: as =>
    match parseBit tls, parseAs as with
    | some tls, some as =>
      if st.g.phase = .loop then
        let (g, rest) := Tcp.onListener tls as st.g
        ({ st with g := g }, answer st.g g rest.length)
      else (st, answer st.g st.g 0 ++ " !phase")
    | _, _ => (st, "bad-op")
  | "sess" :: sid :: i :: o :: h :: as =>
    match sid.toNat?, parseBit i, parseBit o, parseBit h, parseAs as with
    | some sid, some i, some o, some h, some as =>
      if st.g.phase = .loop then
        let (g, rest) := if st.udp then Udp.onClient sid i o as st.g else Tcp.onSession sid i o h as st.g
        -- `!envin`: this INPUT breaks the environment contract of T3c (payload offered to a session whose connect is pending)
        let envin := !st.udp && !Tcp.envOkSession sid i o h as st.g
        ({ st with g := g }, answer st.g g rest.length ++ (if envin then " !envin" else ""))
      else (st, answer st.g st.g 0 ++ " !phase")
    | _, _, _, _, _ => (st, "bad-op")
  | "lst" :: lid :: i :: o :: as =>
    match lid.toNat?, parseBit i, parseBit o, parseAs as with
    | some lid, some i, some o, some as =>
      if st.g.phase = .loop then
        let (g, rest) := if i then Udp.readFromListener lid as st.g else (st.g, as)
        let (g, rest) := if o then Udp.flushListener lid rest g else (g, rest)
        ({ st with g := g }, answer st.g g rest.length)
      else (st, answer st.g st.g 0 ++ " !phase")
    | _, _, _, _ => (st, "bad-op")
  | "gc" :: picks => match parseNats picks with | some p => run1 st (.ioGc p) | none => (st, "bad-op")
  | ["drainbegin"] => run1 st .ioDrainBegin
  | ["drainclose", sid] => match sid.toNat? with | some sid => run1 st (.ioDrainClose sid) | none => (st, "bad-op")
  | ["drainfinish"] => run1 st .ioDrainFinish
  -- close fan-out (Transport over the scripted engine)
  | ["fan", "reset", gl] =>
    match parseBit gl with
    | some gl => ({ st with fan := { hasGlobal := gl }, dl := dlInit true 1048576 1024 }, "-")
    | none => (st, "bad-op")
  | ["fan", "reset", gl, dcb] =>
    match parseBit gl, parseBit dcb with
    | some gl, some dcb => ({ st with fan := { hasGlobal := gl }, dl := dlInit dcb 1048576 1024 }, "-")
    | _, _ => (st, "bad-op")
  | ["fan", "reset", gl, dcb, mb, gt] =>
    match parseBit gl, parseBit dcb, mb.toNat?, gt.toNat? with
    | some gl, some dcb, some mb, some gt => ({ st with fan := { hasGlobal := gl }, dl := dlInit dcb mb gt }, "-")
    | _, _, _, _ => (st, "bad-op")
  | ["fan", "close", sid] =>
    match sid.toNat? with
    | some sid =>
      -- one close handler: the callbacks (steps 2-5, 7: Fanout) and the receive-buffer / read-mode clean-up (step 6: Deliver)
      let (st, ans) := fanStep st (.close sid)
      ({ st with dl := (Deliver.step st.dl (.engClose sid)).1 }, ans)
    | none => (st, "bad-op")
  | ["fan", "data", sid, hex] =>
    match sid.toNat?, parseHex hex with
    | some sid, some b => dlStep st (.engData sid b)
    | _, _ => (st, "bad-op")
  | ["fan", "mode", sid, m] =>
    match sid.toNat?, parseMode m with
    | some sid, some m => dlStep st (.setMode sid m)
    | _, _ => (st, "bad-op")
  | ["fan", "recv", sid, n] =>
    match sid.toNat?, n.toNat? with
    | some sid, some n => dlStep st (.recv sid n)
    | _, _ => (st, "bad-op")
  | ["fan", "connect", sid] => match sid.toNat? with | some sid => dlStep st (.engConnect sid) | none => (st, "bad-op")
  | ["fan", "accept", sid] => match sid.toNat? with | some sid => dlStep st (.engAccept sid) | none => (st, "bad-op")
  | ["fan", "getdata", sid] =>
    match sid.toNat? with
    | some sid => (st, match st.fan.data sid with | some (tag, _) => s!"D{tag}" | none => "D0")
    | none => (st, "bad-op")
  | "fan" :: "inside" :: w :: act =>
    match parseWhere w, parseAct act with
    | some w, some a => fanStep st (.inside w a)
    | _, _ => (st, "bad-op")
  | "fan" :: act =>
    match parseAct act with
    | some a => fanStep st (.act a)
    | none => (st, "bad-op")
  | _ => (st, "bad-op")

def main : IO Unit := runLines ({} : St) step

end Iora.Driver.Life
