import Driver.Common
import IoraModel.Model.TimerService
namespace Iora.Driver.Tsvc
open Iora Iora.Tsvc Iora.Driver

inductive Kind where
  | normal | gate | cancels (j : Nat)

/-- where the loop thread is: parked in `epoll_wait`; blocked in a gate handler of the batch collected after `epoll_wait` or of the
exit-branch batch; out of `runLoop` (waiting to be joined); joined -/
inductive LPos where
  | parked | inPost | inExit | left | gone
  deriving DecidableEq

structure St where
  L : Limits := ⟨10000, 1000, 86400000000000⟩
  s : Svc := {}
  clk : Int := 0
  kinds : List (Nat × Kind) := []
  live : Bool := false
  lpos : LPos := .parked
  /-- the helper thread that runs `drain(ms)`: not yet reaped by `dwait`; deadline (`none` = `drain(0)`); result once it has returned;
  started with `park`; held before its restore section -/
  dact : Bool := false
  ddl : Option Int := none
  dres : Option String := none
  dpark : Bool := false
  dparked : Bool := false
  /-- the helper thread that runs `stop()`: started; it owns the drain in progress (`drain(5000)` inside `stop()`); that drain's
  deadline; position `drainwait | join | ok | refused` -/
  sact : Bool := false
  sown : Bool := false
  sddl : Int := 0
  spos : String := "none"

def commaSep (xs : List String) : String := if xs.isEmpty then "-" else ",".intercalate xs

def insertBy {α : Type} (key : α → Nat) (x : α) : List α → List α
  | [] => [x]
  | y :: ys => if key x < key y then x :: y :: ys else y :: insertBy key x ys
def sortBy {α : Type} (key : α → Nat) (l : List α) : List α := l.foldr (insertBy key) []

def showState (s : Svc) : String :=
  let hp := commaSep (s.heap.map (fun x => s!"{x.tp}:{x.id}"))
  let rc := commaSep ((sortBy (·.id) s.records).map (fun r => s!"{r.id}:{r.tp}:{bit r.canceled}"))
  let pr := commaSep ((sortBy (·.id) s.periodic).map (fun p => s!"{p.id}:{p.interval}:{p.next}:{bit p.canceled}"))
  let lf := match s.life with | .running => "R" | .draining => "D" | .stopped => "S"
  s!"heap={hp} rec={rc} per={pr} exec={s.executing} acc={bit s.accepting} life={lf} run={bit s.running}"

def parseKind (k : String) : Option Kind :=
  if k = "n" then some .normal
  else if k = "g" then some .gate
  else if k.startsWith "x" then (k.drop 1).toNat?.map .cancels
  else none

def kindOf (st : St) (id : Nat) : Kind :=
  match st.kinds.find? (·.1 == id) with
  | some (_, k) => k
  | none => .normal

/-- the loop thread runs collected handlers until the list is empty or a gate handler blocks -/
def runHandlers (st : St) : Nat → Svc → List String → Svc × List String
  | 0, s, ev => (s, ev)
  | f + 1, s, ev =>
    let r := hstart s
    match r.2 with
    | .none => (r.1, ev)
    | .skipped _ => runHandlers st f r.1 ev
    | .started h =>
      let ev1 := ev ++ [s!"s{h.id}"]
      match kindOf st h.id with
      | .gate => (r.1, ev1)
      | .normal => runHandlers st f (hend r.1) (ev1 ++ [s!"e{h.id}"])
      | .cancels j =>
        let c := cancel r.1 j
        runHandlers st f (hend c.1) (ev1 ++ [s!"c{j}={bit c.2}", s!"e{h.id}"])

/-- `stop()` after its drain part: the flag section, `_running = false`, `poke`, then it sits in `_thread.join()` -/
def stopTail (st : St) : St := { st with s := stopHalt (stopFlag st.s), sown := false, spos := "join" }

/-- every helper thread re-evaluates after every op (the harness forces a spurious wake-up there).  A waiting drain: predicate true ⇒
it returns success; else deadline reached ⇒ it times out and runs the restore section (a drainer started with `park` is held just
before it); else it keeps waiting.  `stop()` goes on after its drain; once the loop thread has left `runLoop` its join returns and it
publishes Stopped. -/
def settle (st : St) : St :=
  let st1 : St :=
    if st.dact && st.dres.isNone && !st.dparked && !st.sown && st.s.dpc == .waiting then
      if drainPred st.s then { st with s := (drainDone st.s).1, dres := some "ok" }
      else if (match st.ddl with | some d => decide (st.clk ≥ d) | none => false) then
        if st.dpark then { st with s := drainTimeout st.s, dparked := true }
        else { st with s := drainRestore (drainTimeout st.s), dres := some "timeout" }
      else st
    else st
  let st2 : St :=
    if st1.sact && st1.sown && st1.s.dpc == .waiting then
      if drainPred st1.s then stopTail { st1 with s := (drainDone st1.s).1 }
      else if st1.clk ≥ st1.sddl then stopTail { st1 with s := drainRestore (drainTimeout st1.s) }
      else st1
    else st1
  if st2.sact && st2.spos = "join" && st2.s.exited then
    { st2 with s := (stopFinish st2.s).1, spos := "ok", lpos := .gone }
  else st2

/-- an op's answer: `\x01` marks where the state is printed, AFTER the helper threads have settled -/
def finish (r : St × String) : St × String :=
  if r.2 = "bad-op" || !r.1.live then r
  else
    let st := settle r.1
    (st, r.2.replace "\x01" (showState st.s))

/-- the loop thread after the handlers of the post-`epoll_wait` batch: top of the loop; with `_running == false` the exit branch -/
def afterExit (st : St) (s : Svc) (ev : List String) : St × List String :=
  ({ st with s := loopExit s, lpos := .left }, ev)

def afterPost (st : St) (s : Svc) (ev : List String) : St × List String :=
  if !s.running then
    let c := collect s st.clk true
    let r := runHandlers st (c.2.1.length + 1) c.1 ev
    if r.1.inflight.isSome then ({ st with s := r.1, lpos := .inExit }, r.2)
    else afterExit st r.1 r.2
  else ({ st with s := s, lpos := .parked }, ev)

def step0 (st : St) : List String → St × String
  | ["reset", a, b, c] =>
    match a.toNat?, b.toNat?, c.toInt? with
    | some a, some b, some c =>
      let st' : St := { L := ⟨a, b, c * 1000000⟩, live := true }
      (st', "ok \x01")
    | _, _, _ => (st, "bad-op")
  | ["clk", n] =>
    if !st.live then (st, "bad-op") else
    match n.toNat? with
    | some n => ({ st with clk := n }, "ok")
    | none => (st, "bad-op")
  | ["at", tp, k] =>
    if !st.live then (st, "bad-op") else
    match tp.toInt?, parseKind k with
    | some tp, some k =>
      let r := scheduleAt st.L st.s st.clk tp
      let st' := { st with s := r.1, kinds := (r.2, k) :: st.kinds }
      (st', s!"{r.2} \x01")
    | _, _ => (st, "bad-op")
  | ["per", iv, k] =>
    if !st.live then (st, "bad-op") else
    match iv.toInt?, parseKind k with
    | some iv, some k =>
      let r := schedulePeriodic st.L st.s st.clk iv
      let st' := { st with s := r.1, kinds := (r.2, k) :: st.kinds }
      (st', s!"{r.2} \x01")
    | _, _ => (st, "bad-op")
  | ["cancel", i] =>
    if !st.live then (st, "bad-op") else
    match i.toNat? with
    | some i => let r := cancel st.s i; ({ st with s := r.1 }, s!"{bit r.2} \x01")
    | none => (st, "bad-op")
  | ["wake"] =>
    if !st.live then (st, "bad-op") else
    if st.lpos == .gone then (st, "gone \x01") else
    if st.s.inflight.isSome then (st, "busy") else
    let c := collect st.s st.clk false
    let r := runHandlers st (c.2.1.length + 1) c.1 []
    if r.1.inflight.isSome then ({ st with s := r.1, lpos := .inPost }, s!"ev={commaSep r.2} \x01")
    else
      let a := afterPost st r.1 r.2
      (a.1, s!"ev={commaSep a.2} \x01")
  | ["release"] =>
    if !st.live then (st, "bad-op") else
    match st.s.inflight with
    | none => (st, "idle")
    | some h =>
      let s1 := hend st.s
      let r := runHandlers st (s1.ready.length + 1) s1 [s!"e{h.id}"]
      if r.1.inflight.isSome then ({ st with s := r.1 }, s!"ev={commaSep r.2} \x01")
      else
        let a := if st.lpos == .inExit then afterExit st r.1 r.2 else afterPost st r.1 r.2
        (a.1, s!"ev={commaSep a.2} \x01")
  | ["inflight"] => if !st.live then (st, "bad-op") else (st, toString (liveCount st.s))
  | "drain" :: ms :: rest =>
    if !st.live || !(rest == [] || rest == ["park"]) then (st, "bad-op") else
    match ms.toNat? with
    | some ms =>
      if ms > 5000 then (st, "bad-op")
      else if st.dact then (st, "d=busy \x01")
      else
        let g := drainGate st.s
        if !g.2 then ({ st with s := g.1 }, "d=refused \x01")
        else
          let s2 := drainSweep g.1 st.clk (ms * 1000000)
          if drainPred s2 then ({ st with s := (drainDone s2).1 }, "d=ok \x01")
          else ({ st with s := s2, dact := true, ddl := if ms = 0 then none else some (st.clk + ms * 1000000), dres := none,
                          dpark := rest == ["park"], dparked := false, sown := false }, "d=wait \x01")
    | none => (st, "bad-op")
  | ["dwait"] =>
    if !st.live then (st, "bad-op") else
    if !st.dact then (st, "d=none \x01")
    else if st.dparked then (st, "d=parked \x01")
    else match st.dres with
      | some r => ({ st with dact := false, dres := none }, s!"d={r} \x01")
      | none => (st, "d=wait \x01")
  | ["dgo"] =>
    if !st.live then (st, "bad-op") else
    if st.dact && st.dparked then ({ st with s := drainRestore st.s, dparked := false, dres := some "timeout" }, "d=go \x01")
    else (st, "d=notparked \x01")
  | ["stop"] =>
    if !st.live then (st, "bad-op") else
    if st.sact then (st, "s=busy \x01")
    else if st.s.life == .stopped then ({ st with sact := true, spos := "refused" }, "s=refused \x01")
    else if st.s.life == .running then
      let g := drainGate st.s
      let s2 := drainSweep g.1 st.clk 5000000000
      if drainPred s2 then
        let st' := stopTail { st with s := (drainDone s2).1, sact := true }
        (st', "s=join \x01")
      else ({ st with s := s2, sact := true, sown := true, sddl := st.clk + 5000000000, spos := "drainwait" }, "s=drainwait \x01")
    else
      let st' := stopTail { st with sact := true }
      (st', "s=join \x01")
  | ["swait"] =>
    if !st.live then (st, "bad-op") else
    if !st.sact then (st, "s=none \x01") else (st, s!"s={st.spos} \x01")
  | ["vclock"] => if !st.live then (st, "bad-op") else (st, "virtual")
  | _ => (st, "bad-op")

def step (st : St) (toks : List String) : St × String := finish (step0 st toks)

def main : IO Unit := runLines ({} : St) step

end Iora.Driver.Tsvc
