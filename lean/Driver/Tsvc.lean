import Driver.Common
import IoraModel.Model.TimerService
import IoraModel.Model.TimerSys
import IoraModel.Model.SteadyTimer
namespace Iora.Driver.Tsvc
open Iora Iora.Tsvc Iora.Driver

inductive Kind where
  | normal | gate | cancels (j : Nat) | throws

/-- where the loop thread is: parked in `epoll_wait`; blocked in a gate handler of the batch collected after `epoll_wait` or of the
exit-branch batch; out of `runLoop` (waiting to be joined); joined -/
inductive LPos where
  | parked | inPost | inExit | left | gone
  deriving DecidableEq

structure St where
  L : Limits := ⟨10000, 1000, 86400000000000⟩
  s : Svc := {}
  clk : Int := 0
  kinds : List (Nat × Kind) := []
  live : Bool := false
  lpos : LPos := .parked
  /-- the helper thread that runs `drain(ms)`: not yet reaped by `dwait`; deadline (`none` = `drain(0)`); result once it has returned;
  started with `park`; held before its restore section -/
  dact : Bool := false
  ddl : Option Int := none
  dres : Option String := none
  dpark : Bool := false
  dparked : Bool := false
  /-- the helper thread that runs `stop()`: started; it owns the drain in progress (`drain(5000)` inside `stop()`); that drain's
  deadline; position `drainwait | join | ok | refused` -/
  sact : Bool := false
  sown : Bool := false
  sddl : Int := 0
  spos : String := "none"
  /-- second layer (Model/TimerSys.lean): timerfd expiry, eventfd readable, eventfd open, `LifecycleState::Reset` -/
  armed : Option Int := none
  poked : Bool := false
  fdOpen : Bool := true
  isReset : Bool := false
  /-- the racer thread (`rsched`): parked before its locked section with this time point -/
  racer : Option Int := none
  /-- SteadyTimer layer (Model/SteadyTimer.lean) -/
  arms : List (Nat × Steady.Sh) := []
  tokens : Nat → Option Nat := fun _ => none

def commaSep (xs : List String) : String := if xs.isEmpty then "-" else ",".intercalate xs

def insertBy {α : Type} (key : α → Nat) (x : α) : List α → List α
  | [] => [x]
  | y :: ys => if key x < key y then x :: y :: ys else y :: insertBy key x ys
def sortBy {α : Type} (key : α → Nat) (l : List α) : List α := l.foldr (insertBy key) []

/-- the `poke()` a client call owes after its locked section is performed at once (same thread, same op) -/
def pk (st : St) (pre : Svc) (op : Tsvc.Op) (out : Tsvc.Out) : St :=
  if Tsys.owes pre op out > 0 && st.fdOpen then { st with poked := true } else st

def showState0 (s : Svc) : String :=
  let hp := commaSep (s.heap.map (fun x => s!"{x.tp}:{x.id}"))
  let rc := commaSep ((sortBy (·.id) s.records).map (fun r => s!"{r.id}:{r.tp}:{bit r.canceled}"))
  let pr := commaSep ((sortBy (·.id) s.periodic).map (fun p => s!"{p.id}:{p.interval}:{p.next}:{bit p.canceled}"))
  let lf := match s.life with | .running => "R" | .draining => "D" | .stopped => "S"
  s!"heap={hp} rec={rc} per={pr} exec={s.executing} acc={bit s.accepting} life={lf} run={bit s.running}"

def showState (st : St) : String :=
  let a := match st.armed with | some x => toString x | none => "-"
  let base := showState0 st.s
  let base := if st.isReset then base.replace "life=S" "life=Z" else base
  s!"{base} arm={a} poke={bit (st.poked && st.fdOpen)}"

def parseKind (k : String) : Option Kind :=
  if k = "n" then some .normal
  else if k = "g" then some .gate
  else if k = "t" then some .throws
  else if k.startsWith "x" then (k.drop 1).toNat?.map .cancels
  else none

def kindOf (st : St) (id : Nat) : Kind :=
  match st.kinds.find? (·.1 == id) with
  | some (_, k) => k
  | none => .normal

/-- what the loop thread's handler run leaves behind: service state, events, a `poke()` was performed (handler kind `x` calls
`cancel`), the SteadyTimer arms -/
structure RH where
  s : Svc
  ev : List String
  pk : Bool := false
  arms : List (Nat × Steady.Sh)

/-- the loop thread runs collected handlers until the list is empty or a gate handler blocks; a record that is a SteadyTimer arm goes
through the wrapper (`Steady.wrapperStart`): the user's handler (events, gate, cancel) runs only if the wrapper won the arm -/
def runHandlers (st : St) : Nat → RH → RH
  | 0, r => r
  | f + 1, r =>
    let h0 := hstart r.s
    match h0.2 with
    | .none => { r with s := h0.1 }
    | .skipped _ => runHandlers st f { r with s := h0.1 }
    | .started h =>
      let w := Steady.wrapperStart r.arms h.id
      if !w.2 then runHandlers st f { r with s := hend h0.1, arms := w.1 }
      else
      let ev1 := r.ev ++ [s!"s{h.id}"]
      match kindOf st h.id with
      | .gate => { r with s := h0.1, ev := ev1, arms := w.1 }
      | .normal => runHandlers st f { r with s := hend h0.1, ev := ev1 ++ [s!"e{h.id}"], arms := w.1 }
      | .throws => runHandlers st f { r with s := hend h0.1, ev := ev1 ++ [s!"e{h.id}"], arms := w.1 }
      | .cancels j =>
        let c := cancel h0.1 j
        let p := Tsys.owes h0.1 (.cancel j) (.bool c.2) > 0
        runHandlers st f { s := hend c.1, ev := ev1 ++ [s!"c{j}={bit c.2}", s!"e{h.id}"], pk := r.pk || p, arms := w.1 }

def rh0 (st : St) (s : Svc) (ev : List String) : RH := { s := s, ev := ev, arms := st.arms }

/-- fold the handler run back into the driver state -/
def absorb (st : St) (r : RH) : St :=
  { st with s := r.s, arms := r.arms, poked := if r.pk && st.fdOpen then true else st.poked }

/-- `stop()` after its drain part: the flag section, `_running = false`, `poke`, then it sits in `_thread.join()` -/
def stopTail (st : St) : St :=
  let s1 := stopFlag st.s
  pk { st with s := stopHalt s1, sown := false, spos := "join" } s1 .stopHalt .none

/-- every helper thread re-evaluates after every op (the harness forces a spurious wake-up there).  A waiting drain: predicate true ⇒
it returns success; else deadline reached ⇒ it times out and runs the restore section (a drainer started with `park` is held just
before it); else it keeps waiting.  `stop()` goes on after its drain; once the loop thread has left `runLoop` its join returns and it
publishes Stopped. -/
def settle (st : St) : St :=
  let st1 : St :=
    if st.dact && st.dres.isNone && !st.dparked && !st.sown && st.s.dpc == .waiting then
      if drainPred st.s then { st with s := (drainDone st.s).1, dres := some "ok" }
      else if (match st.ddl with | some d => decide (st.clk ≥ d) | none => false) then
        if st.dpark then { st with s := drainTimeout st.s, dparked := true }
        else { st with s := drainRestore (drainTimeout st.s), dres := some "timeout" }
      else st
    else st
  let st2 : St :=
    if st1.sact && st1.sown && st1.s.dpc == .waiting then
      if drainPred st1.s then stopTail { st1 with s := (drainDone st1.s).1 }
      else if st1.clk ≥ st1.sddl then stopTail { st1 with s := drainRestore (drainTimeout st1.s) }
      else st1
    else st1
  if st2.sact && st2.spos = "join" && st2.s.exited then
    { st2 with s := (stopFinish st2.s).1, spos := "ok", lpos := .gone,
               fdOpen := if Tsys.closesFd .stopFinish (.bool (stopFinish st2.s).2) then false else st2.fdOpen }
  else st2

/-- an op's answer: `\x01` marks where the state is printed, AFTER the helper threads have settled -/
def finish (r : St × String) : St × String :=
  if r.2 = "bad-op" || !r.1.live then r
  else
    let st := settle r.1
    (st, r.2.replace "\x01" (showState st))

/-- the loop thread after the handlers of the post-`epoll_wait` batch: top of the loop; with `_running == false` the exit branch
(collect, `programTimerfd(nullopt)`, handlers, leave); otherwise `programTimerfd(heapTop)` (`Tsys.armValue`) and `epoll_wait` -/
def afterExit (st : St) (r : RH) : St × List String :=
  ({ absorb st r with s := loopExit r.s, lpos := .left }, r.ev)

def afterPost (st : St) (r0 : RH) : St × List String :=
  let st := absorb st r0
  let s := r0.s
  if !s.running then
    let c := collect s st.clk true
    let st := { st with armed := if Tsys.disarms { s := s } c.1 (.collect st.clk true) then none else st.armed }
    let r := runHandlers st (c.2.1.length + 1) (rh0 st c.1 r0.ev)
    if r.s.inflight.isSome then ({ absorb st r with lpos := .inExit }, r.ev)
    else afterExit st r
  else ({ st with s := s, lpos := .parked, armed := Tsys.armValue st.clk s.heap.head? }, r0.ev)

/-- one pass of the loop after `epoll_wait` has returned: `drainEventfd`, `drainTimerfd` (an expired one-shot timerfd is disarmed),
the locked collect, the handlers -/
def pass (st : St) : St × String :=
  let st := { st with poked := false, armed := if Tsys.expired st.armed st.clk then none else st.armed }
  let c := collect st.s st.clk false
  let r := runHandlers st (c.2.1.length + 1) (rh0 st c.1 [])
  if r.s.inflight.isSome then ({ absorb st r with lpos := .inPost }, s!"ev={commaSep r.ev} \x01")
  else
    let a := afterPost st r
    (a.1, s!"ev={commaSep a.2} \x01")

def layOf (st : St) : Steady.Lay := { s := st.s, arms := st.arms, tokens := st.tokens }

/-- `drain(5000)` inside `stop()`: the constant is read from the source -/
def stopDrainNs : Int := Gen.Timer.svcStopDrainMs * 1000000

def step0 (st : St) : List String → St × String
  | ["reset", a, b, c] =>
    match a.toNat?, b.toNat?, c.toInt? with
    | some a, some b, some c =>
      let st' : St := { L := ⟨a, b, c * 1000000⟩, live := true }
      (st', "ok \x01")
    | _, _, _ => (st, "bad-op")
  | ["clk", n] =>
    if !st.live then (st, "bad-op") else
    match n.toNat? with
    | some n => ({ st with clk := n }, "ok")
    | none => (st, "bad-op")
  | ["at", tp, k] =>
    if !st.live then (st, "bad-op") else
    match tp.toInt?, parseKind k with
    | some tp, some k =>
      let r := scheduleAt st.L st.s st.clk tp
      let st' := pk { st with s := r.1, kinds := (r.2, k) :: st.kinds } st.s (.schedAt st.clk tp) (.id r.2)
      (st', s!"{r.2} \x01")
    | _, _ => (st, "bad-op")
  | ["per", iv, k] =>
    if !st.live then (st, "bad-op") else
    match iv.toInt?, parseKind k with
    | some iv, some k =>
      let r := schedulePeriodic st.L st.s st.clk iv
      let st' := pk { st with s := r.1, kinds := (r.2, k) :: st.kinds } st.s (.schedPer st.clk iv) (.id r.2)
      (st', s!"{r.2} \x01")
    | _, _ => (st, "bad-op")
  | ["cancel", i] =>
    if !st.live then (st, "bad-op") else
    match i.toNat? with
    | some i => let r := cancel st.s i; (pk { st with s := r.1 } st.s (.cancel i) (.bool r.2), s!"{bit r.2} \x01")
    | none => (st, "bad-op")
  | ["wake"] =>
    if !st.live then (st, "bad-op") else
    if st.lpos == .gone then (st, "gone \x01") else
    if st.s.inflight.isSome then (st, "busy") else
    pass st
  | ["tick"] =>
    if !st.live then (st, "bad-op") else
    if st.lpos == .gone then (st, "gone \x01") else
    if st.s.inflight.isSome then (st, "busy") else
    -- `epoll_wait` returns only if the eventfd is readable or the timerfd has expired (`Tsys.wakeEnabled`)
    if !((st.poked && st.fdOpen) || Tsys.expired st.armed st.clk) then (st, "sleep \x01") else
    pass st
  | ["release"] =>
    if !st.live then (st, "bad-op") else
    match st.s.inflight with
    | none => (st, "idle")
    | some h =>
      let s1 := hend st.s
      let r := runHandlers st (s1.ready.length + 1) (rh0 st s1 [s!"e{h.id}"])
      if r.s.inflight.isSome then (absorb st r, s!"ev={commaSep r.ev} \x01")
      else
        let a := if st.lpos == .inExit then afterExit st r else afterPost st r
        (a.1, s!"ev={commaSep a.2} \x01")
  | ["svcreset"] =>
    if !st.live then (st, "bad-op") else
    -- mirrors `reset()`: only from Stopped (a second reset finds the state Reset)
    if st.isReset || st.s.life != .stopped then (st, "r=refused \x01")
    else ({ st with s := Tsys.resetSvc st.s, isReset := true, arms := [], tokens := fun _ => none }, "r=ok \x01")
  | ["start"] =>
    if !st.live then (st, "bad-op") else
    if st.isReset then
      ({ st with s := Tsys.startSvc st.s, isReset := false, armed := Tsys.armValue st.clk (Tsys.startSvc st.s).heap.head?, poked := false, fdOpen := true,
                 lpos := .parked, sact := false, sown := false, spos := "none", kinds := [] }, "st=ok \x01")
    else if st.s.life == .running then (st, "st=ok \x01")
    else (st, "st=refused \x01")
  | ["rsched", tp] =>
    if !st.live then (st, "bad-op") else
    match tp.toInt? with
    | some tp =>
      if st.racer.isSome then (st, "r=busy \x01")
      -- the lock-free part of scheduleAt: `_accepting`, then `isValidTimeout`
      else if !scheduleAtPre st.L st.s st.clk tp then (st, "r=0 \x01")
      else ({ st with racer := some tp }, "r=parked \x01")
    | none => (st, "bad-op")
  | ["rgo"] =>
    if !st.live then (st, "bad-op") else
    match st.racer with
    | none => (st, "r=notparked \x01")
    | some tp =>
      let r := scheduleAtLocked st.L st.s tp
      let st' := pk { st with s := r.1, racer := none, kinds := (r.2, .normal) :: st.kinds } st.s (.schedAt st.clk tp) (.id r.2)
      (st', s!"r={r.2} \x01")
  | ["sat", i, tp, k] =>
    if !st.live then (st, "bad-op") else
    match i.toNat?, tp.toInt?, parseKind k with
    | some i, some tp, some k =>
      if i ≥ 8 then (st, "bad-op") else
      let l0 := layOf st
      -- asyncWait = cancel() (its `poke()` if the record was live), then scheduleAt
      let c := Steady.cancel l0 i
      let st1 : St := match Steady.getTok l0 i with
        | some tok => pk st st.s (.cancel tok) (.bool (cancel st.s tok).2)
        | none => st
      let r := Steady.asyncWait st.L l0 i st.clk tp
      let st2 := pk { st1 with s := r.1.s, arms := r.1.arms, tokens := r.1.tokens, kinds := (r.2, k) :: st.kinds } c.1.s (.schedAt st.clk tp) (.id r.2)
      (st2, s!"{r.2} \x01")
    | _, _, _ => (st, "bad-op")
  | ["scancel", i] =>
    if !st.live then (st, "bad-op") else
    match i.toNat? with
    | some i =>
      if i ≥ 8 then (st, "bad-op") else
      let l0 := layOf st
      let r := Steady.cancel l0 i
      let st1 : St := match Steady.getTok l0 i with
        | some tok => pk st st.s (.cancel tok) (.bool (cancel st.s tok).2)
        | none => st
      ({ st1 with s := r.1.s, arms := r.1.arms, tokens := r.1.tokens }, s!"{bit r.2} \x01")
    | none => (st, "bad-op")
  | ["inflight"] => if !st.live then (st, "bad-op") else (st, toString (liveCount st.s))
  | "drain" :: ms :: rest =>
    if !st.live || !(rest == [] || rest == ["park"]) then (st, "bad-op") else
    match ms.toNat? with
    | some ms =>
      if ms > 5000 then (st, "bad-op")
      else if st.dact then (st, "d=busy \x01")
      else
        let g := drainGate st.s
        if !g.2 then ({ st with s := g.1 }, "d=refused \x01")
        else
          let s2 := drainSweep g.1 st.clk (ms * 1000000)
          let st := pk st g.1 (.drainSweep st.clk (ms * 1000000)) .none
          if drainPred s2 then ({ st with s := (drainDone s2).1 }, "d=ok \x01")
          else ({ st with s := s2, dact := true, ddl := if ms = 0 then none else some (st.clk + ms * 1000000), dres := none,
                          dpark := rest == ["park"], dparked := false, sown := false }, "d=wait \x01")
    | none => (st, "bad-op")
  | ["dwait"] =>
    if !st.live then (st, "bad-op") else
    if !st.dact then (st, "d=none \x01")
    else if st.dparked then (st, "d=parked \x01")
    else match st.dres with
      | some r => ({ st with dact := false, dres := none }, s!"d={r} \x01")
      | none => (st, "d=wait \x01")
  | ["dgo"] =>
    if !st.live then (st, "bad-op") else
    if st.dact && st.dparked then ({ st with s := drainRestore st.s, dparked := false, dres := some "timeout" }, "d=go \x01")
    else (st, "d=notparked \x01")
  | ["stop"] =>
    if !st.live then (st, "bad-op") else
    if st.sact then (st, "s=busy \x01")
    else if st.s.life == .stopped then ({ st with sact := true, spos := "refused" }, "s=refused \x01")
    else if st.s.life == .running then
      let g := drainGate st.s
      let s2 := drainSweep g.1 st.clk stopDrainNs
      let st := pk st g.1 (.drainSweep st.clk stopDrainNs) .none
      if drainPred s2 then
        let st' := stopTail { st with s := (drainDone s2).1, sact := true }
        (st', "s=join \x01")
      else ({ st with s := s2, sact := true, sown := true, sddl := st.clk + stopDrainNs, spos := "drainwait" }, "s=drainwait \x01")
    else
      let st' := stopTail { st with sact := true }
      (st', "s=join \x01")
  | ["swait"] =>
    if !st.live then (st, "bad-op") else
    if !st.sact then (st, "s=none \x01") else (st, s!"s={st.spos} \x01")
  | ["vclock"] => if !st.live then (st, "bad-op") else (st, "virtual")
  | _ => (st, "bad-op")

def step (st : St) (toks : List String) : St × String := finish (step0 st toks)

def main : IO Unit := runLines ({} : St) step

end Iora.Driver.Tsvc
