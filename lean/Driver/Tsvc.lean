import Driver.Common
import IoraModel.Model.TimerService
namespace Iora.Driver.Tsvc
open Iora Iora.Tsvc Iora.Driver

inductive Kind where
  | normal | gate | cancels (j : Nat)

structure St where
  L : Limits := ⟨10000, 1000, 86400000000000⟩
  s : Svc := {}
  clk : Int := 0
  kinds : List (Nat × Kind) := []
  live : Bool := false
  /-- a `drain` started by the op list has not been reported by `dwait` yet; its virtual deadline; its outcome once it has returned -/
  dact : Bool := false
  ddl : Int := 0
  dres : Option String := none

def commaSep (xs : List String) : String := if xs.isEmpty then "-" else ",".intercalate xs

def insertBy {α : Type} (key : α → Nat) (x : α) : List α → List α
  | [] => [x]
  | y :: ys => if key x < key y then x :: y :: ys else y :: insertBy key x ys
def sortBy {α : Type} (key : α → Nat) (l : List α) : List α := l.foldr (insertBy key) []

def showState (s : Svc) : String :=
  let hp := commaSep (s.heap.map (fun x => s!"{x.tp}:{x.id}"))
  let rc := commaSep ((sortBy (·.id) s.records).map (fun r => s!"{r.id}:{r.tp}:{bit r.canceled}"))
  let pr := commaSep ((sortBy (·.id) s.periodic).map (fun p => s!"{p.id}:{p.interval}:{p.next}:{bit p.canceled}"))
  let lf := match s.life with | .running => "R" | .draining => "D" | .stopped => "S"
  s!"heap={hp} rec={rc} per={pr} exec={s.executing} acc={bit s.accepting} life={lf}"

def parseKind (k : String) : Option Kind :=
  if k = "n" then some .normal
  else if k = "g" then some .gate
  else if k.startsWith "x" then (k.drop 1).toNat?.map .cancels
  else none

def kindOf (st : St) (id : Nat) : Kind :=
  match st.kinds.find? (·.1 == id) with
  | some (_, k) => k
  | none => .normal

/-- the loop thread runs collected handlers until the list is empty or a gate handler blocks -/
def runHandlers (st : St) : Nat → Svc → List String → Svc × List String
  | 0, s, ev => (s, ev)
  | f + 1, s, ev =>
    let r := hstart s
    match r.2 with
    | .none => (r.1, ev)
    | .skipped _ => runHandlers st f r.1 ev
    | .started h =>
      let ev1 := ev ++ [s!"s{h.id}"]
      match kindOf st h.id with
      | .gate => (r.1, ev1)
      | .normal => runHandlers st f (hend r.1) (ev1 ++ [s!"e{h.id}"])
      | .cancels j =>
        let c := cancel r.1 j
        runHandlers st f (hend c.1) (ev1 ++ [s!"c{j}={bit c.2}", s!"e{h.id}"])

/-- the drainer thread re-evaluates after every op (the harness forces a spurious wake-up there): predicate true ⇒ `drain` returns
success; else deadline reached ⇒ it times out and runs the restore section; else it keeps waiting -/
def settle (st : St) : St :=
  if st.dact && st.dres.isNone && st.s.dpc == .waiting then
    if drainPred st.s then { st with s := (drainDone st.s).1, dres := some "ok" }
    else if st.clk ≥ st.ddl then { st with s := drainRestore (drainTimeout st.s), dres := some "timeout" }
    else st
  else st

/-- an op's answer: `\x01` marks where the state is printed, AFTER the drainer has settled -/
def finish (r : St × String) : St × String :=
  if r.2 = "bad-op" || !r.1.live then r
  else
    let st := settle r.1
    (st, r.2.replace "\x01" (showState st.s))

def step0 (st : St) : List String → St × String
  | ["reset", a, b, c] =>
    match a.toNat?, b.toNat?, c.toInt? with
    | some a, some b, some c =>
      let st' : St := { L := ⟨a, b, c * 1000000⟩, live := true }
      (st', "ok \x01")
    | _, _, _ => (st, "bad-op")
  | ["clk", n] =>
    if !st.live then (st, "bad-op") else
    match n.toNat? with
    | some n => ({ st with clk := n }, "ok")
    | none => (st, "bad-op")
  | ["at", tp, k] =>
    if !st.live then (st, "bad-op") else
    match tp.toInt?, parseKind k with
    | some tp, some k =>
      let r := scheduleAt st.L st.s st.clk tp
      let st' := { st with s := r.1, kinds := (r.2, k) :: st.kinds }
      (st', s!"{r.2} \x01")
    | _, _ => (st, "bad-op")
  | ["per", iv, k] =>
    if !st.live then (st, "bad-op") else
    match iv.toInt?, parseKind k with
    | some iv, some k =>
      let r := schedulePeriodic st.L st.s st.clk iv
      let st' := { st with s := r.1, kinds := (r.2, k) :: st.kinds }
      (st', s!"{r.2} \x01")
    | _, _ => (st, "bad-op")
  | ["cancel", i] =>
    if !st.live then (st, "bad-op") else
    match i.toNat? with
    | some i => let r := cancel st.s i; ({ st with s := r.1 }, s!"{bit r.2} \x01")
    | none => (st, "bad-op")
  | ["wake"] =>
    if !st.live then (st, "bad-op") else
    if st.s.inflight.isSome then (st, "busy") else
    let c := collect st.s st.clk
    let r := runHandlers st (c.2.1.length + 1) c.1 []
    ({ st with s := r.1 }, s!"ev={commaSep r.2} \x01")
  | ["release"] =>
    if !st.live then (st, "bad-op") else
    match st.s.inflight with
    | none => (st, "idle")
    | some h =>
      let s1 := hend st.s
      let r := runHandlers st (s1.ready.length + 1) s1 [s!"e{h.id}"]
      ({ st with s := r.1 }, s!"ev={commaSep r.2} \x01")
  | ["inflight"] => if !st.live then (st, "bad-op") else (st, toString (liveCount st.s))
  | ["drain", ms] =>
    if !st.live then (st, "bad-op") else
    match ms.toNat? with
    | some ms =>
      if ms = 0 || ms > 5000 then (st, "bad-op")
      else if st.dact then (st, "d=busy \x01")
      else
        let g := drainGate st.s
        if !g.2 then ({ st with s := g.1 }, "d=refused \x01")
        else
          let s2 := drainSweep g.1 st.clk (ms * 1000000)
          if drainPred s2 then ({ st with s := (drainDone s2).1 }, "d=ok \x01")
          else ({ st with s := s2, dact := true, ddl := st.clk + ms * 1000000, dres := none }, "d=wait \x01")
    | none => (st, "bad-op")
  | ["dwait"] =>
    if !st.live then (st, "bad-op") else
    if !st.dact then (st, "d=none \x01")
    else match st.dres with
      | some r => ({ st with dact := false, dres := none }, s!"d={r} \x01")
      | none => (st, "d=blocked \x01")
  | _ => (st, "bad-op")

def step (st : St) (toks : List String) : St × String := finish (step0 st toks)

def main : IO Unit := runLines ({} : St) step

end Iora.Driver.Tsvc
