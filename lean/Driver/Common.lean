import IoraModel.Common.Bytes
/-! Line-protocol plumbing shared by all component drivers (DESIGN Appendix A.1). -/
namespace Iora.Driver
open Iora

partial def loop {σ : Type} (h : IO.FS.Stream) (out : IO.FS.Stream) (st : σ)
    (step : σ → List String → σ × String) : IO Unit := do
  let line ← h.getLine
  if line.isEmpty then
    out.flush
    return ()
  let toks := (line.trimAscii.toString.splitOn " ").filter (· ≠ "")
  let (st', o) := step st toks
  out.putStrLn o
  loop h out st' step

def runLines {σ : Type} (st : σ) (step : σ → List String → σ × String) : IO Unit := do
  let i ← IO.getStdin
  let o ← IO.getStdout
  loop i o st step

def bit (b : Bool) : String := if b then "1" else "0"
def parseBit (s : String) : Option Bool := if s = "1" then some true else if s = "0" then some false else none

end Iora.Driver
