import Driver.Common
import IoraModel.Model.ThreadPool
/-!
Acceptor for DetSched traces of the real `iora::core::ThreadPool` (C09).

Input: `reset …`, `body …`*, `main …` describe the case (`Cfg`); then one line per DetSched trace event
`ev <tid> <kind> <obj> <detail> <alt> [<tag> [<n>]]` (obj: m = `_mutex`, c = `_configMutex`, v = `_condition`, - = none).
For every event the acceptor checks that the model thread `tid` has exactly this operation pending, that it is
enabled, that the event's detail (created thread id, woken sleeper, number woken, join target, …) is what the
model computes, and performs `Iora.ThreadPool.step`.  Answer: `ok`, at harness yields `snap …` (projection of the
model state, compared with the snapshot the harness took of the real object in the same step), or `reject:<why>`.
`end` prints the per-submission outcome table.
-/
namespace Iora.Driver.Tp
open Iora.ThreadPool Iora.Driver

structure DSt where
  cfg : Cfg := default
  st : St := {}
  live : Bool := false
  dead : Option String := none

def parseMode : String → Option Mode
  | "e" => some .enq
  | "t" => some .tryEnq
  | "r" => some .withResult
  | _ => none

def parseAct (s : String) : Option Act :=
  match s.splitOn ":" with
  | [m, b] => do
    let m ← parseMode m
    let b ← b.toNat?
    pure { mode := m, body := b }
  | _ => none

def parseActs (s : String) : Option (List Act) :=
  if s = "-" then some [] else (s.splitOn ",").mapM parseAct

def parseMOp (s : String) : Option MOp :=
  match s.splitOn "=" with
  | ["a", a] => (parseAct a).map .act
  | ["s", l] => (parseActs l).map .spawnSub
  | ["j"] => some .joinSubs
  | ["d", n] => n.toNat?.map .drain
  | ["stop"] => some .stop
  | ["sd"] => some .shutdown
  | ["x"] => some .destroy
  | ["c", n] => n.toNat?.map .spawnCtl
  | ["rs"] => some .restart
  | _ => none

def lifeCode : Life → Nat
  | .created => 0 | .running => 1 | .draining => 2 | .stopped => 3 | .reset => 4

def snap (s0 : St) : String :=
  let s := s0.sh
  s!"snap q={s.tasks.length} w={s.threads.length} sd={bit s.shutdown} acc={bit s.accepting} life={lifeCode s.life} " ++
  s!"act={s.active} busy={s.busy} cr={s.created} ex={s.exited} wt={s.waiting} id={s.nextId} " ++
  s!"st={s.nStart} dn={s.nDone}"

/-- DetSched event kind and object class of the pending operation of an enqueue call -/
def pendingCall : CallSt → Char × Char
  | .yield_ _ => ('Y', '-')
  | .inCall _ _ .lock => ('L', 'm')
  | .inCall _ _ .create => ('C', '-')
  | .inCall _ _ .unlock => ('U', 'm')
  | .inCall _ _ .notify => ('N', 'v')
  | .inCall _ _ .unlockR => ('U', 'm')

/-- DetSched event kind and object class of the pending operation -/
def pending : Thread → Char × Char
  | .worker w =>
    match w with
    | .start => ('S', '-')
    | .lock => ('L', 'm')
    | .waitReady => ('W', 'v')
    | .asleep => ('-', '-')
    | .woken _ => ('R', 'm')
    | .detach => ('D', '-')
    | .unlockExit | .unlockCont | .unlockTask _ => ('U', 'm')
    | .popped _ | .bYield _ _ => ('Y', '-')
    | .body _ c => pendingCall c
    | .cfgLock _ _ => ('L', 'c')
    | .cfgUnlock _ _ => ('U', 'c')
    | .done => ('-', '-')
  | .sub s =>
    match s with
    | .start _ => ('S', '-')
    | .run c => pendingCall c
    | .done => ('-', '-')
  | .main pc _ =>
    match pc with
    | .start | .startAux => ('S', '-')
    | .mYield => ('Y', '-')
    | .inCall c => pendingCall c
    | .cL | .dInfL | .pollL _ | .finL _ | .sFlagL | .sChkL | .jL | .p5L | .rsL | .stL | .kL => ('L', 'm')
    | .p4CfgL => ('L', 'c')
    | .cC | .mSpawn _ | .mSpawnCtl _ | .kC => ('C', '-')
    | .cU | .dInfU | .pollU _ | .finU _ | .sFlagUA _ | .sFlagU | .sChkU | .jU _ | .jUnone | .p5U | .rsU | .stU | .kU => ('U', 'm')
    | .p4CfgU => ('U', 'c')
    | .sBcast => ('B', 'v')
    | .jDetach _ => ('D', '-')
    | .mJoin | .jJoin _ => ('J', '-')
    | .pollZ _ | .sGrace | .p2Z | .p2Grace | .sDoneZ _ => ('Z', '-')
    | .done => ('-', '-')

/-- the harness tag expected at a yield -/
def expectedTag : Thread → String
  | .worker (.popped _) => "tp:popped"
  | .worker (.bYield _ _) => "b"
  | .worker (.body _ (.yield_ _)) => "call"
  | .sub (.run (.yield_ _)) => "call"
  | .main .mYield _ => "m"
  | .main (.inCall (.yield_ _)) _ => "call"
  | _ => "?"

def pcName (th : Thread) : String := s!"{repr th}"

/-- checks of the event's detail against the model state *before* the step; `none` = consistent -/
def checkDetail (s : St) (t : Nat) (th : Thread) (kind : Char) (detail : Int) (alt : Nat) (tag : String) (n : Nat) : Option String :=
  match kind with
  | 'C' => if detail == Int.ofNat s.thr.length then none else some s!"created tid {detail} but the model creates {s.thr.length}"
  | 'N' =>
    if detail < 0 then (if anyAsleep s.thr then some "notify_one woke nobody but the model has a sleeper" else none)
    else match s.thr[detail.toNat]? with
      | some tj => if isAsleep tj && alt == detail.toNat then none else some s!"notify_one woke {detail}, not asleep in the model"
      | none => some "notify_one woke an unknown thread"
  | 'B' => if detail == Int.ofNat (countAsleep s.thr) then none else some s!"notify_all woke {detail}, model has {countAsleep s.thr} sleepers"
  | 'R' =>
    match wokenBy th with
    | some to => if to && detail != 1 then some s!"re-acquire after a time-out reported as not timed out" else none
    | none => some "re-acquire by a thread that is not woken"
  | 'J' =>
    let tgt := match th with
      | .main .mJoin r => r.subs.head?
      | .main (.jJoin w) _ => some w
      | _ => none
    if tgt == some detail.toNat ∧ detail ≥ 0 then none else some s!"join target {detail} vs model {repr tgt}"
  | 'D' =>
    let tgt := match th with
      | .worker .detach => some t
      | .main (.jDetach w) _ => some w
      | _ => none
    if tgt == some detail.toNat ∧ detail ≥ 0 then none else some s!"detach target {detail} vs model {repr tgt}"
  | 'Y' =>
    if expectedTag th != tag then some s!"yield tag {tag} at {pcName th}"
    else match th with
      | .worker (.bYield id _) => if id == n then none else some s!"body of task {n} started, model has {id} in hand"
      | .worker (.popped _) => none
      | .main .mYield _ => none
      | _ => if n == s.sh.nextId then none else some s!"call id {n} vs model {s.sh.nextId}"
  | 'L' =>
    match th with
    | .main .jL _ => if s.sh.threads = [] then none else
        (if alt ∈ s.sh.threads then none else some s!"join loop picked {alt}, not in the model's _threads")
    | _ => none
  | _ => none

def results (s0 : St) : String :=
  let s := s0.sh
  let one (i : Nat) : String :=
    let r := match s.result i with
      | .pending => "p" | .accepted => "a" | .refDraining => "d" | .refShutdown => "s" | .refFull => "f"
    let o := match s.outcome i with | none => "n" | some true => "x" | some false => "v"
    s!"{i}:{r}:{s.startCnt i}:{s.doneCnt i}:{o}:{s.handled i}"
  let l := (List.range s.nextId).map one
  s!"end quiesced={bit s.quiesced} mlog={",".intercalate ((s.mlog.mergeSort (· ≤ ·)).map toString)} " ++
  (if l.isEmpty then "-" else " ".intercalate l)

def doEvent (d : DSt) (t : Nat) (kind : Char) (obj : Char) (detail : Int) (alt : Nat) (tag : String) (n : Nat) : DSt × String :=
  let s := d.st
  match s.thr[t]? with
  | none => ({ d with dead := some "unknown thread" }, s!"reject:event of unknown thread {t}")
  | some th =>
    let fail (why : String) : DSt × String :=
      let flat := (why.replace "\n" " ")
      ({ d with dead := some flat }, s!"reject:T{t} {kind}: {flat}")
    match kind with
    | 'X' => if isFinished th then (d, "ok") else fail s!"thread exit at {pcName th}"
    | 'O' => if isAsleep th then ({ d with st := step d.cfg s (.timeout t) }, "ok") else fail "time-out of a thread that is not asleep"
    | 'P' => if isAsleep th then ({ d with st := step d.cfg s (.spurious t) }, "ok") else fail "spurious wake-up of a thread that is not asleep"
    | _ =>
      let (pk, po) := pending th
      if pk != kind ∨ po != obj then fail s!"model has {pk}{po} pending at {pcName th}"
      else
        let en := match wokenBy th with
          | some _ => s.sh.owner.isNone
          | none => !isAsleep th && !isFinished th && enabled s th
        if !en then fail s!"operation not enabled in the model at {pcName th}"
        else match checkDetail s t th kind detail alt tag n with
          | some why => fail why
          | none =>
            let s' := step d.cfg s (.run t alt)
            ({ d with st := s' }, if kind == 'Y' then snap s else "ok")

def parseInt (s : String) : Option Int :=
  if s.startsWith "-" then (s.drop 1).toNat?.map (fun n => - Int.ofNat n) else s.toNat?.map Int.ofNat

def step (d : DSt) : List String → DSt × String
  | ["reset", i, m, q, mode, hook] =>
    -- mode: 0 IMMEDIATE, 1 GRACEFUL (same code path as IMMEDIATE), 2 DETACHED
    match i.toNat?, m.toNat?, q.toNat?, mode.toNat?, parseBit hook with
    | some i, some m, some q, some mode, some hook =>
      if mode > 2 then (d, "bad-op") else
      ({ cfg := { initialSize := i, maxSize := m, maxQueue := q, detached := mode == 2, hook := hook, bodies := [], main := [], allowRestart := true } }, "ok")
    | _, _, _, _, _ => (d, "bad-op")
  | ["body", thr, acts] =>
    -- thr: 0 returns, 1 throws, 2 throws and the error handler throws at its first invocation
    match thr.toNat?, parseActs acts with
    | some thr, some acts =>
      if thr > 2 then (d, "bad-op") else
      ({ d with cfg := { d.cfg with bodies := d.cfg.bodies ++ [{ acts := acts, throws := thr != 0, hthrow := thr == 2 }] } }, "ok")
    | _, _ => (d, "bad-op")
  | "ctl" :: ops =>
    match ops.mapM parseMOp with
    | some ops => ({ d with cfg := { d.cfg with ctls := d.cfg.ctls ++ [ops] } }, "ok")
    | none => (d, "bad-op")
  | "main" :: ops =>
    match ops.mapM parseMOp with
    | some ops =>
      let cfg := { d.cfg with main := ops }
      -- every body index used anywhere must exist
      let okAct (a : Act) : Bool := a.body < cfg.bodies.length
      let okM : MOp → Bool
        | .act a => okAct a
        | .spawnSub sc => sc.all okAct
        | .spawnCtl ix => ix < cfg.ctls.length
        | _ => true
      if ops.all okM && cfg.ctls.all (fun l => l.all okM) && cfg.bodies.all (fun b => b.acts.all okAct) then
        ({ cfg := cfg, st := init cfg, live := true }, "ok")
      else (d, "bad-case")
    | none => (d, "bad-op")
  | "ev" :: t :: kind :: obj :: detail :: alt :: rest =>
    if !d.live then (d, "bad-op") else
    match d.dead with
    | some _ => (d, "dead")
    | none =>
      match t.toNat?, parseInt detail, alt.toNat?, kind.toList, obj.toList with
      | some t, some detail, some alt, [k], [o] =>
        let tag := rest.head?.getD ""
        let n := ((rest.drop 1).head?.bind String.toNat?).getD 0
        doEvent d t k o detail alt tag n
      | _, _, _, _, _ => (d, "bad-op")
  | ["end"] => (d, match d.dead with | some w => s!"end dead:{w}" | none => results d.st)
  | _ => (d, "bad-op")

def main : IO Unit := runLines ({} : DSt) step

end Iora.Driver.Tp
