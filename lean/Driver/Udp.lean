import Driver.Common
import IoraModel.Model.UdpEngine
/-! Line-protocol driver of the UDP engine model (component `udp`, property C06). See harness/c06_udp.cpp for the op grammar. -/
namespace Iora.Driver.Udp
open Iora Iora.Udp Iora.Driver

/-- CRC-32 (IEEE, reflected), bitwise; only used to print payload fingerprints -/
def crcByte (c : UInt32) (b : UInt8) : UInt32 :=
  let c0 := c ^^^ b.toUInt32
  let f := fun (c : UInt32) => if c &&& 1 = 1 then (c >>> 1) ^^^ 0xEDB88320 else c >>> 1
  f (f (f (f (f (f (f (f c0)))))))

def crc32 (bs : Bytes) : UInt32 := (bs.foldl crcByte 0xFFFFFFFF) ^^^ 0xFFFFFFFF

def fp (bs : Bytes) : String := s!"{bs.length}:{(crc32 bs).toNat}"

/-- payload token `<len>.<hexpattern>`: the pattern repeated cyclically up to `len` bytes -/
def cyc (pat : Bytes) (n : Nat) : Bytes := Id.run do
  let arr := pat.toArray
  let m := arr.size
  if m = 0 then return []
  let mut out : Array UInt8 := Array.mkEmpty n
  for i in [0:n] do
    out := out.push (arr[i % m]!)
  return out.toList

def parsePayload (s : String) : Option Bytes :=
  match s.splitOn "." with
  | [l, hx] =>
    match l.toNat?, ofHex hx with
    | some n, some pat => if n = 0 then some [] else if pat.isEmpty then none else some (cyc pat n)
    | _, _ => none
  | _ => none

def parseAns (s : String) : Option Ans :=
  if s = "ok" then some .ok else if s = "eagain" then some .eagain else if s = "err" then some .err else none

def parseScript (s : String) : Option (List Ans) :=
  if s = "-" then some [] else
  s.toList.mapM (fun c => if c = 'o' then some Ans.ok else if c = 'e' then some .eagain else if c = 'x' then some .err else none)

def showWhy : Why → String
  | .unknown => "unknown" | .gc => "gc" | .backpressure => "backpressure" | .socket => "socket" | .config => "config"

def showSrc : Src → String
  | .lst l => s!"L{l}" | .cli s => s!"C{s}"

def showOut : Out → String
  | .sent src d b _ => s!"S{showSrc src}>{d}:{fp b}"
  | .accept sid a => s!"A{sid}@{a}"
  | .connected sid a => s!"N{sid}@{a}"
  | .data sid b => s!"D{sid}:{fp b}"
  | .closed sid w => s!"X{sid}:{showWhy w}"
  | .error => "E"
  | .nullDeref => "NULLDEREF"

/-- the close events of one GC run come in hash order in C++: both sides sort them (they are consecutive) -/
def showOuts (os : List Out) : String :=
  if os.isEmpty then "-" else ";".intercalate (os.map showOut)

structure St where
  cfg : Cfg := {}
  st : State := {}
  /-- the addresses ever used (for printing the peer index) -/
  addrs : Nat := 16
  /-- number of model inputs so far (the ghost token handed to `step`) -/
  n : Nat := 0

def showState (s : St) : String :=
  let st := s.st
  let ix := (List.range s.addrs).filterMap (fun a => (st.peerIndex a).map (fun sid => s!"{a}>{sid}"))
  let ss := (List.range st.nextSid).filterMap (fun sid => (st.sessions sid).map (fun x =>
    match x.role with
    | .client => s!"{sid}c@{x.peer}:{x.wq.length}:{bit x.wantWrite}"
    | .serverPeer => s!"{sid}p@{x.peer}/{x.owner}"))
  let ls := (List.range st.nextLid).filterMap (fun lid => (st.listeners lid).map (fun l => s!"L{lid}:{l.wq.length}:{bit l.wantWrite}"))
  s!"n={st.sessionsCurrent} ix={",".intercalate ix} s={",".intercalate ss} l={",".intercalate ls}"

def doStep (s : St) (i : In) : St × String :=
  let r := Iora.Udp.step s.cfg s.n s.st i
  let s' := { s with st := r.1, n := s.n + 1 }
  (s', s!"{showOuts r.2} | {showState s'}")

def parseKV (cfg : Cfg) (kv : String) : Option Cfg :=
  match kv.splitOn "=" with
  | [k, v] =>
    match v.toNat? with
    | none => none
    | some n =>
      if k = "ms" then some { cfg with maxSessions := n }
      else if k = "wq" then some { cfg with maxWriteQueue := n }
      else if k = "cob" then some { cfg with closeOnBackpressure := n != 0 }
      else if k = "idle" then some { cfg with idleTimeoutMs := n * 1000 }
      else if k = "age" then some { cfg with maxConnAgeMs := n * 1000 }
      else if k = "stall" then some { cfg with writeStallTimeoutMs := n }
      else if k = "chunk" then some { cfg with ioReadChunk := n }
      else if k = "batch" || k = "et" then some cfg       -- event-loop flavour: no effect on the model
      else none
  | _ => none

def parseDgs (s : String) : Option (List (Addr × Bytes)) :=
  (s.splitOn ",").mapM (fun t =>
    match t.splitOn ":" with
    | [p, pl] =>
      match p.toNat?, parsePayload pl with
      | some a, some b => some (a, b)
      | _, _ => none
    | _ => none)

def step (s : St) : List String → St × String
  | "reset" :: kvs =>
    match kvs.foldlM parseKV ({} : Cfg) with
    | some cfg => ({ cfg := cfg }, "ok")
    | none => (s, "bad-op")
  | ["listen"] =>
    let lid := s.st.nextLid
    let r := doStep s .listen
    (r.1, s!"L{lid} | {showState r.1}")
  | ["dg", lid, dgs] =>
    match lid.toNat?, parseDgs dgs with
    | some l, some ds => doStep s (.recvFrom l ds)
    | _, _ => (s, "bad-op")
  | ["cdg", sid, pls] =>
    match sid.toNat?, (pls.splitOn ",").mapM parsePayload with
    | some i, some ds => doStep s (.clientRecv i ds)
    | _, _ => (s, "bad-op")
  | ["connect", p] =>
    match p.toNat? with
    | some a => doStep s (.connect a)
    | none => (s, "bad-op")
  | ["via", lid, p] =>
    match lid.toNat?, p.toNat? with
    | some l, some a => doStep s (.via l a)
    | _, _ => (s, "bad-op")
  | ["close", sid] =>
    match sid.toNat? with
    | some i => doStep s (.close i)
    | none => (s, "bad-op")
  | ["send", sid, pl, ans] =>
    match sid.toNat?, parsePayload pl, parseAns ans with
    | some i, some b, some a => doStep s (.cmdSend i b a)
    | _, _, _ => (s, "bad-op")
  | ["wl", lid, sc] =>
    match lid.toNat?, parseScript sc with
    | some l, some as => doStep s (.writableL l as)
    | _, _ => (s, "bad-op")
  | ["wc", sid, sc] =>
    match sid.toNat?, parseScript sc with
    | some i, some as => doStep s (.writableC i as)
    | _, _ => (s, "bad-op")
  | ["adv", ms] =>
    match ms.toNat? with
    | some n => doStep s (.advance n)
    | none => (s, "bad-op")
  | ["gc"] => doStep s .gc
  | ["restart"] => doStep s .restart
  | _ => (s, "bad-op")

def main : IO Unit := runLines ({} : St) step

end Iora.Driver.Udp
