import Driver.Common
import IoraModel.Model.UdpWake
/-! Line-protocol driver of the UDP engine model (component `udp`, property C06). See harness/c06_udp.cpp for the op grammar. -/
namespace Iora.Driver.Udp
open Iora Iora.Udp Iora.Driver

/-- CRC-32 (IEEE, reflected), bitwise; only used to print payload fingerprints -/
def crcByte (c : UInt32) (b : UInt8) : UInt32 :=
  let c0 := c ^^^ b.toUInt32
  let f := fun (c : UInt32) => if c &&& 1 = 1 then (c >>> 1) ^^^ 0xEDB88320 else c >>> 1
  f (f (f (f (f (f (f (f c0)))))))

def crc32 (bs : Bytes) : UInt32 := (bs.foldl crcByte 0xFFFFFFFF) ^^^ 0xFFFFFFFF

def fp (bs : Bytes) : String := s!"{bs.length}:{(crc32 bs).toNat}"

/-- payload token `<len>.<hexpattern>`: the pattern repeated cyclically up to `len` bytes -/
def cyc (pat : Bytes) (n : Nat) : Bytes := Id.run do
  let arr := pat.toArray
  let m := arr.size
  if m = 0 then return []
  let mut out : Array UInt8 := Array.mkEmpty n
  for i in [0:n] do
    out := out.push (arr[i % m]!)
  return out.toList

def parsePayload (s : String) : Option Bytes :=
  match s.splitOn "." with
  | [l, hx] =>
    match l.toNat?, ofHex hx with
    | some n, some pat => if n = 0 then some [] else if pat.isEmpty then none else some (cyc pat n)
    | _, _ => none
  | _ => none

def parseAns (s : String) : Option Ans :=
  if s = "ok" then some .ok else if s = "eagain" then some .eagain else if s = "err" then some .err else none

def parseScript (s : String) : Option (List Ans) :=
  if s = "-" then some [] else
  s.toList.mapM (fun c => if c = 'o' then some Ans.ok else if c = 'e' then some .eagain else if c = 'x' then some .err else none)

def showWhy : Why → String
  | .unknown => "unknown" | .gc => "gc" | .backpressure => "backpressure" | .socket => "socket" | .config => "config"

def showSrc : Src → String
  | .lst l => s!"L{l}" | .cli s => s!"C{s}"

def showOut : Out → String
  | .sent src d b _ => s!"S{showSrc src}>{d}:{fp b}"
  | .accept sid a => s!"A{sid}@{a}"
  | .connected sid a => s!"N{sid}@{a}"
  | .data sid b => s!"D{sid}:{fp b}"
  | .closed sid w => s!"X{sid}:{showWhy w}"
  | .error => "E"
  | .nullDeref => "NULLDEREF"

/-- the close events of one GC run come in hash order in C++: both sides sort them (they are consecutive) -/
def closedSid : Out → Option Nat
  | .closed sid _ => some sid
  | _ => none

/-- insert a close event into a run of close events sorted by session id -/
def insClose (o : Out) (k : Nat) : List Out → List Out
  | [] => [o]
  | x :: xs => match closedSid x with
    | some j => if k < j then o :: x :: xs else x :: insClose o k xs
    | none => o :: x :: xs

/-- sort every run of consecutive close events by session id (GC / shutdown close in hash order in C++; the harness does the same) -/
def sortCloseRuns : List Out → List Out
  | [] => []
  | o :: os =>
    let rest := sortCloseRuns os
    match closedSid o with
    | some k => insClose o k rest
    | none => o :: rest

def showOuts (os : List Out) : String :=
  if os.isEmpty then "-" else ";".intercalate ((sortCloseRuns os).map showOut)

structure St where
  /-- engine configuration + epoll mode + the shapes of the two receive loops: every default comes from `Gen/Udp.lean` (`WCfg`) -/
  w : WCfg := { cfg := { mapped := fun a => decide (10 ≤ a ∧ a < 17) } }     -- address ids 10…16 = v4-mapped forms (harness convention)
  /-- engine state + the kernel receive queues of the sockets -/
  ws : WState := {}
  /-- the addresses ever used (for printing the peer index) -/
  addrs : Nat := 20
  /-- number of model inputs so far (the ghost token handed to `step`) -/
  n : Nat := 0
  /-- `batching.enabled`: which loop flavour orders an epoll batch -/
  batched : Bool := false
  /-- dual-stack listeners ("::"): an IPv4 peer `p` appears there under its v4-mapped address, id `10 + p` -/
  dual : List Nat := []

def showState (s : St) : String :=
  let st := s.ws.st
  let ix := (List.range s.addrs).filterMap (fun a => (st.peerIndex a).map (fun sid => s!"{a}>{sid}"))
  let ss := (List.range st.nextSid).filterMap (fun sid => (st.sessions sid).map (fun x =>
    match x.role with
    | .client => s!"{sid}c@{x.peer}:{x.wq.length}:{bit x.wantWrite}:{bit x.armIn}{bit x.armOut}"
    | .serverPeer => s!"{sid}p@{x.peer}/{x.owner}"))
  let ls := (List.range st.nextLid).filterMap (fun lid => (st.listeners lid).map (fun l => s!"L{lid}:{l.wq.length}:{bit l.wantWrite}:{bit l.armIn}{bit l.armOut}"))
  s!"n={st.sessionsCurrent} ix={",".intercalate ix} s={",".intercalate ss} l={",".intercalate ls}"

def runIns (s : St) : List WIn → St × List Out
  | [] => (s, [])
  | i :: is =>
    let r := Iora.Udp.wstep s.w s.n s.ws i
    let r2 := runIns { s with ws := r.1, n := s.n + 1 } is
    (r2.1, r.2 ++ r2.2)

/-- further `epoll_wait` rounds without a new arrival for one socket, while something is queued there (at most `fuel` rounds): a
level-triggered socket is reported again and again until its queue is empty, an edge-triggered one is not reported at all -/
def pollSock (s : St) (sock : Src) : Nat → St × List Out
  | 0 => (s, [])
  | fuel + 1 =>
    let queued := match sock with
      | .lst l => !(s.ws.lq l).isEmpty
      | .cli i => !(s.ws.cq i).isEmpty
    if s.w.et || !queued then (s, [])
    else
      let r := runIns s [match sock with | .lst l => WIn.arriveL l [] | .cli i => WIn.arriveC i []]
      let r2 := pollSock r.1 sock fuel
      (r2.1, r.2 ++ r2.2)

def pollSocks (s : St) : List Src → St × List Out
  | [] => (s, [])
  | k :: ks =>
    let n := match k with | .lst l => (s.ws.lq l).length | .cli i => (s.ws.cq i).length
    let r := pollSock s k n
    let r2 := pollSocks r.1 ks
    (r2.1, r.2 ++ r2.2)

/-- run the inputs of one op, then (level-triggered only) the re-reports of the sockets the op delivered EPOLLIN for -/
def doStepsP (s : St) (is : List WIn) (socks : List Src) : St × String :=
  let r := runIns s is
  let r2 := pollSocks r.1 socks
  (r2.1, s!"{showOuts (r.2 ++ r2.2)} | {showState r2.1}")

def doSteps (s : St) (is : List WIn) : St × String := doStepsP s is []

def doStep (s : St) (i : In) : St × String := doSteps s [.io i]

/-- peers 0–6 are IPv4 sockets (127.0.0.1 / 127.0.0.2), peers 7… are IPv6 (::1) — the harness's convention -/
def peerV6 (p : Nat) : Bool := p ≥ 7

def parseKV (cfg : Cfg) (kv : String) : Option Cfg :=
  match kv.splitOn "=" with
  | [k, v] =>
    match v.toNat? with
    | none => none
    | some n =>
      if k = "ms" then some { cfg with maxSessions := n }
      else if k = "wq" then some { cfg with maxWriteQueue := n }
      else if k = "cob" then some { cfg with closeOnBackpressure := n != 0 }
      else if k = "idle" then some { cfg with idleTimeoutMs := n * 1000 }
      else if k = "age" then some { cfg with maxConnAgeMs := n * 1000 }
      else if k = "stall" then some { cfg with writeStallTimeoutMs := n }
      else if k = "chunk" then some { cfg with ioReadChunk := n }
      else if k = "batch" || k = "et" then some cfg       -- event-loop flavour: `batch` orders multi-event batches, `et` sets `WCfg.et` (see `step`)
      else none
  | _ => none

/-- one item of a `dg` op: `<peer>:<payload>` or `<peer>:<payload>!` (key() fails for this datagram) -/
def parseDgs (s : String) : Option (List (Addr × Bytes × Bool)) :=
  (s.splitOn ",").mapM (fun t0 =>
    let bad := t0.endsWith "!"
    let t := if bad then (t0.dropRight 1) else t0
    match t.splitOn ":" with
    | [p, pl] =>
      match p.toNat?, parsePayload pl with
      | some a, some b => some (a, b, bad)
      | _, _ => none
    | _ => none)

/-- the model inputs of one `recvfrom` loop: maximal runs of datagrams with a good key, one `recvKeyFail` per datagram whose key() fails
(an empty datagram makes no key() call at all) -/
def dgInputs (dual : Bool) (lid : Nat) : List (Addr × Bytes × Bool) → List (Addr × Bytes) → List WIn
  | [], acc => if acc.isEmpty then [] else [.arriveL lid acc.reverse]
  | (p, b, bad) :: rest, acc =>
    let a := if dual && p < 7 then p + 10 else p
    if bad && !b.isEmpty then
      (if acc.isEmpty then [] else [WIn.arriveL lid acc.reverse]) ++ WIn.io (In.recvKeyFail lid 1) :: dgInputs dual lid rest []
    else dgInputs dual lid rest ((a, b) :: acc)

def parseCmd : List String → Option In
  | ["connect", p] => p.toNat?.map (fun a => In.connect a (peerV6 a))
  | ["via", lid, p] =>
    match lid.toNat?, p.toNat? with
    | some l, some a => some (.via l a (peerV6 a))
    | _, _ => none
  | ["via", lid, _, "!"] => lid.toNat?.map In.viaKeyFail
  | ["close", sid] => sid.toNat?.map In.close
  | ["send", sid, pl, ans] =>
    match sid.toNat?, parsePayload pl, parseAns ans with
    | some i, some b, some a => some (.cmdSend i b a)
    | _, _, _ => none
  | _ => none

/-- split a token list at a separator token -/
def splitAt (sep : String) : List String → List (List String)
  | [] => [[]]
  | t :: ts =>
    match splitAt sep ts with
    | [] => [[t]]
    | g :: gs => if t = sep then [] :: g :: gs else (t :: g) :: gs

/-- one event of an epoll batch: the socket it is about (`none` = a special descriptor), whether it is EPOLLOUT, the model inputs -/
structure BEv where
  sock : Option Src
  out : Bool
  ins : List WIn

def parseEv (dual : List Nat) : List String → Option BEv
  | ["dg", lid, dgs] =>
    match lid.toNat?, parseDgs dgs with
    | some l, some ds => some ⟨some (.lst l), false, dgInputs (dual.contains l) l ds []⟩
    | _, _ => none
  | ["cdg", sid, pls] =>
    match sid.toNat?, (pls.splitOn ",").mapM parsePayload with
    | some i, some ds => some ⟨some (.cli i), false, [.arriveC i ds]⟩
    | _, _ => none
  | ["wl", lid, sc] =>
    match lid.toNat?, parseScript sc with
    | some l, some as => some ⟨some (.lst l), true, [.io (.writableL l as)]⟩
    | _, _ => none
  | ["wc", sid, sc] =>
    match sid.toNat?, parseScript sc with
    | some i, some as => some ⟨some (.cli i), true, [.io (.writableC i as)]⟩
    | _, _ => none
  | ["gc"] => some ⟨none, false, [.io .gc]⟩
  | "cmds" :: rest => ((splitAt "/" rest).mapM parseCmd).map (fun is => ⟨none, false, is.map WIn.io⟩)
  | _ => none

/-- is the event's interest armed in state `st` (what the kernel looks at when it builds the batch)? -/
def armedAt (st : State) (e : BEv) : Bool :=
  match e.sock with
  | none => true
  | some (.lst l) => match st.listeners l with
    | some x => if e.out then x.armOut else x.armIn
    | none => false
  | some (.cli i) => match st.sessions i with
    | some x => x.role == .client && (if e.out then x.armOut else x.armIn)
    | none => false

/-- epoll reports ONE event per descriptor: EPOLLIN and EPOLLOUT of the same socket are handled together, IN first
(`onListener` / `onClient`), at the position of the first of them -/
partial def mergeSame : List BEv → List BEv
  | [] => []
  | e :: es =>
    let same := es.filter (fun x => x.sock.isSome && x.sock == e.sock)
    let rest := es.filter (fun x => !(x.sock.isSome && x.sock == e.sock))
    let grp := e :: same
    (grp.filter (fun x => !x.out) ++ grp.filter (fun x => x.out)) ++ mergeSame rest

def step (s : St) : List String → St × String
  | "reset" :: kvs =>
    match kvs.foldlM parseKV ({ mapped := fun a => decide (10 ≤ a ∧ a < 17) } : Cfg) with
    | some cfg =>
      -- `et=` overrides `TransportConfig::useEdgeTriggered`; without it the translated default (`WCfg.et`) applies
      let w0 : WCfg := { cfg := cfg }
      let w : WCfg := if kvs.contains "et=0" then { w0 with et := false } else if kvs.contains "et=1" then { w0 with et := true } else w0
      ({ w := w, batched := kvs.contains "batch=1", addrs := 20 }, "ok")
    | none => (s, "bad-op")
  | ["listen"] =>
    let lid := s.ws.st.nextLid
    let r := doStep s (.listen false)
    (r.1, s!"L{lid} | {showState r.1}")
  | ["listen6"] =>
    let lid := s.ws.st.nextLid
    let r := doStep s (.listen true)
    (r.1, s!"L{lid} | {showState r.1}")
  | ["listenD"] =>
    let lid := s.ws.st.nextLid
    let r := doStep { s with dual := lid :: s.dual } (.listen true)
    (r.1, s!"L{lid} | {showState r.1}")
  | ["via", lid, _, "!"] =>
    match lid.toNat? with
    | some l => doStep s (.viaKeyFail l)
    | none => (s, "bad-op")
  | "multi" :: rest =>
    match (splitAt ";" rest).mapM (parseEv s.dual) with
    | none => (s, "bad-op")
    | some evs =>
      let armed := evs.filter (armedAt s.ws.st)
      let ordered := batchOrder (fun (e : BEv) => e.sock.isNone) s.batched (mergeSame armed)
      doStepsP s (ordered.flatMap (·.ins)) ((ordered.filter (fun e => !e.out)).filterMap (·.sock))
  | ["dg", lid, dgs] =>
    match lid.toNat?, parseDgs dgs with
    | some l, some ds => doStepsP s (dgInputs (s.dual.contains l) l ds []) [.lst l]
    | _, _ => (s, "bad-op")
  | ["cdg", sid, pls] =>
    match sid.toNat?, (pls.splitOn ",").mapM parsePayload with
    | some i, some ds => doStepsP s [.arriveC i ds] [.cli i]
    | _, _ => (s, "bad-op")
  | ["connect", p] =>
    match p.toNat? with
    | some a => doStep s (.connect a (peerV6 a))
    | none => (s, "bad-op")
  | ["via", lid, p] =>
    match lid.toNat?, p.toNat? with
    | some l, some a => doStep s (.via l a (peerV6 a))
    | _, _ => (s, "bad-op")
  | ["close", sid] =>
    match sid.toNat? with
    | some i => doStep s (.close i)
    | none => (s, "bad-op")
  | ["send", sid, pl, ans] =>
    match sid.toNat?, parsePayload pl, parseAns ans with
    | some i, some b, some a => doStep s (.cmdSend i b a)
    | _, _, _ => (s, "bad-op")
  | ["wl", lid, sc] =>
    match lid.toNat?, parseScript sc with
    | some l, some as => doStep s (.writableL l as)
    | _, _ => (s, "bad-op")
  | ["wc", sid, sc] =>
    match sid.toNat?, parseScript sc with
    | some i, some as => doStep s (.writableC i as)
    | _, _ => (s, "bad-op")
  | ["adv", ms] =>
    match ms.toNat? with
    | some n => doStep s (.advance n)
    | none => (s, "bad-op")
  | ["gc"] => doStep s .gc
  | ["restart"] => doStep s .restart
  | "restart" :: rest =>
    -- `restart <cmd> / …`: the commands sit in front of the Shutdown command in the batch `process()` takes; `restart @<sid> <cmd> / …`:
    -- `close <sid>` is in that batch and the commands are enqueued by its onClose callback (only if `sid` is open: otherwise no callback),
    -- i.e. they are run by the leading `process()` of `shutdownDrain` — in both cases: the commands in order, then the drain
    let (hook, toks) : Option Nat × List String := match rest with
      | h :: tl => if h.startsWith "@" then ((h.drop 1).toNat?, tl) else (none, rest)
      | [] => (none, [])
    match (splitAt "/" toks).mapM parseCmd with
    | none => (s, "bad-op")
    | some cmds =>
      if cmds.any (fun c => match c with | .cmdSend .. => false | .close _ => false | _ => true) then (s, "bad-op")
      else match rest.head? with
        | some h =>
          if h.startsWith "@" then
            match hook with
            | none => (s, "bad-op")
            | some sid =>
              let fires := (s.ws.st.sessions sid).isSome
              doSteps s ((WIn.io (.close sid) :: (if fires then cmds.map WIn.io else [])) ++ [WIn.io .restart])
          else doSteps s (cmds.map WIn.io ++ [WIn.io .restart])
        | none => (s, "bad-op")
  | _ => (s, "bad-op")

def main : IO Unit := runLines ({} : St) step

end Iora.Driver.Udp
