import Driver.Common
import IoraModel.Model.RingBuffer
import IoraModel.Model.BlockingQueue
import IoraModel.Model.RingSpsc
import IoraModel.Model.RingThrow
/-! Driver for C10 (`iora_model queues`): sequential ring ops (`ring …`), blocking-queue ops (`bq …`) and replay of
DetSched schedules through the monitor model (`bq replay …`). -/
namespace Iora.Driver.Queues
open Iora Iora.Driver

structure St where
  ring : Ring.Ring Nat := Ring.mkStatic 0 1
  ringT : Ring.Ring RingT.Cell := Ring.mkStatic none 1
  dynT : Bool := false
  dynamic : Bool := false
  bq : Option (Monitor.State BQ.Data BQ.Loc) := none
  spsc : Spsc.S := { pTodo := [], qTodo := [] }
  spscCfg : Spsc.Cfg := { C := 1, pAcq := true, qAcq := true, pRel := true, qRel := true }

def parseList (s : String) : Option (List Nat) :=
  if s = "-" then some [] else (s.splitOn ",").mapM (·.toNat?)

def showList (xs : List Nat) : String :=
  if xs.isEmpty then "-" else ",".intercalate (xs.map toString)

def tailOf (r : Ring.Ring Nat) : String := s!" | h={r.head.toNat} t={r.tail.toNat}"

def isPow2 (n : Nat) : Bool := n > 0 && (n &&& (n - 1)) == 0

/-- the `RingBuffer<uint64_t, N>` instantiations the harness has -/
def staticCap (n : Nat) : Bool := (isPow2 n && n ≤ 64) || n == 128 || n == 1024 || n == 65536

def u64? (s : String) : Option UInt64 :=
  match s.toNat? with
  | some n => if n < 2 ^ 64 then some (UInt64.ofNat n) else none
  | none => none

def ringStep (st : St) : List String → St × String
  | ["new", "s", c] =>
    match c.toNat? with
    | some n => if staticCap n then ({ ring := Ring.mkStatic 0 (UInt64.ofNat n), dynamic := false }, s!"ok cap={n}") else (st, "bad-op")
    | none => (st, "bad-op")
  | ["new", "d", c] =>
    match u64? c with
    | some n => let r := Ring.mkDynamic 0 n; ({ ring := r, dynamic := true }, s!"ok cap={r.cap.toNat}")
    | none => (st, "bad-op")
  | ["npot", n] =>
    match u64? n with
    | some n => (st, toString (Ring.nextPowerOfTwo n).toNat)
    | none => (st, "bad-op")
  | ["seed", b] =>
    match u64? b with
    | some n => ({ st with ring := { st.ring with head := n, tail := n } }, "ok")
    | none => (st, "bad-op")
  | ["push", v] | ["pushm", v] =>
    match v.toNat? with
    | some x => let (b, r) := Ring.tryPush st.ring x; ({ st with ring := r }, bit b ++ tailOf r)
    | none => (st, "bad-op")
  | ["pop"] =>
    let (o, r) := Ring.tryPop st.ring
    ({ st with ring := r }, (match o with | some x => s!"1 {x}" | none => "0") ++ tailOf r)
  | ["peek"] =>
    (st, (match Ring.peek st.ring with | some x => s!"1 {x}" | none => "0") ++ tailOf st.ring)
  | ["pushb", l] =>
    match parseList l with
    | some xs => let (n, r) := Ring.tryPushBatch st.ring xs; ({ st with ring := r }, toString n ++ tailOf r)
    | none => (st, "bad-op")
  | ["popb", n] =>
    match n.toNat? with
    | some n => let (xs, r) := Ring.tryPopBatch st.ring n; ({ st with ring := r }, s!"{xs.length} {showList xs}" ++ tailOf r)
    | none => (st, "bad-op")
  | ["size"] => (st, toString (Ring.size st.ring).toNat ++ tailOf st.ring)
  | ["empty"] => (st, bit (Ring.empty st.ring) ++ tailOf st.ring)
  | ["full"] => (st, bit (Ring.full st.ring) ++ tailOf st.ring)
  | ["capacity"] => (st, toString (Ring.capacity st.ring).toNat ++ tailOf st.ring)
  | ["clear"] => let r := Ring.clear st.ring; ({ st with ring := r }, "ok" ++ tailOf r)
  | ["resize", n] =>
    if !st.dynamic then (st, "bad-op") else
    match u64? n with
    | some n => let (d, r) := Ring.resize st.ring n; ({ st with ring := r }, s!"{d.toNat} cap={r.cap.toNat}" ++ tailOf r)
    | none => (st, "bad-op")
  | _ => (st, "bad-op")

/-! ### rings of a throwing element type (`ringt …`, Model/RingThrow.lean) -/
def showCell : RingT.Cell → String
  | some x => toString x
  | none => "M"

def showCells (xs : List RingT.Cell) : String :=
  if xs.isEmpty then "-" else ",".intercalate (xs.map showCell)

def tailT (r : Ring.Ring RingT.Cell) : String :=
  let n := (r.head - r.tail).toNat
  s!" | h={r.head.toNat} t={r.tail.toNat} w={if n > 64 then "?" else showCells (Ring.readFrom r r.tail n)}"

def armOf (s : String) : Option Nat := if s.startsWith "@" then (s.drop 1).toNat? else none

def showRes (r : Ring.Ring RingT.Cell) : RingT.Res → (Ring.Out RingT.Cell → String) → String
  | .ok o, f => f o ++ tailT r
  | .threw k got, _ => s!"throw {k}" ++ (if got.isEmpty then "" else " " ++ showCells got) ++ tailT r

def ringtOp (st : St) (arm : Nat) : List String → St × String
  | ["push", v] | ["pushm", v] =>
    match v.toNat? with
    | some x => let (r, res) := RingT.tryPush st.ringT arm (some x)
                ({ st with ringT := r }, showRes r res (fun o => match o with | .bool b => bit b | _ => "?"))
    | none => (st, "bad-op")
  | ["pop"] =>
    let (r, res) := RingT.tryPop st.ringT arm
    ({ st with ringT := r }, showRes r res (fun o => match o with | .item (some c) => "1 " ++ showCell c | _ => "0"))
  | ["peek"] =>
    let (r, res) := RingT.peek st.ringT arm
    ({ st with ringT := r }, showRes r res (fun o => match o with | .item (some c) => "1 " ++ showCell c | _ => "0"))
  | ["pushb", l] =>
    match parseList l with
    | some xs => let (r, res) := RingT.tryPushBatch st.ringT arm (xs.map some)
                 ({ st with ringT := r }, showRes r res (fun o => match o with | .count n => toString n | _ => "?"))
    | none => (st, "bad-op")
  | ["popb", n] =>
    match n.toNat? with
    | some n => if n > 4096 then (st, "bad-op") else
                let (r, res) := RingT.tryPopBatch st.ringT arm n
                ({ st with ringT := r }, showRes r res (fun o => match o with | .items xs => s!"{xs.length} {showCells xs}" | _ => "?"))
    | none => (st, "bad-op")
  | ["resize", n] =>
    if !st.dynT then (st, "bad-op") else
    match n.toNat? with
    | some n => if n > 4096 then (st, "bad-op") else
                let (r, res) := RingT.resize st.ringT arm (UInt64.ofNat n)
                ({ st with ringT := r }, showRes r res (fun o => match o with | .count d => s!"{d} cap={r.cap.toNat}" | _ => "?"))
    | none => (st, "bad-op")
  | ["size"] => (st, toString (Ring.size st.ringT).toNat ++ tailT st.ringT)
  | _ => (st, "bad-op")

def ringtStep (st : St) : List String → St × String
  | ["new", "d", c] =>
    match c.toNat? with
    | some n => if n ≤ 4096 then let r := Ring.mkDynamic none (UInt64.ofNat n); ({ st with ringT := r, dynT := true }, s!"ok cap={r.cap.toNat}")
                else (st, "bad-op")
    | none => (st, "bad-op")
  | ["new", "s", "8"] => ({ st with ringT := Ring.mkStatic none 8, dynT := false }, "ok cap=8")
  | ws =>
    match ws.getLast? with
    | some l =>
      match armOf l with
      | some k => if ws.length > 1 && k ≤ 100000 then ringtOp st k ws.dropLast else (st, "bad-op")
      | none => if l.startsWith "@" then (st, "bad-op") else ringtOp st 0 ws
    | none => (st, "bad-op")

/-! ### the SPSC interleaving model, one call at a time with fresh reads (same answers as `ring …` expected) -/
def spscTail (s : Spsc.S) : String := s!" | h={s.head} t={s.tail}"

def spscStep (st : St) : List String → St × String
  | ["new", k, c] =>
    match c.toNat? with
    | some n =>
      let cap := if k = "s" then (if staticCap n then some n else none)
                 else if k = "d" then (if n < 2 ^ 64 then some (Ring.nextPowerOfTwo (UInt64.ofNat n)).toNat else none) else none
      match cap with
      | some cap => ({ st with spsc := { pTodo := [], qTodo := [] }, spscCfg := { st.spscCfg with C := cap } }, s!"ok cap={cap}")
      | none => (st, "bad-op")
    | none => (st, "bad-op")
  | ["push", v] | ["pushm", v] =>
    match v.toNat? with
    | some x =>
      let s := Spsc.seqProducer st.spscCfg st.spsc (.push x)
      ({ st with spsc := s }, (match s.pRets.getLast? with | some 1 => "1" | _ => "0") ++ spscTail s)
    | none => (st, "bad-op")
  | ["pushb", l] =>
    match parseList l with
    | some xs =>
      let s := Spsc.seqProducer st.spscCfg st.spsc (.pushBatch xs)
      ({ st with spsc := s }, (match s.pRets.getLast? with | some n => toString n | none => "?") ++ spscTail s)
    | none => (st, "bad-op")
  | ["pop"] =>
    let s := Spsc.seqConsumer st.spscCfg st.spsc .pop
    ({ st with spsc := s }, (match s.qRets.getLast? with | some [x] => s!"1 {x}" | _ => "0") ++ spscTail s)
  | ["peek"] =>
    let s := Spsc.seqConsumer st.spscCfg st.spsc .peek
    ({ st with spsc := s }, (match s.qRets.getLast? with | some [x] => s!"1 {x}" | _ => "0") ++ spscTail s)
  | ["popb", n] =>
    match n.toNat? with
    | some n =>
      let s := Spsc.seqConsumer st.spscCfg st.spsc (.popBatch n)
      ({ st with spsc := s }, (match s.qRets.getLast? with | some xs => s!"{xs.length} {showList xs}" | none => "?") ++ spscTail s)
    | none => (st, "bad-op")
  | _ => (st, "bad-op")

/-! ### blocking queue, one caller -/
open Monitor in
def showRet : BQ.Ret → String
  | .bool b => bit b
  | .item (some x) => s!"1 {x}"
  | .item none => "0"
  | .unit => "ok"
  | .nat n => toString n

def bqTail (d : BQ.Data) : String := s!" | n={d.q.length} c={bit d.closed}"

/-- run one call of thread 0 to completion; a timed wait times out, an untimed wait that cannot proceed is `blocks` -/
def seqLoop (s : Monitor.State BQ.Data BQ.Loc) : Nat → Monitor.State BQ.Data BQ.Loc × String
  | 0 => (s, "fuel")
  | fuel + 1 =>
    let ts := s.thr 0
    if ts.loc.pc == .finished then
      (s, match ts.loc.rets.getLast? with | some r => showRet r | none => "none")
    else
      match ts.status with
      | .asleep _ _ true => seqLoop (Monitor.step (BQ.prog true) s (.timeout 0)) fuel
      | .asleep _ _ false => (s, "blocks")
      | _ => seqLoop (Monitor.step (BQ.prog true) s (.run 0 0)) fuel

def seqCall (st : St) (c : BQ.Call) : St × String :=
  match st.bq with
  | none => (st, "no-queue")
  | some s =>
    let s0 : Monitor.State BQ.Data BQ.Loc :=
      { s with thr := fun _ => { status := .ready, loc := { me := 0, todo := [c], pc := .enter, rets := [] } } }
    let (s', out) := seqLoop s0 12
    if out == "blocks" then ({ st with bq := none }, out) else ({ st with bq := some s' }, out ++ bqTail s'.data)

/-! ### replay of a schedule -/
def parseCall (s : String) : Option BQ.Call :=
  match s.toList with
  | ['d'] => some .dequeue
  | ['e'] => some .dequeueFor
  | ['y'] => some .tryDequeue
  | ['c'] => some .close
  | ['s'] => some .size
  | 'q' :: r => (String.ofList r).toNat?.map .queue
  | 'f' :: r => (String.ofList r).toNat?.map .tryQueueFor
  | 't' :: r => (String.ofList r).toNat?.map .tryQueue
  | _ => none

def parseProg (s : String) : Option (List BQ.Call) :=
  if s = "-" then some [] else (s.splitOn ",").mapM parseCall

def parseChoice (s : String) : Option Monitor.Choice :=
  match s.toList with
  | 'o' :: r => (String.ofList r).toNat?.map .timeout
  | 'p' :: r => (String.ofList r).toNat?.map .spurious
  | 'r' :: r =>
    match (String.ofList r).splitOn "a" with
    | [t] => t.toNat?.map (fun t => .run t 0)
    | [t, a] => match t.toNat?, a.toNat? with
      | some t, some a => some (.run t a)
      | _, _ => none
    | _ => none
  | _ => none

def cvName (cv : Nat) : String := if cv = BQ.NE then "E" else if cv = BQ.NF then "F" else toString cv

def countAsleep (s : Monitor.State BQ.Data BQ.Loc) (cv : Nat) : Nat :=
  ((List.range s.n).filter (fun t => Monitor.isAsleepOn cv (s.thr t))).length

/-- what the choice does in state `s` (same vocabulary as the DetSched trace); `!` = not enabled -/
def describe (s : Monitor.State BQ.Data BQ.Loc) : Monitor.Choice → String
  | .timeout t => match (s.thr t).status with
    | .asleep _ _ true => if t < s.n then s!"{t}.O.-" else "!"
    | _ => "!"
  | .spurious t => match (s.thr t).status with
    | .asleep _ _ _ => if t < s.n then s!"{t}.P.-" else "!"
    | _ => "!"
  | .run t alt =>
    if t < s.n then
      match (s.thr t).status with
      | .asleep _ _ _ => "!"
      | .woken m timed to => if s.owner m = none then s!"{t}.R.{bit (timed && (to || alt != 0))}" else "!"
      | .ready =>
        match BQ.op (s.thr t).loc with
        | .start => s!"{t}.S.-"
        | .yield => s!"{t}.Y.-"
        | .lock m => if s.owner m = none then s!"{t}.L.-" else "!"
        | .unlock _ => s!"{t}.U.-"
        | .wait cv _ timed => s!"{t}.W.{cvName cv}{bit timed}"
        | .notifyOne cv =>
          if Monitor.anyAsleep s cv then
            (if alt < s.n ∧ Monitor.isAsleepOn cv (s.thr alt) then s!"{t}.N.{cvName cv}{alt}" else "!")
          else s!"{t}.N.{cvName cv}-"
        | .notifyAll cv => s!"{t}.B.{cvName cv}{countAsleep s cv}"
        | .done => "!"
    else "!"

def replayLoop (s : Monitor.State BQ.Data BQ.Loc) (acc : List String) : List Monitor.Choice → Monitor.State BQ.Data BQ.Loc × List String
  | [] => (s, acc.reverse)
  | c :: cs =>
    let e := describe s c
    let s' := Monitor.step (BQ.prog true) s c
    replayLoop s' (s!"{e}.{s'.data.q.length}.{bit s'.data.closed}" :: acc) cs

def showRets (s : Monitor.State BQ.Data BQ.Loc) : String :=
  "/".intercalate ((List.range s.n).map (fun t =>
    let l := (s.thr t).loc
    let rs := l.rets.map (fun r => (showRet r).replace " " ":")
    (if rs.isEmpty then "-" else ",".intercalate rs) ++ (if l.pc == .finished then "" else "*")))

def bqStep (st : St) : List String → St × String
  | ["new", m] =>
    match m.toNat? with
    | some 0 => ({ st with bq := none }, "throw invalid_argument")
    | some m => ({ st with bq := some (BQ.init m [[]]) }, "ok")
    | none => (st, "bad-op")
  | ["q", v] | ["qm", v] => match v.toNat? with | some v => seqCall st (.queue v) | none => (st, "bad-op")
  | ["tqf", v, _] | ["tqfm", v, _] => match v.toNat? with | some v => seqCall st (.tryQueueFor v) | none => (st, "bad-op")
  | ["tq", v] | ["tqm", v] => match v.toNat? with | some v => seqCall st (.tryQueue v) | none => (st, "bad-op")
  | ["d"] => seqCall st .dequeue
  | ["df", _] => seqCall st .dequeueFor
  | ["td"] => seqCall st .tryDequeue
  | ["close"] => seqCall st .close
  -- `~BlockingQueue()` with nobody inside: the body is `close()` (translator fact `("~BlockingQueue#0", [("call", "close", …)])`), then the object is gone
  | ["destroy"] => match st.bq with
    | some _ => let (st', _) := seqCall st .close; ({ st' with bq := none }, "ok")
    | none => (st, "no-queue")
  | ["size"] => seqCall st .size
  | ["empty"] => seqCall st .empty
  | ["full"] => seqCall st .full
  | ["closed"] => match st.bq with | some s => (st, bit s.data.closed ++ bqTail s.data) | none => (st, "no-queue")
  | ["cap"] => match st.bq with | some s => (st, toString s.data.cap ++ bqTail s.data) | none => (st, "no-queue")
  | ["replay", m, progs, sched] =>
    match m.toNat?, (progs.splitOn "/").mapM parseProg, (if sched = "-" then some [] else (sched.splitOn ",").mapM parseChoice) with
    | some m, some ps, some cs =>
      let (s, evs) := replayLoop (BQ.init m ps) [] cs
      (st, (if evs.isEmpty then "-" else " ".intercalate evs) ++ " | " ++ showRets s)
    | _, _, _ => (st, "bad-op")
  | _ => (st, "bad-op")

def step (st : St) : List String → St × String
  | "ring" :: rest => ringStep st rest
  | "ringt" :: rest => ringtStep st rest
  | "spsc" :: rest => spscStep st rest
  | "bq" :: rest => bqStep st rest
  | _ => (st, "bad-op")

def main : IO Unit := runLines ({} : St) step

end Iora.Driver.Queues
