import Driver.Common
import IoraModel.Model.ConnectSync
/-! Driver of the C04 model (`iora_model connectsync`): single-threaded lockstep ops of harness/c04_connectsync.cpp and the
micro-step acceptor (`st …`) replaying DetSched traces of the real class. -/
namespace Iora.Driver.ConnectSync
open Iora Iora.ConnectSync Iora.Driver

def showRes : Res → String
  | .ok sid => s!"ok:{sid}"
  | .err .timeout => "err:Timeout"
  | .err .shuttingDown => "err:ShuttingDown"
  | .err .cancelled => "err:Cancelled"
  | .err .closed => "err:Closed"

/-- the externally observable part of the log (what the harness can see of the real class) -/
def showEv (s : State) : Ev → Option String
  | .created _ sid => some s!"created:{sid}"
  | .engineClose _ sid => some s!"engineClose:{sid}"
  | .globalConnect sid => some s!"gconnect:{sid}"
  | .globalClose sid => some s!"gclose:{sid}"
  | .attemptRet c _ r => if (s.callers c).wrapped then none else some s!"ret:{c}:{showRes r}"
  | .wrapRet c r => some s!"ret:{c}:{showRes r}"
  | _ => none

def joinEvs (l : List String) : String := if l.isEmpty then "-" else ";".intercalate l

/-- run steps, return the observable events they appended -/
def runObs (s : State) (steps : List Step) : State × List String :=
  let s' := run s steps
  (s', (s'.log.drop s.log.length).filterMap (showEv s'))

def showCmd : Option Cmd → String
  | some (.connect sid) => s!"cmd:connect:{sid}"
  | some (.close sid) => s!"cmd:close:{sid}"
  | none => "cmd:none"

def pendList (s : State) : String :=
  let ids := (List.range s.nextSid).filter (fun i => (s.pend i).isSome)
  if ids.isEmpty then "-" else ",".intercalate (ids.map toString)

def showState (s : State) : String :=
  s!"pend={pendList s} ac={s.activeConnects} q={s.fifo.length} sh={bit s.shuttingDown}"

/-- advance the I/O thread until it is idle again (a handler has at most 2 stages) -/
def ioDrain : List Step := [.ioStep, .ioStep, .ioStep]

/-- pop commands until the Connect of `sid` has been processed (fuel = queue length) -/
def popUntil (sid : Nat) : Nat → State → State
  | 0, s => s
  | n + 1, s =>
    match s.fifo with
    | [] => s
    | .connect i :: _ =>
      let s' := run s ([.ioPop true] ++ ioDrain)
      if i = sid then s' else popUntil sid n s'
    | _ :: _ => popUntil sid n (run s ([.ioPop true] ++ ioDrain))

def sidOfPc : Pc → Option Nat
  | .closing sid => some sid
  | _ => none

def parseStep : List String → Option Step
  | ["call", c, w] => do let c ← c.toNat?; let w ← parseBit w; pure (.call c w)
  | ["cancel", c] => do let c ← c.toNat?; pure (.cancel c)
  | ["cEnter", c] => do let c ← c.toNat?; pure (.cEnter c)
  | ["cConnect", c] => do let c ← c.toNat?; pure (.cConnect c)
  | ["cRegister", c] => do let c ← c.toNat?; pure (.cRegister c)
  | ["cPark", c] => do let c ← c.toNat?; pure (.cPark c)
  | ["cWake", c, t] => do let c ← c.toNat?; let t ← parseBit t; pure (.cWake c t)
  | ["cClose", c] => do let c ← c.toNat?; pure (.cClose c)
  | ["cRelock", c] => do let c ← c.toNat?; pure (.cRelock c)
  | ["wLoop", c, d] => do let c ← c.toNat?; let d ← parseBit d; pure (.wLoop c d)
  | ["ioPop", b] => do let b ← parseBit b; pure (.ioPop b)
  | ["ioComplete", sid] => do let sid ← sid.toNat?; pure (.ioComplete sid)
  | ["ioFail", sid] => do let sid ← sid.toNat?; pure (.ioFail sid)
  | ["ioPeerClose", sid] => do let sid ← sid.toNat?; pure (.ioPeerClose sid)
  | ["ioStep"] => some .ioStep
  | ["fence"] => some .fence
  | _ => none

def step (s : State) : List String → State × String
  | ["reset"] => ({}, "ok")
  | ["connect", c, _t, win] =>
    match c.toNat? with
    | some c =>
      let s1 := run s [.call c false, .cEnter c, .cConnect c, .cRegister c, .cPark c, .cWake c true]
      let s2 := match sidOfPc (s1.callers c).pc with
        | some sid =>
          if win = "n" then s1
          else
            let s1' := popUntil sid (s1.fifo.length + 1) s1
            if win = "c" then run s1' ([.ioComplete sid] ++ ioDrain)
            else if win = "f" then run s1' ([.ioFail sid] ++ ioDrain)
            else s1'
        | none => s1
      let s3 := run s2 [.cClose c, .cRelock c]
      let obs := (s3.log.drop s.log.length).filterMap (showEv s3)
      let r := obs.filter (fun e => e.startsWith "ret:")
      let o := obs.filter (fun e => !e.startsWith "ret:")
      (s3, s!"{joinEvs r} {joinEvs o} | {showState s3}")
    | none => (s, "bad-op")
  | ["pop", b] =>
    match parseBit b with
    | some b =>
      let hd := showCmd s.fifo.head?
      let (s', obs) := runObs s ([.ioPop b] ++ ioDrain)
      (s', s!"{hd} {joinEvs obs} | {showState s'}")
    | none => (s, "bad-op")
  | ["complete", sid] =>
    match sid.toNat? with
    | some sid =>
      let fired := s.eng sid == .connecting
      let (s', obs) := runObs s ([.ioComplete sid] ++ ioDrain)
      (s', s!"{if fired then "fired" else "ignored"} {joinEvs obs} | {showState s'}")
    | none => (s, "bad-op")
  | ["fail", sid] =>
    match sid.toNat? with
    | some sid =>
      let fired := s.eng sid == .connecting
      let (s', obs) := runObs s ([.ioFail sid] ++ ioDrain)
      (s', s!"{if fired then "fired" else "ignored"} {joinEvs obs} | {showState s'}")
    | none => (s, "bad-op")
  | ["peerclose", sid] =>
    match sid.toNat? with
    | some sid =>
      let fired := s.eng sid == .established
      let (s', obs) := runObs s ([.ioPeerClose sid] ++ ioDrain)
      (s', s!"{if fired then "fired" else "ignored"} {joinEvs obs} | {showState s'}")
    | none => (s, "bad-op")
  | ["fence"] =>
    let s' := Iora.ConnectSync.step s .fence
    (s', s!"ok | {showState s'}")
  | "st" :: rest =>
    match parseStep rest with
    | some sp =>
      let pre := match sp with | .ioPop _ => [showCmd s.fifo.head?] | _ => []
      let (s', obs) := runObs s [sp]
      (s', joinEvs (pre ++ obs))
    | none => (s, "bad-op")
  | _ => (s, "bad-op")

def main : IO Unit := runLines ({} : State) step

end Iora.Driver.ConnectSync
