import Driver.Common
import IoraModel.Model.ConnectSyncX
/-! Driver of the C04 model (`iora_model connectsync`): single-threaded lockstep ops of harness/c04_connectsync.cpp and the
micro-step acceptor (`st …`) replaying DetSched traces of the real class.  It runs `xstep genCfg` — the model instantiated from
the regenerated skeleton facts — and answers `disabled` for a step that is not enabled in the model's state. -/
namespace Iora.Driver.ConnectSync
open Iora Iora.ConnectSync Iora.Driver

def reasonName : Nat → String
  | 1 => "Connect" | 2 => "Resolve" | 3 => "Timeout" | 4 => "TLSHandshake" | 5 => "Unknown" | 6 => "PeerClosed" | _ => "NoReason"

def showRes (x : XState) (sid : Option Nat) : Res → String
  | .ok sid => s!"ok:{sid}"
  | .err .timeout => "err:Timeout"
  | .err .shuttingDown => "err:ShuttingDown"
  | .err .cancelled => "err:Cancelled"
  | .err .refused => "err:ShuttingDown"        -- the scripted engine refuses like TcpEngine::connect on a closed queue
  | .err .closed => match sid with | some sid => s!"err:{reasonName (x.reason sid)}" | none => "err:NoSession"

/-- the externally observable part of the log (what the harness can see of the real class) -/
def showEv (x : XState) (lastSid : Nat → Option Nat) : Ev → Option String
  | .created _ sid => some s!"created:{sid}:tls={x.sessTls sid}"
  | .engineClose _ sid => some s!"engineClose:{sid}"
  | .globalConnect sid => some s!"gconnect:{sid}"
  | .globalClose sid => some s!"gclose:{sid}"
  | .attemptRet c sid r => if (x.core.callers c).wrapped then none else some s!"ret:{c}:{showRes x sid r}"
  | .wrapRet c r => some s!"ret:{c}:{showRes x (lastSid c) r}"
  | _ => none

def joinEvs (l : List String) : String := if l.isEmpty then "-" else ";".intercalate l

/-- sid of the last attempt of caller `c` in a log segment (for the wrapper's final return) -/
def lastAttemptSid (log : List Ev) (c : Nat) : Option Nat :=
  log.foldl (fun acc e => match e with | .attemptRet c' sid _ => if c' = c then sid else acc | _ => acc) none

def obsSince (x0 x : XState) : List String :=
  (x.core.log.drop x0.core.log.length).filterMap (showEv x (lastAttemptSid x.core.log))

def xsteps (x : XState) (steps : List (Step × Nat)) : XState := xrun genCfg x steps

def showCmd : Option Cmd → String
  | some (.connect sid) => s!"cmd:connect:{sid}"
  | some (.close sid) => s!"cmd:close:{sid}"
  | none => "cmd:none"

def pendList (s : State) : String :=
  let ids := (List.range s.nextSid).filter (fun i => (s.pend i).isSome)
  if ids.isEmpty then "-" else ",".intercalate (ids.map toString)

def showState (s : State) : String :=
  s!"pend={pendList s} ac={s.activeConnects} q={s.fifo.length} sh={bit s.shuttingDown}"

def ioDrain : List (Step × Nat) := [(.ioStep, 0), (.ioStep, 0), (.ioStep, 0)]

/-- pop commands until the Connect of `sid` has been processed (fuel = queue length) -/
def popUntil (sid : Nat) : Nat → XState → XState
  | 0, x => x
  | n + 1, x =>
    match x.core.fifo with
    | [] => x
    | .connect i :: _ =>
      let x' := xsteps x ([(.ioPop true, 5)] ++ ioDrain)
      if i = sid then x' else popUntil sid n x'
    | _ :: _ => popUntil sid n (xsteps x ([(.ioPop true, 5)] ++ ioDrain))

def sidOfPc : Pc → Option Nat
  | .closing sid => some sid
  | _ => none

def parseStep : List String → Option (Step × Nat)
  | ["call", c, w, tls] => do let c ← c.toNat?; let w ← parseBit w; let t ← tls.toNat?; pure (.call c w, t)
  | ["cancel", c] => do let c ← c.toNat?; pure (.cancel c, 0)
  | ["cEnter", c] => do let c ← c.toNat?; pure (.cEnter c, 0)
  | ["cConnect", c] => do let c ← c.toNat?; pure (.cConnect c, 0)
  | ["cRefuse", c] => do let c ← c.toNat?; pure (.cRefuse c, 0)
  | ["cRegister", c] => do let c ← c.toNat?; pure (.cRegister c, 0)
  | ["cPark", c] => do let c ← c.toNat?; pure (.cPark c, 0)
  | ["cWake", c, t] => do let c ← c.toNat?; let t ← parseBit t; pure (.cWake c t, 0)
  | ["cClose", c] => do let c ← c.toNat?; pure (.cClose c, 0)
  | ["cRelock", c] => do let c ← c.toNat?; pure (.cRelock c, 0)
  | ["wLoop", c, d] => do let c ← c.toNat?; let d ← parseBit d; pure (.wLoop c d, 0)
  | ["ioPop", b, r] => do let b ← parseBit b; let r ← r.toNat?; pure (.ioPop b, r)
  | ["ioComplete", sid] => do let sid ← sid.toNat?; pure (.ioComplete sid, 0)
  | ["ioFail", sid, r] => do let sid ← sid.toNat?; let r ← r.toNat?; pure (.ioFail sid, r)
  | ["timerClose", sid, r] => do let sid ← sid.toNat?; let r ← r.toNat?; pure (.timerClose sid, r)
  | ["ioPeerClose", sid, r] => do let sid ← sid.toNat?; let r ← r.toNat?; pure (.ioPeerClose sid, r)
  | ["ioStep"] => some (.ioStep, 0)
  | ["fence"] => some (.fence, 0)
  | _ => none

structure D where
  x : XState := {}
  refuse : Bool := false

def step (d : D) : List String → D × String
  | ["reset"] => ({}, "ok")
  | ["reset", "udp"] => ({}, "ok")      -- Protocol::UDP: after repair FC04b `connectSync` takes one path for every protocol
  | ["reset", "tcp"] => ({}, "ok")
  | ["refuse", b] => match parseBit b with | some b => ({ d with refuse := b }, "ok") | none => (d, "bad-op")
  | ["connect", c, _t, win, tls] =>
    match c.toNat?, tls.toNat? with
    | some c, some tls =>
      let x := d.x
      if d.refuse then
        let x3 := xsteps x [(.call c false, tls), (.cEnter c, 0), (.cRefuse c, 0)]
        let obs := obsSince x x3
        let r := obs.filter (fun e => e.startsWith "ret:")
        let o := obs.filter (fun e => !e.startsWith "ret:")
        ({ d with x := x3 }, s!"{joinEvs r} {joinEvs (o ++ ["refused"])} elapsed-ok | {showState x3.core}")
      else
      let x1 := xsteps x [(.call c false, tls), (.cEnter c, 0), (.cConnect c, 0), (.cRegister c, 0), (.cPark c, 0), (.cWake c true, 0)]
      let x2 := match sidOfPc (x1.core.callers c).pc with
        | some sid =>
          if win = "n" then x1
          else
            let x1' := popUntil sid (x1.core.fifo.length + 1) x1
            if win = "c" then xsteps x1' ([(.ioComplete sid, 0)] ++ ioDrain)
            else if win = "f" then xsteps x1' ([(.ioFail sid, 1)] ++ ioDrain)
            else x1'
        | none => x1
      let x3 := xsteps x2 [(.cClose c, 0), (.cRelock c, 0)]
      let obs := obsSince x x3
      let r := obs.filter (fun e => e.startsWith "ret:")
      let o := obs.filter (fun e => !e.startsWith "ret:")
      ({ d with x := x3 }, s!"{joinEvs r} {joinEvs o} elapsed-ok | {showState x3.core}")
    | _, _ => (d, "bad-op")
  | ["pop", b] =>
    match parseBit b with
    | some b =>
      let hd := showCmd d.x.core.fifo.head?
      let x' := xsteps d.x ([(.ioPop b, if b then 5 else 1)] ++ ioDrain)
      ({ d with x := x' }, s!"{hd} {joinEvs (obsSince d.x x')} | {showState x'.core}")
    | none => (d, "bad-op")
  | ["complete", sid] =>
    match sid.toNat? with
    | some sid =>
      let fired := d.x.core.eng sid == .connecting
      let x' := xsteps d.x ([(.ioComplete sid, 0)] ++ ioDrain)
      ({ d with x := x' }, s!"{if fired then "fired" else "ignored"} {joinEvs (obsSince d.x x')} | {showState x'.core}")
    | none => (d, "bad-op")
  | ["fail", sid, r] =>
    match sid.toNat?, r.toNat? with
    | some sid, some r =>
      let fired := d.x.core.eng sid == .connecting
      let x' := xsteps d.x ([(.ioFail sid, r)] ++ ioDrain)
      ({ d with x := x' }, s!"{if fired then "fired" else "ignored"} {joinEvs (obsSince d.x x')} | {showState x'.core}")
    | _, _ => (d, "bad-op")
  | ["timer", sid] =>
    -- the engine's connect-timeout Close for `sid` is processed: executed (reason Timeout) only while the connect is pending
    match sid.toNat? with
    | some sid =>
      let fired := d.x.core.eng sid == .connecting
      let x' := xsteps d.x ([(.timerClose sid, 3)] ++ ioDrain)
      ({ d with x := x' }, s!"{if fired then "fired" else "ignored"} {joinEvs (obsSince d.x x')} | {showState x'.core}")
    | none => (d, "bad-op")
  | ["peerclose", sid] =>
    match sid.toNat? with
    | some sid =>
      let fired := d.x.core.eng sid == .established
      let x' := xsteps d.x ([(.ioPeerClose sid, 6)] ++ ioDrain)
      ({ d with x := x' }, s!"{if fired then "fired" else "ignored"} {joinEvs (obsSince d.x x')} | {showState x'.core}")
    | none => (d, "bad-op")
  | ["fence"] =>
    let x' := xsteps d.x [(.fence, 0)]
    ({ d with x := x' }, s!"ok | {showState x'.core}")
  | ["state"] => (d, showState d.x.core)
  | "st" :: rest =>
    match parseStep rest with
    | some (sp, n) =>
      if !enabled d.x.core sp then (d, "disabled")
      else
        let pre := match sp with | .ioPop _ => [showCmd d.x.core.fifo.head?] | _ => []
        let x' := xstep genCfg d.x sp n
        ({ d with x := x' }, joinEvs (pre ++ obsSince d.x x'))
    | none => (d, "bad-op")
  | _ => (d, "bad-op")

def main : IO Unit := runLines ({} : D) step

end Iora.Driver.ConnectSync
