import Driver.Common
import IoraModel.Model.Teardown
import IoraModel.Model.FlushFrames
import IoraModel.Model.TeardownRoles
/-! Driver of the C05 model (`iora_model teardown`): acceptor for DetSched traces of the real teardown handshake. -/
namespace Iora.Driver.Teardown
open Iora Iora.Teardown Iora.Driver

def showRes : Res → String
  | .timeout => "timeout" | .peerClosed => "peerClosed" | .shuttingDown => "shuttingDown" | .completed => "completed"
  | .flushed b => s!"flushed:{bit b}"

def showEv : Ev → String
  | .ret i r => s!"ret:{i}:{showRes r}"
  | .cbClose sid => s!"gclose:{sid}"
  | .cbData i => s!"cb:{i}"
  | .refused op => s!"refused:{opName op}"
  | .stopReturned => "stopReturned"
  | .destroyed => "destroyed"

def joinEvs (l : List String) : String := if l.isEmpty then "-" else ";".intercalate l

def parseKind (s : String) : Option Thread :=
  match s.splitOn ":" with
  | ["r", sid] => sid.toNat?.map fun sid => { kind := .recv sid }
  | ["k"] => some { kind := .conn }
  | ["m"] => some { kind := .flush }
  | _ => none

def parseNats (s : String) : List Nat := if s = "-" then [] else (s.splitOn ",").filterMap (·.toNat?)

def parseStep : List String → Option Step
  | ["enter", i] => do let i ← i.toNat?; pure (.enter i)
  | ["wake", i, t] => do let i ← i.toNat?; let t ← parseBit t; pure (.wake i t)
  | ["connClose", i] => do let i ← i.toNat?; pure (.connClose i)
  | ["connRelock", i] => do let i ← i.toNat?; pure (.connRelock i)
  | ["flushStep", i, m] => do let i ← i.toNat?; let m ← parseBit m; pure (.flushStep i m)
  | ["ioCloseSess", sid] => do let sid ← sid.toNat?; pure (.ioCloseSess sid)
  | ["ioConnDone", i] => do let i ← i.toNat?; pure (.ioConnDone i)
  | ["ioDrain"] => some (.ioDrain none)
  | ["ioDrain", sid] => do let sid ← sid.toNat?; pure (.ioDrain (some sid))
  | ["stopCall"] => some .stopCall
  | ["stopJoin"] => some .stopJoin
  | ["tdBegin"] => some .tdBegin
  | ["tdStop"] => some .tdStop
  | ["tdJoined"] => some .tdJoined
  | ["tdWake"] => some .tdWake
  | ["tdDestroy"] => some .tdDestroy
  | ["ioSelfDestruct"] => some .ioSelfDestruct
  | ["tdOrphan"] => some .tdOrphan
  | ["flushSelfDestruct", i] => do let i ← i.toNat?; pure (.flushSelfDestruct i)
  | ["ioSyncCall", "connectSync"] => some (.ioSyncCall .connectSync)
  | ["ioSyncCall", "receiveSync"] => some (.ioSyncCall .receiveSync)
  | ["ioSyncCall", "sendSync"] => some (.ioSyncCall .sendSync)
  | ["ioSyncCall", "setReadMode"] => some (.ioSyncCall .setReadMode)
  | _ => none

def showTd : Td → String
  | .idle => "idle" | .fenced => "fenced" | .joining => "joining" | .waiting a => s!"waiting{bit a}" | .waited => "waited"
  | .ioWaiting a => s!"ioWaiting{bit a}" | .ioReleased => "ioReleased" | .flushOwned => "flushOwned" | .destroyed => "destroyed"

/-- for a `wake i …` step: was thread `i` held as parked-and-notified (`1`), parked-and-not-notified (`0`), or not parked (`-`)
BEFORE the step? (a forced time-out of a thread the model holds as notified is a lost notification of the implementation) -/
def parkedFlag (s : State) : Step → String
  | .wake i _ =>
    (match s.threads[i]? with
     | some t => (match t.pc with | .parked a => bit a | _ => "-")
     | none => "-")
  | _ => "-"

/-- both models behind one driver: the handshake (`reset`/`st`/`state` lines) and the flush-frame stack over several transports
(`ffreset`/`ff` lines) -/
structure DState where
  td : State := {}
  ff : FlushFrames.State := {}
  rs : TeardownRoles.State := {}

def showFEv : FlushFrames.Ev → String
  | .ret d ok => s!"ret:{d}:{bit ok}"
  | .deleted d => s!"del:{d}"
  | .dtorReturned d => s!"dtor:{d}"

def parseFStep : List String → Option FlushFrames.Step
  | ["push", d] => do let d ← d.toNat?; pure (.push d)
  | ["release", d] => do let d ← d.toNat?; pure (.release d)
  | ["pop"] => some .pop
  | _ => none

def stepTd (s : State) : List String → State × String
  | "reset" :: rest =>
    let kinds := rest.takeWhile (· ≠ "live")
    let live := match rest.dropWhile (· ≠ "live") with | _ :: l :: _ => parseNats l | _ => []
    (mk (kinds.filterMap parseKind) live, "ok")
  | "st" :: rest =>
    match parseStep rest with
    | some sp =>
      let d := ok s sp
      let s' := Iora.Teardown.step s sp
      let evs := (s'.log.drop s.log.length).map showEv
      (s', s!"{joinEvs evs} d={bit d} uaf={bit s'.uaf} pk={parkedFlag s sp} sb={bit s'.ioSelfBlock}")
    | none => (s, "bad-op")
  | ["state"] => (s, s!"ar={s.activeReceives} ac={s.activeConnects} af={s.activeFlushes} sh={bit s.shuttingDown} td={showTd s.td} io={bit s.ioAlive}")
  | _ => (s, "bad-op")

/-- `ff release d` is the whole destructor call of the single-threaded programs: the release step followed by one predicate check
(no caller of another thread exists there); `hung=1`: the destructor is still waiting -/
def stepFf (s : FlushFrames.State) : List String → FlushFrames.State × String
  | ["ffreset"] => (FlushFrames.mk (fun _ => 0), "ok")
  | "ff" :: rest =>
    match parseFStep rest with
    | some sp =>
      let d := FlushFrames.ok s sp
      let s1 := FlushFrames.step s sp
      let s' := match sp with | .release _ => FlushFrames.step s1 .dtorWake | _ => s1
      let evs := (s'.log.drop s.log.length).map showFEv
      (s', s!"{joinEvs evs} d={bit d} uaf={bit s'.uaf} hung={bit s'.dtor.isSome}")
    | none => (s, "bad-op")
  | _ => (s, "bad-op")

/-! the thread-role model (`rsreset` / `rs <step>` lines): answer = the callbacks the step logged, each `cb:<role>:<kind>`, then
` q=<quiet> t=<armed timers> c=<queue closed> io=<I/O thread alive>`; the configuration is `TeardownRoles.genCfg` (regenerated) -/
def showRole : TeardownRoles.Role → String
  | .io => "io" | .timer => "timer" | .api => "api"
def showCb : TeardownRoles.Cb → String
  | .accept => "accept" | .connect => "connect" | .data => "data" | .close => "close" | .error => "error"

def parseIoEv : String → Option TeardownRoles.IoEv
  | "connected" => some .connected | "handshakeDone" => some .handshakeDone | "data" => some .data
  | "stalled" => some .stalled | "drained" => some .drained | "error" => some .error
  | _ => none

def parseRStep : List String → Option TeardownRoles.Step
  | ["apiStart", f] => do let f ← parseBit f; pure (.apiStart f)
  | ["apiConnect", t, o] => do let t ← parseBit t; let o ← parseBit o; pure (.apiConnect t o)
  | ["apiSend", sid, o] => do let sid ← sid.toNat?; let o ← parseBit o; pure (.apiSend sid o)
  | ["apiClose", sid, o] => do let sid ← sid.toNat?; let o ← parseBit o; pure (.apiClose sid o)
  | ["apiStop", o] => do let o ← parseBit o; pure (.apiStop o)
  | ["apiStopJoin"] => some .apiStopJoin
  | ["ioProcess", a] => do let a ← parseBit a; pure (.ioProcess a)
  | ["ioEvent", sid, ev, a] => do let sid ← sid.toNat?; let ev ← parseIoEv ev; let a ← parseBit a; pure (.ioEvent sid ev a)
  | ["ioDrainClose", sid] => do let sid ← sid.toNat?; pure (.ioDrainClose sid)
  | ["ioDrainFinish"] => some .ioDrainFinish
  | ["timerFire", k, o] => do let k ← k.toNat?; let o ← parseBit o; pure (.timerFire k o)
  | _ => none

def stepRs (s : TeardownRoles.State) : List String → TeardownRoles.State × String
  | ["rsreset"] => ({}, "ok")
  | "rs" :: rest =>
    match parseRStep rest with
    | some sp =>
      let s' := TeardownRoles.step TeardownRoles.genCfg s sp
      let evs := (s'.log.drop s.log.length).map fun e => s!"cb:{showRole e.1}:{showCb e.2}"
      (s', s!"{joinEvs evs} q={bit s'.quiet} t={s'.timers.length} c={bit s'.closed} io={bit s'.ioAlive}")
    | none => (s, "bad-op")
  | _ => (s, "bad-op")

def step (s : DState) (l : List String) : DState × String :=
  match l with
  | "ffreset" :: _ | "ff" :: _ => let (f, o) := stepFf s.ff l; ({ s with ff := f }, o)
  | "rsreset" :: _ | "rs" :: _ => let (r, o) := stepRs s.rs l; ({ s with rs := r }, o)
  | _ => let (t, o) := stepTd s.td l; ({ s with td := t }, o)

def main : IO Unit := runLines ({} : DState) step

end Iora.Driver.Teardown
