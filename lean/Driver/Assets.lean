import Driver.Common
import IoraModel.Model.Assets
import IoraModel.Model.AssetsRace
import Driver.AssetsServe
namespace Iora.Driver.Assets
open Iora Iora.Assets Iora.Driver

structure St where
  fs : Fs := {}
  a : Option Iora.Assets.Assets := none

def showErrno : Errno → String
  | .ENOENT => "ENOENT" | .ENOTDIR => "ENOTDIR" | .ELOOP => "ELOOP" | .ENAMETOOLONG => "ENAMETOOLONG" | .EFUEL => "EFUEL"

def hexOpt : Option Bytes → String
  | none => "~"
  | some b => toHex b

def showRes : Res → String
  | .found b => s!"found {toHex b.bytes} {hexOpt b.gz} {toHex b.mime.toUTF8.toList}"
  | .notFound => "notfound"
  | .rejected => "rejected"

def showTpl : Option Bytes → String
  | none => "none"
  | some d => s!"some {toHex d}"

def parseEntry (s : String) : Option (Loc × Entry) :=
  match s.splitOn ":" with
  | ["d", p] => (ofHex p).map fun p => (locOf p, Entry.dir)
  | ["f", p, c] => match ofHex p, ofHex c with
    | some p, some c => some (locOf p, Entry.file c)
    | _, _ => none
  | ["l", p, t] => match ofHex p, ofHex t with
    | some p, some t => some (locOf p, Entry.link t)
    | _, _ => none
  | _ => none

def parseAll {α β} (f : α → Option β) : List α → Option (List β)
  | [] => some []
  | x :: xs => match f x, parseAll f xs with
    | some y, some ys => some (y :: ys)
    | _, _ => none

def optHex (s : String) : Option (Option Bytes) :=
  if s = "~" then some none else (ofHex s).map some

def listOf (s : String) : List String := if s = "-" then [] else s.splitOn ","

def parseStatic (s : String) : Option EmbStatic :=
  match s.splitOn ":" with
  | [p, b, g] => match ofHex p, ofHex b, optHex g with
    | some p, some b, some g => some { path := p, bytes := b, gz := g }
    | _, _, _ => none
  | _ => none

def parseTemplate (s : String) : Option (Bytes × Bytes) :=
  match s.splitOn ":" with
  | [p, b] => match ofHex p, ofHex b with
    | some p, some b => some (p, b)
    | _, _ => none
  | _ => none

def step (st : St) : List String → St × String
  | "tree" :: cwd :: ents =>
    match ofHex cwd, parseAll parseEntry ents with
    | some c, some es => ({ fs := { entries := es, cwd := locOf c }, a := none }, "ok")
    | _, _ => (st, "bad-op")
  | ["put", k, p] =>
    match k, ofHex p with
    | "d", some p => ({ st with fs := st.fs.envSet (locOf p) .dir }, "ok")
    | _, _ => (st, "bad-op")
  | ["put", k, p, d] =>
    match k, ofHex p, ofHex d with
    | "f", some p, some d => ({ st with fs := st.fs.envSet (locOf p) (.file d) }, "ok")
    | "l", some p, some d => ({ st with fs := st.fs.envSet (locOf p) (.link d) }, "ok")
    | _, _, _ => (st, "bad-op")
  | ["rm", p] =>
    match ofHex p with
    | some p => ({ st with fs := st.fs.envRemove (locOf p) }, "ok")
    | none => (st, "bad-op")
  | ["wc", p] =>
    match ofHex p with
    | some p => (st, match weaklyCanonical st.fs p with | .ok r => s!"ok {toHex r}" | .error e => s!"err {showErrno e}")
    | none => (st, "bad-op")
  | ["norm", p] =>
    match ofHex p with
    | some p => (st, toHex (lexicallyNormal p))
    | none => (st, "bad-op")
  | ["cont", b, t] =>
    match ofHex b, ofHex t with
    | some b, some t => (st, bit (isContained b t))
    | _, _ => (st, "bad-op")
  | ["lexrej", p] =>
    match ofHex p with
    | some p => (st, bit (lexicallyRejected p))
    | none => (st, "bad-op")
  | ["stat", p] =>
    match ofHex p with
    | some p => (st, match status st.fs p with
        | .found _ (.file _) => "file" | .found _ .dir => "dir" | .found _ (.link _) => "link"
        | .notFound => "notfound" | .error e => s!"err {showErrno e}")
    | none => (st, "bad-op")
  | ["read", p] =>
    match ofHex p with
    | some p => (st, match readFile st.fs p with | some d => s!"some {toHex d}" | none => "none")
    | none => (st, "bad-op")
  | ["newfs", root, per] =>
    match ofHex root, parseBit per with
    | some r, some per =>
      match fromDirectory st.fs r per with
      | some s => ({ st with a := some (.filesystem s) }, s!"ok {toHex s.staticsRoot} {toHex s.templatesRoot}")
      | none => ({ st with a := none }, "throw")
    | _, _ => (st, "bad-op")
  | ["newemb", ext, statics, templates, externals] =>
    match ofHex ext, parseAll parseStatic (listOf statics), parseAll parseTemplate (listOf templates),
          parseAll ofHex (listOf externals) with
    | some e, some ss, some ts, some xs =>
      ({ st with a := some (.embedded { templates := ts, statics := ss, externalDir := e, externalPaths := xs }) }, "ok")
    | _, _, _, _ => (st, "bad-op")
  | ["static", n] =>
    match ofHex n, st.a with
    | some n, some a => let (r, a') := getStatic st.fs a n; ({ st with a := some a' }, showRes r)
    | some _, none => (st, "no-instance")
    | _, _ => (st, "bad-op")
  | ["template", n] =>
    match ofHex n, st.a with
    | some n, some a => let (r, a') := getTemplate st.fs a n; ({ st with a := some a' }, showTpl r)
    | some _, none => (st, "no-instance")
    | _, _ => (st, "bad-op")
  | ["swapstatic", n, t] =>
    match ofHex n, ofHex t, st.a with
    | some n, some t, some a =>
      let cand := match a with
        | .filesystem s => pathAppend s.staticsRoot n
        | .embedded r => pathAppend r.externalDir n
      match (reachedStatic (Snaps.const st.fs) a n).contains Point.O, weaklyCanonical st.fs cand with
      | true, .ok resolved =>
        let fsO := st.fs.set (locOf resolved) (.link t)
        let (r, a') := getStaticAt (Snaps.switchAt st.fs fsO .O) a n
        ({ fs := fsO, a := some a' }, showRes r ++ " swapped=1")
      | _, _ => let (r, a') := getStatic st.fs a n; ({ st with a := some a' }, showRes r ++ " swapped=0")
    | some _, some _, none => (st, "no-instance")
    | _, _, _ => (st, "bad-op")
  | ["swaptemplate", n, t] =>
    match ofHex n, ofHex t, st.a with
    | some n, some t, some a =>
      let cand := match a with
        | .filesystem s => pathAppend s.templatesRoot n
        | .embedded _ => n
      match (reachedTemplate (Snaps.const st.fs) a n).contains Point.O, weaklyCanonical st.fs cand with
      | true, .ok resolved =>
        let fsO := st.fs.set (locOf resolved) (.link t)
        let (r, a') := getTemplateAt (Snaps.switchAt st.fs fsO .O) a n
        ({ fs := fsO, a := some a' }, showTpl r ++ " swapped=1")
      | _, _ => let (r, a') := getTemplate st.fs a n; ({ st with a := some a' }, showTpl r ++ " swapped=0")
    | some _, some _, none => (st, "no-instance")
    | _, _, _ => (st, "bad-op")
  | "sched" :: kind :: n :: pt :: mk :: p :: rest =>
    let pt? : Option Point := match pt with
      | "C" => some .C | "R" => some .R | "O" => some .O | "G" => some .G | "Z" => some .Z | _ => none
    let data? : Option Bytes := match rest with
      | [] => some []
      | [d] => ofHex d
      | _ => none
    match ofHex n, pt?, ofHex p, data?, st.a with
    | some n, some pt, some p, some d, some a =>
      let fs'? : Option Fs := match mk, rest with
        | "l", [_] => some (st.fs.envSet (locOf p) (.link d))
        | "f", [_] => some (st.fs.envSet (locOf p) (.file d))
        | "d", [] => some (st.fs.envSet (locOf p) .dir)
        | "r", [] => some (st.fs.envRemove (locOf p))
        | _, _ => none
      match fs'?, kind with
      | some fs', "static" =>
        let sn := Snaps.switchAt st.fs fs' pt
        if (reachedStatic sn a n).contains pt then
          let (r, a') := getStaticAt sn a n
          ({ fs := fs', a := some a' }, showRes r ++ " fired=1")
        else
          let (r, a') := getStatic st.fs a n
          ({ st with a := some a' }, showRes r ++ " fired=0")
      | some fs', "template" =>
        let sn := Snaps.switchAt st.fs fs' pt
        if (reachedTemplate sn a n).contains pt then
          let (r, a') := getTemplateAt sn a n
          ({ fs := fs', a := some a' }, showTpl r ++ " fired=1")
        else
          let (r, a') := getTemplate st.fs a n
          ({ st with a := some a' }, showTpl r ++ " fired=0")
      | _, _ => (st, "bad-op")
    | some _, some _, some _, some _, none => (st, "no-instance")
    | _, _, _, _, _ => (st, "bad-op")
  | ["readcfg", k, m] =>
    -- the chunking of `read` is invisible in the result (theorem A6_chunking_irrelevant): the model has nothing to change
    match k.toNat?, m.toNat? with
    | some _, some _ => (st, "ok")
    | _, _ => (st, "bad-op")
  | ["selftest"] => (st, "ok")
  | ["readscript", p, script] =>
    let cmds := parseAll (fun (t : String) => if t = "e" then some ReadCmd.eintr else if t = "x" then some ReadCmd.err
                                              else t.toNat?.map ReadCmd.atMost) (listOf script)
    match ofHex p, cmds with
    | some p, some cmds => (st, match readFileScripted st.fs p cmds with | some d => s!"some {toHex d}" | none => "none")
    | _, _ => (st, "bad-op")
  | ["race", kindA, nameA, bop, nameB, mk, mpath, mdata] =>
    -- two threads, gated at A's first open(2): the small-step machine of Model/AssetsRace.lean on the corresponding schedule
    match ofHex nameA, ofHex nameB, ofHex mpath, ofHex mdata, st.a with
    | some nA, some nB, some mp, some md, some (.filesystem fst) =>
      let bOp? : Option Race.RaceOp := match bop with
        | "static" => some (.static nB) | "template" => some (.template nB) | "reload" => some .reload | "none" => some .none | _ => none
      let fs1? : Option Fs := match mk with
        | "l" => some (st.fs.envSet (locOf mp) (.link md))
        | "f" => some (st.fs.envSet (locOf mp) (.file md))
        | "r" => some (st.fs.envRemove (locOf mp))
        | "n" => some st.fs
        | _ => none
      match bOp?, fs1?, (kindA == "static" || kindA == "template") with
      | some b, some fs1, true =>
        -- the lexical filter of getStatic/getTemplate runs before the filesystem-mode lookup the machine models (it touches neither
        -- the file system nor the caches): a refused name ends that thread's call at once
        let rejB := (bop == "static" || bop == "template") && lexicallyRejected nB
        let b' : Race.RaceOp := if rejB then .none else b
        let showRet : Sum Res (Option Bytes) → String := fun r => match r with | .inl x => showRes x | .inr t => showTpl t
        let showB (r : Option (Sum Res (Option Bytes))) : String :=
          if rejB then (if bop == "static" then "rejected" else "none") else
          match r with
          | some r => showRet r
          | none => if bop == "reload" then "ok" else "-"
        if lexicallyRejected nA then
          -- A returns without touching anything; B then runs alone (sequential refinement R1: the machine with A := an op that
          -- never reaches `build`)
          let (rb, a') : String × Iora.Assets.Assets := match b' with
            | .static n => let (r, a') := getStatic st.fs (.filesystem fst) n; (showRes r, a')
            | .template n => let (r, a') := getTemplate st.fs (.filesystem fst) n; (showTpl r, a')
            | .reload => ("ok", reload (.filesystem fst))
            | .none => (if rejB then (if bop == "static" then "rejected" else "none") else "-", .filesystem fst)
          ({ st with a := some a' }, s!"{if kindA == "static" then "rejected" else "none"} | {rb} gated=0")
        else
          let o := Race.gatedRace st.fs fs1 fst (kindA == "template") nA b'
          ({ fs := if o.gated then fs1 else st.fs, a := some (.filesystem o.st) }, s!"{showRet o.resA} | {showB o.resB} gated={bit o.gated}")
      | _, _, _ => (st, "bad-op")
    | some _, some _, some _, some _, some (.embedded _) => (st, "race unsupported")
    | some _, some _, some _, some _, none => (st, "no-instance")
    | _, _, _, _, _ => (st, "bad-op")
  | ["reload"] => ({ st with a := st.a.map reload }, "ok")
  | "storm" :: _ => ({ st with a := st.a.map reload }, "storm ok")
  | toks =>
    match Iora.Driver.AssetsServe.stepServe st.fs st.a toks with
    | some (a', out) => ({ st with a := a' }, out)
    | none => (st, "bad-op")

def main : IO Unit := runLines ({} : St) step

end Iora.Driver.Assets
