import Driver.Common
import IoraModel.Model.TlsPlan
import IoraModel.Model.TlsLife
/-! `iora_model tls`: the model's prediction for one C07 matrix cell per line (same line protocol as harness/c07_tls.cpp). -/
namespace Iora.Driver.Tls
open Iora Iora.Tls Iora.Driver

def showVerify (fl : List VFlag) : String :=
  if fl.isEmpty then "NONE" else
  "+".intercalate (fl.map fun
    | .peer => "PEER"
    | .failIfNoPeerCert => "FAIL_IF_NO_PEER_CERT"
    | .clientOnce => "CLIENT_ONCE"
    | .postHandshake => "POST_HANDSHAKE")

/-- the SET of sources loaded into the context's store, as the harness interposer prints it -/
def showTrust (t : Trust) : String :=
  let parts := (if t.file then ["file"] else []) ++ (if t.path then ["path"] else []) ++ (if t.dflt then ["default"] else [])
  if parts.isEmpty then "none" else "+".intercalate parts

def showRole : Mode → String
  | .server => "server" | .client => "client" | .none => "?"

def showPlan : Plan → String
  | .plain => "plain"
  | .refuse .start => "refuse(start)"
  | .refuse .connect => "refuse(connect)"
  | .refuse .listen => "refuse(listen)"
  | .refuse .enableTls => "refuse(enableTls)"
  | .tls c h s =>
    let m := match c.minProto with | some v => toString v | none => "0"
    -- `hs=(…)`: what is in force on the SSL object when its handshake starts (the harness reads it back from the object): the model has no
    -- per-session override, so it is the context's mode and depth, the bound host, and host flags 0 (the library default name policy)
    let d := match c.depth with | some v => toString v | none => "-1"
    s!"tls(role={showRole c.role},verify={showVerify c.verify},min={m},trust={showTrust c.trust},cert={bit (c.certLoaded && c.keyLoaded)},host={h.getD "-"},sni={s.getD "-"},hs=(verify={showVerify c.verify},depth={d},hostflags=0,host={h.getD "-"}))"

def showVer (v : Option Int) : String :=
  match v with
  | some 769 => "1.0" | some 770 => "1.1" | some 771 => "1.2" | some 772 => "1.3"
  | some _ => "?"
  | none => "-"

def line (p : Plan) (connected appdata cleartext : Bool) (v : Option Int) : String :=
  s!"plan={showPlan p} connected={bit connected} appdata={bit appdata} cleartext={bit cleartext} version={showVer v}"

def parseMode : String → Option Mode
  | "none" => some .none | "server" => some .server | "client" => some .client | _ => none
def parseCeil : String → Option Int
  | "10" => some 769 | "11" => some 770 | "12" => some 771 | "13" => some 772 | _ => none
def parseAnchors : String → Option Anchors
  | "right" => some .right | "wrong" => some .wrong | "none" => some .empty | "empty" => some .empty
  | "badfile" => some .empty | "missing" => some .empty | "path" => some .empty | _ => none
def parseSCert : String → Option CertProps
  | "valid" => some CertKind.valid.props | "self" => some CertKind.selfSigned.props | "expired" => some CertKind.expired.props
  | "wrongname" => some CertKind.wrongName.props | "mismatch" => some CertKind.keyMismatch.props
  | "sanother" => some CertKind.sanOther.props | "cnonly" => some CertKind.cnOnly.props | _ => none
def parseCCert : String → Option (Option CertProps)
  | "none" => some CCertKind.none.props | "cvalid" => some CCertKind.valid.props
  | "cuntrusted" => some CCertKind.untrusted.props | "cexpired" => some CCertKind.expired.props | _ => none
/-- (speaks TLS when offered TLS, answers plaintext when offered plaintext) -/
def parsePeer : String → Option (PeerKind × Bool)
  | "tls" => some (.tls, false) | "plain" => some (.plaintext, true) | "garbage" => some (.garbage, false)
  | "badhello" => some (.garbage, false) | "dual" => some (.tls, true) | "plainread" => some (.plaintext, false)
  | "anon" => some (.anon, false) | _ => none
def parseOwn : String → Option (Bool × Files)
  | "valid" => some (true, CertKind.valid.files) | "self" => some (true, CertKind.selfSigned.files)
  | "expired" => some (true, CertKind.expired.files) | "wrongname" => some (true, CertKind.wrongName.files)
  | "mismatch" => some (true, CertKind.keyMismatch.files) | "nocert" => some (false, {})
  | "sanother" => some (true, CertKind.sanOther.files) | "cnonly" => some (true, CertKind.cnOnly.files)
  | "unreadable" => some (true, { certReadable := false, keyReadable := false, certLoads := false, keyLoads := false }) | _ => none

def caSet (t : String) : Bool := t == "right" || t == "wrong" || t == "badfile" || t == "missing"
def caLoads (t : String) : Bool := !(t == "badfile" || t == "missing")

/-- `ipSan`: the factory gives the certificate an iPAddress SAN for 127.0.0.1 exactly when it gives it a dNSName SAN for the host -/
def certRow (n : String) (c : CertProps) (ipSan : Bool := true) : String :=
  let nm := c.names.contains theHost
  s!"{n}:right={bit (chains c .right)},wrong={bit (chains c .wrong)},time={bit c.inTime},name={bit nm},ip={bit (nm && ipSan)},key={bit c.possession}"

def certTable : String :=
  " ".intercalate
    ([("valid", CertKind.valid.props), ("self", CertKind.selfSigned.props), ("expired", CertKind.expired.props),
      ("wrongname", CertKind.wrongName.props), ("mismatch", CertKind.keyMismatch.props), ("sanother", CertKind.sanOther.props)].map (fun (n, c) => certRow n c) ++
     [certRow "cnonly" CertKind.cnOnly.props false] ++
     [("cvalid", CCertKind.valid.props), ("cuntrusted", CCertKind.untrusted.props), ("cexpired", CCertKind.expired.props)].filterMap
       (fun (n, c) => c.map (certRow n)))

/-- `ciphers=` option of a cell → what the string does to authentication -/
def cipherClass : Option String → CipherClass
  | some "seclevel0" => .enablesAnon        -- "ALL:@SECLEVEL=0": OpenSSL's ALL includes aNULL
  | some "noanon0" => .restricts            -- "ALL:!aNULL:@SECLEVEL=0"
  | _ => .default

/-- Run the session machine of `Model/TlsPlan.lean` + the receive side of `Model/TlsLife.lean` over the schedule every cell of the
harness produces: (a greeting / early application bytes are sent right after the session exists) · (bytes of the peer arrive while the
handshake is still running) · the handshake ends (`ok`: `SSL_do_handshake` = 1, else a fatal result) · the application sends again.
`true` = some byte went out raw or was delivered to `onData` without passing `SSL_read`: the `cleartext` column of a TLS plan. -/
def sessionLeaks (p : Plan) (outbound : Bool) (req : Mode) (ok : Bool) : Bool :=
  match p.session outbound req with
  | none => false
  | some s =>
    let evs : List REv := [.out (.appSend [69]), .inp [80] none, .out (.epoll true none), .inp [81] (some ok), .out (.appSend [65]), .out (.epoll true none)]
    (rRun s evs).any fun
      | .deliverRaw _ => true
      | .out (.rawWire _) => true
      | _ => false

/-- … and whether `onData` / `onConnect` fire at all before the handshake result is known (must be `false`) -/
def sessionEarly (p : Plan) (outbound : Bool) (req : Mode) : Bool :=
  match p.session outbound req with
  | none => false
  | some s => !(rRun s [.out (.appSend [69]), .inp [80] none, .out (.epoll true none), .inp [81] none]).isEmpty

def cliCell (verify trust scert ceil peer target min enabled defmode req : String) (ciphers : CipherClass) (other : Bool) (sys : String) (depth : Int) (ownCert : Bool) : Option String := do
  let cert ← parseSCert scert
  let ce ← parseCeil ceil
  let (kind, plainOk) ← parsePeer peer
  let configured ← parseAnchors trust
  let dm ← parseMode defmode
  let rq ← parseMode req
  let mn ← min.toInt?
  let tgt ← (match target with | "name" => some (Target.name theHost) | "ip" => some .ipv4 | "ip6" => some .ipv6 | _ => none)
  let v ← parseBit verify
  let en ← parseBit enabled
  let sysA ← parseAnchors sys
  -- `other=1`: the engine ALSO holds the context of the other role (a dual-role engine)
  let tc : TCfg := { client := { enabled := en, defaultMode := dm, verifyPeer := v, caFileSet := caSet trust, caPathSet := trust == "path", minVersion := mn,
                                 ciphers := ciphers, verifyDepth := depth, certFileSet := ownCert, keyFileSet := ownCert },
                     server := if other then { enabled := true, defaultMode := .server, certFileSet := true, keyFileSet := true } else {} }
  let tf : TFiles := { client := { caLoads := caLoads trust } }
  let p := connectPlan tc tf rq tgt
  match p with
  | .tls .. =>
    let o := clientOutcome Ossl.ref p configured sysA { kind := kind, cert := cert, ceil := ce }
    pure (line p o.isSome o.isSome (sessionLeaks p true rq o.isSome || sessionEarly p true rq) o)
  | .plain => pure (line p true plainOk true none)
  | .refuse _ => pure (line p false false false none)

def srvCell (verify trust own ccert ceil peer min enabled defmode req : String) (greet : Bool) (ciphers : CipherClass) (other : Bool) (sys : String) (depth : Int) : Option String := do
  let (haveCert, files) ← parseOwn own
  let cc ← parseCCert ccert
  let ce ← parseCeil ceil
  let (kind, plainOk) ← parsePeer peer
  let configured ← parseAnchors trust
  let dm ← parseMode defmode
  let rq ← parseMode req
  let mn ← min.toInt?
  let v ← parseBit verify
  let en ← parseBit enabled
  let sysA ← parseAnchors sys
  let tc : TCfg := { server := { enabled := en, defaultMode := dm, certFileSet := haveCert, keyFileSet := haveCert, verifyPeer := v,
                                 caFileSet := caSet trust, caPathSet := trust == "path", minVersion := mn, ciphers := ciphers, verifyDepth := depth },
                     client := if other then { enabled := true, defaultMode := .client } else {} }
  let tf : TFiles := { server := { files with caLoads := caLoads trust } }
  let p := listenPlan tc tf rq
  match p with
  | .tls .. =>
    let o := serverOutcome Ossl.ref p configured sysA { kind := kind, cert := cc, ceil := ce }
    pure (line p o.isSome o.isSome (sessionLeaks p false rq o.isSome || sessionEarly p false rq) o)
  | .plain => pure (line p true plainOk (plainOk || greet) none)
  | .refuse _ => pure (line p false false false none)

def httpCell (verify ca sys scert url ceil peer : String) : Option String := do
  let cert ← parseSCert scert
  let ce ← parseCeil ceil
  let (kind, _) ← parsePeer peer
  let configured ← parseAnchors ca
  let sysA ← parseAnchors sys
  let v ← parseBit verify
  let u ← (match url with | "name" => some (UrlHost.name theHost) | "ip" => some .ipv4 | _ => none)
  let tf : TFiles := { client := { caLoads := caLoads ca } }
  let p := httpClientPlan { verifyPeer := v, caFileSet := caSet ca } tf true u true
  match p with
  | .tls .. =>
    let o := clientOutcome Ossl.ref p configured sysA { kind := kind, cert := cert, ceil := ce }
    pure (line p o.isSome o.isSome false o)
  | .plain => pure (line p true (kind != .tls) true none)
  | .refuse _ => pure (line p false false false none)

def hsrvCell (require ca own ccert ceil peer : String) (sys : String) : Option String := do
  let (haveCert, files) ← parseOwn own
  let cc ← parseCCert ccert
  let ce ← parseCeil ceil
  let (kind, plainOk) ← parsePeer peer
  let configured ← parseAnchors ca
  let r ← parseBit require
  let sysA ← parseAnchors sys
  let tf : TFiles := { server := { files with caLoads := caLoads ca } }
  let p := httpServerPlan (some { certFileSet := haveCert, keyFileSet := haveCert, caFileSet := caSet ca, requireClientCert := r }) tf
  match p with
  | .tls .. =>
    let o := serverOutcome Ossl.ref p configured sysA { kind := kind, cert := cc, ceil := ce }
    pure (line p o.isSome o.isSome false o)
  | .plain => pure (line p plainOk plainOk plainOk none)
  | .refuse _ => pure (line p false false false none)

/-- `hurl <scheme> <form> <verify> <peer>`: HttpClient request for `<scheme>://<authority>/…` against a peer that answers TLS with TLS
and plaintext with plaintext -/
def urlCell (scheme form verify peer : String) : Option String := do
  let v ← parseBit verify
  let (kind, _) ← parsePeer peer
  let u ← (match form with
    | "ipport" => some UrlHost.ipv4 | "noport" => some .ipv4 | "nameport" => some (.name theHost) | _ => none)
  let port := fun (reached : Bool) => if form == "noport" then (if reached then toString (urlDefaultPort scheme) else "-") else "explicit"
  match httpUrlPlan { verifyPeer := v, caFileSet := v } {} scheme u true with
  | none => pure ("plan=rejected connected=0 appdata=0 cleartext=0 version=- port=" ++ (if form == "noport" then "-" else "explicit"))
  | some p =>
    match p with
    | .tls .. =>
      let o := clientOutcome Ossl.ref p (if v then .right else .empty) .empty { kind := kind, cert := CertKind.valid.props, ceil := 772 }
      pure (line p o.isSome o.isSome false o ++ " port=" ++ port true)
    | .plain => pure (line p true true true none ++ " port=" ++ port true)
    | .refuse _ => pure (line p false false false none ++ " port=" ++ port false)

/-- `hreuse <first> <second> <verify>`: one HttpClient, two requests to the same host:port, peer serves both schemes keep-alive -/
def reuseCell (first second : String) : Option String := do
  let f ← (match first with | "http" => some false | "https" => some true | _ => none)
  let g ← (match second with | "http" => some false | "https" => some true | _ => none)
  let run := cacheRun none [⟨f, false⟩, ⟨g, false⟩]
  let conns := (run.filter (fun x => x.2.2)).length
  let leak := run.any (fun x => x.1 && x.2.1 != Mode.client)
  let secondOn := match run with
    | [_, x] => if x.2.1 == Mode.client then "tls" else "plain"
    | _ => "-"
  pure s!"r1=200 r2=200 conns={conns} second_on={secondOn} secure_in_clear={bit leak}"

/-- `hreconf <v1> <trigger> <v2>`: setTlsConfig{v1}; trigger; setTlsConfig{v2}; https request to a SELF-SIGNED server -/
def reconfCell (v1 trigger v2 : String) : Option String := do
  let a ← parseBit v1
  let b ← parseBit v2
  let c1 : HttpTls := { verifyPeer := a, caFileSet := a }
  let c2 : HttpTls := { verifyPeer := b, caFileSet := b }
  let touch1 ← (match trigger with | "get" => some true | "dns" => some true | "none" => some false | _ => none)
  let s1 := hRun {} ([.setTls c1] ++ (if touch1 then [.touch] else []))
  let threw := (hStep s1 (.setTls c2)).2
  let s2 := hRun (hStep s1 (.setTls c2)).1 [.touch]
  let req := fun (cfg : HttpTls) =>
    let p := httpClientPlan cfg {} true .ipv4 true
    let o := clientOutcome Ossl.ref p (if cfg.caFileSet then .right else .empty) .empty { kind := .tls, cert := CertKind.selfSigned.props, ceil := 772 }
    (if o.isSome then "200" else "err", match p with | .tls c _ _ => showVerify c.verify | _ => "-")
  let r1 := if trigger == "get" then (req (s1.applied.getD s1.stored)).1 else "-"
  let r2 := req (s2.applied.getD s2.stored)
  pure s!"set2={if threw then "throw" else "ok"} r1={r1} r2={r2.1} verify2={r2.2}"

/-- `hslife <seq> <peer>`: one HttpServer, the calls of `seq` (`E` = enableTls(valid cert, key), `S` = start, `X` = stop, joined by `-`),
then — if the server is started — one GET by a TLS or a plaintext peer -/
def hslifeCell (seq peer : String) : Option String := do
  let (kind, plainOk) ← parsePeer peer
  let ops ← (seq.splitOn "-").mapM (fun
    | "E" => some (HSOp.enableTls {}) | "S" => some HSOp.start | "X" => some HSOp.stop | _ => none)
  let rec go (st : HSState) (acc : List String) : List HSOp → HSState × List String
    | [] => (st, acc)
    | o :: os =>
      let r := hsStep st o
      go r.1 (match o with | .enableTls _ => acc ++ [if r.2 then "throw" else "ok"] | _ => acc) os
  let (st, en) := go {} [] ops
  let ens := if en.isEmpty then "-" else ",".intercalate en
  match st.plan {} with
  | none => pure ("plan=none connected=0 appdata=0 cleartext=0 version=- en=" ++ ens)
  | some p =>
    match p with
    | .tls .. =>
      let o := serverOutcome Ossl.ref p .empty .empty { kind := kind, cert := none, ceil := 772 }
      pure (line p o.isSome o.isSome (sessionLeaks p false .server o.isSome) o ++ " en=" ++ ens)
    | .plain => pure (line p plainOk plainOk plainOk none ++ " en=" ++ ens)
    | .refuse _ => pure (line p false false false none ++ " en=" ++ ens)

/-- `hinit <bad> <url>`: HttpClient; setTlsConfig{verifyPeer, caFile = an unloadable file}; https request (the initialisation FAILS);
setTlsConfig{verifyPeer, no caFile} (the system store of the cell holds the right CA); https request to `<url>` (name | ip).
`r2=skip`: the harness does not send the second request when the corrected settings were refused. -/
def hinitCell (bad url : String) : Option String := do
  if !(bad == "badfile" || bad == "missing") then none
  let u ← (match url with | "name" => some (UrlHost.name theHost) | "ip" => some .ipv4 | _ => none)
  let c1 : HttpTls := { verifyPeer := true, caFileSet := true }
  let c2 : HttpTls := { verifyPeer := true, caFileSet := false }
  let s0 := hRun {} [.setTls c1]
  let f1 := hStep s0 .touchFail
  let set2 := hStep f1.1 (.setTls c2)
  let t2 := hStep set2.1 .touch
  let r2 := if set2.2 then "skip" else if t2.2 then "err" else
    (let p := httpClientPlan (t2.1.applied.getD c2) {} true u true
     let o := clientOutcome Ossl.ref p .empty .right { kind := .tls, cert := CertKind.valid.props, ceil := 772 }
     if o.isSome then "200" else "err")
  pure s!"r1={if f1.2 then "err" else "200"} set2={if set2.2 then "throw" else "ok"} r2={r2}"

/-- `udp <connect|listen> <req>` -/
def udpCell (op req : String) : Option String := do
  let rq ← parseMode req
  let p ← (match op with | "connect" => some (udpConnectPlan rq) | "listen" => some (udpListenPlan rq) | _ => none)
  match p with
  | .plain => pure (line p true false false none)
  | _ => pure (line p false false false none)

/-- `svc <cert> <key> <ca> <require>`: the plan of IoraService's webhook server for the given optional `server.tls` settings (model only:
the service singleton is not run inside the harness; the executed witness is kept in corpus/C07/FC07f-*.json) -/
def svcCell (cert key ca require : String) : Option String := do
  let c ← parseBit cert
  let k ← parseBit key
  let a ← parseBit ca
  let r ← parseBit require
  pure ("plan=" ++ showPlan (servicePlan { certSet := c, keySet := k, caSet := a, requireClientCert := r } {}))

def optOf (toks : List String) (k : String) : Option String :=
  (toks.find? (fun t => t.startsWith (k ++ "="))).map (fun t => (t.drop (k.length + 1)).toString)

def step (_ : Unit) (toks : List String) : Unit × String :=
  let opts := toks.filter (fun t => t.contains '=')
  let greet := optOf opts "greet" == some "1"
  let ciphers := cipherClass (optOf opts "ciphers")
  let other := optOf opts "other" == some "1"
  let sys := (optOf opts "sys").getD "empty"
  let depth : Int := ((optOf opts "depth").bind String.toInt?).getD 4
  let ownCert := (optOf opts "owncert").isSome
  match toks.filter (fun t => !t.contains '=') with
  | ["certtable"] => ((), certTable)
  | ["cli", _api, verify, trust, scert, ceil, peer, target, min, _et, _batch, enabled, defmode, req] =>
    ((), (cliCell verify trust scert ceil peer target min enabled defmode req ciphers other sys depth ownCert).getD "bad-op")
  | ["srv", verify, trust, own, ccert, ceil, peer, min, _et, _batch, enabled, defmode, req] =>
    ((), (srvCell verify trust own ccert ceil peer min enabled defmode req greet ciphers other sys depth).getD "bad-op")
  | ["hurl", scheme, form, verify, peer] => ((), (urlCell scheme form verify peer).getD "unmodelled")
  | ["hreuse", first, second, _verify] => ((), (reuseCell first second).getD "bad-op")
  | ["hreconf", v1, trigger, v2] => ((), (reconfCell v1 trigger v2).getD "bad-op")
  | ["http", verify, ca, sys, scert, url, ceil, peer] => ((), (httpCell verify ca sys scert url ceil peer).getD "bad-op")
  | ["hsrv", require, ca, own, ccert, ceil, peer] => ((), (hsrvCell require ca own ccert ceil peer sys).getD "bad-op")
  | ["hslife", seq, peer] => ((), (hslifeCell seq peer).getD "bad-op")
  | ["hinit", bad, url] => ((), (hinitCell bad url).getD "bad-op")
  | ["udp", op, req] => ((), (udpCell op req).getD "bad-op")
  | ["svc", cert, key, ca, require] => ((), (svcCell cert key ca require).getD "bad-op")
  | ["fires"] => ((), "fires")
  | _ => ((), "bad-op")

def main : IO Unit := runLines () step

end Iora.Driver.Tls
