import Driver.Common
import IoraModel.Model.TimingWheel
import IoraModel.Gen.Timer
namespace Iora.Driver.Wheel
open Iora Iora.Wheel Iora.Driver

structure St where
  cfg : Cfg := ⟨10, 8, 2⟩
  w : Wheel := Wheel.init ⟨10, 8, 2⟩
  clk : Int := 0
  /-- the harness's virtual epoch (`kBaseNs`, 30 days; op `base`): the model works on ABSOLUTE clock values `base + clk`, because the
  saturating deadline (`deadlineAfter`) depends on them; `dump` prints offsets from the epoch like the harness -/
  base : Int := 2592000000000000

def St.now (st : St) : Int := st.base + st.clk

/-- absolute virtual clock values stay 10^15 ns below `tpMax` (as the harness) -/
def clockLimit : Int := 9223372036854775807 - 1000000000000000

/-- delays: the full range of `std::chrono::milliseconds::rep` except `LLONG_MIN` (as the harness) -/
def delay? (s : String) : Option Int :=
  match s.toInt? with
  | some d => if d.natAbs ≤ 9223372036854775807 then some d else none
  | none => none

def commaSep (xs : List String) : String := if xs.isEmpty then "-" else ",".intercalate xs

def showIds (es : List Entry) : String := commaSep (es.map (fun e => toString e.id))

def sortNat (l : List Nat) : List Nat := l.foldr (fun x acc => (acc.filter (· < x)) ++ [x] ++ (acc.filter (fun y => ¬ y < x))) []

/-- entries in the order a walk over levels and buckets meets them (what the harness prints from the real buckets) -/
def walkOrder (c : Cfg) (w : Wheel) : List Entry :=
  (List.range c.levels).flatMap fun l => (List.range c.slots).flatMap fun b => w.entries.filter (inBucket l b)

def dump (c : Cfg) (base : Int) (w : Wheel) : String :=
  let cur := ",".intercalate ((List.range c.levels).map (fun l => toString (curAt w l)))
  let la := match w.lastAdvance with | none => "none" | some t => toString (t - base)
  let es := commaSep ((walkOrder c w).map (fun e => s!"{e.id}:{e.level}:{e.bucket}:{e.deadline - base}"))
  s!"cur={cur} la={la} acc={bit w.accepting} map={w.entries.length} e={es}"

def pow2 (n : Nat) : Bool := n > 0 && (n &&& (n - 1)) == 0

def step (st : St) : List String → St × String
  | ["reset", t, s, l] =>
    match t.toNat?, s.toNat?, l.toNat? with
    | some t, some s, some l =>
      if t = 0 || !pow2 s || l = 0 || s > 65536 || l > 8 then (st, "bad-op")
      else
        let c : Cfg := ⟨t, s, l⟩
        ({ cfg := c, w := Wheel.init c, clk := 0, base := 2592000000000000 }, "ok")
    | _, _, _ => (st, "bad-op")
  | ["start"] => ({ st with w := start st.w st.now }, "ok")
  | ["base", n] =>
    match n.toNat? with
    | some n => if n = 0 || (n : Int) > clockLimit - st.clk then (st, "bad-op") else ({ st with base := n }, "ok")
    | none => (st, "bad-op")
  | ["wreset"] =>
    if st.w.state = .stopped then ({ st with w := reset st.w }, "ok") else (st, "not-stopped")
  | ["mtsched", a, b, d] =>
    match a.toNat?, b.toNat?, delay? d with
    | some a, some b, some _ =>
      if a < 1 || a > 8 || b < 1 || b > 50000 then (st, "bad-op")
      else
        -- W1 (ids pairwise distinct, conservation) for ANY interleaving of the a*b schedule() calls: every call takes a fresh id
        -- (`_nextId.fetch_add`, Gen.Timer.wheelIdAllocAtomic) and links one entry; the op then cancels them all again
        let acc := if st.w.accepting then a * b else 0
        ({ st with w := { st.w with nextId := st.w.nextId + acc } },
         s!"acc={acc} dups=0 pending_short=0 cancelled={acc} next={st.w.nextId + acc}")
    | _, _, _ => (st, "bad-op")
  | ["clk", n] =>
    match n.toNat? with
    | some n => if (n : Int) > clockLimit - st.base then (st, "bad-op") else ({ st with clk := n }, "ok")
    | none => (st, "bad-op")
  | ["sched", d] =>
    match delay? d with
    | some d => let r := schedule st.cfg st.w st.now d; ({ st with w := r.1 }, toString r.2)
    | none => (st, "bad-op")
  | ["cancel", i] =>
    match i.toNat? with
    | some i => let r := cancel st.w i; ({ st with w := r.1 }, bit r.2)
    | none => (st, "bad-op")
  | ["resched", i, d] =>
    match i.toNat?, delay? d with
    | some i, some d => let r := reschedule st.cfg st.w st.now i d; ({ st with w := r.1 }, bit r.2)
    | _, _ => (st, "bad-op")
  | ["adv", n] =>
    match n.toNat? with
    | some n =>
      if (n : Int) > clockLimit - st.base then (st, "bad-op") else
      let r := advance st.cfg st.w (st.base + n)
      ({ st with w := r.1, clk := n }, s!"n={r.2.length} f={showIds r.2}")
    | none => (st, "bad-op")
  | ["vclock"] => (st, "virtual")
  | ["pending"] => (st, toString st.w.entries.length)
  | ["dump"] => (st, dump st.cfg st.base st.w)
  | ["drain", t] =>
    match t.toInt? with
    | some t =>
      -- virtual time stands still inside the call: the timeout test `elapsed >= timeout` fails at once iff timeout <= 0
      let budget := if t ≤ 0 then 0 else st.w.entries.length
      let r := drain st.w st.now budget
      let ids := commaSep ((sortNat (r.2.fired.map (·.id))).map toString)
      ({ st with w := r.1 }, s!"f={ids} fired={r.2.fired.length} c={r.2.cancelled.length} r={r.2.remaining.length}")
    | none => (st, "bad-op")
  | ["stop"] => ({ st with w := (stop st.w).1 }, "ok")
  | ["race", d] =>
    match delay? d with
    | some d =>
      -- the F32 schedule: scheduler tests the flag; stop() runs completely; scheduler locks, (re-tests,) inserts
      let x0 : Race.St := { accepting := st.w.accepting }
      let x := Race.runSched Gen.Timer.wheelScheduleRechecksUnderLock x0 [false, true, true, true, false, false, false]
      let parked := st.w.accepting
      let w1 := (stop st.w).1
      let id := st.w.nextId
      let w2 := if parked then { w1 with nextId := id + 1 } else w1
      let w3 := if x.stored then insertEntry st.cfg w2 id (deadlineAfter st.now d) d else w2
      ({ st with w := w3 }, s!"parked={bit parked} id={if x.s = .accepted then id else 0} pending={w3.entries.length}")
    | none => (st, "bad-op")
  | _ => (st, "bad-op")

def main : IO Unit := runLines ({} : St) step

end Iora.Driver.Wheel
