import Driver.Common
import IoraModel.Model.TimingWheel
import IoraModel.Gen.Timer
namespace Iora.Driver.Wheel
open Iora Iora.Wheel Iora.Driver

structure St where
  cfg : Cfg := ⟨10, 8, 2⟩
  w : Wheel := Wheel.init ⟨10, 8, 2⟩
  clk : Int := 0

def commaSep (xs : List String) : String := if xs.isEmpty then "-" else ",".intercalate xs

def showIds (es : List Entry) : String := commaSep (es.map (fun e => toString e.id))

def sortNat (l : List Nat) : List Nat := l.foldr (fun x acc => (acc.filter (· < x)) ++ [x] ++ (acc.filter (fun y => ¬ y < x))) []

/-- entries in the order a walk over levels and buckets meets them (what the harness prints from the real buckets) -/
def walkOrder (c : Cfg) (w : Wheel) : List Entry :=
  (List.range c.levels).flatMap fun l => (List.range c.slots).flatMap fun b => w.entries.filter (inBucket l b)

def dump (c : Cfg) (w : Wheel) : String :=
  let cur := ",".intercalate ((List.range c.levels).map (fun l => toString (curAt w l)))
  let la := match w.lastAdvance with | none => "none" | some t => toString t
  let es := commaSep ((walkOrder c w).map (fun e => s!"{e.id}:{e.level}:{e.bucket}:{e.deadline}"))
  s!"cur={cur} la={la} acc={bit w.accepting} map={w.entries.length} e={es}"

def pow2 (n : Nat) : Bool := n > 0 && (n &&& (n - 1)) == 0

def step (st : St) : List String → St × String
  | ["reset", t, s, l] =>
    match t.toNat?, s.toNat?, l.toNat? with
    | some t, some s, some l =>
      if t = 0 || !pow2 s || l = 0 || s > 65536 || l > 8 then (st, "bad-op")
      else
        let c : Cfg := ⟨t, s, l⟩
        ({ cfg := c, w := Wheel.init c, clk := 0 }, "ok")
    | _, _, _ => (st, "bad-op")
  | ["start"] => ({ st with w := start st.w st.clk }, "ok")
  | ["clk", n] =>
    match n.toNat? with
    | some n => ({ st with clk := n }, "ok")
    | none => (st, "bad-op")
  | ["sched", d] =>
    match d.toInt? with
    | some d => let r := schedule st.cfg st.w st.clk d; ({ st with w := r.1 }, toString r.2)
    | none => (st, "bad-op")
  | ["cancel", i] =>
    match i.toNat? with
    | some i => let r := cancel st.w i; ({ st with w := r.1 }, bit r.2)
    | none => (st, "bad-op")
  | ["resched", i, d] =>
    match i.toNat?, d.toInt? with
    | some i, some d => let r := reschedule st.cfg st.w st.clk i d; ({ st with w := r.1 }, bit r.2)
    | _, _ => (st, "bad-op")
  | ["adv", n] =>
    match n.toNat? with
    | some n =>
      let r := advance st.cfg st.w n
      ({ st with w := r.1, clk := n }, s!"n={r.2.length} f={showIds r.2}")
    | none => (st, "bad-op")
  | ["vclock"] => (st, "virtual")
  | ["pending"] => (st, toString st.w.entries.length)
  | ["dump"] => (st, dump st.cfg st.w)
  | ["drain", t] =>
    match t.toInt? with
    | some t =>
      -- virtual time stands still inside the call: the timeout test `elapsed >= timeout` fails at once iff timeout <= 0
      let budget := if t ≤ 0 then 0 else st.w.entries.length
      let r := drain st.w st.clk budget
      let ids := commaSep ((sortNat (r.2.fired.map (·.id))).map toString)
      ({ st with w := r.1 }, s!"f={ids} fired={r.2.fired.length} c={r.2.cancelled.length} r={r.2.remaining.length}")
    | none => (st, "bad-op")
  | ["stop"] => ({ st with w := (stop st.w).1 }, "ok")
  | ["race", d] =>
    match d.toInt? with
    | some d =>
      -- the F32 schedule: scheduler tests the flag; stop() runs completely; scheduler locks, (re-tests,) inserts
      let x0 : Race.St := { accepting := st.w.accepting }
      let x := Race.runSched Gen.Timer.wheelScheduleRechecksUnderLock x0 [false, true, true, true, false, false, false]
      let parked := st.w.accepting
      let w1 := (stop st.w).1
      let id := st.w.nextId
      let w2 := if parked then { w1 with nextId := id + 1 } else w1
      let w3 := if x.stored then insertEntry st.cfg w2 id (st.clk + d * nsPerMs) d else w2
      ({ st with w := w3 }, s!"parked={bit parked} id={if x.s = .accepted then id else 0} pending={w3.entries.length}")
    | none => (st, "bad-op")
  | _ => (st, "bad-op")

def main : IO Unit := runLines ({} : St) step

end Iora.Driver.Wheel
