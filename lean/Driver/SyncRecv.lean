import Driver.Common
import IoraModel.Model.SyncRecvGen
/-! Driver of the C03 model (`iora_model syncrecv`): the single-threaded lockstep ops of harness/c03_syncrecv.cpp and the
micro-step acceptor (`st …`) that replays a DetSched trace of the real class step by step. -/
namespace Iora.Driver.SyncRecv
open Iora Iora.SyncRecv Iora.Driver

structure St where
  cfg : Cfg := defaultCfg
  s : State := {}

def showRes : RecvRes → String
  | .ok bs => s!"ok:{toHex bs}"
  | .timeout => "err:Timeout"
  | .peerClosed => "err:PeerClosed"
  | .overflow => "err:BufferOverflow"
  | .shuttingDown => "err:ShuttingDown"
  | .cancelled => "err:Cancelled"

def showEv : Ev → String
  | .recvRet sid r => s!"recvRet:{sid}:{showRes r}"
  | .cbData sid d => s!"cb:{sid}:{toHex d}"
  | .modeRet sid b => s!"modeRet:{sid}:{bit b}"

def joinEvs (l : List String) : String := if l.isEmpty then "-" else ";".intercalate l

def showMode : Option Mode → String
  | none => "-" | some .async => "a" | some .sync => "s" | some .disabled => "d"

def sumOver (s : State) (f : Sess → Nat) : Nat := (s.dom.map (fun j => f (s.sess j))).foldl (· + ·) 0

def showState (s : State) (sid : Nat) : String :=
  let x := s.sess sid
  let b := match x.buf with
    | none => " b=-"
    | some b => s!" b={b.data.length} h={bit b.hasData} c={bit b.closed} o={bit b.overflow} f={bit (flushing x)} w={waiters x}"
  s!"m={showMode x.mode}{b} nb={bufCount s.sess s.dom} ar={sumOver s waiters} af={sumOver s (fun y => if flushing y then 1 else 0)} sh={bit s.shuttingDown}"

def runSteps (cfg : Cfg) (s : State) (steps : List Step) : State × List Ev := run cfg s steps

def cbEvs (evs : List Ev) : List String :=
  evs.filterMap fun e => match e with | .cbData sid d => some s!"cb:{sid}:{toHex d}" | _ => none

def parseMode (s : String) : Option Mode :=
  if s = "a" then some .async else if s = "s" then some .sync else if s = "d" then some .disabled else none

/-- run `flushStep sid` until the flusher has returned (single-threaded: at most 5 steps; fuel 8) -/
def flushAll (cfg : Cfg) (sid : Nat) : Nat → State → List Ev → State × List Ev
  | 0, s, acc => (s, acc)
  | n + 1, s, acc =>
    match (s.sess sid).flush with
    | none => (s, acc)
    | some _ =>
      let (s', e) := step cfg s (.flushStep sid)
      flushAll cfg sid n s' (acc ++ e)

def parseStep : List String → Option Step
  | ["ioData", sid, hx] => do let sid ← sid.toNat?; let d ← ofHex hx; pure (.ioData sid d)
  | ["ioDeliver"] => some .ioDeliver
  | ["ioClose", sid] => do let sid ← sid.toNat?; pure (.ioClose sid)
  | ["recvEnter", sid, len] => do let sid ← sid.toNat?; let len ← len.toNat?; pure (.recvEnter sid len)
  | ["recvWake", sid, t] => do let sid ← sid.toNat?; let t ← parseBit t; pure (.recvWake sid t)
  | ["setMode", sid, m] => do let sid ← sid.toNat?; let m ← parseMode m; pure (.setMode sid m)
  | ["flushStep", sid] => do let sid ← sid.toNat?; pure (.flushStep sid)
  | ["fence", n] => do let n ← parseBit n; pure (.fence n)
  | _ => none

def step (st : St) : List String → St × String
  | ["reset", mb, gc, al] =>
    match mb.toNat?, gc.toNat?, parseBit al with
    | some mb, some gc, some al =>
      ({ cfg := genCfg mb gc al, s := {} }, "ok")
    | _, _, _ => (st, "bad-op")
  | ["data", sid, hx] =>
    match sid.toNat?, ofHex hx with
    | some sid, some d =>
      let (s', evs) := runSteps st.cfg st.s [.ioData sid d, .ioDeliver]
      ({ st with s := s' }, s!"{joinEvs (cbEvs evs)} | {showState s' sid}")
    | _, _ => (st, "bad-op")
  | ["close", sid] =>
    match sid.toNat? with
    | some sid =>
      let (s', _) := runSteps st.cfg st.s [.ioClose sid]
      ({ st with s := s' }, s!"gclose:{sid} | {showState s' sid}")
    | none => (st, "bad-op")
  | ["recv", sid, len, _t] =>
    match sid.toNat?, len.toNat? with
    | some sid, some len =>
      let (s', evs) := runSteps st.cfg st.s [.recvEnter sid len, .recvWake sid true]
      let r := evs.filterMap fun e => match e with | .recvRet _ r => some (showRes r) | _ => none
      ({ st with s := s' }, s!"{joinEvs r} {joinEvs (cbEvs evs)} | {showState s' sid}")
    | _, _ => (st, "bad-op")
  | ["mode", sid, m] =>
    match sid.toNat?, parseMode m with
    | some sid, some m =>
      let (s1, e1) := Iora.SyncRecv.step st.cfg st.s (.setMode sid m)
      let (s2, evs) := flushAll st.cfg sid 8 s1 e1
      let r := evs.filterMap fun e => match e with | .modeRet _ b => some s!"ret:{bit b}" | _ => none
      ({ st with s := s2 }, s!"{joinEvs r} {joinEvs (cbEvs evs)} | {showState s2 sid}")
    | _, _ => (st, "bad-op")
  | ["fence", n] =>
    match parseBit n with
    | some n =>
      let (s', _) := Iora.SyncRecv.step st.cfg st.s (.fence n)
      ({ st with s := s' }, s!"ok | {showState s' 0}")
    | none => (st, "bad-op")
  | "st" :: rest =>
    match parseStep rest with
    | some sp =>
      let d := ok st.s sp
      let (s', evs) := Iora.SyncRecv.step st.cfg st.s sp
      ({ st with s := s' }, s!"{joinEvs (evs.map showEv)} d={bit d}")
    | none => (st, "bad-op")
  | _ => (st, "bad-op")

def main : IO Unit := runLines ({} : St) step

end Iora.Driver.SyncRecv
