import Driver.Common
import IoraModel.Model.SyncRecvGen
import IoraModel.Model.SyncRecvW
/-! Driver of the C03 model (`iora_model syncrecv`): the single-threaded lockstep ops of harness/c03_syncrecv.cpp and the
micro-step acceptor (`st …`) that replays a DetSched trace of the real class step by step. The state is the wrapper-layer state
(`Model/SyncRecvW.lean`, receiveSyncCancellable); plain operations are its `.base` steps. What a sub-call of a running wrapper
answers is not observable on the real class (the wrapper swallows `Timeout`s and returns everything else itself), so those
`recvRet` events are not printed - the wrapper's own `wrapRet` is. -/
namespace Iora.Driver.SyncRecv
open Iora Iora.SyncRecv Iora.Driver

structure St where
  cfg : Cfg := defaultCfg
  ws : WState := {}

def St.s (st : St) : State := st.ws.core

def showRes : RecvRes → String
  | .ok bs => s!"ok:{toHex bs}"
  | .timeout => "err:Timeout"
  | .peerClosed => "err:PeerClosed"
  | .overflow => "err:BufferOverflow"
  | .shuttingDown => "err:ShuttingDown"
  | .cancelled => "err:Cancelled"

def showEv : Ev → String
  | .recvRet sid r => s!"recvRet:{sid}:{showRes r}"
  | .cbData sid d => s!"cb:{sid}:{toHex d}"
  | .modeRet sid b => s!"modeRet:{sid}:{bit b}"
  | .closeCb sid => s!"gclose:{sid}"

def joinEvs (l : List String) : String := if l.isEmpty then "-" else ";".intercalate l

/-- events of a wrapper step as the harness can observe them; `pre` = wrapper calls running before the step -/
def showWEvs (pre : Nat → Option WCall) (evs : List WEv) : List String :=
  evs.filterMap fun e => match e with
    | .base (.recvRet sid r) => if (pre sid).isSome then none else some (showEv (.recvRet sid r))
    | .base e => some (showEv e)
    | .wrapRet sid r => some s!"wrapRet:{sid}:{showRes r}"

/-- run base steps through the wrapper layer (so that a running wrapper call sees its sub-call's critical sections) -/
def runBase (cfg : Cfg) (ws : WState) (steps : List Step) : WState × List Ev :=
  let r := wrun cfg ws (steps.map .base)
  (r.1, coreEvs r.2)

def showMode : Option Mode → String
  | none => "-" | some .async => "a" | some .sync => "s" | some .disabled => "d"

def sumOver (s : State) (f : Sess → Nat) : Nat := (s.dom.map (fun j => f (s.sess j))).foldl (· + ·) 0

def showState (s : State) (sid : Nat) : String :=
  let x := s.sess sid
  let b := match x.buf with
    | none => " b=-"
    | some b => s!" b={b.data.length} h={bit b.hasData} c={bit b.closed} o={bit b.overflow} f={bit (flushing x)} w={waiters x}"
  s!"m={showMode x.mode}{b} nb={bufCount s.sess s.dom} ar={sumOver s waiters} af={sumOver s (fun y => if flushing y then 1 else 0)} sh={bit s.shuttingDown}"

def runSteps (cfg : Cfg) (s : State) (steps : List Step) : State × List Ev := run cfg s steps

def cbEvs (evs : List Ev) : List String :=
  evs.filterMap fun e => match e with | .cbData sid d => some s!"cb:{sid}:{toHex d}" | .closeCb sid => some s!"gclose:{sid}" | _ => none

def parseMode (s : String) : Option Mode :=
  if s = "a" then some .async else if s = "s" then some .sync else if s = "d" then some .disabled else none

/-- run `flushStep sid` until the flusher has returned (single-threaded: at most 5 steps; fuel 8) -/
def flushAll (cfg : Cfg) (sid : Nat) : Nat → State → List Ev → State × List Ev
  | 0, s, acc => (s, acc)
  | n + 1, s, acc =>
    match (s.sess sid).flush with
    | none => (s, acc)
    | some _ =>
      let (s', e) := step cfg s (.flushStep sid)
      flushAll cfg sid n s' (acc ++ e)

def parseStep : List String → Option Step
  | ["ioData", sid, hx] => do let sid ← sid.toNat?; let d ← ofHex hx; pure (.ioData sid d)
  | ["ioDeliver"] => some .ioDeliver
  | ["ioClose", sid] => do let sid ← sid.toNat?; pure (.ioClose sid)
  | ["ioCloseCb", sid] => do let sid ← sid.toNat?; pure (.ioCloseCb sid)
  | ["recvEnter", sid, len] => do let sid ← sid.toNat?; let len ← len.toNat?; pure (.recvEnter sid len)
  | ["recvWake", sid, t] => do let sid ← sid.toNat?; let t ← parseBit t; pure (.recvWake sid t)
  | ["setMode", sid, m] => do let sid ← sid.toNat?; let m ← parseMode m; pure (.setMode sid m)
  | ["flushStep", sid] => do let sid ← sid.toNat?; pure (.flushStep sid)
  | ["fence", n] => do let n ← parseBit n; pure (.fence n)
  | _ => none

/-- run wrapper steps one by one, stopping as soon as the wrapper has returned -/
def runUntilRet (cfg : Cfg) : WState → List WStep → List WEv → WState × List WEv
  | ws, [], acc => (ws, acc)
  | ws, st :: rest, acc =>
    let r := wstep cfg ws st
    if r.2.any (fun e => match e with | .wrapRet _ _ => true | _ => false) then (r.1, acc ++ r.2)
    else runUntilRet cfg r.1 rest (acc ++ r.2)

def parseWStep : List String → Option WStep
  | ["wCall", sid, len] => do let sid ← sid.toNat?; let len ← len.toNat?; pure (.wCall sid len)
  | ["wLoop", sid, e] => do let sid ← sid.toNat?; let e ← parseBit e; pure (.wLoop sid e)
  | ["cancel", sid] => do let sid ← sid.toNat?; pure (.cancel sid)
  | ["reset", sid] => do let sid ← sid.toNat?; pure (.reset sid)
  | l => (parseStep l).map .base

def step (st : St) : List String → St × String
  | ["reset", mb, gc, al] =>
    match mb.toNat?, gc.toNat?, parseBit al with
    | some mb, some gc, some al =>
      ({ cfg := genCfg mb gc al, ws := {} }, "ok")
    | _, _, _ => (st, "bad-op")
  | ["data", sid, hx] =>
    match sid.toNat?, ofHex hx with
    | some sid, some d =>
      let (w', evs) := runBase st.cfg st.ws [.ioData sid d, .ioDeliver]
      ({ st with ws := w' }, s!"{joinEvs (cbEvs evs)} | {showState w'.core sid}")
    | _, _ => (st, "bad-op")
  | ["close", sid] =>
    match sid.toNat? with
    | some sid =>
      -- the close handler: the section that marks the session closed, THEN the global close callback (FC03c)
      let (w', evs) := runBase st.cfg st.ws [.ioClose sid, .ioCloseCb sid]
      ({ st with ws := w' }, s!"{joinEvs (cbEvs evs)} | {showState w'.core sid}")
    | none => (st, "bad-op")
  | ["closew", sid, m] =>
    -- the close handler with a close OBSERVER that lets an application thread call setReadMode(sid, m) and waits for it: the call
    -- runs after the global close callback, inside the handler's callback phase - i.e. after the mark (FC03c)
    match sid.toNat?, parseMode m with
    | some sid, some m =>
      let (w', e0) := runBase st.cfg st.ws [.ioClose sid, .ioCloseCb sid]
      let (s1, e1) := Iora.SyncRecv.step st.cfg w'.core (.setMode sid m)
      let (s2, evs) := flushAll st.cfg sid 8 s1 (e0 ++ e1)
      let r := evs.filterMap fun e => match e with | .modeRet _ b => some s!"ret:{bit b}" | _ => none
      ({ st with ws := { w' with core := s2 } }, s!"{joinEvs (cbEvs evs)} {joinEvs r} | {showState s2 sid}")
    | _, _ => (st, "bad-op")
  | ["creset", sid] =>
    match sid.toNat? with
    | some sid =>
      let r := wstep st.cfg st.ws (.reset sid)
      ({ st with ws := r.1 }, s!"ok | {showState r.1.core sid}")
    | none => (st, "bad-op")
  | ["recvcx", sid, len, _t, hx] =>
    -- receiveSyncCancellable on a second thread; once its sub-call is parked (or the call has returned) the token is cancelled and THEN
    -- the chunk is delivered: the sub-call is woken by the data and its bytes must be returned although the token is cancelled (C03-d)
    match sid.toNat?, len.toNat?, ofHex hx with
    | some sid, some len, some d =>
      let r1 := runUntilRet st.cfg st.ws [.wCall sid len, .wLoop sid false, .base (.recvEnter sid len)] []
      let r2 := runUntilRet st.cfg r1.1 [.cancel sid, .base (.ioData sid d), .base .ioDeliver] []
      let returned := r1.2.any (fun e => match e with | .wrapRet _ _ => true | _ => false)
      let r3 := if returned then (r2.1, ([] : List WEv))
                else runUntilRet st.cfg r2.1 [.base (.recvWake sid false), .base (.recvWake sid true), .wLoop sid false] []
      let all := r1.2 ++ r2.2 ++ r3.2
      let res := all.filterMap fun e => match e with | .wrapRet _ x => some (showRes x) | _ => none
      ({ st with ws := r3.1 }, s!"{joinEvs (res.take 1)} {joinEvs (cbEvs (coreEvs all))} | {showState r3.1.core sid}")
    | _, _, _ => (st, "bad-op")
  | ["recv", sid, len, _t] =>
    match sid.toNat?, len.toNat? with
    | some sid, some len =>
      let (w', evs) := runBase st.cfg st.ws [.recvEnter sid len, .recvWake sid true]
      let r := evs.filterMap fun e => match e with | .recvRet _ r => some (showRes r) | _ => none
      ({ st with ws := w' }, s!"{joinEvs r} {joinEvs (cbEvs evs)} | {showState w'.core sid}")
    | _, _ => (st, "bad-op")
  | ["recvc", sid, len, t] =>
    -- single-threaded receiveSyncCancellable: entry check; timeout 0 = the loop is never entered; else one sub-call, which either
    -- answers at once or parks until its (sub-)timeout, after which - nothing else can happen meanwhile - the deadline has passed
    match sid.toNat?, len.toNat?, t.toNat? with
    | some sid, some len, some t =>
      let script : List WStep :=
        if t == 0 then [.wCall sid len, .wLoop sid true]
        else [.wCall sid len, .wLoop sid false, .base (.recvEnter sid len), .base (.recvWake sid true), .wLoop sid true]
      let r := runUntilRet st.cfg st.ws script []
      let res := r.2.filterMap fun e => match e with | .wrapRet _ x => some (showRes x) | _ => none
      ({ st with ws := r.1 }, s!"{joinEvs (res.take 1)} {joinEvs (cbEvs (coreEvs r.2))} | {showState r.1.core sid}")
    | _, _, _ => (st, "bad-op")
  | ["cancel", sid] =>
    match sid.toNat? with
    | some sid =>
      let r := wstep st.cfg st.ws (.cancel sid)
      ({ st with ws := r.1 }, s!"ok | {showState r.1.core sid}")
    | none => (st, "bad-op")
  | ["recvlong", sid, len, _t, hx] =>
    -- a receive on a second thread, the chunk delivered once it is parked (or has returned), then its wake-up
    match sid.toNat?, len.toNat?, ofHex hx with
    | some sid, some len, some d =>
      let (w', evs) := runBase st.cfg st.ws [.recvEnter sid len, .ioData sid d, .ioDeliver, .recvWake sid false]
      let r := evs.filterMap fun e => match e with | .recvRet _ r => some (showRes r) | _ => none
      ({ st with ws := w' }, s!"{joinEvs r} {joinEvs (cbEvs evs)} | {showState w'.core sid}")
    | _, _, _ => (st, "bad-op")
  | ["state", sid] =>
    match sid.toNat? with
    | some sid => (st, showState st.s sid)
    | none => (st, "bad-op")
  | ["mode", sid, m] =>
    match sid.toNat?, parseMode m with
    | some sid, some m =>
      let (s1, e1) := Iora.SyncRecv.step st.cfg st.s (.setMode sid m)
      let (s2, evs) := flushAll st.cfg sid 8 s1 e1
      let r := evs.filterMap fun e => match e with | .modeRet _ b => some s!"ret:{bit b}" | _ => none
      ({ st with ws := { st.ws with core := s2 } }, s!"{joinEvs r} {joinEvs (cbEvs evs)} | {showState s2 sid}")
    | _, _ => (st, "bad-op")
  | ["fence", n] =>
    match parseBit n with
    | some n =>
      let (s', _) := Iora.SyncRecv.step st.cfg st.s (.fence n)
      ({ st with ws := { st.ws with core := s' } }, s!"ok | {showState s' 0}")
    | none => (st, "bad-op")
  | "st" :: rest =>
    match parseWStep rest with
    | some sp =>
      let d := okW st.ws sp
      let r := wstep st.cfg st.ws sp
      ({ st with ws := r.1 }, s!"{joinEvs (showWEvs st.ws.w r.2)} d={bit d}")
    | none => (st, "bad-op")
  | _ => (st, "bad-op")

def main : IO Unit := runLines ({} : St) step

end Iora.Driver.SyncRecv
