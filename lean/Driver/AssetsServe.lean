import Driver.Common
import IoraModel.Model.AssetsServe
/-! Driver ops of the C20 serve layer (`pdec`, `hasdd`, `serve`, `render`); called from the fall-through of `Driver/Assets.lean`. -/
namespace Iora.Driver.AssetsServe
open Iora Iora.Assets Iora.Driver

def showServe (r : ServeRes) : String :=
  s!"{r.status} {toHex r.body} {bit r.gzip} {toHex r.mime.toUTF8.toList}"

/-- `none` = not an op of this layer.  The instance may change (filesystem-mode cache), the file system never does. -/
def stepServe (fs : Fs) (a : Option Iora.Assets.Assets) : List String → Option (Option Iora.Assets.Assets × String)
  | ["pdec", p] =>
    match ofHex p with
    | some p => some (a, toHex (urlDecode p))
    | none => some (a, "bad-op")
  | ["hasdd", p] =>
    match ofHex p with
    | some p => some (a, bit (hasDotDotSegment p))
    | none => some (a, "bad-op")
  | ["serve", raw, acc] =>
    match ofHex raw, parseBit acc, a with
    | some raw, some acc, some inst =>
      let (r, inst') := serveStatic fs inst raw acc
      some (some inst', showServe r)
    | some _, some _, none => some (a, "no-instance")
    | _, _, _ => some (a, "bad-op")
  | ["render", n] =>
    -- the model does not contain Mustache: the answer is the op's name; what the real `render` produced is oracle data
    match ofHex n with
    | some _ => some (a, "render")
    | none => some (a, "bad-op")
  | _ => none

end Iora.Driver.AssetsServe
