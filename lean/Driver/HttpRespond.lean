import Driver.Common
import IoraModel.Model.HttpRespondConn
import IoraModel.Model.HttpRespondScript
/-! `iora_model httprespond`: the C16 decision procedure (`processHttpRequest`) and the reference framer on the line protocol. -/
namespace Iora.Driver.HttpRespond
open Iora Iora.HttpRespond Iora.Driver

structure St where
  routes : Routes Script := []
  dflt : Option Script := none
  upgrade : Option Script := none
  /-- the scripted `onUpgradeRequest` calls `markSessionUpgraded(sid)` (script action `mark`), as WebSocketServer does -/
  upgradeMarks : Bool := false
  /-- `onResponseSuppressed`: returns false / true, or throws a std / non-std exception -/
  suppressHook : Seam Bool := .ret false
  /-- `onUpgradedData` as called by the upgrade arm's buffer drain -/
  drainHook : Nat → Seam Unit := fun _ => .ret ()
  /-- the worker-pool model (`parr` / `prel` / `pdrain` ops) -/
  pool : Pool := {}
  /-- gate of each unfinished task, aligned with `pool.tasks` (`none` = the request reaches no handler) -/
  gates : List (Option Nat) := []
  opened : List Nat := []
  openAll : Bool := false
  reported : Nat := 0

def parseAction (s : String) : Option HAction :=
  match s.splitOn ":" with
  | ["st", n] => n.toInt?.map HAction.setStatus
  | ["sc", b, ct] => do let b ← ofHex b; let ct ← ofHex ct; pure (.setContent b ct)
  | ["sh", k, v] => do let k ← ofHex k; let v ← ofHex v; pure (.setHeader k v)
  | ["bd", b] => (ofHex b).map HAction.setBodyRaw
  | ["eh", k] => (ofHex k).map HAction.eraseHeader
  | ["sup"] => some .suppress
  | ["thr"] => some .throwStd
  | ["thx"] => some .throwOther
  | ["echo"] => some .echo
  | ["big", n, f] => do let n ← n.toNat?; let f ← f.toNat?; if f < 256 then pure (.big n (UInt8.ofNat f)) else none
  | ["gate"] => some .nop
  | ["mark"] => some .nop
  | ["sleep", n] => n.toNat?.map (fun _ => HAction.nop)
  | _ => none

def parseScript (s : String) : Option Script :=
  if s = "-" then some [] else (s.splitOn ",").mapM parseAction

def parseMethodName (s : String) : Option Method := Method.ofName s

def fnv64 (bs : Bytes) : UInt64 :=
  bs.foldl (fun h b => (h ^^^ b.toUInt64) * 0x100000001b3) 0xcbf29ce484222325

def hex16 (x : UInt64) : String :=
  String.ofList ((List.range 16).map fun i => hexDigit ((x.toNat / 16 ^ (15 - i)) % 16))

def showWire (w : Bytes) : String :=
  match splitAtSub crlf2 w with
  | some (head, body) => s!"{toHex (head ++ crlf2)} {body.length} {hex16 (fnv64 body)}"
  | none => s!"{toHex w} noterm 0"

def showOutcome : Outcome → String
  | .respond w c => s!"respond {bit c} {showWire w}"
  | .sendFailed c => s!"sendfailed {bit c}"
  | .suppressed => "silent suppressed"
  | .nothing => "silent nothing"

def mkServer (st : St) : Server :=
  { routes := st.routes.map (fun e => (e.1, e.2.map (fun pe => (pe.1, runScript pe.2)))),
    defaultHandler := st.dflt.map runScript,
    upgradeHook := fun req =>
      match st.upgrade with
      | none => .ret none
      | some sc =>
        let o := runScript sc req {}
        if o.threw then .threw (!o.nonStd) else .ret (some o.res),
    suppressHook := fun _ _ => st.suppressHook,
    drainHook := st.drainHook }

def parseSess : String → Option (Option SessionInfo)
  | "-" => some none
  | "d" => some (some {})
  | "v10" => some (some { httpVersion := ascii "1.0" })
  | "nka" => some (some { connectionKeepAlive := false })
  | _ => none

/-- env as 6 bits: shutdownAtEntry transportAtEntry flipDuringUserCode enqueueOk upAtClose transportAtSend.  The harness
    realises `upAtClose = false` in the shutdown arm by resetting `_transport` right after the Send (`stop()` between the arm's
    two `_mutex` sections), and `upAtSend = false` by a null transport / a `_shutdown` flag that stays set, so the guard of a later close block
    fails as well; `buffered` = passes of the drain loop that find bytes in an existing session's read buffer. -/
def parseEnv (bits : String) (sess : Option SessionInfo) (userCode : Bool) (buffered : Nat) : Option Env :=
  match bits.toList.map (fun c => c == '1') with
  | [sh, tr, flip, enq, upc, trs] =>
    let upSend := trs && !(flip && userCode)
    some { shutdownAtEntry := sh, transportAtEntry := tr, transportAtShutdownClose := upc, upAtSend := upSend, enqueueOk := enq,
           upAtClose := upc && upSend, sess := sess, drainChunks := if sess.isSome then buffered else 0 }
  | _ => none

/-- residual token: `-` or comma-separated hex chunks — the first is in the session buffer when the worker runs, each further one
    is a read that arrives (through `handleIncomingData`, under the upgrade hold) while the previous pass is inside the hook -/
def parseChunks (s : String) : Option (List Bytes) :=
  if s = "-" then some [] else (s.splitOn ",").mapM ofHex

/-- passes of the drain loop that find bytes: none unless the first chunk is non-empty and the hook marked the session upgraded -/
def chunkCount (st : St) (cs : List Bytes) : Nat :=
  match cs with
  | [] => 0
  | c :: _ => if c.isEmpty || (Gen.HttpRespond.upgradeDrainRequiresMarked && !st.upgradeMarks) then 0 else cs.length

/-- `hook drain` spec: `0` returns always; `thr` / `thx` throws (std / non-std) at every call; `thr@k` / `thx@k` only at call k -/
def parseDrain (s : String) : Option (Nat → Seam Unit) :=
  match s.splitOn "@" with
  | ["0"] => some (fun _ => .ret ())
  | ["thr"] => some (fun _ => .threw true)
  | ["thx"] => some (fun _ => .threw false)
  | ["thr", k] => k.toNat?.map (fun k j => if j == k then .threw true else .ret ())
  | ["thx", k] => k.toNat?.map (fun k j => if j == k then .threw false else .ret ())
  | _ => none

/-- how often the upgrade arm's drain loop calls `onUpgradedData` for this request (0 on every other arm) -/
def hookCallsOf (srv : Server) (env : Env) (d : Bytes) : Nat :=
  if env.shutdownAtEntry then 0 else
  match fromWireFormat d with
  | .error _ => 0
  | .ok p =>
    let req0 := mkReq p
    match (if hasUpgradeHeader req0.headers then srv.upgradeHook req0 else .ret none) with
    | .ret (some _) => drainHookCalls srv.drainHook env.drainChunks 0
    | _ => 0

/-- the answer line of a `req` op: the outcome, except that a lone Close has its own word -/
def showProcess (srv : Server) (env : Env) (d : Bytes) : String :=
  let t := processCalls srv env d
  if t.1 = [.close] then "closeonly" else showOutcome (outcomeOf env t)

def poolParams (st : St) : Params :=
  { w := Gen.HttpRespond.poolMax, qcap := Gen.HttpRespond.poolQueueCap,
    respond := fun _ d => (process (mkServer st) Env.up d).cmds }

def removeAt {α : Type} : List α → Nat → List α
  | [], _ => []
  | _ :: xs, 0 => xs
  | x :: xs, i + 1 => x :: removeAt xs i

/-- the first running task that is not parked at a closed gate -/
def firstRunnable (st : St) : Option Nat :=
  let rec go : List Task → List (Option Nat) → Nat → Option Nat
    | t :: ts, g :: gs, i =>
      let parked := match g with
        | some k => !st.openAll && !st.opened.contains k
        | none => false
      if t.running && !parked then some i else go ts gs (i + 1)
    | _, _, _ => none
  go st.pool.tasks st.gates 0

/-- what the real pool does between two ops: free workers take queued tasks (FIFO), a task whose handler is not parked runs
    to completion (all its commands), until nothing can move -/
partial def settle (st : St) : St :=
  let P := poolParams st
  if runningCount st.pool.tasks < P.w && queuedCount st.pool.tasks > 0 then
    settle { st with pool := stepPool P st.pool .pick }
  else
    match firstRunnable st with
    | none => st
    | some i =>
      let rec emitAll (p : Pool) (n : Nat) : Nat → Pool
        | 0 => p
        | f + 1 => if p.tasks.length < n then p else emitAll (stepPool P p (.emit i)) n f
      let p' := emitAll st.pool st.pool.tasks.length 8
      settle { st with pool := p', gates := removeAt st.gates i }

/-- the lowest closed gate at which a running task is parked -/
def lowestParked (st : St) : Option Nat :=
  let rec go : List Task → List (Option Nat) → Option Nat → Option Nat
    | t :: ts, g :: gs, best =>
      let best' := match g with
        | some k =>
          if t.running && !st.opened.contains k then
            (match best with | some b => some (min b k) | none => some k)
          else best
        | none => best
      go ts gs best'
    | _, _, best => best
  go st.pool.tasks st.gates none

/-- `pdrain`: open the lowest parked gate, let the pool settle, repeat -/
partial def drainGates (st : St) : St :=
  match lowestParked st with
  | none => st
  | some k => drainGates (settle { st with opened := k :: st.opened })

def showCmd (e : Nat × Cmd) : String :=
  match e.2 with
  | .send w =>
    let st := if w.length ≥ 12 then String.ofList (((w.drop 9).take 3).map (fun b => Char.ofNat b.toNat)) else "???"
    s!"{e.1}:S:{st}:{w.length}:{hex16 (fnv64 w)}"
  | .close => s!"{e.1}:X"

def poolDelta (st : St) : St × String :=
  let fresh := st.pool.log.drop st.reported
  let evs := if fresh.isEmpty then "-" else ";".intercalate (fresh.map showCmd)
  ({ st with reported := st.pool.log.length },
   s!"{evs} | queued={queuedCount st.pool.tasks} running={runningCount st.pool.tasks}")

def gateOf (st : St) (d : Bytes) : Option Nat :=
  if !reachesUserCode (mkServer st) d then none else
  match fromWireFormat d with
  | .ok p => (hFind p.headers (ascii "X-Gate")).bind parseDec
  | .error _ => none

def showFrame (f : Frame) : String :=
  s!"{f.status}:{f.lines.length}:{f.body.length}:{hex16 (fnv64 f.body)}"

def step (st : St) : List String → St × String
  | ["reset"] => ({}, "ok")
  | ["parr", sid, hx] =>
    match sid.toNat?, ofHex hx with
    | some sid, some d =>
      let P := poolParams st
      let before := st.pool.tasks.length
      let p' := stepPool P st.pool (.arrive sid d)
      let st' := { st with pool := p', gates := if p'.tasks.length > before then st.gates ++ [gateOf st d] else st.gates }
      poolDelta (settle st')
    | _, _ => (st, "bad-op")
  | "parrn" :: sid :: _wire :: _k :: exts =>
    -- k complete requests in one read; the model takes them in their extracted form (extraction exactness is C15's)
    match sid.toNat?, exts.mapM ofHex with
    | some sid, some ds =>
      let P := poolParams st
      let add (st : St) (d : Bytes) : St :=
        let before := st.pool.tasks.length
        let p' := stepPool P st.pool (.arrive sid d)
        { st with pool := p', gates := if p'.tasks.length > before then st.gates ++ [gateOf st d] else st.gates }
      poolDelta (settle (ds.foldl add st))
    | _, _ => (st, "bad-op")
  | ["prel", k] =>
    match k.toNat? with
    | some k => poolDelta (settle { st with opened := k :: st.opened })
    | none => (st, "bad-op")
  | ["pdrain"] =>
    let st' := drainGates st
    let (st'', o) := poolDelta st'
    ({ st'' with opened := [] }, o)
  | ["route", m, pat, sc] =>
    match parseMethodName m, ofHex pat, parseScript sc with
    | some m, some pat, some sc =>
      match registerHandler st.routes m pat sc with
      | some rt => ({ st with routes := rt }, "ok")
      | none => (st, "rejected")
    | _, _, _ => (st, "bad-op")
  | ["default", sc] =>
    match parseScript sc with
    | some sc => ({ st with dflt := some sc }, "ok")
    | none => (st, "bad-op")
  | ["hook", "upgrade", sc] =>
    if sc = "none" then ({ st with upgrade := none, upgradeMarks := false }, "ok") else
    match parseScript sc with
    | some sc' => ({ st with upgrade := some sc', upgradeMarks := (sc.splitOn ",").contains "mark" }, "ok")
    | none => (st, "bad-op")
  | ["hook", "suppress", b] =>
    match b with
    | "0" => ({ st with suppressHook := .ret false }, "ok")
    | "1" => ({ st with suppressHook := .ret true }, "ok")
    | "thr" => ({ st with suppressHook := .threw true }, "ok")
    | "thx" => ({ st with suppressHook := .threw false }, "ok")
    | _ => (st, "bad-op")
  | ["reqw", hx] =>
    -- the whole predicted wire (end-to-end acceptor): server up, default session
    match ofHex hx with
    | some d =>
      match process (mkServer st) {} d with
      | .respond w c => (st, s!"respond {bit c} {toHex w}")
      | o => (st, showOutcome o)
    | none => (st, "bad-op")
  | ["parr2", sid, hx1, hx2] =>
    -- two complete requests in one read: the extraction loop dispatches both before the pool settles
    match sid.toNat?, ofHex hx1, ofHex hx2 with
    | some sid, some d1, some d2 =>
      let P := poolParams st
      let add (st : St) (d : Bytes) : St :=
        let before := st.pool.tasks.length
        let p' := stepPool P st.pool (.arrive sid d)
        { st with pool := p', gates := if p'.tasks.length > before then st.gates ++ [gateOf st d] else st.gates }
      poolDelta (settle (add (add st d1) d2))
    | _, _, _ => (st, "bad-op")
  | ["req", hx, bits, sess] =>
    match ofHex hx, parseSess sess with
    | some d, some si =>
      let srv := mkServer st
      match parseEnv bits si (reachesUserCode srv d) 0 with
      | some env => (st, showProcess srv env d)
      | none => (st, "bad-op")
    | _, _ => (st, "bad-op")
  | ["req", hx, bits, sess, residual] =>
    -- `residual`: bytes behind the request (first chunk in the session's read buffer when the worker runs, further chunks arrive
    -- while the drain loop is inside the hook); the answer also says how often `onUpgradedData` was called
    match ofHex hx, parseSess sess, parseChunks residual with
    | some d, some si, some cs =>
      let srv := mkServer st
      match parseEnv bits si (reachesUserCode srv d) (chunkCount st cs) with
      | some env => (st, showProcess srv env d ++ s!" hooks={hookCallsOf srv env d}")
      | none => (st, "bad-op")
    | _, _, _ => (st, "bad-op")
  | ["hook", "drain", b] =>
    match parseDrain b with
    | some f => ({ st with drainHook := f }, "ok")
    | none => (st, "bad-op")
  | ["dispatchr", hx, residual] =>
    -- one read = a complete request + bytes behind it (the hold is set by the real `handleIncomingData`); further chunks are later reads
    match ofHex hx, parseChunks residual with
    | some d, some cs =>
      let srv := mkServer st
      let env : Env := { drainChunks := chunkCount st cs }
      (st, showProcess srv env d ++ s!" hooks={hookCallsOf srv env d}")
    | _, _ => (st, "bad-op")
  | ["dispatch", hx] =>
    match ofHex hx with
    | some d => (st, showOutcome (process (mkServer st) {} d))
    | none => (st, "bad-op")
  | ["overflow", hx] =>
    match ofHex hx with
    | some d => (st, showOutcome (.respond (overflowWire (isHeadRaw d)) true) ++ s!" queued={Gen.HttpRespond.poolQueueCap}")
    | none => (st, "bad-op")
  | ["overflow", hx, bits] =>
    -- `sendErrorResponse` in an environment: bits = enqueueOk, _shutdown, transport present
    match bits.toList.map (fun c => c == '1') with
    | [enq, sh, tr] =>
      let env : Env := { upAtSend := tr && !sh, enqueueOk := enq }
      match ofHex hx with
      | some d => (st, showOutcome (outcomeOf env (overflowCalls env (isHeadRaw d), false)) ++ s!" queued={Gen.HttpRespond.poolQueueCap}")
      | none => (st, "bad-op")
    | _ => (st, "bad-op")
  | ["frame", heads, hx] =>
    match ofHex hx with
    | some d =>
      match frameAll (heads.toList.map (fun c => c == '1')) d with
      | some fs => (st, "frames " ++ " ".intercalate (fs.map showFrame))
      | none => (st, "noframes")
    | none => (st, "bad-op")
  | _ => (st, "bad-op")

def main : IO Unit := runLines ({} : St) step

end Iora.Driver.HttpRespond
