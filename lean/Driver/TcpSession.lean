import Driver.Common
import IoraModel.Model.TcpSession
/-!
Acceptor for the C01 trace-inclusion check (DESIGN §2.2): replays the model (`Iora.Tcp.step`) on the I/O-thread trace
recorded by `harness/c01_tcp_stream.cpp`.  The results of the interposed calls in the trace are the environment's
answers (inputs of the model); the calls themselves — which buffer was passed to which write (length + FNV-1a hash of
the whole buffer), read capacities, every epoll mask, every callback — must be exactly the outputs the model produces.

Lines:
  `tcp reset srv=<b> tls=<b> et=<b> batch=<b> mwq=<n> cob=<b> chunk=<n>`
  `tcp acc <L|K|S<len>.<pat>|Z<len>.<pat>|T<len>.<thr>.<seq>|C|C1|C2|C3|X|Q> ...`      accepted commands in command-queue order
  `tcp pw <len>.<pat> ...`                  what the peer writes (to rebuild the bytes behind a read result)
  `tcp seg <tok;tok;...>`                   one epoll_wait wake-up: `V:` events, then the I/O thread's calls in order
  `tcp end`
-/
namespace Iora.Driver.TcpSession
open Iora Iora.Tcp Iora.Driver

def fnv (bs : Bytes) : UInt32 :=
  bs.foldl (fun h b => (h ^^^ b.toUInt32) * 16777619) 2166136261

def hex32 (h : UInt32) : String :=
  let n := h.toNat
  String.ofList ((List.range 8).map fun i => hexDigit ((n / 16 ^ (7 - i)) % 16))

/-- the harness' payload pattern: byte `j` of pattern `pat` -/
def patByte (pat j : Nat) : UInt8 := UInt8.ofNat (pat * 31 + j * 7 + (j / 256) * 13 + (j / 65536) * 101)

def mkPayload (pat len : Nat) : Bytes := (List.range len).map (patByte pat)

/-- the harness' tagged payload: 'T', thread, seq (2 BE), length (4 BE), body derived from (thread, seq) -/
def mkTagged (thr seq len : Nat) : Bytes :=
  ([0x54, thr, seq / 256, seq, len / 16777216, len / 65536, len / 256, len].map UInt8.ofNat ++
    (List.range (len - 8)).map (patByte (thr * 64 + seq + 1))).take len

inductive Acc
  | listener | connect | send (len pat : Nat) | close | quit
  | closeO (o : Nat)             -- a close command as a TimerService callback enqueues it: 1 connect timeout, 2 handshake timeout, 3 write stall
  | other                        -- a command for ANOTHER session of the same engine: no call on the traced session
  | tagged (len thr seq : Nat)   -- a payload that names its sender (unlocked concurrent senders)
  deriving Repr

structure DSt where
  cfg : Cfg := {}
  srv : Bool := true
  tls : Bool := false
  batch : Bool := false
  sess : Option St := none
  acc : List Acc := []
  inStream : Bytes := []        -- what the peer writes and the engine has not read yet
  running : Bool := true
  segNo : Nat := 0
  br : List (String × Nat) := []   -- model branches taken (for the input-distribution report)

def kv (t : String) : Option (String × String) :=
  match t.splitOn "=" with
  | [k, v] => some (k, v)
  | _ => none

def parseNat2 (s : String) : Option (Nat × Nat) :=
  match s.splitOn "." with
  | [a, b] => do let x ← a.toNat?; let y ← b.toNat?; pure (x, y)
  | _ => none

def parseAcc (t : String) : Option Acc :=
  if t = "L" then some .listener else if t = "K" then some .connect else if t = "C" then some .close
  else if t = "C1" then some (.closeO 1) else if t = "C2" then some (.closeO 2) else if t = "C3" then some (.closeO 3)
  else if t = "Q" then some .quit
  else if t = "X" then some .other
  else if t.startsWith "T" then
    match (t.drop 1).toString.splitOn "." with
    | [a, b, c] => do let x ← a.toNat?; let y ← b.toNat?; let z ← c.toNat?; pure (.tagged x y z)
    | _ => none
  else if t.startsWith "S" then (parseNat2 (t.drop 1).toString).map fun (l, p) => .send l p
  else if t.startsWith "Z" then (parseNat2 (t.drop 1).toString).map fun (l, p) => .send l p   -- accepted from inside the close callback
  else none

/-- a token of a segment, already split at ':' -/
abbrev Tok := List String

def parseToks (s : String) : List Tok := (s.splitOn ";").map (·.splitOn ":")

def showTok (t : Tok) : String := ":".intercalate t

def wAnsOf : Tok → Option WAns
  | [_, _, _, r] =>
    if r = "a" then some .again else if r = "r" then some .wantR else if r = "w" then some .wantW
    else if r = "e" then some .err
    else if r.startsWith "n" then (r.drop 1).toString.toNat?.map .wrote else none
  | _ => none

def isW (t : Tok) : Bool := match t with | k :: _ => k = "W0" || k = "W1" | _ => false
def isR (t : Tok) : Bool := match t with | k :: _ => k = "R0" || k = "R1" | _ => false
def isK (k : String) (t : Tok) : Bool := match t with | k' :: _ => k' = k | _ => false

/-- read results of the tokens, rebuilding the bytes from the peer's stream; `none` = the trace is not explainable -/
def rAnss (inS : Bytes) : List Tok → Option (List RAns)
  | [] => some []
  | t :: ts =>
    if isR t then
      match t with
      | [_, _, r] =>
        let a : Option RAns := if r = "a" then some .again else if r = "r" then some .wantR else if r = "w" then some .wantW
          else if r = "z" then some .eof else if r = "e" then some .err else none
        match a, rAnss inS ts with
        | some a, some rest => some (a :: rest)
        | _, _ => none
      | [_, _, r, h] =>
        if r.startsWith "d" then
          match (r.drop 1).toString.toNat? with
          | some n =>
            let bs := inS.take n
            if bs.length = n ∧ hex32 (fnv bs) = h then
              (rAnss (inS.drop n) ts).map (RAns.data bs :: ·)
            else none
          | none => none
        else none
      | _ => none
    else rAnss inS ts

def hAnsOf (ts : List Tok) : HAns :=
  match ts.find? (isK "H") with
  | some [_, r] => if r = "d" then .done else if r = "w" then .wantW else if r = "e" then .err else .wantR
  | _ => .wantR

/-- tokens a model output stands for -/
def outToks (cfg : Cfg) : Out → List Tok
  | .write ssl buf => [[if ssl then "W1" else "W0", toString buf.length, hex32 (fnv buf)]]
  | .read ssl cap => [[if ssl then "R1" else "R0", toString cap]]
  | .handshake => [["H"]]
  | .soError => [["G"]]
  | .interest out et => [["E", "M", toString (1 + (if out then 2 else 0) + (if et then 4 else 0))]]
  | .connected => [["Cc"]]
  | .deliver bs => [["Cd", toString bs.length, hex32 (fnv bs)]]
  | .close w =>
    let n := match w with
      | .socket => "socket" | .tlsIo => "tlsIo" | .peerClosed => "peerClosed" | .backpressure => "backpressure"
      | .connect => "connect" | .tlsHandshake => "tlsHandshake" | .app => "app" | .shutdown => "shutdown" | .timeout => "timeout"
    let _ := cfg
    [["E", "D", "0"], ["Cx", n]]

/-- does the expected token (a prefix: the result fields of the trace token are inputs) match the trace token? -/
def tokMatches (exp got : Tok) : Bool := exp.length ≤ got.length && got.take exp.length == exp

/-- consume the tokens the outputs stand for -/
def matchOuts (cfg : Cfg) : List Out → List Tok → Except String (List Tok)
  | [], ts => .ok ts
  | o :: os, ts =>
    let rec go : List Tok → List Tok → Except String (List Tok)
      | [], ts => .ok ts
      | e :: es, [] => .error s!"model={showTok e} trace=<end of segment>"
      | e :: es, t :: ts => if tokMatches e t then go es ts else .error s!"model={showTok e} trace={showTok t}"
    match go (outToks cfg o) ts with
    | .ok ts' => matchOuts cfg os ts'
    | .error e => .error e

def evOf (bits : Nat) : Ev := { inn := bits % 2 = 1, out := (bits / 2) % 2 = 1, hup := (bits / 8) % 2 = 1 }

/-- the connect-completion answer visible in the trace after the `n`-th SO_ERROR probe -/
def cAnsOf (ts : List Tok) (nth : Nat) : CAns :=
  let rec go : List Tok → Nat → CAns
    | [], _ => .notYet
    | t :: ts, k =>
      if isK "G" t then
        if k = 0 then
          (match t with
           | [_, v] => if v ≠ "0" then .failed else
              (match ts with
               | n :: rest' =>
                 if isK "Cc" n then .established
                 else if isK "E" n && n.getD 1 "" = "D" && (match rest' with | ["Cx", "connect"] :: _ => true | _ => false) then .failed
                 else .notYet
               | [] => .notYet)
           | _ => .notYet)
        else go ts (k - 1)
      else go ts k
  go ts nth

def soOkOf (ts : List Tok) : Bool :=
  match ts.find? (isK "G") with
  | some [_, v] => v = "0"
  | _ => true

def bump (br : List (String × Nat)) (k : String) : List (String × Nat) :=
  match br with
  | [] => [(k, 1)]
  | (k', n) :: rest => if k' = k then (k', n + 1) :: rest else (k', n) :: bump rest k

/-- names of the model branches one input took, read off the state before/after and the outputs -/
def branchesOf (cfg : Cfg) (s : St) (i : In) (r : R) : List String :=
  let closes := r.2.filterMap fun o => match o with
    | .close .backpressure => some "close:backpressure" | .close .socket => some "close:socket" | .close .tlsIo => some "close:tlsIo"
    | .close .peerClosed => some "close:peerClosed" | .close .connect => some "close:connect" | .close .tlsHandshake => some "close:tlsHandshake"
    | .close .app => some "close:app" | .close .shutdown => some "close:shutdown" | .close .timeout => some "close:timeout" | _ => none
  let nW := (r.2.filter fun o => match o with | .write _ _ => true | _ => false).length
  let base : List String := match i with
    | .cmdSend p a =>
      if s.closed then ["send:on-closed-session"]
      else if s.tls = .handshake then ["send:queued-in-handshake-window"]
      else if s.wq.isEmpty then
        match classifyW (s.tls == .open) a with
        | .progress n => if n < p.length then (if n = 0 then ["send:direct-zero-bytes"] else ["send:direct-short"]) else ["send:direct-whole"]
        | .block _ => ["send:direct-refused-then-queued"]
        | .fail => ["send:direct-error"]
      else if s.wq.length + 1 > cfg.maxWriteQueue then
        (if cfg.closeOnBackpressure then ["send:queue-overflow-close"] else ["send:queue-overflow-drop-oldest"])
      else ["send:queued-behind-pending"]
    | .cmdClose _ o =>
      let n := match o with | .app => "app" | .connectTimeout => "connect-timeout" | .handshakeTimeout => "handshake-timeout" | .writeStall => "write-stall"
      if s.closed then ["close:on-closed-session"]
      else if closeGuardSkips s o then [s!"closecmd:{n}:stale-dropped"] else [s!"closecmd:{n}:effective"]
    | .shutdown residual =>
      (if s.closed then ["shutdown:session-already-closed"] else ["shutdown:closes-open-session"]) ++
      (if residual.isEmpty then [] else ["shutdown:residual-sends-dropped"])
    | .connectCheck c => match c with
      | .established => ["connect:immediate"] | .notYet => ["connect:pending"] | .failed => ["connect:failed-immediately"]
    | .event ev _ _ h _ _ =>
      (if s.closed then ["event:on-closed-session"] else []) ++
      (if s.tls = .handshake ∧ ¬ s.closed then
        [match h with | .done => "handshake:done" | .wantR => "handshake:want-read" | .wantW => "handshake:want-write" | .err => "handshake:error"] ++
        (if s.wq.isEmpty then [] else ["handshake:event-with-data-queued"]) else []) ++
      (if ev.hup then ["event:hup-or-err"] else []) ++
      (if s.connectPending ∧ ¬ r.1.connectPending ∧ s.tls = .none then ["connect:completed-by-event"] else []) ++
      (if r.1.receivedRev.length > s.receivedRev.length then ["read:data"] else []) ++
      (if r.1.receivedRev.length > s.receivedRev.length + 1 then ["read:several-chunks-in-one-event"] else []) ++
      (if r.1.receivedRev.length > s.receivedRev.length ∧ ¬ cfg.edge then ["read:data-level-triggered"] else []) ++
      (if r.1.receivedRev.length > s.receivedRev.length + 1 ∧ ¬ cfg.edge ∧ s.tls = .open then ["read:tls-level-triggered-several-chunks-one-wakeup"] else []) ++
      (if nW > 0 then
        (if r.1.closed then ["drain:error"] else if r.1.wq.isEmpty then ["drain:emptied"]
         else if r.1.wq.length < s.wq.length then ["drain:some-buffers-then-stopped"] else ["drain:front-only"]) ++
        (if nW > 1 then ["drain:several-buffers-in-one-event"] else []) ++
        (if ¬ r.1.closed ∧ r.1.wq.length = s.wq.length ∧ r.1.wireRev.length > s.wireRev.length then ["drain:short-write-of-front"] else []) ++
        (if ¬ r.1.closed ∧ r.1.wireRev.length = s.wireRev.length ∧ ¬ s.wq.isEmpty then ["drain:refused"] else [])
       else if ev.out ∧ ¬ s.closed ∧ s.tls ≠ .handshake ∧ s.wq.isEmpty then ["drain:nothing-queued"] else [])
  base ++ closes

/-- run one model input on the session, check its outputs against the trace, advance the peer stream by what was read -/
def runIn (d : DSt) (s : St) (i : In) (ts : List Tok) : Except String (DSt × List Tok) :=
  let r := step d.cfg s i
  match matchOuts d.cfg r.2 ts with
  | .error e => .error e
  | .ok rest =>
    let readNow := (r.1.receivedRev.take (r.1.receivedRev.length - s.receivedRev.length)).foldl (fun n b => n + b.length) 0
    .ok ({ d with sess := some r.1, inStream := d.inStream.drop readNow,
                  br := (branchesOf d.cfg s i r).foldl bump d.br }, rest)

def expectTok (exp : Tok) (ts : List Tok) : Except String (List Tok) :=
  match ts with
  | t :: rest => if tokMatches exp t then .ok rest else .error s!"model={showTok exp} trace={showTok t}"
  | [] => .error s!"model={showTok exp} trace=<end of segment>"

/-- one command taken by `process()` -/
def runCmd (d : DSt) (c : Acc) (ts : List Tok) : Except String (DSt × List Tok) :=
  match c with
  | .listener => .ok (d, ts)
  | .other => .ok (d, ts)
  | .quit => .ok ({ d with running := false }, ts)
  | .tagged len thr seq =>
    match d.sess with
    | none => .error "send command before the session exists"
    | some s =>
      let a := ((ts.find? isW).bind wAnsOf).getD .wantW
      runIn d s (.cmdSend (mkTagged thr seq len) a) ts
  | .connect =>
    -- doConnect: epoll ADD with IN|OUT(|ET), then for plain sessions the immediate-connect probe
    match expectTok ["E", "A", toString (3 + (if d.cfg.edge then 4 else 0))] ts with
    | .error e => .error e
    | .ok rest =>
      let s := initConnecting d.tls
      if d.tls then .ok ({ d with sess := some s }, rest)
      else runIn d s (.connectCheck (cAnsOf rest 0)) rest
  | .send len pat =>
    match d.sess with
    | none => .error "send command before the session exists"
    | some s =>
      let a := ((ts.find? isW).bind wAnsOf).getD .wantW
      runIn d s (.cmdSend (mkPayload pat len) a) ts
  | .close =>
    match d.sess with
    | none => .ok (d, ts)
    | some s => runIn d s (.cmdClose .app .app) ts
  | .closeO o =>
    match d.sess with
    | none => .ok (d, ts)
    | some s =>
      if o = 1 then runIn d s (.cmdClose .timeout .connectTimeout) ts
      else if o = 2 then runIn d s (.cmdClose .tlsHandshake .handshakeTimeout) ts
      else runIn d s (.cmdClose .timeout .writeStall) ts

def runCmds (d : DSt) : Nat → List Tok → Except String (DSt × List Tok)
  | 0, ts => .ok (d, ts)
  | k + 1, ts =>
    match d.acc with
    | [] => .error "process() took more commands than were accepted"
    | c :: cs =>
      match runCmd { d with acc := cs } c ts with
      | .error e => .error e
      | .ok (d', ts') => runCmds d' k ts'

/-- `process()`: the swap marker, then the commands -/
def runProcess (d : DSt) (ts : List Tok) : Except String (DSt × List Tok) :=
  match ts with
  | ["S", k] :: rest =>
    match k.toNat? with
    | some k => runCmds d k rest
    | none => .error "bad swap token"
  | t :: _ => .error s!"model=S trace={showTok t}"
  | [] => .error "model=S trace=<end of segment>"

/-- one epoll event -/
def runEvent (d : DSt) (kind : String) (bits : Nat) (ts : List Tok) : Except String (DSt × List Tok) :=
  if kind = "v" then runProcess d ts
  else if kind = "t" then .ok (d, ts)
  else if kind = "l" then
    match d.sess with
    | some _ => .ok (d, ts)     -- accept4 found nothing new
    | none =>
      match expectTok ["E", "A", toString (1 + (if d.cfg.edge then 4 else 0))] ts with
      | .error e => .error e
      | .ok rest =>
        match expectTok ["Ca"] rest with
        | .error e => .error e
        | .ok rest' => .ok ({ d with sess := some (initAccepted d.tls) }, rest')
  else
    match d.sess with
    | none => .error "session event before the session exists"
    | some s =>
      match rAnss d.inStream ts with
      | none => .error "a read result is not the next bytes of the peer's stream"
      | some rs =>
        let ws := (ts.filter isW).filterMap wAnsOf
        let probe := if (evOf bits).out then 1 else 0
        runIn d s (.event (evOf bits) (soOkOf ts) (cAnsOf ts probe) (hAnsOf ts) rs ws) ts

def runEvents (d : DSt) : List (String × Nat) → List Tok → Except String (DSt × List Tok)
  | [], ts => .ok (d, ts)
  | (k, b) :: es, ts =>
    match runEvent d k b ts with
    | .error e => .error e
    | .ok (d', ts') => runEvents d' es ts'

/-- loop exit: `shutdownDrain` = process(), close what is still open, take the residual queue -/
def runShutdown (d : DSt) (ts : List Tok) : Except String (DSt × List Tok) :=
  match runProcess d ts with
  | .error e => .error e
  | .ok (d1, ts1) =>
    -- the residual swap (`S:k` after the closes): the k commands still queued are taken and dropped
    let kRes := match ts1.find? (isK "S") with
      | some [_, k] => k.toNat?.getD 0
      | _ => 0
    let residual : List Bytes := (d1.acc.take kRes).filterMap fun a => match a with
      | .send len pat => some (mkPayload pat len)
      | .tagged len thr seq => some (mkTagged thr seq len)
      | _ => none
    let closed : Except String (DSt × List Tok) :=
      match d1.sess with
      | some s => runIn d1 s (.shutdown residual) ts1
      | none => .ok (d1, ts1)
    match closed with
    | .error e => .error e
    | .ok (d2, ts2) =>
      match ts2 with
      | ["S", _] :: rest => .ok ({ d2 with running := false, acc := d2.acc.drop kRes }, rest)
      | t :: _ => .error s!"model=S(residual) trace={showTok t}"
      | [] => .error "model=S(residual) trace=<end of segment>"

def splitEvents : List Tok → List (String × Nat) × List Tok
  | ["V", k, b] :: ts =>
    let r := splitEvents ts
    ((k, b.toNat?.getD 0) :: r.1, r.2)
  | ts => ([], ts)

def runSeg (d : DSt) (line : String) : Except String DSt :=
  let toks := parseToks line
  let (evs, rest) := splitEvents toks
  -- loopBatched: special fds (eventfd, timerfd) are handled while the batch is collected, the others afterwards
  let evs := if d.batch then batchOrder (fun e => e.1 = "v" || e.1 = "t") evs else evs
  match runEvents d evs rest with
  | .error e => .error e
  | .ok (d1, ts1) =>
    match ts1 with
    | [] => .ok d1
    | ["S", _] :: _ =>
      match runShutdown d1 ts1 with
      | .error e => .error e
      | .ok (d2, []) => .ok d2
      | .ok (_, t :: _) => .error s!"model=<nothing> trace={showTok t}"
    | t :: _ => .error s!"model=<nothing> trace={showTok t}"

def showSt (d : DSt) : String :=
  match d.sess with
  | none => "nosession"
  | some s => s!"closed={bit s.closed} wire={s.wire.length} pending={s.pending} wq={s.wq.length} out={bit s.interestOut} accepted={s.accepted.length} delivered={s.delivered.length}"

def step (d : DSt) : List String → DSt × String
  | "tcp" :: "reset" :: args =>
    let m := args.filterMap kv
    let get (k : String) : Option Nat := (m.find? (·.1 = k)).bind (·.2.toNat?)
    match get "srv", get "tls", get "et", get "batch", get "mwq", get "cob", get "chunk" with
    | some srv, some tls, some et, some batch, some mwq, some cob, some chunk =>
      ({ cfg := { maxWriteQueue := mwq, closeOnBackpressure := cob = 1, edge := et = 1, ioReadChunk := chunk },
         srv := srv = 1, tls := tls = 1, batch := batch = 1 }, "ok")
    | _, _, _, _, _, _, _ => (d, "bad-op")
  | "tcp" :: "acc" :: toks =>
    match toks.mapM parseAcc with
    | some l => ({ d with acc := d.acc ++ l }, "ok")
    | none => (d, "bad-op")
  | "tcp" :: "pw" :: toks =>
    match toks.mapM parseNat2 with
    | some l => ({ d with inStream := d.inStream ++ (l.map fun (len, pat) => mkPayload pat len).flatten }, "ok")
    | none => (d, "bad-op")
  | ["tcp", "seg", line] =>
    match runSeg d line with
    | .ok d' => ({ d' with segNo := d.segNo + 1 }, "ok")
    | .error e => ({ d with segNo := d.segNo + 1 }, s!"reject seg={d.segNo} {e}")
  | ["tcp", "end"] =>
    let brs := ",".intercalate (d.br.map fun (k, n) => s!"{k}={n}")
    (d, s!"ok {showSt d} acc_left={d.acc.length} br={if brs.isEmpty then "-" else brs}")
  | _ => (d, "bad-op")

def main : IO Unit := runLines ({} : DSt) step

end Iora.Driver.TcpSession
