import Driver.Ws
/-! `iora_model <component>`: reads operation lines on stdin, prints one canonical line per operation. -/
def main (args : List String) : IO UInt32 := do
  match args with
  | ["ws"] => Iora.Driver.Ws.main; return 0
  | _ => IO.eprintln "usage: iora_model <component>"; return 2
