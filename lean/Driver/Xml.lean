import Driver.Common
import IoraModel.Model.Xml
/-! Line-protocol driver of the XML model (same operations and answer format as `harness/c14_xml.cpp`). -/
namespace Iora.Driver.Xml
open Iora Iora.Xml Iora.Driver

/-- hex decoding without deep recursion (documents of a megabyte go through here) -/
def hexNib (c : UInt8) : Option UInt8 :=
  if 0x30 ≤ c && c ≤ 0x39 then some (c - 0x30)
  else if 0x61 ≤ c && c ≤ 0x66 then some (c - 0x61 + 10)
  else none

def ofHexFast (s : String) : Option Bytes :=
  if s = "-" then some []
  else
    let b := s.toUTF8
    if b.size % 2 ≠ 0 then none
    else Id.run do
      let mut out : Array UInt8 := Array.mkEmpty (b.size / 2)
      let mut ok := true
      for i in [0:b.size / 2] do
        match hexNib (b.get! (2 * i)), hexNib (b.get! (2 * i + 1)) with
        | some h, some l => out := out.push (h * 16 + l)
        | _, _ => ok := false
      return if ok then some out.toList else none

def showKind : Kind → String
  | .invalid => "Inv" | .eof => "Eof" | .xmlDecl => "Xd" | .doctype => "Dt" | .startElement => "S"
  | .endElement => "E" | .emptyElement => "Em" | .text => "T" | .cdata => "Cd" | .comment => "Cm" | .pi => "Pi"

def showSlice (s : Slice) : String := s!"{s.off}+{s.len}"

def showErrKind : ErrKind → String
  | .tokenLimit => "tokenLimit" | .eofAfterLt => "eofAfterLt" | .badDecl => "badDecl" | .nameTooLong => "nameTooLong"
  | .expectedQuote => "expectedQuote" | .expectedQuoteChar => "expectedQuoteChar" | .unterminatedAttr => "unterminatedAttr"
  | .attrTooLong => "attrTooLong" | .eofInAttrs => "eofInAttrs" | .badAttrName => "badAttrName" | .expectedEq => "expectedEq"
  | .tooManyAttrs => "tooManyAttrs" | .badPiTarget => "badPiTarget" | .unterminatedPi => "unterminatedPi"
  | .unterminatedComment => "unterminatedComment" | .unterminatedCData => "unterminatedCData"
  | .unterminatedDoctype => "unterminatedDoctype" | .badEndName => "badEndName" | .expectedGtEnd => "expectedGtEnd"
  | .strayEnd => "strayEnd" | .badStartName => "badStartName" | .expectedGtStart => "expectedGtStart"
  | .depthExceeded => "depthExceeded" | .textTooLarge => "textTooLarge" | .mismatch => "mismatch" | .unclosed => "unclosed"
  | .unterminatedEntity => "unterminatedEntity" | .badCharRef => "badCharRef" | .unknownEntity => "unknownEntity"
  | .domUnbalancedEnd => "domUnbalancedEnd" | .domUnclosed => "domUnclosed"

def showBad : Bad → String
  | .oob => "MODEL-OOB" | .fuel => "MODEL-FUEL" | .dead => "MODEL-DEAD-BRANCH"

def showToken (bs : Bytes) (t : Token) : String :=
  let n := if t.kind.hasName then showSlice t.name else "-"
  let tx := if t.kind.hasText then showSlice t.text else "-"
  let a := if t.attrs.isEmpty then "-" else ",".intercalate (t.attrs.map fun a => s!"{showSlice a.name}={showSlice a.value}")
  let q := if t.kind.hasName then
      match splitQName (t.name.bytes bs) with
      | some (p, l) => s!"{p}/{l}"
      | none => "-"
    else "-"
  s!"{showKind t.kind} n={n} t={tx} a={a} sc={bit t.selfClosing} d={t.depth} @{t.offset}:{t.line}:{t.column} q={q}"

def joinToks (bs : Bytes) (ts : List Token) : String :=
  if ts.isEmpty then "-" else ";".intercalate (ts.map (showToken bs))

def showErr (e : ErrKind) (c : Cur) : String := s!"{showErrKind e} @{c.pos}:{c.line}:{c.col}"

def showPull (bs : Bytes) (r : List Token × Outcome) : String :=
  let fin := match r.2 with
    | .accepted t s => s!"eof d={t.depth} @{t.offset}:{t.line}:{t.column} stack={s.stack.length} depth={s.depth} produced={s.produced}"
    | .error e c s => s!"err {showErr e c} stack={s.stack.length} depth={s.depth} produced={s.produced}"
    | .bad b => showBad b
  s!"{joinToks bs r.1} | {fin}"

def showSaxFin (out : Outcome) : String :=
  match out with
  | .accepted _ _ => "ok"
  | .error e c _ => s!"fail err {showErr e c}"
  | .bad b => showBad b

/-- did the run end in an exception (throwing build: every `fail()` throws) -/
def thrownBit : Outcome → String
  | .error _ _ _ => "1"
  | _ => "0"

/-- bit `i` of the mask = the `i`-th member of `SaxCallbacks` holds a callable -/
def regOf (mask : Nat) : Registered := fun sl =>
  match Slot.all.idxOf? sl with
  | some i => mask.testBit i
  | none => false

mutual
  def showNode : Node → String
    | .elem n as ch =>
      let a := ",".intercalate (as.map fun (k, v) => s!"{toHex k}={toHex v}")
      "E:" ++ toHex n ++ "{" ++ a ++ "}[" ++ showNodes ch ++ "]"
    | .text v => s!"T:{toHex v}"
    | .cdata v => s!"C:{toHex v}"
    | .comment v => s!"M:{toHex v}"
    | .pi n v => s!"P:{toHex n}:{toHex v}"
  def showNodes : List Node → String
    | [] => ""
    | [n] => showNode n
    | n :: m :: r => showNode n ++ ";" ++ showNodes (m :: r)
end

def showDom : DomRes → String
  | .doc ch => s!"doc[{showNodes ch}]"
  | .null e off l c => s!"null {showErrKind e} @{off}:{l}:{c}"
  | .bad b => showBad b

/-- the null-sink variant: `build(parser, nullptr)` -/
def showDom0 : DomRes → String
  | .doc ch => s!"doc[{showNodes ch}]"
  | .null _ _ _ _ => "null"
  | .bad b => showBad b

/-- a view or `~` for the null view -/
def showOpt : Option Bytes → String
  | some v => toHex v
  | none => "~"

def childIndex (ch : List Node) (name : Bytes) : String :=
  match (Node.elem [] [] ch).childByName name with
  | none => "~"
  | some _ =>
    match ch.findIdx? (fun c => match c with | .elem cn _ _ => cn == name | _ => false) with
    | some i => toString i
    | none => "?"

/-- what the helper methods answer on one element: `getTextContent()`, `getAttribute(name)` for each of its own attribute names,
`childByName(name)` (as the child's index) for each of its element children, and both look-ups with a name that does not occur -/
def helperLine (name : Bytes) (n : Node) : String :=
  match n with
  | .elem _ as ch =>
    let a := ",".intercalate (as.map fun (k, _) => showOpt (n.getAttribute k))
    let c := ",".intercalate (ch.filterMap fun c => match c with
      | .elem cn _ _ => some (childIndex ch cn)
      | _ => none)
    let miss : Bytes := [1]
    s!"{toHex name} t={toHex n.getTextContent} a={a} c={c} m={showOpt (n.getAttribute miss)}{if (n.childByName miss).isSome then "!" else "~"}"
  | _ => ""

mutual
  def helperWalk : Node → List String
    | .elem n as ch => helperLine n (.elem n as ch) :: helperWalkList ch
    | _ => []
  def helperWalkList : List Node → List String
    | [] => []
    | n :: r => helperWalk n ++ helperWalkList r
end

def showHelpers : DomRes → String
  | .doc ch => ";".intercalate (helperLine [] (.elem [] [] ch) :: helperWalkList ch)
  | .null _ _ _ _ => "null"
  | .bad b => showBad b

def parseOpts : List String → Option Options
  | [a, b, c, d, e] =>
    match a.toNat?, b.toNat?, c.toNat?, d.toNat?, e.toNat? with
    | some a, some b, some c, some d, some e => some { maxDepth := a, maxAttrs := b, maxName := c, maxText := d, maxTokens := e }
    | _, _, _, _, _ => none
  | _ => none

def step (st : Unit) : List String → Unit × String
  | [op, a, b, c, d, e, hx] =>
    match parseOpts [a, b, c, d, e], ofHexFast hx with
    | some o, some bs =>
      if op = "pull" then (st, showPull bs (tokens o bs))
      else if op = "sax" then
        let r := runSax (fun _ => true) o bs
        (st, s!"{joinToks bs (r.1.map (·.2))} | {showSaxFin (tokens o bs).2}")
      else if op = "dom" then (st, showDom (domBuild o bs))
      else if op = "dom0" then (st, showDom0 (domBuild o bs))
      else if op = "domh" then (st, showHelpers (domBuild o bs))
      -- the same three interfaces in a build with IORA_XML_THROW_ON_ERROR=1
      else if op = "tpull" then
        let r := tokens { o with throwing := true } bs
        (st, s!"{showPull bs r} thrown={thrownBit r.2}")
      else if op = "tsax" then
        let ot : Options := { o with throwing := true }
        let r := runSax (fun _ => true) ot bs
        (st, s!"{joinToks bs (r.1.map (·.2))} | {showSaxFin (tokens ot bs).2} thrown={thrownBit (tokens ot bs).2}")
      else if op = "tdom" then
        match domBuildT o bs with
        | .ret r => (st, showDom r)
        | .thrown e c => (st, s!"throw {showErr e c}")
      else (st, "bad-op")
    | _, _ => (st, "bad-op")
  | ["saxm", m, a, b, c, d, e, hx] =>
    match m.toNat?, parseOpts [a, b, c, d, e], ofHexFast hx with
    | some m, some o, some bs =>
      let r := runSax (regOf m) o bs
      (st, s!"{joinToks bs (r.1.map (·.2))} | {showSaxFin (tokens o bs).2}")
    | _, _, _ => (st, "bad-op")
  | ["dec", hx] =>
    match ofHexFast hx with
    | some bs =>
      -- the read-by-read decoder (indexed partial reads under the C++ guards)
      match decodeEntitiesI bs with
      | .ok (.ok out) => (st, s!"ok {toHex out}")
      | .ok (.err e off) => (st, s!"err {showErrKind e} {off}")
      | .ok .fuel => (st, "MODEL-FUEL")
      | .oob => (st, "MODEL-OOB")
      | .fuel => (st, "MODEL-FUEL")
    | none => (st, "bad-op")
  | ["dec0", hx] =>
    match ofHexFast hx with
    | some bs =>
      match decodeEntities bs with
      | .ok out => (st, s!"ok {toHex out}")
      | .err _ _ => (st, "err")
      | .fuel => (st, "MODEL-FUEL")
    | none => (st, "bad-op")
  | ["utf8", n] =>
    match n.toNat? with
    | some cp =>
      if cp ≤ 0xFFFFFFFF then
        match encodeUtf8 (UInt32.ofNat cp) with
        | some u => (st, s!"ok {toHex u}")
        | none => (st, "fail")
      else (st, "bad-op")
    | none => (st, "bad-op")
  | ["defaults"] =>
    let o : Options := {}
    (st, s!"{o.maxDepth} {o.maxAttrs} {o.maxName} {o.maxText} {o.maxTokens}")
  | _ => (st, "bad-op")

def main : IO Unit := runLines () step

end Iora.Driver.Xml
