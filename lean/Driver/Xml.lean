import Driver.Common
import IoraModel.Model.Xml
/-! Line-protocol driver of the XML model (same operations and answer format as `harness/c14_xml.cpp`). -/
namespace Iora.Driver.Xml
open Iora Iora.Xml Iora.Driver

def showKind : Kind → String
  | .invalid => "Inv" | .eof => "Eof" | .xmlDecl => "Xd" | .doctype => "Dt" | .startElement => "S"
  | .endElement => "E" | .emptyElement => "Em" | .text => "T" | .cdata => "Cd" | .comment => "Cm" | .pi => "Pi"

def showSlice (s : Slice) : String := s!"{s.off}+{s.len}"

def showErrKind : ErrKind → String
  | .tokenLimit => "tokenLimit" | .eofAfterLt => "eofAfterLt" | .badDecl => "badDecl" | .nameTooLong => "nameTooLong"
  | .expectedQuote => "expectedQuote" | .expectedQuoteChar => "expectedQuoteChar" | .unterminatedAttr => "unterminatedAttr"
  | .attrTooLong => "attrTooLong" | .eofInAttrs => "eofInAttrs" | .badAttrName => "badAttrName" | .expectedEq => "expectedEq"
  | .tooManyAttrs => "tooManyAttrs" | .badPiTarget => "badPiTarget" | .unterminatedPi => "unterminatedPi"
  | .unterminatedComment => "unterminatedComment" | .unterminatedCData => "unterminatedCData"
  | .unterminatedDoctype => "unterminatedDoctype" | .badEndName => "badEndName" | .expectedGtEnd => "expectedGtEnd"
  | .strayEnd => "strayEnd" | .badStartName => "badStartName" | .expectedGtStart => "expectedGtStart"
  | .depthExceeded => "depthExceeded" | .textTooLarge => "textTooLarge" | .mismatch => "mismatch" | .unclosed => "unclosed"
  | .unterminatedEntity => "unterminatedEntity" | .badCharRef => "badCharRef" | .unknownEntity => "unknownEntity"
  | .domUnbalancedEnd => "domUnbalancedEnd" | .domUnclosed => "domUnclosed"

def showBad : Bad → String
  | .oob => "MODEL-OOB" | .fuel => "MODEL-FUEL"

def showToken (bs : Bytes) (t : Token) : String :=
  let n := if t.kind.hasName then showSlice t.name else "-"
  let tx := if t.kind.hasText then showSlice t.text else "-"
  let a := if t.attrs.isEmpty then "-" else ",".intercalate (t.attrs.map fun a => s!"{showSlice a.name}={showSlice a.value}")
  let q := if t.kind.hasName then
      match splitQName (t.name.bytes bs) with
      | some (p, l) => s!"{p}/{l}"
      | none => "-"
    else "-"
  s!"{showKind t.kind} n={n} t={tx} a={a} sc={bit t.selfClosing} d={t.depth} @{t.offset}:{t.line}:{t.column} q={q}"

def joinToks (bs : Bytes) (ts : List Token) : String :=
  if ts.isEmpty then "-" else ";".intercalate (ts.map (showToken bs))

def showErr (e : ErrKind) (c : Cur) : String := s!"{showErrKind e} @{c.pos}:{c.line}:{c.col}"

def showPull (bs : Bytes) (r : List Token × Outcome) : String :=
  let fin := match r.2 with
    | .accepted t s => s!"eof d={t.depth} @{t.offset}:{t.line}:{t.column} stack={s.stack.length} depth={s.depth} produced={s.produced}"
    | .error e c s => s!"err {showErr e c} stack={s.stack.length} depth={s.depth} produced={s.produced}"
    | .bad b => showBad b
  s!"{joinToks bs r.1} | {fin}"

def showSax (bs : Bytes) (r : List Token × Outcome) : String :=
  let fin := match r.2 with
    | .accepted _ _ => "ok"
    | .error e c _ => s!"fail err {showErr e c}"
    | .bad b => showBad b
  s!"{joinToks bs r.1} | {fin}"

mutual
  def showNode : Node → String
    | .elem n as ch =>
      let a := ",".intercalate (as.map fun (k, v) => s!"{toHex k}={toHex v}")
      "E:" ++ toHex n ++ "{" ++ a ++ "}[" ++ showNodes ch ++ "]"
    | .text v => s!"T:{toHex v}"
    | .cdata v => s!"C:{toHex v}"
    | .comment v => s!"M:{toHex v}"
    | .pi n v => s!"P:{toHex n}:{toHex v}"
  def showNodes : List Node → String
    | [] => ""
    | [n] => showNode n
    | n :: m :: r => showNode n ++ ";" ++ showNodes (m :: r)
end

def showDom : DomRes → String
  | .doc ch => s!"doc[{showNodes ch}]"
  | .null e off l c => s!"null {showErrKind e} @{off}:{l}:{c}"
  | .bad b => showBad b

def parseOpts : List String → Option Options
  | [a, b, c, d, e] =>
    match a.toNat?, b.toNat?, c.toNat?, d.toNat?, e.toNat? with
    | some a, some b, some c, some d, some e => some { maxDepth := a, maxAttrs := b, maxName := c, maxText := d, maxTokens := e }
    | _, _, _, _, _ => none
  | _ => none

def step (st : Unit) : List String → Unit × String
  | [op, a, b, c, d, e, hx] =>
    match parseOpts [a, b, c, d, e], ofHex hx with
    | some o, some bs =>
      if op = "pull" then (st, showPull bs (tokens o bs))
      else if op = "sax" then (st, showSax bs (tokens o bs))
      else if op = "dom" then (st, showDom (domBuild o bs))
      else (st, "bad-op")
    | _, _ => (st, "bad-op")
  | ["dec", hx] =>
    match ofHex hx with
    | some bs =>
      match decodeEntities bs with
      | .ok out => (st, s!"ok {toHex out}")
      | .err e off => (st, s!"err {showErrKind e} {off}")
      | .fuel => (st, "MODEL-FUEL")
    | none => (st, "bad-op")
  | ["utf8", n] =>
    match n.toNat? with
    | some cp =>
      if cp ≤ 0xFFFFFFFF then
        match encodeUtf8 (UInt32.ofNat cp) with
        | some u => (st, s!"ok {toHex u}")
        | none => (st, "fail")
      else (st, "bad-op")
    | none => (st, "bad-op")
  | ["defaults"] =>
    let o : Options := {}
    (st, s!"{o.maxDepth} {o.maxAttrs} {o.maxName} {o.maxText} {o.maxTokens}")
  | _ => (st, "bad-op")

def main : IO Unit := runLines () step

end Iora.Driver.Xml
