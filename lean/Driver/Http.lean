import Driver.Common
import IoraModel.Model.HttpClientFraming
import IoraModel.Model.HttpServerFraming
import IoraModel.Model.HttpServerConn
namespace Iora.Driver.Http
open Iora Iora.Http Iora.Driver

/-- FNV-1a 64 of a byte string (body digests in the canonical output) -/
def fnv (bs : Bytes) : UInt64 :=
  bs.foldl (fun h b => (h ^^^ b.toUInt64) * 0x100000001b3) 0xcbf29ce484222325

def hex64 (x : UInt64) : String :=
  let ds := (List.range 16).map fun i => hexDigit ((x.toNat / 16 ^ (15 - i)) % 16)
  String.ofList ds

def digest (bs : Bytes) : String := s!"{bs.length}:{hex64 (fnv bs)}"

def bytesLe : Bytes → Bytes → Bool
  | [], _ => true
  | _ :: _, [] => false
  | a :: as, b :: bs => if a < b then true else if b < a then false else bytesLe as bs

/-- header map in canonical order: sorted by the lower-cased name (names are distinct up to case) -/
def showHeaders (h : Headers) : String :=
  if h.isEmpty then "-" else
  let sorted := h.mergeSort (fun a b => bytesLe (lower a.1) (lower b.1))
  ";".intercalate (sorted.map fun kv => s!"{toHex kv.1}:{toHex kv.2}")

def showKind : Kind → String
  | .statusLine => "statusLine" | .version => "version" | .statusCode => "statusCode" | .obsFold => "obsFold"
  | .noColon => "noColon" | .dupCL => "dupCL" | .connect => "connect" | .clAndTe => "clAndTe" | .badCL => "badCL"
  | .clList => "clList" | .clTooBig => "clTooBig" | .chunk => "chunk" | .cap => "cap" | .overflow => "overflow"

def showFail : Fail → String
  | .timeout => "timeout" | .shuttingDown => "shuttingDown" | .closedEarly => "closedEarly"

/-- one scripted `receiveSync` result: `d:<hex>` data, `c` peer closed, `t` timeout, `o` overflow, `s` shutting down,
`e` any other error -/
def parseRecv (t : String) : Option Recv :=
  if t = "c" then some .peerClosed else if t = "t" then some .timeout else if t = "o" then some .overflow
  else if t = "s" then some .shuttingDown else if t = "e" then some .otherError
  else if t.startsWith "d:" then (ofHex (t.drop 2).toString).map .data else none

def parseScript : List String → Option (List Recv)
  | [] => some []
  | t :: ts => match parseRecv t, parseScript ts with
    | some r, some rs => some (r :: rs)
    | _, _ => none

def showMode : Mode → String
  | .noBody => "noBody" | .contentLength => "contentLength" | .chunked => "chunked" | .closeDelimited => "closeDelimited"

def showResp (r : Resp) : String :=
  s!"{r.status} {toHex r.version} {toHex r.text} {showHeaders r.headers} {digest r.body}"

def showExec : LoopOut × Bool → String
  | (.response r _, closed) => s!"response {showResp r} closed={bit closed}"
  | (.framingError k, closed) => s!"error {showKind k} closed={bit closed}"
  | (.failed f, closed) => s!"fail {showFail f} closed={bit closed}"
  | (.more, _) => "stuck"

def showSt (s : St) : String :=
  if s.headersDone then
    s!"hd=1 bs={s.bodyStart} mode={showMode s.framing.mode} cl={s.framing.contentLength} cpos={s.chunk.pos} dec={digest s.chunk.decoded} data={s.data.length}"
  else s!"hd=0 scan={s.headerScanPos} data={s.data.length}"

structure Cl where
  method : Bytes := []
  cap : Nat := 0
  st : Http.St := {}
  done : Bool := false

/-- `req.params` in canonical order: sorted by key bytes, `k=v` in hex joined by `&` -/
def showParams (ps : List (Bytes × Bytes)) : String :=
  if ps.isEmpty then "-" else
  let sorted := ps.mergeSort (fun a b => bytesLe a.1 b.1)
  "&".intercalate (sorted.map fun kv => s!"{toHex kv.1}={toHex kv.2}")

def showEv : Srv.Ev → List String
  | .handled r path => [s!"R/{r.method}/{toHex path}/{showHeaders r.headers}/{digest r.body}/{showParams (Srv.queryParams r.uri)}", "S:200"]
  | .optionsStar => ["S:200"]
  | .rejected s => [s!"S:{s}", "X"]

def joinEvs (es : List String) : String := if es.isEmpty then "-" else ",".intercalate es

/-- events of the worker threads / of the I/O thread in the outputs of one step -/
def workerLine (outs : List Srv.Out) : List String := (Srv.workerEvs outs).flatMap showEv
def ioLine : List Srv.Out → List String
  | [] => []
  | .refused _ :: t => "S:503" :: "X" :: ioLine t
  | .ioClose :: t => "X" :: ioLine t
  | _ :: t => ioLine t

/-- server side of the driver: one session, and the pool oracle of the harness (`sv hold k` … `sv release`) -/
structure Sv where
  conn : Srv.ConnU := {}
  /-- `some k`: the free worker is parked and exactly `k` more `tryEnqueue` calls succeed -/
  held : Option Nat := none

/-- run every queued request (the harness waits for the pool to drain) -/
def runWorkers : Nat → Srv.ConnU → List Srv.Out → Srv.ConnU × List Srv.Out
  | 0, c, acc => (c, acc)
  | f + 1, c, acc =>
    if c.pending.isEmpty then (c, acc)
    else let r := Srv.connWorkU c; runWorkers f r.1 (acc ++ r.2)

def svLine (c : Srv.ConnU) (outs : List Srv.Out) : String :=
  s!"{joinEvs (workerLine outs)} | io={joinEvs (ioLine outs)} | buf={if c.sess.alive then c.sess.buffer.length else 0} alive={bit c.sess.alive}"

def svData (s : Sv) (d : Bytes) : Sv × String :=
  match s.held with
  | some k =>
    let (c1, outs, k') := Srv.connDataU s.conn d k
    ({ conn := c1, held := some k' }, svLine c1 outs)
  | none =>
    -- not held: the queue is empty and far larger than anything one read can hold, every request is accepted and run
    let (c1, outs, _) := Srv.connDataU s.conn d Gen.Http.serverPoolQueueSize
    let (c2, outs2) := runWorkers (c1.pending.length + 1) c1 outs
    ({ s with conn := c2 }, svLine c2 outs2)

structure St where
  cl : Cl := {}
  sv : Sv := {}

def clStep (c : Cl) (r : Recv) : Cl × String :=
  if c.done then (c, "done") else
  match recvStep c.method c.cap c.st r with
  | (st', .more) => ({ c with st := st' }, s!"more {showSt st'}")
  | (st', .response resp ev) => ({ c with st := st', done := true }, s!"response {showResp resp} evict={bit ev}")
  | (st', .framingError k) => ({ c with st := st', done := true }, s!"error {showKind k}")
  | (st', .failed f) => ({ c with st := st', done := true }, showFail f)

def step (st : St) : List String → St × String
  | ["cl", "reset", m, cap] =>
    match ofHex m, cap.toNat? with
    | some m, some cap => ({ st with cl := { method := m, cap := cap } }, "ok")
    | _, _ => (st, "bad-op")
  | ["cl", "feed", hx] =>
    match ofHex hx with
    | some d => let (c, o) := clStep st.cl (.data d); ({ st with cl := c }, o)
    | none => (st, "bad-op")
  | ["cl", "close"] => let (c, o) := clStep st.cl .peerClosed; ({ st with cl := c }, o)
  | "xr" :: m :: maxResp :: jsonMax :: reuse :: script =>
    match ofHex m, maxResp.toNat?, jsonMax.toNat?, parseBit reuse, parseScript script with
    | some m, some a, some b, some ru, some sc => (st, showExec (executeReceive m a b ru sc))
    | _, _, _, _, _ => (st, "bad-op")
  | ["pcl", hx] =>
    match ofHex hx with
    | some d => (st, match parseContentLength d with | .ok n => s!"ok {n}" | .error k => s!"error {showKind k}")
    | none => (st, "bad-op")
  | ["te", hx] =>
    match ofHex hx with
    | some d => (st, bit (transferEncodingFinalIsChunked d))
    | none => (st, "bad-op")
  | ["phb", hx] =>
    match ofHex hx with
    | some d => (st, match parseHeaderBlock d with | .ok r => s!"ok {showResp r}" | .error k => s!"error {showKind k}")
    | none => (st, "bad-op")
  | ["df", m, cap, hx] =>
    match ofHex m, cap.toNat?, ofHex hx with
    | some m, some cap, some d =>
      (st, match parseHeaderBlock d with
           | .error k => s!"error {showKind k}"
           | .ok r => match determineFraming m r cap with
             | .ok f => s!"{showMode f.mode} {f.contentLength}"
             | .error k => s!"error {showKind k}")
    | _, _, _ => (st, "bad-op")
  | ["adv", cap, pos, hx] =>
    match cap.toNat?, pos.toNat?, ofHex hx with
    | some cap, some pos, some d =>
      (st, match advanceChunked d cap { pos := pos } with
           | (.needMore, cs) => s!"needMore pos={cs.pos} dec={digest cs.decoded}"
           | (.complete, cs) => s!"complete end={cs.messageEnd} pos={cs.pos} dec={digest cs.decoded}"
           | (.malformed, _) => "malformed")
    | _, _, _ => (st, "bad-op")
  | ["sv", "reset"] => ({ st with sv := {} }, "ok")
  | ["sv", "data", hx] =>
    match ofHex hx with
    | some d => let (s', o) := svData st.sv d; ({ st with sv := s' }, o)
    | none => (st, "bad-op")
  | ["sv", "closed"] => ({ st with sv := { st.sv with conn := Srv.connClosedU st.sv.conn } }, "ok")
  | ["sv", "hold", k] =>
    match k.toNat?, st.sv.held with
    | some k, none => ({ st with sv := { st.sv with held := some (min k Gen.Http.serverPoolQueueSize) } }, "ok")
    | _, _ => (st, "bad-op")
  | ["sv", "release"] =>
    match st.sv.held with
    | none => (st, "bad-op")
    | some _ =>
      let (c2, outs2) := runWorkers (st.sv.conn.pending.length + 1) st.sv.conn []
      ({ st with sv := { conn := c2, held := none } }, svLine c2 outs2)
  | ["fce", pos, hx] =>
    match pos.toNat?, ofHex hx with
    | some pos, some d =>
      (st, match Srv.findChunkedRequestEnd d pos with
           | .needMore => "needMore" | .malformed => "malformed" | .done e _ => s!"end {e}")
    | _, _ => (st, "bad-op")
  | _ => (st, "bad-op")

def main : IO Unit := runLines ({} : St) step

end Iora.Driver.Http
