import Driver.Common
import IoraModel.Model.WsServer
import IoraModel.Model.WsClient
import IoraModel.Model.WsHandover
namespace Iora.Driver.Ws
open Iora Iora.Ws Iora.Driver

def showPRes : PRes → String
  | .frame f n => s!"frame {bit f.fin} {f.opcode} {bit f.masked} {toHex f.key} {toHex f.payload} {n}"
  | .incomplete => "incomplete"
  | .protocolError => "protocolError"
  | .tooLarge => "tooLarge"

def showEv : Ev → String
  | .text bs => s!"T:{toHex bs}"
  | .binary bs => s!"B:{toHex bs}"
  | .sent w => s!"S:{toHex w}"
  | .onClose c r => s!"C:{c}:{toHex r}"
  | .onError => "E"
  | .closeSession => "X"
  | .connected => "O"
  | .upgraded => "H101"

def showEvs (evs : List Ev) : String :=
  if evs.isEmpty then "-" else ";".intercalate (evs.map showEv)

def showCEv : CEv → String
  | .text bs => s!"T:{toHex bs}"
  | .binary bs => s!"B:{toHex bs}"
  | .sent op fin pl => s!"S:{op}:{bit fin}:{toHex pl}"
  | .onClose c r => s!"C:{c}:{toHex r}"
  | .onError => "E"
  | .connected => "O"

def showCEvs (evs : List CEv) : String :=
  if evs.isEmpty then "-" else ";".intercalate (evs.map showCEv)

/-- `Sec-WebSocket-Accept` for the key the harness installs (`dGhlIHNhbXBsZSBub25jZQ==`, RFC 6455 §1.3) -/
def sampleAccept : Bytes := "s3pPLMBiTxaQ9kYGzzhZRbK+xOo=".toUTF8.toList

structure St where
  maxFrame : Nat := Gen.Ws.serverDefaultMaxFrameSize
  cb : Cbs := {}
  sess : Sess := {}
  ccfg : CCfg := { accept := sampleAccept }
  cli : CSess := {}

def showCSt (s : CSess) : String :=
  s!"buf={s.buffer.length} frag={s.fragBuf.length} connected={bit s.connected} closeSent={bit s.closeSent} failed={bit s.protocolFailed} upgraded={bit s.upgraded}"

def stepCli (st : St) (op : COp) : St × String :=
  let (s', evs) := cStep st.ccfg st.cli op
  ({ st with cli := s' }, s!"{showCEvs evs} | {showCSt s'}")

def showSt (s : Sess) : String :=
  s!"buf={s.buffer.length} frag={s.fragBuf.length} alive={bit s.alive} closeSent={bit s.closeSent}"

def stepOp (st : St) (op : AppOp) : St × String :=
  let (s', evs) := Iora.Ws.step st.maxFrame st.cb st.sess op
  ({ st with sess := s' }, s!"{showEvs evs} | {showSt s'}")

def hasDelivery (evs : List Ev) : Bool :=
  evs.any (fun e => match e with | .text _ => true | .binary _ => true | _ => false)

/-- `srv upgrade2 <trailing> <point> <r2>`: the hand-over with ONE read `r2` delivered by the I/O thread at a chosen point
of the pool thread: `origin` before the mark, `connect` inside `_onConnect` (after mark and create, before the 101),
`msg` inside the first message callback of the drain (equivalently: right after that `feed` step - a held read only
appends to the session buffer, which `feed` does not touch), or after the pool thread is done if that point never comes -/
def handover (maxBuf maxFrame : Nat) (cb : Cbs) (point : String) (r2 : Bytes) : Nat → Hand → Bool → List Ev → Hand × List Ev
  | 0, h, _, acc => (h, acc)
  | fuel + 1, h, injected, acc =>
    let now := !injected && ((point == "origin" && h.pc == .mark) || (point == "connect" && h.pc == .respond) || h.pc == .done)
    if now then
      let (h1, e1) := hRead maxBuf maxFrame cb h r2
      handover maxBuf maxFrame cb point r2 fuel h1 true (acc ++ e1)
    else if h.pc == .done then (h, acc)
    else
      let (h1, e1) := hWorker maxFrame cb h
      let wasFeed := match h.pc with | .feed _ => true | _ => false
      if !injected && point == "msg" && wasFeed && hasDelivery e1 then
        let (h2, e2) := hRead maxBuf maxFrame cb h1 r2
        handover maxBuf maxFrame cb point r2 fuel h2 true (acc ++ e1 ++ e2)
      else handover maxBuf maxFrame cb point r2 fuel h1 injected (acc ++ e1)

/-- one scripted send: `t:<hex>` `b:<hex>` `p:<hex>` `c:<code>:<hex>` -/
def parseSend (s : String) : Option Send :=
  match s.splitOn ":" with
  | ["t", hx] => (ofHex hx).map Send.text
  | ["b", hx] => (ofHex hx).map Send.binary
  | ["p", hx] => (ofHex hx).map Send.ping
  | ["c", code, hx] =>
    match code.toNat?, ofHex hx with
    | some c, some r => some (Send.close c r)
    | _, _ => none
  | _ => none

/-- a callback script: `-` (nothing) or comma-separated sends -/
def parseScript (s : String) : Option (List Send) :=
  if s = "-" then some [] else (s.splitOn ",").mapM parseSend

def step (st : St) : List String → St × String
  | ["parse", max, hx] =>
    match max.toNat?, ofHex hx with
    | some m, some d => (st, showPRes (parse m d))
    | _, _ => (st, "bad-op")
  | ["ser", fin, op, masked, key, pl] =>
    match parseBit fin, op.toNat?, parseBit masked, ofHex key, ofHex pl with
    | some fin, some op, some masked, some key, some pl =>
      (st, toHex (serialize { fin := fin, opcode := op, masked := masked, key := key, payload := pl }))
    | _, _, _, _, _ => (st, "bad-op")
  | ["utf8", hx] =>
    match ofHex hx with
    | some d => (st, bit (isValidUtf8 d))
    | none => (st, "bad-op")
  | ["mkclose", code, hx] =>
    match code.toNat?, ofHex hx with
    | some c, some r => (st, toHex (serialize (makeClose c r)))
    | _, _ => (st, "bad-op")
  | ["srv", "reset", "default"] => ({ st with maxFrame := Gen.Ws.serverDefaultMaxFrameSize, sess := {}, cb := {} }, "ok")
  | ["srv", "reset", max] =>
    match max.toNat? with
    | some m => ({ st with maxFrame := m, sess := {}, cb := {} }, "ok")
    | none => (st, "bad-op")
  | ["srv", "script", a, b, c, d] =>
    match parseScript a, parseScript b, parseScript c, parseScript d with
    | some a, some b, some c, some d => ({ st with cb := { onText := a, onBinary := b, onClose := c, onError := d } }, "ok")
    | _, _, _, _ => (st, "bad-op")
  | ["srv", "upgrade", hx] =>
    match ofHex hx with
    | some d =>
      let (s', evs) := upgrade st.maxFrame st.cb d
      ({ st with sess := s' }, s!"{showEvs evs} | {showSt s'}")
    | none => (st, "bad-op")
  | ["srv", "upgrade2", hx, point, hx2] =>
    match ofHex hx, ofHex hx2 with
    | some d, some r2 =>
      if point == "origin" || point == "connect" || point == "msg" then
        let (h, evs) := handover Gen.Ws.httpMaxBufferSize st.maxFrame st.cb point r2 64 (hInit d) false []
        ({ st with sess := h.sess }, s!"{showEvs evs} | {showSt h.sess}")
      else (st, "bad-op")
    | _, _ => (st, "bad-op")
  | ["srv", "upgradeh", u, c, k, v, hx] =>
    match ofHex u, ofHex c, ofHex k, ofHex v, ofHex hx with
    | some u, some c, some k, some v, some d =>
      match upgradeDecision u c k v with
      | .accept =>
        let (s', evs) := upgrade st.maxFrame st.cb d
        ({ st with sess := s' }, s!"{showEvs evs} | {showSt s'} held=0 upgraded=1")
      | .reject status => ({ st with sess := { alive := false } }, s!"H:{status} | {showSt { alive := false }} held=0 upgraded=0")
      | .notWebSocket => ({ st with sess := { alive := false } }, s!"H:404 | {showSt { alive := false }} held=0 upgraded=0")
    | _, _, _, _, _ => (st, "bad-op")
  | ["srv", "tclose"] => stepOp st .transportClosed
  | ["srv", "data", hx] =>
    match ofHex hx with
    | some d => stepOp st (.data d)
    | none => (st, "bad-op")
  | ["srv", "sendText", hx] =>
    match ofHex hx with
    | some d => stepOp st (.sendText d)
    | none => (st, "bad-op")
  | ["srv", "sendBinary", hx] =>
    match ofHex hx with
    | some d => stepOp st (.sendBinary d)
    | none => (st, "bad-op")
  | ["srv", "sendPing", hx] =>
    match ofHex hx with
    | some d => stepOp st (.sendPing d)
    | none => (st, "bad-op")
  | ["srv", "sendClose", code, hx] =>
    match code.toNat?, ofHex hx with
    | some c, some d => stepOp st (.sendClose c d)
    | _, _ => (st, "bad-op")
  | ["cli", "reset"] => ({ st with cli := {}, ccfg := { accept := sampleAccept } }, "ok")
  | ["cli", "reset", max] =>
    match max.toNat? with
    | some m => ({ st with cli := {}, ccfg := { max := m, accept := sampleAccept } }, "ok")
    | none => (st, "bad-op")
  | ["cli", "script", a, b, c, d] =>
    match parseScript a, parseScript b, parseScript c, parseScript d with
    | some a, some b, some c, some d =>
      ({ st with ccfg := { st.ccfg with cb := { onText := a, onBinary := b, onClose := c, onError := d } } }, "ok")
    | _, _, _, _ => (st, "bad-op")
  | ["cli", "hs"] => ({ st with cli := preUpgrade, ccfg := { accept := sampleAccept } }, "ok")
  | ["cli", "data", hx] =>
    match ofHex hx with
    | some d => stepCli st (.data d)
    | none => (st, "bad-op")
  | ["cli", "sendText", hx] =>
    match ofHex hx with
    | some d => stepCli st (.sendText d)
    | none => (st, "bad-op")
  | ["cli", "sendBinary", hx] =>
    match ofHex hx with
    | some d => stepCli st (.sendBinary d)
    | none => (st, "bad-op")
  | ["cli", "sendPing", hx] =>
    match ofHex hx with
    | some d => stepCli st (.sendPing d)
    | none => (st, "bad-op")
  | ["cli", "sendClose", code, hx] =>
    match code.toNat?, ofHex hx with
    | some c, some d => stepCli st (.sendClose c d)
    | _, _ => (st, "bad-op")
  | ["cli", "disconnect", code, hx] =>
    match code.toNat?, ofHex hx with
    | some c, some d => stepCli st (.disconnect c d)
    | _, _ => (st, "bad-op")
  | _ => (st, "bad-op")

def main : IO Unit := runLines ({} : St) step

end Iora.Driver.Ws
