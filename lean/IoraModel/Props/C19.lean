import IoraModel.Lemmas.DnsSafe
import IoraModel.Lemmas.DnsWork
import IoraModel.Lemmas.DnsCache
import IoraModel.Lemmas.DnsTransport
import IoraModel.Lemmas.DnsSoa
import IoraModel.Lemmas.DnsNaptr
import IoraModel.Lemmas.DnsTcpHandle
/-!
# C19 — DNS messages decode exactly or are rejected; cached answers honour TTL

Property theorems only (helper lemmas live in `Lemmas/Dns*.lean`).  Models: `Model/Dns.lean` (dns_message.hpp),
`Model/DnsCache.lean` (expiring_cache.hpp + dns_cache.hpp); reference relation: `Spec/DnsWire.lean`; constants, tables and
code-shape flags come from the regenerated `Gen/Dns.lean`.
-/
namespace Iora.C19
open Iora Iora.Dns Iora.DnsCache

/-! ## N1 — names -/

/-- **N1a (soundness against RFC 1035, every layout of compression pointers).** If the bytes at `off` are a well-formed name
with labels `ls` — `WellFormedName`: the reference relation `DenotesH` (labels, pointers at any position, pointers to
pointers, forward or backward, anything whose chain is finite), the RFC 1035 §2.3.4 length limit of 255 octets on the wire
including the root label, and at most `maxJumps` = 128 compression pointers followed (the decoder's documented bound; a name
has at most 127 labels and compressors point at labels) — then `decodeName` returns exactly those labels in presentation
form, and the offset at which the enclosing record continues. -/
theorem N1_sound (m : Bytes) (off : Nat) (ls : List Bytes) (next : Nat) (h : WellFormedName m off ls next) :
    decodeName m off = .ok (dottedName ls, next) :=
  decodeName_sound m off ls next h

/-- non-vacuity: `03 'w' 'w' 'w' C0 00` preceded by `01 'a' 00` — a label followed by a pointer to an earlier name -/
example : WellFormedName [1, 97, 0, 3, 119, 119, 119, 192, 0] 3 [[119, 119, 119], [97]] 9 := by
  have h0 : DenotesH [1, 97, 0, 3, 119, 119, 119, 192, 0] 0 [[97]] 3 0 :=
    DenotesH.label (b := 1) (by decide) (by decide) (by decide) (by decide) (DenotesH.root (by decide))
  have h7 : DenotesH [1, 97, 0, 3, 119, 119, 119, 192, 0] 7 [[97]] 9 1 :=
    DenotesH.ptr (b := 192) (b2 := 0) (by decide) (by decide) (by decide) h0
  exact ⟨1, DenotesH.label (b := 3) (by decide) (by decide) (by decide) (by decide) h7, by decide, by decide⟩

/-- **N1b (completeness: exact or rejected).** An `ok` answer of `decodeName` is always a well-formed name the bytes denote, with
exactly the returned labels and continuation offset.  Hence a pointer loop, a pointer outside the message, a label running
past the end and a name without its root label are NEVER accepted (none of them has a derivation). -/
theorem N1_complete (m : Bytes) (off : Nat) (n : Bytes) (next : Nat) (h : decodeName m off = .ok (n, next)) :
    ∃ ls, WellFormedName m off ls next ∧ n = dottedName ls :=
  decodeName_complete m off n next h

/-- **N1 (exactly).** Both directions in one statement. -/
theorem N1_exact (m : Bytes) (off : Nat) (n : Bytes) (next : Nat) :
    decodeName m off = .ok (n, next) ↔ ∃ ls, WellFormedName m off ls next ∧ n = dottedName ls :=
  decodeName_exact m off n next

/-- the reference relation with and without the pointer count describe the same names -/
theorem N1_denotes_iff (m : Bytes) (off : Nat) (ls : List Bytes) (next : Nat) :
    Denotes m off ls next ↔ ∃ h, DenotesH m off ls next h :=
  ⟨fun h => h.toH, fun ⟨_, h⟩ => h.toDenotes⟩

/-- **N1 (RFC 1035 maximum).** The legal maximum-length name — 255 octets on the wire, labels 63.63.63.61 — is accepted (it was
rejected before the repair of FC19b, which compared the wire length with the presentation-form limit 253). -/
theorem N1_max_length_name_accepted : decodeName longNameMsg 0 = .ok (dottedName longNameLabels, 255) :=
  decodeName_sound _ _ _ _ longName_wellFormed

/-- presentation form: the labels joined by dots -/
theorem N1_dotted (l : Bytes) (ls : List Bytes) (hl : l ≠ []) :
    dottedName (l :: ls) = l ++ (ls.map (fun x => (46 : UInt8) :: x)).flatten :=
  dottedName_cons l ls hl

/-- **N1c (encoder).** What `encodeName` accepts and writes: the uncompressed RFC 1035 encoding of the non-empty dot-separated
pieces of the name, every label 1..63 octets, at most 255 octets in all (RFC limit; 253 before the repair of FC19b). -/
theorem N1_encodeName (name w : Bytes) (h : encodeName name = .ok w) :
    w = encodeWire (labelsOf name) ∧ ValidLabels (labelsOf name) ∧ w.length ≤ 255 := by
  obtain ⟨e, hv, hl⟩ := encodeName_ok h
  refine ⟨e, hv, ?_⟩
  rw [e, encodeWire_length]; exact hl

/-- **N1c (encode/decode round trip).** A name accepted by `encodeName`, placed anywhere in a message, decodes to its
non-empty dot-separated pieces joined by dots, and decoding continues right behind it. -/
theorem N1_roundtrip (name w : Bytes) (h : encodeName name = .ok w) (pre post : Bytes) :
    decodeName (pre ++ w ++ post) pre.length = .ok (dottedName (labelsOf name), pre.length + w.length) :=
  decode_encodeName name w h pre post

example : encodeName [119, 119, 119, 46, 97] = .ok [3, 119, 119, 119, 1, 97, 0] := rfl

/-- generated-facts conformance (tripwire, `rfl`): `encodeName` tests the 255-octet limit AFTER the root label has been appended
(the model's encoder is DEFINED from this fact; with the test inside the label loop the root octet is not counted, a
256-octet name is emitted, and `N1_encodeName` / `N1_roundtrip` do not build) -/
theorem N1_gen_encode_shape : Gen.Dns.encodeLimitCountsRoot = true := rfl

/-- **N1q (query round trip).** Every query built by `buildQuery` parses back to its id, RD flag and question list (names
normalised by dropping empty labels), with empty record sections.  The id is the caller's when it is non-zero; for `id = 0`
the code draws one from `generateQueryId()` (an input `generated` of the model) and the round trip holds for that id. -/
theorem N1_query_roundtrip (qs : List Question) (rd : Bool) (id generated : Nat) (w : Bytes)
    (h : buildQuery qs rd id generated = .ok w)
    (hid : (if id = 0 then generated else id) < 65536) (hn : qs.length < 65536) (hq : ∀ q ∈ qs, q.qtype < 65536 ∧ q.qclass < 65536) :
    parse w = .ok { header := { id := if id = 0 then generated else id, qr := false, opcode := 0, aa := false, tc := false,
                                rd := rd, ra := false, z := 0, rcode := 0, qd := qs.length, an := 0, ns := 0, ar := 0 },
                    questions := qs.map normQ } :=
  parse_buildQuery qs rd id generated w h hid hn hq

example : ∃ w, buildQuery [{ qname := [97, 46, 98], qtype := 33, qclass := 1 }] true 7 = .ok w := ⟨_, rfl⟩
example : ∃ w, buildQuery [{ qname := [97, 46, 98], qtype := 33, qclass := 1 }] true 0 4711 = .ok w := ⟨_, rfl⟩

/-! ## N3 / N4 — safety and prompt termination for arbitrary bytes -/

/-- **N3 (no read outside the buffer).** For ARBITRARY bytes, `parse` never performs an out-of-range read: the explicit
outcome `oob` (every `data[i]` / `rdata[i]` of the model goes through `rd`) is unreachable — in the header, the
questions, the resource records, `validateRdataSecurity`, and every typed RDATA parser including name decoding inside
RDATA. -/
theorem N3_parse_no_oob (m : Bytes) : parse m ≠ .error .oob := (parse_safe m).1

/-- N3 for the public name decoder, any start offset -/
theorem N3_name_no_oob (m : Bytes) (off : Nat) : decodeName m off ≠ .error .oob := (decodeName_safe m off).1

/-- N3 for `decodeNameFromRdata` with arbitrary arguments -/
theorem N3_rdataName_no_oob (m : Bytes) (rdStart rdOff : Nat) (r : Bytes) : rdataName m rdStart rdOff r ≠ .error .oob :=
  (rdataName_safe m rdStart rdOff r).1

/-- **N4a (prompt termination of name decoding).** For ARBITRARY bytes and any start offset the loop of
`decodeNameWithLoopDetection` never exhausts its fuel — and the fuel is the CONSTANT 257 (`N4_name_iterations_constant`): each
label adds ≥ 2 to the running length capped at 255, each jump counts against `maxJumps` = 128.  The cost of one name does
not depend on the message (before the repair of FC19c it was bounded only by the number of distinct pointer targets, i.e.
by the message size). -/
theorem N4_name_fuel (m : Bytes) (off : Nat) : decodeName m off ≠ .error .fuel :=
  decodeName_no_fuel m off

/-- N3/N4 for the public `decodeNameWithLoopDetection` with ANY caller-supplied visited set: no out-of-range read, fuel never
exhausted; and with the empty set it is `decodeName` -/
theorem N4_name_visited_safe (m : Bytes) (off : Nat) (visited : List Nat) :
    decodeNameVisited m off visited ≠ .error .oob ∧ decodeNameVisited m off visited ≠ .error .fuel :=
  ⟨decodeGo_no_oob m _ _, decodeGo_fuel m _ _ (by simp [Gen.Dns.maxName]) (by simp) (pot_init m off)⟩

theorem N4_name_visited_empty (m : Bytes) (off : Nat) : decodeNameVisited m off [] = decodeName m off := rfl

theorem N4_name_iterations_constant (m : Bytes) : nameFuel m = 257 := nameFuel_const m

/-- **N4d (message level: rounds).** Whatever the four 16-bit counts of the header claim, `parse` executes at most
`(size + 11) / 5` question / record rounds: an accepted question occupies ≥ 5 bytes, an accepted record ≥ 11, and the first
rejected one ends the parse. -/
theorem N4_message_rounds_linear (m : Bytes) : 5 * parseRounds m ≤ m.length + 11 := parseRounds_le m

/-- **N4e (message level: total work).** rounds × names per round (3: owner/question name + at most two RDATA names, read off
the model) × iterations per name (257) ≤ `workBound size` = `((size + 11) / 5) · 771` — LINEAR in the message size.  (The
counter-example of the review — 4 098 records × an 8 172-hop chain, 33·10⁶ iterations, seconds on the I/O thread — is now
rejected at the first record.) -/
theorem N4_message_work_linear (m : Bytes) : parseRounds m * (namesPerRound * nameFuel m) ≤ workBound m.length :=
  parse_work_linear m

example : workBound 65535 = 10107039 := by decide

/-- **N4b.** The whole parser never exhausts fuel either; everything else in it is structurally bounded by the 16-bit section
counts and the RDATA length. -/
theorem N4_parse_fuel (m : Bytes) : parse m ≠ .error .fuel := (parse_safe m).2

/-- **N4c (loops and out-of-range pointers are always errors).** Whatever `decodeName` accepts has a finite pointer chain
inside the message — restated from N1b for the two malformations the property names: a self-pointing name and a pointer
beyond the end are rejected at every size. -/
theorem N4_self_pointer_rejected (pre post : Bytes) (hp : pre.length < 16384) :
    ∃ e, decodeName (pre ++ [b8 (192 + pre.length / 256), b8 pre.length] ++ post) pre.length = .error e :=
  self_pointer_rejected pre post hp

theorem N4_out_of_range_rejected (m : Bytes) (off : Nat) (b b2 : UInt8) (h0 : m[off]? = some b) (h1 : m[off + 1]? = some b2)
    (hp : 192 ≤ b.toNat) (hr : m.length ≤ (b.toNat % 64) * 256 + b2.toNat) :
    ∃ e, decodeName m off = .error e :=
  out_of_range_rejected m off b b2 h0 h1 hp hr

/-- non-vacuity: `C0 05` in a 2-byte buffer -/
example : ∃ e, decodeName [192, 5] 0 = .error e :=
  N4_out_of_range_rejected [192, 5] 0 192 5 (by decide) (by decide) (by decide) (by decide)

/-- **N4f (malformed names INSIDE RDATA).** When the typed parser of a record throws — a pointer loop, an out-of-range pointer,
a truncated name inside RDATA, a wrong RDATA length — the message is NOT rejected: the raw record is kept and the typed
record is silently omitted (`catch (const std::exception &)` in `parseTypedRecord`). -/
theorem N4_rdata_error_drops_typed (m : Bytes) (rr : RR) (o : Nat) (e : Err) (h : typedOf rr m o = .error e) :
    typedSpec m (rr, o) = none :=
  typedSpec_none_of_error h

set_option maxRecDepth 100000 in
/-- non-vacuity: a CNAME whose RDATA is a pointer to itself -/
example : typedOf { name := [], type := 5, cls := 1, ttl := 1, rdlength := 2, rdata := [192, 0] } [192, 0, 0] 0 = .error .loop := rfl

/-! ## N2 — records: what is proved, what is refuted -/

/-- full-strength statement: the security validation never rejects a well-formed (4-byte) A record -/
def N2_A_statement : Prop :=
  ∀ rr : RR, rr.type = 1 → rr.rdata.length = 4 → validateRdata rr = .ok ()

set_option maxRecDepth 100000 in
/-- **refuted** (finding F13A): `192.32.0.0` is rejected as a "malicious compression pointer" -/
theorem N2_A_refuted : ¬ N2_A_statement := by
  intro h
  have h1 := h { name := [97], type := 1, cls := 1, ttl := 60, rdlength := 4, rdata := [192, 32, 0, 0] } rfl rfl
  have h2 : validateRdata { name := [97], type := 1, cls := 1, ttl := 60, rdlength := 4, rdata := [192, 32, 0, 0] } = .error .malicious := rfl
  rw [h2] at h1
  cases h1

set_option maxRecDepth 100000 in
/-- the same witness as a complete, well-formed response: rejected as a whole -/
theorem N2_A_witness_rejected :
    parse [0, 1, 129, 128, 0, 0, 0, 1, 0, 0, 0, 0, 1, 97, 0, 0, 1, 0, 1, 0, 0, 0, 60, 0, 4, 192, 32, 0, 0] = .error .malicious := by
  rfl

/-- **partial**: outside the carve-out `aRuleFires` every 4-byte A record passes the validation and its typed form is
exactly its four octets -/
theorem N2_A_partial (rr : RR) (ht : rr.type = 1) (hl : rr.rdata.length = 4) (hk : aRuleFires rr.rdata = false) :
    validateRdata rr = .ok () ∧ parseA rr = .ok (.a rr.name rr.rdata rr.ttl) :=
  a_record_ok rr ht hl hk

/-- tightness of the carve-out: every 4-byte A record inside `aRuleFires` IS rejected, so `aRuleFires` is exactly the set lost -/
theorem N2_A_carveout_tight (rr : RR) (ht : rr.type = 1) (hl : rr.rdata.length = 4) (hk : aRuleFires rr.rdata = true) :
    validateRdata rr = .error .malicious :=
  a_rule_rejects rr ht hl hk

example : aRuleFires [192, 64, 0, 0] = false ∧ aRuleFires [10, 0, 0, 1] = false ∧ aRuleFires [192, 32, 0, 0] = true := by decide

/-- **N2 (no other record type is ever rejected by the validation).** After the repair of F12/F13 the validation looks at A
records only: TXT, AAAA and every other type pass whatever bytes their RDATA holds (and there is no `size() - 1`
arithmetic left). -/
theorem N2_other_types_pass (rr : RR) (ht : rr.type ≠ 1) : validateRdata rr = .ok () :=
  validate_other rr ht

theorem N2_gen_shape : Gen.Dns.validatedTypes = [1] ∧ Gen.Dns.validateHasSizeMinusOne = false := ⟨rfl, rfl⟩

/-- generated-facts conformance (tripwire, `rfl` on `Gen/Dns.lean`): the decoder counts the root label against a limit of 255,
bounds the compression pointers per name by 128 and treats an unterminated name as an error.  (`Gen.Dns.lowerAsciiOnly` is
deliberately NOT part of it: with `<cctype>` tolower the model's ASCII fold is right in the "C" locale only, and the plugin
then lists that as an assumption of the run.) -/
theorem N1_gen_shape : Gen.Dns.maxName = 255 ∧ Gen.Dns.nameLimitCountsRoot = true ∧ Gen.Dns.hasJumpCap = true ∧
    Gen.Dns.maxJumps = 128 ∧ Gen.Dns.unterminatedIsError = true := ⟨rfl, rfl, rfl, rfl, rfl⟩

/-- AAAA and TXT typed decoding is exact for arbitrary octets: 16 bytes are an address, and a sequence of character strings
decodes to exactly those strings -/
theorem N2_aaaa_exact (rr : RR) (hl : rr.rdata.length = 16) : parseAAAA rr = .ok (.aaaa rr.name rr.rdata rr.ttl) :=
  aaaa_exact rr hl

theorem N2_txt_exact (rr : RR) (ts : List Bytes) (h : ∀ t ∈ ts, t.length < 256) (hr : rr.rdata = encodeTxt ts) :
    parseTxt rr = .ok (.txt rr.name ts rr.ttl) :=
  parseTxt_exact rr ts h hr

/-- non-vacuity: UTF-8 text with bytes ≥ 0xC0 -/
example : encodeTxt [[195, 169], []] = [2, 195, 169, 0] := by decide

/-- **N2 (whole response, names compressed at any position).** A message laid out as RFC 1035 §4.1 prescribes — 12-byte
header, questions, three record sections; EVERY question and owner name a `WellFormedName` (encoded in any way the reference
relation admits — labels, pointers anywhere, chains, forward pointers — within the RFC length limit and the bound of 128
pointers per name; `QuestionAt` / `RecordAt` say exactly this and nothing more) — and in which no record trips the recorded A rule
(`validateRdata = ok`: automatic for every type but A, see `N2_other_types_pass` / `N2_A_partial`), parses to EXACTLY its
header fields, questions and raw resource records; the typed vectors are the per-record typed decodings in order of
appearance (`typedSpec`, characterised per type below). -/
theorem N2_response (id flags : Nat) (rest : Bytes) (qs : List Question) (an ns ar : List (RR × Nat)) (o1 o2 o3 o4 : Nat)
    (h1 : id < 65536) (h2 : flags < 65536) (h3 : qs.length < 65536) (h4 : an.length < 65536) (h5 : ns.length < 65536)
    (h6 : ar.length < 65536)
    (hq : QuestionsAt (be16 id ++ be16 flags ++ be16 qs.length ++ be16 an.length ++ be16 ns.length ++ be16 ar.length ++ rest) 12 qs o1)
    (han : RecordsAt (be16 id ++ be16 flags ++ be16 qs.length ++ be16 an.length ++ be16 ns.length ++ be16 ar.length ++ rest) o1 an o2)
    (hns : RecordsAt (be16 id ++ be16 flags ++ be16 qs.length ++ be16 an.length ++ be16 ns.length ++ be16 ar.length ++ rest) o2 ns o3)
    (har : RecordsAt (be16 id ++ be16 flags ++ be16 qs.length ++ be16 an.length ++ be16 ns.length ++ be16 ar.length ++ rest) o3 ar o4)
    (hval : ∀ p ∈ an ++ ns ++ ar, validateRdata p.1 = .ok ()) :
    parse (be16 id ++ be16 flags ++ be16 qs.length ++ be16 an.length ++ be16 ns.length ++ be16 ar.length ++ rest) =
      .ok { header := mkHeader id flags qs.length an.length ns.length ar.length, questions := qs,
            answers := an.map (·.1), authority := ns.map (·.1), additional := ar.map (·.1),
            typed := (an ++ ns ++ ar).filterMap
              (typedSpec (be16 id ++ be16 flags ++ be16 qs.length ++ be16 an.length ++ be16 ns.length ++ be16 ar.length ++ rest)) } :=
  parse_exact id flags rest qs an ns ar o1 o2 o3 o4 h1 h2 h3 h4 h5 h6 hq han hns har hval

/-- non-vacuity: a response with question `a A IN` and one answer whose owner name is the pointer `C0 0C` -/
example :
    let rest : Bytes := [1, 97, 0, 0, 1, 0, 1, 192, 12, 0, 1, 0, 1, 0, 0, 0, 60, 0, 4, 10, 0, 0, 1]
    let m : Bytes := be16 1 ++ be16 33152 ++ be16 1 ++ be16 1 ++ be16 0 ++ be16 0 ++ rest
    let rr : RR := { name := [97], type := 1, cls := 1, ttl := 60, rdlength := 4, rdata := [10, 0, 0, 1] }
    QuestionsAt m 12 [{ qname := [97], qtype := 1, qclass := 1 }] 19 ∧ RecordsAt m 19 [(rr, 31)] 35 ∧
      validateRdata rr = .ok () := by
  intro rest m rr
  have d12 : DenotesH m 12 [[97]] 15 0 :=
    DenotesH.label (b := 1) (by decide) (by decide) (by decide) (by decide) (DenotesH.root (by decide))
  have d19 : DenotesH m 19 [[97]] 21 1 := DenotesH.ptr (b := 192) (b2 := 12) (by decide) (by decide) (by decide) d12
  refine ⟨.cons ⟨[[97]], m.take 15, m.drop 19, ⟨0, d12, by decide, by decide⟩, rfl, by decide, by decide, by decide, rfl⟩ (.nil _),
    .cons ⟨[[97]], m.take 21, m.drop 35, ⟨1, d19, by decide, by decide⟩, rfl, by decide, by decide, by decide, by decide, rfl, by decide, rfl, rfl⟩ (.nil _),
    (N2_A_partial rr rfl rfl (by decide)).1⟩

/-- **N2 (names inside RDATA, every compression layout).** If the RDATA (a slice of the message) holds at `rdOff` a well-formed
name with labels `ls` that ends inside the RDATA, `decodeNameFromRdata` returns exactly it and the offset behind it — with NO
side condition on the layout: the root name written as a root label (null MX of RFC 7505, SRV target `.`) and the root name
written as a POINTER to a root label, including a root label that is the very last byte of the message (refused before the
repair of FC19f, whose guard asked for `pointer + 1 < messageSize`). -/
theorem N2_rdata_name (m r : Bytes) (rdStart rdOff nx : Nat) (ls : List Bytes)
    (hr : r = slice m rdStart r.length) (hoff : rdOff < r.length)
    (hd : WellFormedName m (rdStart + rdOff) ls (rdStart + nx)) (hnx : nx ≤ r.length) :
    rdataName m rdStart rdOff r = .ok (dottedName ls, nx) :=
  rdataName_exact m r rdStart rdOff nx ls hr hoff hd hnx

/-- non-vacuity: name `a` at 0, and RDATA `C0 00` at 3 -/
example : rdataName [1, 97, 0, 192, 0] 3 0 [192, 0] = .ok (dottedName [[97]], 2) := by
  have h0 : DenotesH [1, 97, 0, 192, 0] 0 [[97]] 3 0 :=
    DenotesH.label (b := 1) (by decide) (by decide) (by decide) (by decide) (DenotesH.root (by decide))
  exact N2_rdata_name [1, 97, 0, 192, 0] [192, 0] 3 0 2 [[97]] (by decide) (by decide)
    ⟨1, DenotesH.ptr (b := 192) (b2 := 0) (by decide) (by decide) (by decide) h0, by decide, by decide⟩ (by decide)

/-- non-vacuity, the FC19f shape: RDATA `C0 04` at 0 is a FORWARD pointer to the root label that is the LAST byte of the message -/
example : rdataName [192, 4, 7, 7, 0] 0 0 [192, 4] = .ok (dottedName [], 2) :=
  N2_rdata_name [192, 4, 7, 7, 0] [192, 4] 0 0 2 [] (by decide) (by decide)
    ⟨1, DenotesH.ptr (b := 192) (b2 := 4) (by decide) (by decide) (by decide) (DenotesH.root (by decide)), by decide, by decide⟩ (by decide)

/-- generated-facts conformance (tripwire, `rfl`): the direct-pointer branch of `decodeNameFromRdata` accepts every target
inside the message (margin 0); on a tree with the old `pointer + 1 < messageSize` test this — and `N2_rdata_name` — do not build. -/
theorem N2_gen_rdata_pointer : Gen.Dns.rdataPointerMargin = 0 := rfl

/-- **N2 (typed records).** Exact typed decoding per record type: A and AAAA for arbitrary octets, TXT for arbitrary
character strings, CNAME / PTR / MX / SRV with the embedded name compressed in any way (root target included when written as
a root label or as a pointer to one), SOA with both names compressed in any way and arbitrary numbers; types without a typed
parser (NS, OPT, unknown) yield no typed record. -/
theorem N2_typed_a (m : Bytes) (rr : RR) (o : Nat) (ht : rr.type = 1) (hl : rr.rdata.length = 4) :
    typedSpec m (rr, o) = some (.a rr.name rr.rdata rr.ttl) := typed_a m rr o ht hl
theorem N2_typed_aaaa (m : Bytes) (rr : RR) (o : Nat) (ht : rr.type = 28) (hl : rr.rdata.length = 16) :
    typedSpec m (rr, o) = some (.aaaa rr.name rr.rdata rr.ttl) := typed_aaaa m rr o ht hl
theorem N2_typed_txt (m : Bytes) (rr : RR) (o : Nat) (ts : List Bytes) (ht : rr.type = 16) (h : ∀ t ∈ ts, t.length < 256)
    (hr : rr.rdata = encodeTxt ts) : typedSpec m (rr, o) = some (.txt rr.name ts rr.ttl) := typed_txt m rr o ts ht h hr
theorem N2_typed_cname (m : Bytes) (rr : RR) (o : Nat) (ls : List Bytes) (ht : rr.type = 5)
    (hr : rr.rdata = slice m o rr.rdata.length) (hd : WellFormedName m o ls (o + rr.rdata.length)) :
    typedSpec m (rr, o) = some (.cname rr.name (dottedName ls) rr.ttl) := typed_cname m rr o ls ht hr hd
theorem N2_typed_ptr (m : Bytes) (rr : RR) (o : Nat) (ls : List Bytes) (ht : rr.type = 12)
    (hr : rr.rdata = slice m o rr.rdata.length) (hd : WellFormedName m o ls (o + rr.rdata.length)) :
    typedSpec m (rr, o) = some (.ptr rr.name (dottedName ls) rr.ttl) := typed_ptr m rr o ls ht hr hd
theorem N2_typed_mx (m : Bytes) (rr : RR) (o : Nat) (ls : List Bytes) (pref : Nat) (ht : rr.type = 15)
    (hr : rr.rdata = slice m o rr.rdata.length) (hp : rd16 rr.rdata 0 = .ok pref) (hlen : 2 < rr.rdata.length)
    (hd : WellFormedName m (o + 2) ls (o + rr.rdata.length)) :
    typedSpec m (rr, o) = some (.mx rr.name pref (dottedName ls) rr.ttl) := typed_mx m rr o ls pref ht hr hp hlen hd
theorem N2_typed_srv (m : Bytes) (rr : RR) (o : Nat) (ls : List Bytes) (prio weight port : Nat) (ht : rr.type = 33)
    (hr : rr.rdata = slice m o rr.rdata.length) (h0 : rd16 rr.rdata 0 = .ok prio) (h2 : rd16 rr.rdata 2 = .ok weight)
    (h4 : rd16 rr.rdata 4 = .ok port) (hlen : 6 < rr.rdata.length)
    (hd : WellFormedName m (o + 6) ls (o + rr.rdata.length)) :
    typedSpec m (rr, o) = some (.srv rr.name prio weight port (dottedName ls) rr.ttl) :=
  typed_srv m rr o ls prio weight port ht hr h0 h2 h4 hlen hd

/-- non-vacuity: CNAME and PTR whose RDATA is `C0 00` → `a`; the null MX `0 .` of RFC 7505; an SRV record with target `.` -/
example : typedSpec [1, 97, 0, 192, 0] ({ name := [], type := 5, cls := 1, ttl := 9, rdlength := 2, rdata := [192, 0] }, 3) =
    some (.cname [] (dottedName [[97]]) 9) := by
  have h0 : DenotesH [1, 97, 0, 192, 0] 0 [[97]] 3 0 :=
    DenotesH.label (b := 1) (by decide) (by decide) (by decide) (by decide) (DenotesH.root (by decide))
  exact N2_typed_cname _ _ 3 [[97]] rfl (by decide)
    ⟨1, DenotesH.ptr (b := 192) (b2 := 0) (by decide) (by decide) (by decide) h0, by decide, by decide⟩
example : typedSpec [1, 97, 0, 192, 0] ({ name := [], type := 12, cls := 1, ttl := 9, rdlength := 2, rdata := [192, 0] }, 3) =
    some (.ptr [] (dottedName [[97]]) 9) := by
  have h0 : DenotesH [1, 97, 0, 192, 0] 0 [[97]] 3 0 :=
    DenotesH.label (b := 1) (by decide) (by decide) (by decide) (by decide) (DenotesH.root (by decide))
  exact N2_typed_ptr _ _ 3 [[97]] rfl (by decide)
    ⟨1, DenotesH.ptr (b := 192) (b2 := 0) (by decide) (by decide) (by decide) h0, by decide, by decide⟩
example : typedSpec [0, 0, 0] ({ name := [], type := 15, cls := 1, ttl := 9, rdlength := 3, rdata := [0, 0, 0] }, 0) =
    some (.mx [] 0 (dottedName []) 9) :=
  N2_typed_mx _ _ 0 [] 0 rfl (by decide) rfl (by decide) ⟨0, DenotesH.root (by decide), by decide, by decide⟩
example : typedSpec [0, 1, 0, 2, 0, 3, 0] ({ name := [], type := 33, cls := 1, ttl := 9, rdlength := 7, rdata := [0, 1, 0, 2, 0, 3, 0] }, 0) =
    some (.srv [] 1 2 3 (dottedName []) 9) :=
  N2_typed_srv _ _ 0 [] 1 2 3 rfl (by decide) rfl rfl rfl (by decide) ⟨0, DenotesH.root (by decide), by decide, by decide⟩

/-- **N2 (typed SOA).** MNAME and RNAME each compressed in any way the reference relation admits (root, pointer to root,
chains, forward pointers), followed by exactly the five 32-bit numbers: the typed SOA record is exactly those two names and
those five numbers — in particular MINIMUM, on which the negative-caching TTL rests (`N5_negative_ttl_le_soa`). -/
theorem N2_typed_soa (m : Bytes) (rr : RR) (o : Nat) (ls1 ls2 : List Bytes) (n1 n2 : Nat)
    (serial refresh retry expire minimum : Nat) (ht : rr.type = 6)
    (hr : rr.rdata = slice m o rr.rdata.length)
    (hd1 : WellFormedName m o ls1 (o + n1)) (hd2 : WellFormedName m (o + n1) ls2 (o + n2))
    (hlen : rr.rdata.length = n2 + 20)
    (h0 : rd32 rr.rdata n2 = .ok serial) (h1 : rd32 rr.rdata (n2 + 4) = .ok refresh)
    (h2 : rd32 rr.rdata (n2 + 8) = .ok retry) (h3 : rd32 rr.rdata (n2 + 12) = .ok expire)
    (h4 : rd32 rr.rdata (n2 + 16) = .ok minimum) :
    typedSpec m (rr, o) = some (.soa rr.name (dottedName ls1) (dottedName ls2) serial refresh retry expire minimum rr.ttl) :=
  typed_soa m rr o ls1 ls2 n1 n2 serial refresh retry expire minimum ht hr hd1 hd2 hlen h0 h1 h2 h3 h4

/-- the same with the five numbers given as values: RDATA = (two names) ++ be32 serial ++ … ++ be32 minimum -/
theorem N2_typed_soa_values (m : Bytes) (rr : RR) (o : Nat) (ls1 ls2 : List Bytes) (n1 n2 : Nat) (pre : Bytes)
    (serial refresh retry expire minimum : Nat) (ht : rr.type = 6)
    (hr : rr.rdata = slice m o rr.rdata.length)
    (hd1 : WellFormedName m o ls1 (o + n1)) (hd2 : WellFormedName m (o + n1) ls2 (o + n2))
    (hpre : pre.length = n2)
    (hrd : rr.rdata = pre ++ be32 serial ++ be32 refresh ++ be32 retry ++ be32 expire ++ be32 minimum)
    (b0 : serial < 4294967296) (b1 : refresh < 4294967296) (b2 : retry < 4294967296)
    (b3 : expire < 4294967296) (b4 : minimum < 4294967296) :
    typedSpec m (rr, o) = some (.soa rr.name (dottedName ls1) (dottedName ls2) serial refresh retry expire minimum rr.ttl) :=
  typed_soa_values m rr o ls1 ls2 n1 n2 pre serial refresh retry expire minimum ht hr hd1 hd2 hpre hrd b0 b1 b2 b3 b4

/-- non-vacuity: MNAME `a` written out, RNAME a pointer to it, MINIMUM = 2³²−1 -/
example : typedSpec ([1, 97, 0, 192, 0] ++ be32 1 ++ be32 2 ++ be32 3 ++ be32 4 ++ be32 4294967295)
    ({ name := [], type := 6, cls := 1, ttl := 9, rdlength := 25,
       rdata := [1, 97, 0, 192, 0] ++ be32 1 ++ be32 2 ++ be32 3 ++ be32 4 ++ be32 4294967295 }, 0) =
    some (.soa [] (dottedName [[97]]) (dottedName [[97]]) 1 2 3 4 4294967295 9) := by
  have h0 : DenotesH ([1, 97, 0, 192, 0] ++ be32 1 ++ be32 2 ++ be32 3 ++ be32 4 ++ be32 4294967295) 0 [[97]] 3 0 :=
    DenotesH.label (b := 1) (by decide) (by decide) (by decide) (by decide) (DenotesH.root (by decide))
  exact N2_typed_soa_values _ _ 0 [[97]] [[97]] 3 5 [1, 97, 0, 192, 0] 1 2 3 4 4294967295 rfl (by decide)
    ⟨0, h0, by decide, by decide⟩
    ⟨1, DenotesH.ptr (b := 192) (b2 := 0) (by decide) (by decide) (by decide) h0, by decide, by decide⟩
    rfl rfl (by decide) (by decide) (by decide) (by decide) (by decide)

/-- **N2 (typed NAPTR).** ORDER, PREFERENCE, the three character strings FLAGS / SERVICES / REGEXP (arbitrary octets, each
shorter than 256) and the REPLACEMENT name compressed in any way: the typed NAPTR record is exactly those. -/
theorem N2_typed_naptr (m : Bytes) (rr : RR) (o : Nat) (ls : List Bytes) (order pref : Nat)
    (flags service regexp : Bytes) (tail : Bytes) (ht : rr.type = 35)
    (hr : rr.rdata = slice m o rr.rdata.length)
    (ho : order < 65536) (hp : pref < 65536)
    (hf : flags.length < 256) (hsv : service.length < 256) (hre : regexp.length < 256)
    (hrd : rr.rdata = be16 order ++ be16 pref ++ (b8 flags.length :: flags) ++ (b8 service.length :: service) ++
      (b8 regexp.length :: regexp) ++ tail)
    (htail : 0 < tail.length)
    (hd : WellFormedName m (o + (7 + flags.length + service.length + regexp.length)) ls (o + rr.rdata.length)) :
    typedSpec m (rr, o) = some (.naptr rr.name order pref flags service regexp (dottedName ls) rr.ttl) :=
  typed_naptr m rr o ls order pref flags service regexp tail ht hr ho hp hf hsv hre hrd htail hd

/-- non-vacuity: order 10, preference 20, flags "S", empty services and regexp, replacement `.` -/
example :
    typedSpec (be16 10 ++ be16 20 ++ [1, 83] ++ [0] ++ [0] ++ [0])
      ({ name := [], type := 35, cls := 1, ttl := 9, rdlength := 9, rdata := be16 10 ++ be16 20 ++ [1, 83] ++ [0] ++ [0] ++ [0] }, 0) =
      some (.naptr [] 10 20 [83] [] [] (dottedName []) 9) :=
  N2_typed_naptr _ _ 0 [] 10 20 [83] [] [] [0] rfl (by decide) (by decide) (by decide) (by decide) (by decide) (by decide) (by decide)
    (by decide) ⟨0, DenotesH.root (by decide), by decide, by decide⟩

/-- generated-facts conformance (tripwire): the record-type numbers the model's `switch` is written with are the values of
`enum class DnsType`, and `IN` = 1 -/
theorem N2_gen_type_numbers :
    Gen.Dns.types.lookup "A" = some 1 ∧ Gen.Dns.types.lookup "AAAA" = some 28 ∧ Gen.Dns.types.lookup "SRV" = some 33 ∧
    Gen.Dns.types.lookup "NAPTR" = some 35 ∧ Gen.Dns.types.lookup "CNAME" = some 5 ∧ Gen.Dns.types.lookup "MX" = some 15 ∧
    Gen.Dns.types.lookup "TXT" = some 16 ∧ Gen.Dns.types.lookup "PTR" = some 12 ∧ Gen.Dns.types.lookup "SOA" = some 6 ∧
    Gen.Dns.types.lookup "NS" = some 2 ∧ Gen.Dns.classes.lookup "IN" = some 1 := by decide

theorem N2_typed_none (m : Bytes) (rr : RR) (o : Nat) (ht : Gen.Dns.typedTypes.contains rr.type = false) :
    typedSpec m (rr, o) = none := typed_none m rr o ht

/-! ## N6 — a parse failure is contained by the transport's data callback -/

/-- **N6a (containment).** For ARBITRARY bytes and any set of pending queries `processResponse` ends normally: every exception
of the parser is caught, and (N3) nothing that is not an exception can happen. -/
theorem N6_contained (pending : List Nat) (data : Bytes) : ∃ out, DnsTransport.processResponse pending data = .ok out :=
  DnsTransport.processResponse_total pending data

/-- **N6b.** A rejected message of at least two bytes completes exactly the pending query whose id is those two bytes — with a
parse error — and leaves every other pending query alone; a shorter one completes nothing. -/
theorem N6_error_completes_by_first_two_bytes (pending : List Nat) (data : Bytes) (e : Err) (he : parse data = .error e)
    (h2 : 2 ≤ data.length) :
    ∃ b0 b1 : UInt8, data[0]? = some b0 ∧ data[1]? = some b1 ∧
      DnsTransport.processResponse pending data =
        .ok (if pending.contains (b0.toNat * 256 + b1.toNat) then some (.parseError (b0.toNat * 256 + b1.toNat)) else none,
             pending.filter (· ≠ b0.toNat * 256 + b1.toNat)) :=
  DnsTransport.processResponse_error pending data e he h2

set_option maxRecDepth 100000 in
/-- non-vacuity of N6a/N6b: a message with a self-pointing question name, pending queries 0x1234 and 7 -/
example : DnsTransport.processResponse [4660, 7] [18, 52, 129, 128, 0, 1, 0, 0, 0, 0, 0, 0, 192, 12, 0, 1, 0, 1] =
    .ok (some (.parseError 4660), [7]) := rfl

set_option maxRecDepth 100000 in
/-- non-vacuity of N6c: an accepted message -/
example : ∃ r, parse [18, 52, 129, 128, 0, 0, 0, 0, 0, 0, 0, 0] = .ok r ∧
    DnsTransport.processResponse [4660, 7] [18, 52, 129, 128, 0, 0, 0, 0, 0, 0, 0, 0] = .ok (some (.result 4660 r), [7]) := ⟨_, rfl, rfl⟩

/-- **N6c.** An accepted message completes the pending query whose id is its first two bytes, with the parsed result. -/
theorem N6_ok_completes (pending : List Nat) (data : Bytes) (r : Result) (h : parse data = .ok r) :
    rd16 data 0 = .ok r.header.id ∧
    DnsTransport.processResponse pending data =
      .ok (if pending.contains r.header.id then some (.result r.header.id r) else none, pending.filter (· ≠ r.header.id)) :=
  DnsTransport.processResponse_ok pending data r h

/-- full-strength statement one would want at this seam (RFC 5452 §9.1): a response is accepted for a pending query only if
its question section is the question that was asked -/
def N6_question_checked_statement : Prop :=
  ∀ (pending : List Nat) (data : Bytes) (r : Result) (asked : Question),
    parse data = .ok r → r.questions ≠ [asked] → ∀ out, DnsTransport.processResponse pending data = .ok out → out.1.isNone

set_option maxRecDepth 100000 in
/-- **refuted** (finding FC19e): `processResponse` keys the pending query by (id, server, port) only; neither it nor
`DnsResolver::query/queryAsync` compare `result.questions` with the request before `cache_->put(question, result)`.  A
response with the right 16-bit id but another (here: no) question completes the query and is cached under the ASKED key. -/
theorem N6_question_checked_refuted : ¬ N6_question_checked_statement := by
  intro h
  have h1 := h [4660] [18, 52, 129, 128, 0, 0, 0, 0, 0, 0, 0, 0] _ { qname := [97], qtype := 1, qclass := 1 } rfl
    (by intro hc; cases hc) _ rfl
  cases h1

/-! ## N6 (TCP) — length-prefix reassembly in `handleTcpData`, and the complete data callbacks -/

/-- **N6t (every segmentation).** Take any list of messages, each non-empty, at most 65535 bytes and within the configured
buffer limit, written to the stream as RFC 1035 §4.2.2 prescribes (two-byte length, then the message).  However the stream
is cut into reads — inside a length prefix, inside a message, several messages in one read, empty reads — `handleTcpData`
hands `processResponse` EXACTLY those messages, in order, each with exactly its own bytes, never closes the session and ends
with an empty buffer; provided no single read trips the growth check `buffer.size() + data.size() > maxTcpBufferSize`
(`Fits`, which is a statement about the reads, not about the messages; `N6_tcp_segmentation_small` replaces it by "the whole
stream is no longer than the limit"). -/
theorem N6_tcp_segmentation (cap : Nat) (ms : List Bytes) (hv : DnsTcp.ValidMsgs cap ms) (ss : List Bytes)
    (hflat : ss.flatten = DnsTcp.tcpStream ms) (hfit : DnsTcp.Fits cap [] ss) :
    DnsTcp.tcpFeed cap [] ss = (ms.map DnsTcp.Ev.msg, []) :=
  DnsTcp.tcpFeed_segmentation cap ms hv ss hflat hfit

theorem N6_tcp_segmentation_small (cap : Nat) (ms : List Bytes) (hv : DnsTcp.ValidMsgs cap ms) (ss : List Bytes)
    (hflat : ss.flatten = DnsTcp.tcpStream ms) (hsmall : (DnsTcp.tcpStream ms).length ≤ cap) :
    DnsTcp.tcpFeed cap [] ss = (ms.map DnsTcp.Ev.msg, []) :=
  DnsTcp.tcpFeed_segmentation_small cap ms hv ss hflat hsmall

/-- non-vacuity: two messages cut inside the first length prefix and with the second message sharing a read with the tail of the first -/
example : DnsTcp.tcpFeed 64 [] [[0], [3, 1, 2], [3, 0, 1, 9]] = ([.msg [1, 2, 3], .msg [9]], []) :=
  N6_tcp_segmentation_small 64 [[1, 2, 3], [9]]
    (by intro m hm; simp only [List.mem_cons, List.mem_nil_iff, or_false] at hm; rcases hm with rfl | rfl <;> decide)
    [[0], [3, 1, 2], [3, 0, 1, 9]] (by decide) (by decide)

/-- **N6t (exact size, no over-read).** Whatever is in the buffer, a message handed out by one round of the loop is exactly
the `len` bytes behind the two-byte prefix that announces `len`, lies completely inside the buffer, `0 < len ≤ 65535`,
`len ≤ maxTcpBufferSize`, and exactly `2 + len` bytes are popped. -/
theorem N6_tcp_exact_size (cap : Nat) (d : Bytes) (a : DnsTcp.Ev) (n : Nat) (h : DnsTcp.frameAt cap d = .frame a n) :
    ∃ b0 b1 rest, d = b0 :: b1 :: rest ∧ n = 2 + (b0.toNat * 256 + b1.toNat) ∧
      a = .msg (rest.take (b0.toNat * 256 + b1.toNat)) ∧ b0.toNat * 256 + b1.toNat ≤ rest.length ∧
      0 < b0.toNat * 256 + b1.toNat ∧ b0.toNat * 256 + b1.toNat ≤ cap :=
  DnsTcp.frameAt_frame_inv cap d a n h

/-- the loop of `handleTcpData` IS the generic greedy drain of `Common/Framing` over the stable parser `frameAt` (stable on
every buffer: its verdict depends on the two prefix bytes and on whether enough bytes are present) -/
theorem N6_tcp_loop_is_drain (cap f : Nat) (d : Bytes) :
    DnsTcp.tcpLoop cap f d = ((Framing.drainF (DnsTcp.tcpParser cap) f d).1, DnsTcp.carryBuf (Framing.drainF (DnsTcp.tcpParser cap) f d).2) :=
  DnsTcp.tcpLoop_eq_drainF' cap f d

/-- a zero length prefix, and a read that would grow the buffer beyond the limit, clear the buffer and close the session -/
theorem N6_tcp_zero_length_closes (cap : Nat) (rest : Bytes) (h : 2 + rest.length ≤ cap) :
    DnsTcp.tcpData cap [] (0 :: 0 :: rest) = ([.close], []) := DnsTcp.tcpData_zero_length_closes cap rest h
theorem N6_tcp_overflow_closes (cap : Nat) (buf data : Bytes) (h : buf.length + data.length > cap) :
    DnsTcp.tcpData cap buf data = ([.close], []) := DnsTcp.tcpData_overflow_closes cap buf data h

/-- **N6t (containment at the callbacks).** For ARBITRARY bytes, session ids, buffers, session tables and pending sets the
complete data callbacks `handleTcpData` and `handleUdpData` end normally. -/
theorem N6_tcp_contained (cap : Nat) (st : DnsTcp.TSt) (sid : Nat) (data : Bytes) : ∃ out, DnsTcp.handleTcpData cap st sid data = .ok out :=
  DnsTcp.handleTcpData_total cap st sid data
theorem N6_udp_contained (st : DnsTcp.TSt) (sid : Nat) (data : Bytes) : ∃ out, DnsTcp.handleUdpData st sid data = .ok out :=
  DnsTcp.handleUdpData_total st sid data

/-- **N6f (truncated UDP answer, transport mode Both).** Containment for arbitrary bytes, and: a truncated answer (TC = 1) for a
pending query that has not fallen back yet completes NOTHING — the pending set is unchanged, the query is marked and re-sent
over TCP exactly once (a second truncated answer then completes it the normal way: the flag is set). -/
theorem N6_udp_both_contained (st : DnsTcp.TSt) (sid : Nat) (data : Bytes) : ∃ out, DnsTcp.handleUdpDataBoth st sid data = .ok out :=
  DnsTcp.handleUdpDataBoth_total st sid data
theorem N6_tc_falls_back_once (st : DnsTcp.TSt) (sid s : Nat) (data : Bytes) (r : Result) (hs : DnsTcp.lookup sid st.sessions = some s)
    (hp : parse data = .ok r) (htc : r.header.tc = true) (hpend : st.pending.contains (r.header.id, s) = true)
    (hfb : st.fallback.contains (r.header.id, s) = false) :
    ∃ t st', DnsTcp.handleUdpDataBoth st sid data = .ok ([.resent r.header.id s t], st') ∧ st'.pending = st.pending ∧
      st'.fallback = (r.header.id, s) :: st.fallback :=
  DnsTcp.tc_falls_back_once st sid s data r hs hp htc hpend hfb

set_option maxRecDepth 100000 in
/-- non-vacuity: id 0x1234 pending at server 0, session 5 belongs to server 0, the 12-byte answer has TC set (flags 0x8380) -/
example : ∃ t st', DnsTcp.handleUdpDataBoth { sessions := [(5, 0)], pending := [(4660, 0)] } 5 [18, 52, 131, 128, 0, 0, 0, 0, 0, 0, 0, 0] =
    .ok ([.resent 4660 0 t], st') ∧ st'.pending = [(4660, 0)] ∧ st'.fallback = [(4660, 0)] := by
  obtain ⟨t, st', h1, h2, h3⟩ := N6_tc_falls_back_once { sessions := [(5, 0)], pending := [(4660, 0)] } 5 0
    [18, 52, 131, 128, 0, 0, 0, 0, 0, 0, 0, 0] { header := ⟨4660, true, 0, false, true, true, true, 0, 0, 0, 0, 0, 0⟩ } rfl rfl rfl rfl rfl
  exact ⟨t, st', h1, h2, h3⟩

/-- **N6s (server and port are part of the key).** A response arriving from server:port `s` leaves every pending query that
was sent to ANOTHER server:port pending, whatever its 16-bit id, and never adds one. -/
theorem N6_other_servers_untouched (p p' : List (Nat × Nat)) (s : Nat) (d : Bytes) (c : Option DnsTransport.Completion)
    (h : DnsTcp.respond p s d = .ok (c, p')) : (∀ q ∈ p, q.2 ≠ s → q ∈ p') ∧ (∀ q ∈ p', q ∈ p) :=
  ⟨DnsTcp.respond_other_servers h, DnsTcp.respond_subset h⟩

set_option maxRecDepth 100000 in
/-- non-vacuity: id 0x1234 is pending at servers 0 and 1; the answer from server 1 completes only that one -/
example : ∃ c, DnsTcp.respond [(4660, 0), (4660, 1)] 1 [18, 52, 129, 128, 0, 0, 0, 0, 0, 0, 0, 0] = .ok (c, [(4660, 0)]) := ⟨_, rfl⟩

/-- generated-facts conformance (tripwire, `rfl`): the reassembly steps of `handleTcpData` in source order (exact-size copy
`buffer.begin() + 2 … + 2 + messageLength`, `processResponse(messageData.data(), messageLength, …)`, pop of `2 + messageLength`),
the 65535 limit, and the members compared by the pending-query key and by the cache key -/
theorem N6_gen_tcp_shape :
    Gen.Dns.tcpSkeleton = ["buffer-of-session", "growth-check-close", "append", "loop-while-2", "length-be16", "zero-or-max-close", "cap-close",
      "incomplete-break", "session-lookup", "unknown-session-pop-continue", "copy-exact", "process-exact", "pop-exact"] ∧
    Gen.Dns.tcpMaxMessage = 65535 ∧ Gen.Dns.queryKeyFields = ["queryId", "server", "port"] ∧
    Gen.Dns.cacheKeyFields = ["qname", "qtype", "qclass"] := ⟨rfl, rfl, rfl, rfl⟩

/-! ## N5 — the cache honours TTL, for every history -/

/-- **N5 (served only for the same question and only while fresh).** Take ANY history of put / putNegative (explicit or
SOA-derived TTL) / get / remove / clear / setDefaultTtl / purge-thread sweeps, every operation at an arbitrary clock
reading (the clock is an input, not even assumed monotone).  If `get q` at time `now` then returns an answer, the history
contains a store operation that put exactly this answer under the same normalised key `(lower-case name, type, class)`,
its TTL — smallest record TTL for `put`, the given or SOA-derived TTL for `putNegative`, computed with the default
in force at that moment — is positive and has not elapsed (`now < t + ttl·10⁹ ns`), and no later put / remove / clear
touched that key. -/
theorem N5_served_only_fresh (ttl0 : Nat) (ops : List Op) (q : Question) (now : Nat) (v : Cached)
    (h : (((DC.new ttl0).run ops).get q now).1 = some v) :
    ∃ pre op post t ttl, ops = pre ++ op :: post ∧
      op.stores ((DC.new ttl0).run pre).defaultTtl = some (Key.fromQuestion q, v.result, v.isNegative, t, ttl) ∧
      0 < ttl ∧ now < t + ttl * nsPerSec ∧ ∀ o ∈ post, o.touches (Key.fromQuestion q) = false :=
  served_only_fresh ttl0 ops q now v h

/-- non-vacuity: a stored answer with TTL 60 s is served 59.999 s later -/
example : ∃ v, (((DC.new 300).run [.put 0 { qname := [65], qtype := 1, qclass := 1 }
      { header := ⟨7, false, 0, false, false, true, false, 0, 0, 0, 0, 0, 0⟩,
        answers := [{ name := [], type := 1, cls := 1, ttl := 60, rdlength := 0, rdata := [] }] }]).get
      { qname := [97], qtype := 1, qclass := 1 } 59999000000).1 = some v := ⟨_, rfl⟩

/-- **N5b (the TTL of `put` is the smallest record TTL).** The TTL used for a positive entry is no larger than the TTL of
any record of the stored result — raw answer / authority / additional records and every typed record. -/
theorem N5_put_ttl_is_minimum (r : Result) (dflt : Nat) (x : Nat)
    (hx : x ∈ r.answers.map (·.ttl) ++ r.authority.map (·.ttl) ++ r.additional.map (·.ttl) ++ r.typed.map (·.ttl)) :
    resultTtl r dflt ≤ x :=
  resultTtl_le r dflt x hx

/-- **N5n (negative-caching TTL).** When the response carries a typed SOA record, the TTL `putNegative(question, result,
errorMessage)` uses is at most SOA.MINIMUM and at most the TTL of the SOA record itself (RFC 2308 §5) — whatever else the
response holds.  Together with `N2_typed_soa` (a well-formed SOA always HAS its typed record, with exactly its MINIMUM) and
`N5_served_only_fresh` this is the negative-TTL clause end to end. -/
theorem N5_negative_ttl_le_soa (r : Result) (d mn ttl : Nat) (h : firstSoa r.typed = some (mn, ttl)) :
    negativeTtl r d ≤ mn ∧ negativeTtl r d ≤ ttl := by
  simp only [negativeTtl, h]
  exact ⟨Nat.min_le_left _ _, Nat.min_le_right _ _⟩

/-- the fallback, stated: ONLY when no typed SOA exists (its RDATA was malformed, so MINIMUM is unknown — a well-formed SOA
always has one by `N2_typed_soa`) the TTL is the raw TTL of the first SOA record of the authority section, else the default -/
theorem N5_negative_ttl_fallback (r : Result) (d : Nat) (h : firstSoa r.typed = none) :
    (∀ ttl, firstSoaRaw r.authority = some ttl → negativeTtl r d = ttl) ∧
    (firstSoaRaw r.authority = none → negativeTtl r d = d % 4294967296) := by
  constructor
  · intro ttl h2; simp only [negativeTtl, h, h2]
  · intro h2; simp only [negativeTtl, h, h2]

/-- non-vacuity: MINIMUM 5, SOA TTL 3600 → 5; and the fallback really can exceed any MINIMUM the broken RDATA may have meant -/
example : negativeTtl ({ header := ⟨7, true, 0, false, false, true, true, 0, 3, 0, 0, 1, 0⟩, typed := [.soa [] [] [] 1 2 3 4 5 3600] } : Result) 300 = 5 := by decide
example : negativeTtl ({ header := ⟨7, true, 0, false, false, true, true, 0, 3, 0, 0, 1, 0⟩, authority := [{ name := [], type := 6, cls := 1, ttl := 3600, rdlength := 0, rdata := [] }] } : Result) 300 = 3600 := by decide

/-- **N5c (key normalisation).** Two questions share a cache key iff type and class agree and the names agree after
ASCII lower-casing. -/
theorem N5_key_iff (q q' : Question) :
    Key.fromQuestion q = Key.fromQuestion q' ↔
      q.qname.map lowerByte = q'.qname.map lowerByte ∧ q.qtype = q'.qtype ∧ q.qclass = q'.qclass := by
  simp [Key.fromQuestion]

/-- **N5d (TTL 0 is never served)** — the F14 repair, visible in the generated facts the model is built on -/
theorem N5_lock_skeleton : Gen.Dns.cacheLockedMethods = ["set", "get", "remove", "size", "purge"] := rfl

/-- generated-facts conformance (tripwire): TTL 0 is never stored (F14 repair); the expiry comparison is strict.
`N5_lock_skeleton` above: every ExpiringCache method and the purge sweep use `_cache` only inside the scope of a guard over
`_mutex` — the justification for modelling cache operations as atomic steps of a history. -/
theorem N5_zero_ttl_guard : Gen.Dns.zeroTtlNotCachedPut = true ∧ Gen.Dns.zeroTtlNotCachedNeg = true ∧ Gen.Dns.getStrict = true :=
  ⟨rfl, rfl, rfl⟩

end Iora.C19
