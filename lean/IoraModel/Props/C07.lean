import IoraModel.Lemmas.TlsPlan
import IoraModel.Lemmas.TlsLife
import IoraModel.Lemmas.TlsMatrixCli
import IoraModel.Lemmas.TlsMatrixSrv
import IoraModel.Lemmas.TlsMatrixHttp
/-!
# C07 — TLS sessions authenticate the peer as configured and never downgrade  (partial: OpenSSL assumed)

Property theorems only.  The model is `Model/TlsPlan.lean`; it interprets the call inventory `Gen/TlsCalls.lean`
that the translator regenerates from `tcp_engine.hpp`, `http_client.hpp`, `http_server.hpp` on every run.
OpenSSL (X.509 path validation, signatures, record layer) is the parameter `H : Handshake` with the documented
semantics as hypotheses `H.Assumed` — never a Lean axiom; `assumptions_consistent` exhibits an instance.
-/
namespace Iora.C07
open Iora.Tls Iora.Gen.TlsCalls

/-! ## T1 — a session requested with TLS is never a plain session -/

/-- **T1 (connect).** Whatever the configuration, the files and the target: `connect(host, port, req)` with
`req ≠ TlsMode::None` yields a TLS session or a refusal, never a clear-text session. -/
theorem T1_connect_never_plain (tc : TCfg) (tf : TFiles) (req : Mode) (t : Target) (h : req ≠ .none) :
    connectPlan tc tf req t ≠ .plain := by
  unfold connectPlan
  cases start tc tf with
  | refused => simp
  | up srv cli =>
    simp only [connectOn, connectSite, G.eval, Env.atom]
    cases req <;> cases tc.client.enabled <;> cases cli <;> simp at h ⊢

/-- **T1 (listen).** A listener requested with TLS never hands out clear-text sessions. -/
theorem T1_listen_never_plain (tc : TCfg) (tf : TFiles) (req : Mode) (h : req ≠ .none) :
    listenPlan tc tf req ≠ .plain := by
  unfold listenPlan
  cases start tc tf with
  | refused => simp
  | up srv cli =>
    simp only [listenOn, listenSite, G.eval, Env.atom]
    cases req <;> cases tc.server.enabled <;> cases srv <;> simp at h ⊢

/-- **T1 (HttpClient).** An `https://` request never runs over a clear-text session. -/
theorem T1_https_never_plain (h : HttpTls) (tf : TFiles) (u : UrlHost) (r : Bool) :
    httpClientPlan h tf true u r ≠ .plain := by
  unfold httpClientPlan
  exact T1_connect_never_plain _ _ _ _ (by simp [httpClientHttpsReq])

/-- **T1 (HttpServer).** After `enableTls` the listener never serves clear text. -/
theorem T1_httpserver_never_plain (h : HttpSrvTls) (tf : TFiles) : httpServerPlan (some h) tf ≠ .plain := by
  simp only [httpServerPlan]
  split
  · simp
  · split
    · simp
    · exact T1_listen_never_plain _ _ _ (by simp [httpServerTlsReq])

/-- non-vacuity: the F18 configuration (TLS requested, client TLS not enabled) is refused, and a well-configured one is TLS -/
example : connectPlan {} {} .client .ipv4 = .refuse .connect := by decide
example : listenPlan {} {} .server = .refuse .listen := by decide
example : ∃ c h s, connectPlan { client := { enabled := true, defaultMode := .client } } {} .client .ipv4 = .tls c h s := ⟨_, _, _, rfl⟩

/-! ## T1 (wrong role) — a TLS mode that does not fit the operation is REFUSED, whichever contexts the engine holds -/

/-- **T1 (wrong role, connect).** `connect(host, port, TlsMode::Server)`: for every configuration — in particular an engine that
HOLDS a server context, a client context, both or none — the only outcome is a refusal (of the start or of the connect): never
a plain session, and never a TLS session either (the server context must not be used to connect). -/
theorem T1_wrong_role_connect_refused (tc : TCfg) (tf : TFiles) (t : Target) :
    connectPlan tc tf .server t = .refuse .start ∨ connectPlan tc tf .server t = .refuse .connect := by
  unfold connectPlan
  cases start tc tf with
  | refused => simp
  | up srv cli =>
    simp only [connectOn, connectSite, G.eval, Env.atom]
    cases tc.client.enabled <;> cases cli <;> simp

/-- **T1 (wrong role, listen).** `addListener(ip, port, TlsMode::Client)`: refused whichever contexts exist. -/
theorem T1_wrong_role_listen_refused (tc : TCfg) (tf : TFiles) :
    listenPlan tc tf .client = .refuse .start ∨ listenPlan tc tf .client = .refuse .listen := by
  unfold listenPlan
  cases start tc tf with
  | refused => simp
  | up srv cli =>
    simp only [listenOn, listenSite, G.eval, Env.atom]
    cases tc.server.enabled <;> cases srv <;> simp

/-- a dual-role engine: both contexts exist (the combination the refusal must not be fooled by) -/
def dualRole : TCfg :=
  { server := { enabled := true, defaultMode := .server, certFileSet := true, keyFileSet := true },
    client := { enabled := true, defaultMode := .client } }
example : ∃ s c, start dualRole {} = .up (some s) (some c) := ⟨_, _, rfl⟩
example : connectPlan dualRole {} .server .ipv4 = .refuse .connect ∧ listenPlan dualRole {} .client = .refuse .listen := by
  constructor <;> decide
example : ∃ c h s, connectPlan dualRole {} .client .ipv4 = .tls c h s := ⟨_, _, _, rfl⟩
example : ∃ c h s, listenPlan dualRole {} .server = .tls c h s := ⟨_, _, _, rfl⟩

/-- **T1 (UDP).** `UdpEngine::connect` / `addListener` with a TLS mode are refused: there is no DTLS, and a datagram session in
clear is not an acceptable substitute. -/
theorem T1_udp_never_plain (req : Mode) (h : req ≠ .none) :
    udpConnectPlan req = .refuse .connect ∧ udpListenPlan req = .refuse .listen := by
  cases req <;> simp [udpConnectPlan, udpListenPlan, udpConnectRefusesTls, udpListenRefusesTls] at h ⊢
example : udpConnectPlan .none = .plain := by decide

/-- **T1 (URL spellings).** Whatever the spelling of the scheme: a URL whose scheme is `https` up to letter case is either
rejected by `parseUrl` (nothing is sent) or requested with TLS — never sent over a plain session; and when it is accepted
without a port it goes to the https default port. -/
theorem T1_url_scheme_never_plain (h : HttpTls) (tf : TFiles) (scheme : String) (u : UrlHost) (r : Bool)
    (hs : scheme.toLower = "https") :
    httpUrlPlan h tf scheme u r ≠ some .plain ∧ (urlAccepted scheme = true → urlDefaultPort scheme = httpsDefaultPort) := by
  have hacc : urlAccepted scheme = true → scheme = "https" := by
    intro ha
    simp only [urlAccepted, urlRegexIcase, Bool.or_eq_true, beq_iff_eq, Bool.false_eq_true, if_false] at ha
    rcases ha with ha | ha
    · subst ha; exact absurd hs (by decide +kernel)
    · exact ha
  refine ⟨?_, fun ha => ?_⟩
  · unfold httpUrlPlan
    split
    · rename_i ha
      have := hacc ha
      subst this
      simpa [urlIsHttps, urlSchemeNormalised, isHttpsCaseInsensitive, isHttpsLiteral] using T1_https_never_plain h tf u r
    · simp
  · have := hacc ha
    subst this
    decide

example : httpUrlPlan {} {} "HTTPS" .ipv4 true = none ∧ httpUrlPlan {} {} "hTTps" .ipv4 true = none := by decide
example : ∃ c, httpUrlPlan {} {} "https" .ipv4 true = some (.tls c none none) := ⟨_, rfl⟩

/-- **T9 (connection cache).** For EVERY sequence of requests to one host:port on one `HttpClient` (any mix of http and
https, connections kept or dropped after each exchange, any initial cache content): every https request is carried by a
session that was opened with `TlsMode::Client` — a cached plain connection is never reused for it. -/
theorem T9_cache_never_carries_https_in_clear (cached : Option Mode) (reqs : List CacheReq) :
    ∀ x ∈ cacheRun cached reqs, x.1 = true → x.2.1 = httpClientHttpsReq := by
  induction reqs generalizing cached with
  | nil => simp [cacheRun]
  | cons r rs ih =>
    intro x hx hhttps
    simp only [cacheRun, List.mem_cons] at hx
    rcases hx with rfl | hx
    · simp only at hhttps
      simp only [cacheStep, hhttps, cacheReuseChecksTlsMode]
      cases cached with
      | none => simp
      | some m =>
        by_cases hm : m = httpClientHttpsReq <;> simp [hm]
    · exact ih _ x hx hhttps

/-- non-vacuity: http then https to the same host:port opens a second, TLS, connection -/
example : cacheRun none [⟨false, false⟩, ⟨true, false⟩] = [(false, .none, true), (true, .client, true)] := by decide

/-! ## T2 — the hard TLS 1.2 floor -/

/-- **T2.** For EVERY configured minimum `n` (any integer): the value handed to `SSL_CTX_set_min_proto_version` is at
least TLS 1.2 and at least `n` — the minimum can be raised, never lowered. -/
theorem T2_floor (n : Int) : tls12 ≤ floor n ∧ n ≤ floor n := floor_ge n

/-- **T2 (effective minimum).** For EVERY configured `minVersion` (any integer — unset, below 1.2, a TLS version, a number the
library rejects such as 0x0305, a DTLS number such as 0xFEFD): after `applyTls12Floor` the context HAS a minimum, it lies
between TLS 1.2 and TLS 1.3, and it is at least `minVersion` whenever that is a version the library knows. -/
theorem T2_effective_min (n : Int) :
    ∃ m, applyFloorMin none n = some m ∧ tls12 ≤ m ∧ m ≤ 772 ∧ (n ≤ 772 → n ≤ m) := applyFloorMin_ok n

/-- **T2 (contexts).** Every TLS session, client or server side, runs on a context whose effective minimum is that value. -/
theorem T2_connect_min (tc : TCfg) (tf : TFiles) (req : Mode) (t : Target) (c : Ctx) (h s : Option String)
    (hp : connectPlan tc tf req t = .tls c h s) :
    c.minProto = applyFloorMin none tc.client.minVersion ∧ tls12 ≤ c.lowest ∧ (tc.client.minVersion ≤ 772 → tc.client.minVersion ≤ c.lowest) := by
  have hm := (client_built _ _ _ (connectPlan_tls hp).1).2.2.1
  obtain ⟨m, h1, h2, _, h4⟩ := applyFloorMin_ok tc.client.minVersion
  refine ⟨hm, ?_, ?_⟩ <;> simp [Ctx.lowest, hm, h1, h2] <;> exact h4

theorem T2_listen_min (tc : TCfg) (tf : TFiles) (req : Mode) (c : Ctx) (h s : Option String)
    (hp : listenPlan tc tf req = .tls c h s) :
    c.minProto = applyFloorMin none tc.server.minVersion ∧ tls12 ≤ c.lowest ∧ (tc.server.minVersion ≤ 772 → tc.server.minVersion ≤ c.lowest) := by
  have hm := (server_built _ _ _ (listenPlan_tls hp).1).2.2.1
  obtain ⟨m, h1, h2, _, h4⟩ := applyFloorMin_ok tc.server.minVersion
  refine ⟨hm, ?_, ?_⟩ <;> simp [Ctx.lowest, hm, h1, h2] <;> exact h4

example : applyFloorMin none 0 = some 771 ∧ applyFloorMin none 772 = some 772 ∧ applyFloorMin none 773 = some 771 ∧
    applyFloorMin none 65277 = some 771 := by decide
example : floor 0 = 771 ∧ floor 769 = 771 ∧ floor 772 = 772 ∧ floor (-5) = 771 := by decide

/-! ## T3 — verification is switched on when configured; fail-fast rules -/

/-- **T3a.** `verifyPeer` ⇒ `SSL_VERIFY_PEER` is set on the context of every client session, and its trust store is the
configured CA location or, without one, the default paths — never "no store". -/
theorem T3_client_verify (tc : TCfg) (tf : TFiles) (req : Mode) (t : Target) (c : Ctx) (h s : Option String)
    (hp : connectPlan tc tf req t = .tls c h s) (hv : tc.client.verifyPeer = true) :
    c.verify.contains .peer = true ∧
    c.trust = (if tc.client.caFileSet || tc.client.caPathSet then { file := tc.client.caFileSet, path := tc.client.caPathSet, dflt := false } else { dflt := true }) := by
  obtain ⟨_, h2, _, h4⟩ := client_built _ _ _ (connectPlan_tls hp).1
  simp [h2, h4, hv]

/-- **T3b.** A session that is TLS was configured for it: the matching block is enabled with the matching default mode. -/
theorem T3_tls_only_if_enabled (tc : TCfg) (tf : TFiles) (req : Mode) (t : Target) (c : Ctx) (h s : Option String)
    (hp : connectPlan tc tf req t = .tls c h s) : tc.client.enabled = true ∧ tc.client.defaultMode = .client ∧ c.role = .client :=
  let hb := (connectPlan_tls hp).1
  ⟨(client_built_guard _ _ _ hb).1, (client_built_guard _ _ _ hb).2, (client_built _ _ _ hb).1⟩

/-- **T3c (server fail-fast).** A server block that requires client certificates without any CA location, whose CA does
not load, or whose own certificate/key is unreadable, does not load, does not match or is expired makes `start()` fail:
no listener, no session. -/
theorem T3_server_failfast (tc : TCfg) (tf : TFiles) (req : Mode)
    (he : tc.server.enabled = true) (hm : tc.server.defaultMode = .server)
    (hbad : (tc.server.verifyPeer = true ∧ tc.server.caFileSet = false ∧ tc.server.caPathSet = false) ∨
            (tc.server.verifyPeer = true ∧ tf.server.caLoads = false) ∨
            (tc.server.certFileSet = true ∧ tc.server.keyFileSet = true ∧
              (tf.server.certReadable = false ∨ tf.server.keyReadable = false ∨ tf.server.certLoads = false ∨
               tf.server.keyLoads = false ∨ tf.server.keyMatches = false ∨ tf.server.certNotExpired = false))) :
    listenPlan tc tf req = .refuse .start := by
  unfold listenPlan start
  rw [server_refuses _ _ he hm hbad]

example : listenPlan { server := { enabled := true, defaultMode := .server, verifyPeer := true } } {} .server = .refuse .start := by decide
example : listenPlan { server := { enabled := true, defaultMode := .server, certFileSet := true, keyFileSet := true } }
    { server := { certNotExpired := false } } .server = .refuse .start := by decide

/-! ## T4 — host-name check when connecting by name -/

/-- **T4 (engine).** A client session made to a host NAME carries SNI for that name and, with verification on, has the
certificate bound to that name (`SSL_set1_host`) — for every name, configuration and file state. -/
theorem T4_engine_hostcheck (tc : TCfg) (tf : TFiles) (req : Mode) (n : String) (c : Ctx) (h s : Option String)
    (hp : connectPlan tc tf req (.name n) = .tls c h s) :
    s = some n ∧ (tc.client.verifyPeer = true → h = some n) := by
  obtain ⟨_, hh, hs⟩ := connectPlan_tls hp
  refine ⟨?_, fun hv => ?_⟩
  · simp [hs, connectSite, G.eval, Env.atom, Target.name?]
  · simp [hh, connectSite, G.eval, Env.atom, Target.name?, hv]

/-- the full statement for the HTTP client: an https request to a host name with verification on checks that name -/
def T4_http_statement : Prop :=
  ∀ (h : HttpTls) (tf : TFiles) (n : String) (resolves : Bool) (c : Ctx) (host sni : Option String),
    h.verifyPeer = true → httpClientPlan h tf true (.name n) resolves = .tls c host sni → host = some n

/-- **T4 (HttpClient) — refuted (finding F20-http).** `acquireConnection` resolves the name first and connects to the
address, so the engine sees an IP literal and binds no name: `https://localhost/` with `verifyPeer` is not name-checked. -/
theorem T4_http_refuted : ¬ T4_http_statement := by
  intro hst
  have := hst {} {} "localhost" true _ none none rfl rfl
  cases this

/-- **T4 (HttpClient) — partial.** The name IS checked when it reaches the engine unresolved (resolution failed and the
literal name is passed on), and SNI/host binding never name a different host. -/
theorem T4_http_partial (h : HttpTls) (tf : TFiles) (n : String) (c : Ctx) (host sni : Option String)
    (hv : h.verifyPeer = true) (hp : httpClientPlan h tf true (.name n) false = .tls c host sni) : host = some n := by
  unfold httpClientPlan at hp
  have := (T4_engine_hostcheck _ _ _ n c host sni (by simpa [httpTarget, httpClientHost] using hp)).2
  apply this
  simp [httpClientCfg, mapCfg, httpClientMap, Src.bool, hv]

/-! ## T5 — a server that requires client certificates rejects clients without one -/

/-- **T5 (flags).** `serverTls.verifyPeer` ⇒ `SSL_VERIFY_PEER | SSL_VERIFY_FAIL_IF_NO_PEER_CERT`, and the store holds the configured
CA location(s) AND NOTHING ELSE: the trust store is a set that accumulates, and the system roots (`default`) are not in it. -/
theorem T5_server_flags (tc : TCfg) (tf : TFiles) (req : Mode) (c : Ctx) (h s : Option String)
    (hp : listenPlan tc tf req = .tls c h s) (hv : tc.server.verifyPeer = true) :
    c.verify.contains .peer = true ∧ c.verify.contains .failIfNoPeerCert = true ∧
    c.trust = { file := tc.server.caFileSet, path := tc.server.caPathSet, dflt := false } ∧ c.trust.located = true := by
  have hb := (listenPlan_tls hp).1
  obtain ⟨_, h2, _, h4, _⟩ := server_built _ _ _ hb
  have hca : (tc.server.caFileSet || tc.server.caPathSet) = true := by
    cases hf : tc.server.caFileSet <;> cases hpth : tc.server.caPathSet <;> simp
    have := server_refuses tc.server tf.server (server_built_guard _ _ _ hb).1 (server_built_guard _ _ _ hb).2 (Or.inl ⟨hv, hf, hpth⟩)
    rw [hb] at this; cases this
  simp [h2, h4, hv, hca, Trust.located]

/-- **T5 (store).** Whatever the system store holds, the verification store of a `verifyPeer` server is exactly what the operator
configured: a client certificate issued by a publicly trusted (system-store) CA is NOT admitted on that ground. -/
theorem T5_server_store_is_configured (tc : TCfg) (tf : TFiles) (req : Mode) (c : Ctx) (h s : Option String)
    (hp : listenPlan tc tf req = .tls c h s) (hv : tc.server.verifyPeer = true) (configured sys : Anchors) :
    c.trust.dflt = false ∧ storeOf c.trust configured sys = configured := by
  obtain ⟨_, _, ht, hl⟩ := T5_server_flags tc tf req c h s hp hv
  have hd : c.trust.dflt = false := by rw [ht]
  refine ⟨hd, ?_⟩
  cases configured <;> simp [storeOf, hl, hd, Anchors.union]

/-- the accumulation is real: had `initTls` ALSO called `SSL_CTX_set_default_verify_paths`, the system store would be trusted too -/
example : storeOf { file := true, dflt := true } .wrong .right = .both ∧
    chains { issuer := .rightCA, inTime := true, names := [], possession := true } .both = true ∧
    chains { issuer := .rightCA, inTime := true, names := [], possession := true } (storeOf { file := true } .wrong .right) = false := by
  refine ⟨by decide, by decide, by decide⟩

/-- **T5 (end to end).** Under the assumed OpenSSL semantics, a `verifyPeer` server admits NO client that presents no
certificate, and admits a client with a certificate only if it chains to the configured store, is inside its validity
period and is owned by the client — whatever the rest of the configuration, INCLUDING a cipher string that enables
anonymous suites (a certificate request cannot be answered in an anonymous handshake, so it fails). -/
theorem T5_server_admits_only_valid (H : Handshake) (hA : H.Assumed) (tc : TCfg) (tf : TFiles) (req : Mode) (c : Ctx)
    (h s : Option String) (hp : listenPlan tc tf req = .tls c h s) (hv : tc.server.verifyPeer = true)
    (a : Anchors) (p : CliPeer) (v : Int) (hr : H.server c a p = some v) :
    p.kind = .tls ∧ ∃ cc, p.cert = some cc ∧ chains cc a = true ∧ cc.inTime = true ∧ cc.possession = true := by
  obtain ⟨hpe, hfail, _⟩ := T5_server_flags tc tf req c h s hp hv
  cases hk : p.kind with
  | plaintext => rw [hA.server_nontls c a p (by simp [hk]) (by simp [hk])] at hr; cases hr
  | garbage => rw [hA.server_nontls c a p (by simp [hk]) (by simp [hk])] at hr; cases hr
  | anon =>
    rw [hA.server_anon c a p hk] at hr
    unfold anonServer at hr
    rw [hpe, hfail] at hr
    simp at hr
  | tls =>
    refine ⟨rfl, ?_⟩
    cases hcc : p.cert with
    | none =>
      have := hA.server_nocert c a p v hk hr hpe hcc
      rw [hfail] at this; cases this
    | some cc => exact ⟨cc, rfl, hA.server_verify c a p v cc hk hr hpe hcc⟩

/-- **T3 (client authentication, general form).** For EVERY configuration whose cipher string does not enable anonymous key
exchange, every file state, target, trust store content and peer: a client session with `verifyPeer` that completes the
handshake faces a TLS peer that owns a certificate which chains to the context's store, is inside its validity period and —
when the target is a host name — is issued for that name. -/
theorem T3_client_authenticated (H : Handshake) (hA : H.Assumed) (tc : TCfg) (tf : TFiles) (req : Mode) (t : Target) (c : Ctx)
    (h s : Option String) (hp : connectPlan tc tf req t = .tls c h s) (hv : tc.client.verifyPeer = true)
    (hc : tc.client.ciphers ≠ .enablesAnon) (a : Anchors) (p : SrvPeer) (v : Int) (hr : H.client c h a p = some v) :
    p.kind = .tls ∧ p.cert.possession = true ∧ chains p.cert a = true ∧ p.cert.inTime = true ∧
    (∀ n, t = .name n → p.cert.names.contains n = true) := by
  have hb := (connectPlan_tls hp).1
  have hanon : c.anon = false := by
    rw [(client_built _ _ _ hb).2.2.2.2]; cases hcc : tc.client.ciphers <;> simp_all
  have hpe := (T3_client_verify tc tf req t c h s hp hv).1
  cases hk : p.kind with
  | plaintext => rw [hA.client_nontls c h a p (by simp [hk]) (by simp [hk])] at hr; cases hr
  | garbage => rw [hA.client_nontls c h a p (by simp [hk]) (by simp [hk])] at hr; cases hr
  | anon =>
    rw [hA.client_anon c h a p hk] at hr
    unfold anonClient at hr
    rw [hanon] at hr
    simp at hr
  | tls =>
    have hch := hA.client_verify c h a p v hk hr hpe
    refine ⟨rfl, hA.client_possession c h a p v hk hr, hch.1, hch.2, ?_⟩
    intro n hn
    subst hn
    have hh := (T4_engine_hostcheck tc tf req n c h s hp).2 hv
    subst hh
    exact hA.client_name c n a p v hk hr hpe

/-- the hypothesis on the cipher string is NEEDED (documented behaviour, reproduced by the `anon` cells of the harness): with
`ciphers` enabling anonymous suites (e.g. `ALL:@SECLEVEL=0`) a `verifyPeer` client completes a handshake with a peer that
shows no certificate at all -/
example :
    let tc : TCfg := { client := { enabled := true, defaultMode := .client, verifyPeer := true, caFileSet := true, ciphers := .enablesAnon } }
    let peer : SrvPeer := { kind := .anon, cert := CertKind.selfSigned.props, ceil := 771 }
    clientOutcome Ossl.ref (connectPlan tc {} .client (.name theHost)) .right .empty peer = some 771 := by decide

/-! ## the HTTP front ends hand their TLS settings to the engine -/

/-- **HttpClient.** `TlsConfig.verifyPeer` ⇒ `SSL_VERIFY_PEER`, and a configured `caFile` IS the verification store
(without one: the default paths). -/
theorem T3_http_client_verify (h : HttpTls) (tf : TFiles) (u : UrlHost) (r : Bool) (c : Ctx) (host sni : Option String)
    (hp : httpClientPlan h tf true u r = .tls c host sni) (hv : h.verifyPeer = true) :
    c.verify.contains .peer = true ∧ c.trust = (if h.caFileSet then { file := true } else { dflt := true }) := by
  unfold httpClientPlan at hp
  have := T3_client_verify _ _ _ _ c host sni hp (by simp [httpClientCfg, mapCfg, httpClientMap, Src.bool, hv])
  refine ⟨this.1, ?_⟩
  rw [this.2]
  cases hca : h.caFileSet <;> simp [httpClientCfg, mapCfg, httpClientMap, Src.file, hca]

/-- **HttpServer.** `requireClientCert` ⇒ `SSL_VERIFY_PEER | SSL_VERIFY_FAIL_IF_NO_PEER_CERT` on the listener's context. -/
theorem T5_http_server_flags (h : HttpSrvTls) (tf : TFiles) (c : Ctx) (host sni : Option String)
    (hp : httpServerPlan (some h) tf = .tls c host sni) (hr : h.requireClientCert = true) :
    c.verify.contains .peer = true ∧ c.verify.contains .failIfNoPeerCert = true := by
  simp only [httpServerPlan] at hp
  split at hp
  · cases hp
  · split at hp
    · cases hp
    · have := T5_server_flags _ _ _ c host sni hp (by simp [mapCfg, httpServerMap, Src.bool, hr])
      exact ⟨this.1, this.2.1⟩

/-- **HttpServer (own certificate).** Whenever `enableTls(h)` leads to a TLS listener, its context has LOADED the certificate and the
key that `h` names and is a server context: `start()` really hands `certFile`/`keyFile` on (consumes `httpServerMap.certFile/keyFile`
and both `enableTls` preconditions — with either missing, a listener without certificate could be configured). -/
theorem T5_http_server_presents_cert (h : HttpSrvTls) (tf : TFiles) (c : Ctx) (host sni : Option String)
    (hp : httpServerPlan (some h) tf = .tls c host sni) :
    c.certLoaded = true ∧ c.keyLoaded = true ∧ c.role = .server ∧ h.certFileSet = true ∧ h.keyFileSet = true := by
  simp only [httpServerPlan, enableTlsRequiresCertAndKey, Bool.true_and] at hp
  split at hp
  · cases hp
  · rename_i hck
    split at hp
    · cases hp
    · have hb := (listenPlan_tls hp).1
      obtain ⟨hrole, _, _, _, hcl, hkl, _⟩ := server_built _ _ _ hb
      have hck' : h.certFileSet = true ∧ h.keyFileSet = true := by
        cases hc : h.certFileSet <;> cases hk : h.keyFileSet <;> simp [hc, hk] at hck ⊢
      refine ⟨?_, ?_, hrole, hck'.1, hck'.2⟩
      · rw [hcl]; simp [mapCfg, httpServerMap, Src.file, hck'.1, hck'.2]
      · rw [hkl]; simp [mapCfg, httpServerMap, Src.file, hck'.1, hck'.2]

example : ∃ c host sni, httpServerPlan (some {}) {} = .tls c host sni := ⟨_, _, _, rfl⟩
example : httpServerPlan (some { keyFileSet := false }) {} = .refuse .enableTls := by decide

/-! ## T6 — the end-to-end decision over the whole matrix -/

/-- **T6 (client).** For EVERY cell of verify × trust{right, wrong, none} × serverCert{valid, self-signed, expired,
wrong-name, key-mismatch} × peer ceiling{1.0…1.3} × peer{tls, plaintext, garbage} × target{name, ip} × configured
minimum{unset, 1.0…1.3} and every `H` with the assumed semantics: the session is announced as connected exactly in
the admissible cells, at a version ≥ TLS 1.2, and is never plain. -/
theorem T6_client_matrix (H : Handshake) (hA : H.Assumed) (c : CliCell) :
    ((c.outcome H).isSome = Spec.cliAdmissible c) ∧ (∀ v, c.outcome H = some v → Spec.tls12 ≤ v) ∧ c.plan ≠ .plain := by
  have hk := cli_matrix c
  rw [outcome_cli_eq hA]
  simp only [cliCellOk, cliCellOkP, Bool.and_eq_true, beq_iff_eq, bne_iff_ne] at hk
  refine ⟨hk.1.1, ?_, hk.2⟩
  intro v hv
  have := hk.1.2
  simp only [CliCell.outcome] at hv
  rw [hv] at this
  simpa using this

/-- **T6 (server).** Same for iora as the server: verify × trust × own certificate × clientCert{none, valid, untrusted,
expired} × peer ceiling × peer kind × configured minimum. -/
theorem T6_server_matrix (H : Handshake) (hA : H.Assumed) (c : SrvCell) :
    ((c.outcome H).isSome = Spec.srvAdmissible c) ∧ (∀ v, c.outcome H = some v → Spec.tls12 ≤ v) ∧ c.plan ≠ .plain := by
  have hk := srv_matrix c
  rw [outcome_srv_eq hA]
  simp only [srvCellOk, srvCellOkP, Bool.and_eq_true, beq_iff_eq, bne_iff_ne] at hk
  refine ⟨hk.1.1, ?_, hk.2⟩
  intro v hv
  have := hk.1.2
  simp only [SrvCell.outcome] at hv
  rw [hv] at this
  simpa using this

/-- the full statement for the HTTP client: in every cell of `TlsConfig{verifyPeer, caFile}` × system store × server
certificate × ceiling × peer × URL{name, ip}, a response is returned exactly in the admissible cells -/
def T6_http_statement : Prop :=
  ∀ (H : Handshake), H.Assumed → ∀ c : HttpCell, (c.outcome H).isSome = Spec.httpAdmissible c

/-- **T6 (HttpClient) — refuted (finding F20-http).** Witness: `verifyPeer`, `caFile` = the issuing CA, certificate
issued for `other.example`, `https://localhost/…` — a response is returned although the cell is not admissible. -/
theorem T6_http_refuted : ¬ T6_http_statement := by
  intro h
  have := h Ossl.ref ref_assumed ⟨true, .right, .none, .wrongName, .v13, .tls, true⟩
  revert this
  decide

/-- **T6 (HttpClient) — partial.** Outside the carve-out `nameUnchecked` (URL with a host name, verification on,
certificate for another name) the decision is exact in EVERY cell; and in every cell, carve-out or not, the version is
≥ TLS 1.2 and the session is never plain. -/
theorem T6_http_partial (H : Handshake) (hA : H.Assumed) (c : HttpCell) :
    (c.nameUnchecked = false → (c.outcome H).isSome = Spec.httpAdmissible c) ∧
    (∀ v, c.outcome H = some v → Spec.tls12 ≤ v) ∧ c.plan ≠ .plain := by
  have hk := http_matrix c
  rw [outcome_http_eq hA]
  simp only [httpCellOk, httpCellOkP, Bool.and_eq_true, Bool.or_eq_true, beq_iff_eq, bne_iff_ne] at hk
  refine ⟨fun hn => ?_, ?_, hk.2⟩
  · rcases hk.1.1 with h | h
    · rw [hn] at h; cases h
    · exact h
  · intro v hv
    have := hk.1.2
    simp only [HttpCell.outcome] at hv
    rw [hv] at this
    simpa using this

/-- **T6 (the property's "only if", spelled out).** A client session announced with verification on: the peer owns a
certificate that chains to the configured anchor, is inside its validity period and — when connecting by name — is
issued for that name; and the version is ≥ TLS 1.2. -/
theorem T6_client_only_if (H : Handshake) (hA : H.Assumed) (c : CliCell) (v : Int) (hv : c.outcome H = some v) :
    Spec.tls12 ≤ v ∧ c.peer = .tls ∧ c.scert.props.possession = true ∧
    (c.verify = true → chains c.scert.props c.trust.anchors = true ∧ c.scert.props.inTime = true ∧
      (c.byName = true → c.scert.props.names.contains theHost = true)) := by
  obtain ⟨h1, h2, _⟩ := T6_client_matrix H hA c
  rw [hv] at h1
  have ha : Spec.cliAdmissible c = true := by simpa using h1.symm
  simp only [Spec.cliAdmissible, Bool.and_eq_true, beq_iff_eq, Bool.or_eq_true, Bool.not_eq_true'] at ha
  refine ⟨h2 v hv, ha.1.1.1, ha.1.1.2, fun hver => ?_⟩
  rcases ha.2 with h | h
  · rw [hver] at h; cases h
  · refine ⟨h.1.1, h.1.2, fun hn => ?_⟩
    rcases h.2 with h' | h'
    · rw [hn] at h'; cases h'
    · exact h'

/-! ## T7 / T8 — nothing is announced or sent before the handshake is done; nothing ever goes out raw -/

/-- **T7.** For EVERY sequence of I/O-thread events (immediate-connect check, epoll events with any `SSL_do_handshake` answer,
application sends), a TLS session (a) never hands application bytes to `::send` raw — neither from `doSend` nor from
`writePending` — and (b) as long as no `SSL_do_handshake` returned 1 it announces nothing and writes nothing at all: sends
are queued and dropped with the session if the handshake fails.  The machine consumes every guard fact of `Gen`, so the
theorem fails when any of them disappears from the source. -/
theorem T7_tls_session_never_clear (s : Sess) (evs : List SEv) (h : s.IsTls) :
    (∀ bs, SOut.rawWire bs ∉ sessRun s evs) ∧
    (s.tlsState = .handshake → s.announced = false → (∀ e ∈ evs, e.isHsOk = false) → ∀ o ∈ sessRun s evs, o = .onClose) :=
  ⟨sessRun_tls_no_raw s evs h, fun hs ha hev => sessRun_pending s evs ⟨h.1, h.2.1, Or.inl hs, ha⟩ hev⟩

/-- **T8.** Plan and session machine together: whatever the configuration, for a request with TLS (`req ≠ None`) the
session that `connect` creates — if any — never emits a raw application byte, for every event sequence. -/
theorem T8_requested_tls_never_clear (tc : TCfg) (tf : TFiles) (req : Mode) (t : Target) (hreq : req ≠ .none)
    (s : Sess) (hs : (connectPlan tc tf req t).session true req = some s) (evs : List SEv) :
    ∀ bs, SOut.rawWire bs ∉ sessRun s evs := by
  cases hp : connectPlan tc tf req t with
  | plain => exact absurd hp (T1_connect_never_plain tc tf req t hreq)
  | refuse w => simp [hp, Plan.session] at hs
  | tls c h sn =>
    simp only [hp, Plan.session, Option.some.injEq] at hs
    subst hs
    have hrole := (T3_tls_only_if_enabled tc tf req t c h sn hp).2.2
    exact sessRun_tls_no_raw _ evs ⟨hreq, by simp [hrole], by simp⟩

/-- same for sessions accepted on a listener requested with TLS -/
theorem T8_listener_tls_never_clear (tc : TCfg) (tf : TFiles) (req : Mode) (hreq : req ≠ .none)
    (s : Sess) (hs : (listenPlan tc tf req).session false req = some s) (evs : List SEv) :
    ∀ bs, SOut.rawWire bs ∉ sessRun s evs := by
  cases hp : listenPlan tc tf req with
  | plain => exact absurd hp (T1_listen_never_plain tc tf req hreq)
  | refuse w => simp [hp, Plan.session] at hs
  | tls c h sn =>
    simp only [hp, Plan.session, Option.some.injEq] at hs
    subst hs
    have hrole := (server_built _ _ _ (listenPlan_tls hp).1).1
    exact sessRun_tls_no_raw _ evs ⟨hreq, by simp [hrole], by simp⟩

/-! ## T7 (receive side) — nothing reaches `onData` except through `SSL_read`, and nothing before the handshake is done -/

/-- **T7 (receive).** For EVERY sequence of events on a TLS session — sends, EPOLLOUT, and EPOLLIN with any bytes pending on the
wire and any answer of `SSL_do_handshake`: (a) no byte taken off the socket by the raw `::recv` is ever handed to `onData`, and
no byte goes out raw; (b) as long as `SSL_do_handshake` has not returned 1, NOTHING is delivered to `onData` (all the application
can see is the close).  `readAvail` itself would read raw for a session in its handshake: the guarantee is the callers', and the
machine consumes `readAvailSslWhenOpenTls`, `readAvailAfterHandshakeGate`, `driveHsReadsOnlyAfterOpen` and the send-side gates. -/
theorem T7_recv_only_through_ssl (s : Sess) (evs : List REv) (h : s.IsTls) :
    (∀ bs, ROut.deliverRaw bs ∉ rRun s evs ∧ ROut.out (.rawWire bs) ∉ rRun s evs) ∧
    (s.tlsState = .handshake → s.announced = false → (∀ e ∈ evs, e.isHsOk = false) → ∀ o ∈ rRun s evs, o = .out .onClose) :=
  ⟨rRun_tls s evs h, fun hs ha hev => rRun_pending s evs ⟨h.1, h.2.1, Or.inl hs, ha⟩ hev⟩

/-- **T8 (receive, connect).** Plan and receive machine together: for a request with TLS the session `connect` creates — if any —
never delivers a raw byte and delivers nothing before its handshake succeeded, for every event sequence. -/
theorem T8_requested_tls_recv (tc : TCfg) (tf : TFiles) (req : Mode) (t : Target) (hreq : req ≠ .none)
    (s : Sess) (hs : (connectPlan tc tf req t).session true req = some s) (evs : List REv) :
    (∀ bs, ROut.deliverRaw bs ∉ rRun s evs) ∧ ((∀ e ∈ evs, e.isHsOk = false) → ∀ o ∈ rRun s evs, o = .out .onClose) := by
  cases hp : connectPlan tc tf req t with
  | plain => exact absurd hp (T1_connect_never_plain tc tf req t hreq)
  | refuse w => simp [hp, Plan.session] at hs
  | tls c h sn =>
    simp only [hp, Plan.session, Option.some.injEq] at hs
    subst hs
    have hrole := (T3_tls_only_if_enabled tc tf req t c h sn hp).2.2
    have hT := T7_recv_only_through_ssl { req := req, tlsMode := c.role, tlsState := .handshake, connectPending := true } evs
      ⟨hreq, by simp [hrole], by simp⟩
    exact ⟨fun bs => (hT.1 bs).1, hT.2 rfl rfl⟩

/-- same for sessions accepted on a listener requested with TLS -/
theorem T8_listener_tls_recv (tc : TCfg) (tf : TFiles) (req : Mode) (hreq : req ≠ .none)
    (s : Sess) (hs : (listenPlan tc tf req).session false req = some s) (evs : List REv) :
    (∀ bs, ROut.deliverRaw bs ∉ rRun s evs) ∧ ((∀ e ∈ evs, e.isHsOk = false) → ∀ o ∈ rRun s evs, o = .out .onClose) := by
  cases hp : listenPlan tc tf req with
  | plain => exact absurd hp (T1_listen_never_plain tc tf req hreq)
  | refuse w => simp [hp, Plan.session] at hs
  | tls c h sn =>
    simp only [hp, Plan.session, Option.some.injEq] at hs
    subst hs
    have hrole := (server_built _ _ _ (listenPlan_tls hp).1).1
    have hT := T7_recv_only_through_ssl { req := req, tlsMode := c.role, tlsState := .handshake, connectPending := false } evs
      ⟨hreq, by simp [hrole], by simp⟩
    exact ⟨fun bs => (hT.1 bs).1, hT.2 rfl rfl⟩

/-- non-vacuity: bytes that arrive DURING the handshake are not delivered; after `SSL_do_handshake` = 1 they are, through `SSL_read`;
a plain session delivers raw (so the machine can tell the difference) -/
example : rRun { req := .client, tlsMode := .client, tlsState := .handshake } [.inp [1, 2] none] = [] := by decide
example : rRun { req := .client, tlsMode := .client, tlsState := .handshake } [.inp [1, 2] (some true)] =
    [.out .onConnect, .deliverTls [1, 2]] := by decide
example : rRun { req := .none } [.inp [7] none] = [.deliverRaw [7]] := by decide

/-- **T7 (handshake outcomes).** For every session in the handshake and either kind of epoll event: `WANT_READ/WRITE` changes
nothing and emits nothing (the handshake stays pending, the queue stays queued); a fatal result closes the session, DROPS the
queue and reports exactly one close. -/
theorem T7_handshake_outcomes (s : Sess) (out : Bool) (hh : s.inHs = true) (hc : s.closed = false) :
    sessStep s (.epoll out none) = (s, []) ∧
    sessStep s (.epoll out (some false)) = ({ s with closed := true, wq := [] }, [.onClose]) := by
  simp [sessStep, driveHs, leakOnIncomplete, hh, hc, handshakeDrivenFirst, handshakeReturnsWhenIncomplete, wantIoKeepsHandshake,
    failureCloses, openOnlyOnRc1, connectCbOnlyOnRc1]

/-- non-vacuity: the machine DOES something with early data — it stays queued across writable events while the handshake
is incomplete, is dropped with a failed handshake, and goes to `SSL_write` (after the announce) once it succeeds -/
example : sessRun { req := .client, tlsMode := .client, tlsState := .handshake }
    [.appSend [1], .immediate, .epoll true none, .epoll true none, .epoll false (some false)] = [.onClose] := by decide
example : sessRun { req := .client, tlsMode := .client, tlsState := .handshake }
    [.appSend [1], .epoll true none, .epoll true (some true), .appSend [3], .epoll true none] =
    [.onConnect, .sslWrite [1], .sslWrite [3]] := by decide
example : sessRun { req := .server, tlsMode := .server, tlsState := .handshake, connectPending := false }
    [.appSend [7], .epoll false none, .epoll false (some true), .epoll true none] = [.onConnect, .sslWrite [7]] := by decide
/-- and a plain session (requested as such) does write raw: the invariant is not vacuous -/
example : sessRun { } [.immediate, .appSend [1]] = [.onConnect, .rawWire [1]] := by decide

/-! ## T10 — the TLS settings of an `HttpClient` are the ones last accepted by `setTlsConfig` -/

/-- **T10.** For EVERY history of `setTlsConfig` calls, requests and DNS accessors on one `HttpClient`: the settings the
transport's client context was built from are the settings `setTlsConfig` accepted last — a call that could not take effect
any more (the transport exists and the settings differ) throws instead of being silently ignored.  In particular
`setTlsConfig{verifyPeer=false}; get; setTlsConfig{verifyPeer=true}; get` never runs its second request unverified while
reporting success of the reconfiguration. -/
theorem T10_settings_in_force (ops : List HOp) :
    (hRun {} ops).applied = none ∨ (hRun {} ops).applied = some (hRun {} ops).stored :=
  hRun_coherent {} ops (Or.inl rfl)

example : (hStep (hRun {} [.setTls { verifyPeer := false }, .touch]) (.setTls { verifyPeer := true })).2 = true := by decide
example : hRun {} [.setTls { verifyPeer := false }, .setTls { verifyPeer := true, caFileSet := true }, .touch] =
    { stored := { verifyPeer := true, caFileSet := true }, applied := some { verifyPeer := true, caFileSet := true } } := by decide

/-- **T10 (failed initialisation).** For every history that also contains FAILING initialisations (`_transport->start()` refuses,
e.g. a `caFile` that cannot be loaded): the client is never left with a dead transport, so while nothing is initialised every
`setTlsConfig` is accepted (the operator can correct the settings) — and `T10_settings_in_force` keeps holding. -/
theorem T10_init_failure_recoverable (ops : List HOp) (c : HttpTls) :
    (hRun {} ops).dead = false ∧ ((hRun {} ops).applied = none → (hStep (hRun {} ops) (.setTls c)).2 = false) := by
  have hd := hRun_alive {} ops rfl
  refine ⟨hd, fun ha => ?_⟩
  simp [hStep, ha, hd]

example : hRun {} [.setTls { caFileSet := true }, .touchFail, .setTls {}, .touch] = { stored := {}, applied := some {} } := by decide
example : (hStep (hRun {} [.setTls { caFileSet := true }, .touchFail]) .touchFail).2 = true := by decide

/-! ## T11 — `HttpServer`: the TLS settings in force are the ones `enableTls` accepted last, over every call history -/

/-- **T11.** For EVERY history of `enableTls` / `start` / `stop` calls on one `HttpServer`: (a) a started server runs with exactly
the settings `enableTls` accepted last — a call that can no longer take effect (the server is started) throws instead of being
silently ignored; (b) therefore a server on which an `enableTls` is in force never serves clear text, also after any number of
restarts; (c) an accepted `enableTls` stores its argument, and `start`/`stop` never drop it. -/
theorem T11_server_settings_in_force (ops : List HSOp) (tf : TFiles) :
    ((hsRun {} ops).running = none ∨ (hsRun {} ops).running = some (hsRun {} ops).stored) ∧
    ((hsRun {} ops).stored.isSome = true → (hsRun {} ops).plan tf ≠ some .plain) := by
  have hc := hsRun_coherent {} ops (Or.inl rfl)
  refine ⟨hc, fun hs => ?_⟩
  rcases hc with hc | hc
  · simp [HSState.plan, hc]
  · obtain ⟨h, hh⟩ := Option.isSome_iff_exists.mp hs
    simp only [HSState.plan, hc, hh, Option.map_some, ne_eq, Option.some.injEq]
    exact T1_httpserver_never_plain h tf

theorem T11_enableTls_effect (s : HSState) (c : HttpSrvTls) :
    ((hsStep s (.enableTls c)).2 = false → (hsStep s (.enableTls c)).1.stored = some c ∧ s.running = none) ∧
    (∀ o h, s.stored = some h → (hsStep s o).1.stored.isSome = true) := by
  refine ⟨fun hok => ?_, fun o h hs => hsStep_keeps s o h hs⟩
  simp only [hsStep, enableTlsRejectsWhenStarted, Bool.true_and] at hok ⊢
  cases hr : s.running with
  | some a => simp [hr] at hok
  | none =>
    simp only [hr, Option.isSome_none, Bool.false_eq_true, if_false] at hok ⊢
    split at hok
    · simp at hok
    · rename_i hv; simp [hv]

/-- the defect this repairs: `start(); enableTls(c)` — accepted by the unrepaired code, the listener staying plain — now throws;
the two legal orders give a TLS listener, and a restart keeps it -/
example : (hsStep (hsRun {} [.start]) (.enableTls {})).2 = true := by decide
example : (hsRun {} [.enableTls {}, .start, .stop, .start]).running = some (some {}) := by decide
example : (hsRun {} [.start, .stop, .enableTls {}, .start]).running = some (some {}) := by decide
example : ∃ c h s, (hsRun {} [.enableTls {}, .start]).plan {} = some (.tls c h s) := ⟨_, _, _, rfl⟩

/-! ## T12 — `IoraService`: server TLS settings are never silently dropped -/

/-- **T12.** For every combination of the optional `server.tls` settings and every state of the files: when the operator asked for
TLS (a certificate or a key is named, or client certificates are required) the service's webhook server is a TLS listener or the
start is refused (incomplete settings, unloadable files) — NEVER a clear-text listener.  (The defect this repairs: the condition
used to be `certFile && keyFile && caFile`, so certificate + key without a CA file started a plain server.) -/
theorem T12_service_requested_tls_never_plain (c : SvcTls) (tf : TFiles) (h : c.requested = true) :
    servicePlan c tf ≠ .plain := by
  have hc : serviceHasTls.eval c.env = true := by
    simp only [SvcTls.requested, Bool.or_eq_true] at h
    simp only [serviceHasTls, G.eval, SvcTls.env, Env.atom]
    rcases h with (h | h) | h <;> simp [h]
  simp only [servicePlan, hc, if_true]
  exact T1_httpserver_never_plain _ tf

/-- the witness of the repaired defect is a TLS listener now; nothing asked = plain, as before; half a configuration is refused -/
example : ∃ ctx h s, servicePlan { certSet := true, keySet := true } {} = .tls ctx h s := ⟨_, _, _, rfl⟩
example : servicePlan {} {} = .plain := by decide
example : servicePlan { certSet := true } {} = .refuse .enableTls := by decide
example : servicePlan { requireClientCert := true, certSet := true, keySet := true } {} = .refuse .enableTls := by decide
/-- and the old condition is refuted by exactly that witness -/
example : (G.and (.and (.atom .certFileSet) (.atom .keyFileSet)) (.atom .caFileSet)).eval (SvcTls.env { certSet := true, keySet := true }) = false := by
  decide

/-! ## pins on generated facts that the model takes for granted -/

/-- configuration-affecting OpenSSL calls occur only in the functions the model mirrors (every call, prefixed or not, is
inventoried by the translator; unknown names are a translator error) -/
def confined (name : String) (allowed : List String) : Bool :=
  match sslCallInventory.find? (fun x => x.1 == name) with
  | some (_, fns) => fns.all (fun f => allowed.contains f)
  | none => true

/-- **Gen pins.** The contexts are built with the TLS (not DTLS, not version-specific) methods; a failing `SSL_set1_host`
ends the connect; `localhost` resolves to an address literal (so `httpTarget` is right to treat resolved names as IP
targets); verification-relevant calls are confined to `initTls` / `applyTls12Floor` / `doConnect` / `onListener`. -/
theorem Gen_pins :
    serverCtx.method = "TLS_server_method" ∧ clientCtx.method = "TLS_client_method" ∧
    connectSite.set1hostFailClosed = true ∧ httpClientLocalhost = "127.0.0.1" ∧
    plainAnnounceRequiresModeNone = true ∧          -- redundant with the handshake branch of onSession (defence in depth): pinned, not needed by T7

    confined "SSL_CTX_set_verify" ["initTls"] = true ∧ confined "SSL_CTX_set_cipher_list" ["initTls"] = true ∧
    confined "SSL_CTX_load_verify_locations" ["initTls"] = true ∧ confined "SSL_CTX_set_default_verify_paths" ["initTls"] = true ∧
    confined "SSL_CTX_set_min_proto_version" ["applyTls12Floor"] = true ∧ confined "SSL_new" ["doConnect", "onListener"] = true ∧
    confined "SSL_set1_host" ["doConnect"] = true ∧ confined "SSL_set_tlsext_host_name" ["doConnect"] = true ∧
    confined "SSL_do_handshake" ["driveHandshake"] = true ∧ confined "SSL_write" ["doSend", "writePending"] = true := by
  decide

/-- the hypotheses about OpenSSL are satisfiable: the executable reference is an instance -/
theorem assumptions_consistent : Ossl.ref.Assumed := ref_assumed

/-- non-vacuity of the matrix: admissible and inadmissible cells both exist, on both sides -/
example : Spec.cliAdmissible ⟨true, .right, .valid, .v13, .tls, true, .unset⟩ = true ∧
          Spec.cliAdmissible ⟨true, .right, .wrongName, .v13, .tls, true, .unset⟩ = false ∧
          Spec.cliAdmissible ⟨true, .right, .wrongName, .v13, .tls, false, .unset⟩ = true ∧
          Spec.cliAdmissible ⟨false, .none, .selfSigned, .v11, .tls, true, .unset⟩ = false := by decide
example : Spec.srvAdmissible ⟨true, .right, .valid, .valid, .v12, .tls, .unset⟩ = true ∧
          Spec.srvAdmissible ⟨true, .right, .valid, .none, .v12, .tls, .unset⟩ = false := by decide

end Iora.C07
