import IoraModel.Lemmas.AssetsRoots
import IoraModel.Lemmas.AssetsFuel
/-!
# C20 — Static asset and template lookup never escapes its root directory  (partial: see the end of this header)

Property theorems only; the lemmas live in `Lemmas/Assets*.lean`, the model in `Model/Assets.lean`, constants and call orders
in the regenerated `Gen/Assets.lean`.

*Partial by nature.*  `walk`/`kwalk` (kernel path resolution), `status`, `canonical` (= `realpath`), `weaklyCanonical`,
`lexicallyNormal`, `lexRelFirst` (libstdc++) and `readFile`'s `open(O_NOFOLLOW)` are MODEL functions over the file-system model
`Fs`.  Everything below is proved about these model functions for EVERY `Fs`, name and history; that they behave like the real
libstdc++/glibc/Linux ones is what the correspondence harness checks on generated directory trees.
-/
namespace Iora.C20
open Iora Iora.Assets

/-! ## A small concrete world for the non-vacuity examples
`/s` is the static root; `/s/a` holds `[7]`; `/o/x` holds `[9]` (the secret, outside); `/s/l -> /o/x` (escaping link);
`/s/in -> a` (inside link). -/
def exFs : Fs := { entries := [([[115]], .dir), ([[97], [115]], .file [7]), ([[111]], .dir), ([[120], [111]], .file [9]),
                               ([[108], [115]], .link [47, 111, 47, 120]), ([[105], [115]], .link [97])] }
def exSt : FsState := { root := [47], templatesRoot := [47, 116], staticsRoot := [47, 115], perRequest := false }
/-- the same world after the environment rewrote `/s/a` to `[8]` -/
def exFs2 : Fs := exFs.set [[97], [115]] (.file [8])
/-- the same world after the leaf `/s/a` was replaced by a link to the secret -/
def exSwap : Fs := exFs.set [[97], [115]] (.link [47, 111, 47, 120])
theorem exRoot : RootOK exSt.staticsRoot [[115]] :=
  ⟨by decide, fun n hn => by simp at hn; subst hn; exact ⟨⟨⟨by decide, by decide⟩, by decide, by decide⟩, by decide⟩⟩

/-! ## A1 — the lexical filter -/

/-- **A1.** For ALL byte strings: a name passes `lexicallyRejected` iff it does not start with `/`, contains no NUL byte,
no backslash, and none of its `/`-separated segments is `..` (the empty name passes). -/
theorem A1_lexical_filter (p : Bytes) :
    lexicallyRejected p = false ↔
      (p.head? ≠ some 47 ∧ (0 : UInt8) ∉ p ∧ (92 : UInt8) ∉ p ∧ dotdot ∉ splitSlash p) :=
  lexicallyRejected_iff p

/-- `splitSlash` is THE decomposition into `/`-separated segments: joining gives the string back, and the split of a join of
slash-free segments is that list of segments. -/
theorem A1_segments (p : Bytes) (segs : List Bytes) (hne : segs ≠ []) (h : ∀ s ∈ segs, SLASH ∉ s) :
    joinSlash (splitSlash p) = p ∧ splitSlash (joinSlash segs) = segs :=
  ⟨joinSlash_splitSlash p, splitSlash_joinSlash segs hne h⟩

/-- `a/../b` is refused, `a/..b/c` passes, `a\b` is refused, `%2e%2e/x` passes (the filter never decodes) -/
example : lexicallyRejected [97, 47, 46, 46, 47, 98] = true ∧ lexicallyRejected [97, 47, 46, 46, 98, 47, 99] = false ∧
    lexicallyRejected [97, 92, 98] = true ∧ lexicallyRejected [37, 50, 101, 37, 50, 101, 47, 120] = false := by decide

/-! ## A2 — component-wise containment -/

/-- **A2.** On canonical absolute paths (`/n1/…/nk`, ordinary names) `isContained base target` holds exactly when the names of
`base` are a prefix of the names of `target` — component-wise, so `/r/static2` is NOT inside `/r/static`. -/
theorem A2_containment (bn tn : List Name) (hb : ∀ n ∈ bn, Plain n) (ht : ∀ n ∈ tn, Plain n) :
    isContained (renderAbs bn) (renderAbs tn) = true ↔ bn <+: tn :=
  isContained_canonical bn tn hb ht

/-- the `rel == "."` corner, exactly as the code computes it: the root itself counts as contained (it is not a regular file
and is refused by the later `is_regular_file` test — `Inside` below is strict) -/
theorem A2_root_itself (bn : List Name) (hb : ∀ n ∈ bn, Plain n) : isContained (renderAbs bn) (renderAbs bn) = true :=
  (isContained_canonical bn bn hb hb).mpr (List.prefix_refl bn)

/-- `/r/static2/a` is not inside `/r/static`; `/r/static/a` is -/
example : isContained [47, 114, 47, 115, 116, 97, 116, 105, 99] [47, 114, 47, 115, 116, 97, 116, 105, 99, 50, 47, 97] = false ∧
    isContained [47, 114, 47, 115, 116, 97, 116, 105, 99] [47, 114, 47, 115, 116, 97, 116, 105, 99, 47, 97] = true := by decide

/-! ## The platform lemma the containment argument rests on -/

/-- **`weakly_canonical` of a non-existing path never names a regular file** (in the same file system, absolute NUL-free path
without `..`): its "existing prefix made canonical + remaining names kept lexically" result cannot be opened as a file, so a
lookup only ever opens names that `realpath` produced. -/
theorem WC_missing_is_no_file : WcMissingNoFile := wcMissingNoFile

/-- **The leaf lemma**: `readFile` (`open(O_RDONLY|O_NOFOLLOW|O_CLOEXEC)` + read; the flags come from the source) on the canonical
name of a location whose parent is a real directory returns bytes only if that very location holds a regular file with these
bytes — never through a link, whatever else the file system contains. -/
theorem A4_open_nofollow (fs : Fs) (L : Loc) (d : Bytes) (hL : LocOK L) (hpar : fs.get L.tail = some .dir)
    (h : readFile fs (renderLoc L) = some d) : fs.get L = some (.file d) :=
  readFile_at_loc fs L d hL hpar h

/-- **The model of the path-taking system calls is total**: the fuel that makes the walk structurally recursive is always enough
(at most `SYMLOOP` links are followed and every link adds at most `maxTarget` names), so "out of fuel" is never an answer. -/
theorem Model_walk_total (fs : Fs) (fol : Bool) (p : Bytes) : kwalk fs fol p ≠ .error .EFUEL :=
  kwalk_never_efuel fs fol p

/-! ## A3 — containment, one lookup, file system at rest -/

/-- **A3 (static, filesystem mode).** In EVERY file system, for EVERY name: if `getStatic` returns a blob (cache empty or
per-request mode: nothing served from memory), its bytes — and the bytes of the gzip variant — are the content of a regular
file whose location has the static root as a PROPER component-wise prefix. -/
theorem A3_static (fs : Fs) (st : FsState) (bn : List Name) (path : Bytes) (b : Blob) (a' : Assets)
    (hroot : RootOK st.staticsRoot bn) (hcache : st.staticCache = [])
    (h : getStatic fs (.filesystem st) path = (.found b, a')) : BlobGood (Inside fs bn) b := by
  unfold getStatic getStaticAt at h
  by_cases hn : lexicallyRejected path = true
  · simp [hn] at h
  · simp only [hn, Bool.false_eq_true, ↓reduceIte] at h
    have hg := getStaticFilesystemAt_good wcMissingNoFile (Inside fs bn) fs fs st path bn hroot (dirsPreserved_refl fs)
      (by simpa using hn) (fun d hd => hd) (by rw [hcache]; intro k e hm; simp at hm)
    injection h with h1 _
    exact (hg.1 b h1).1

/-- non-vacuity: in `exFs` the name `a` is served with the bytes of `/s/a`; the inside link `in` is served; the escaping link
`l` is rejected -/
example : ∃ b a', getStatic exFs (.filesystem exSt) [97] = (.found b, a') ∧ b.bytes = [7] := ⟨_, _, rfl, rfl⟩
example : (getStatic exFs (.filesystem exSt) [105]).1 = .found ⟨[7], Gen.Assets.mimeDefault, none⟩ ∧
    (getStatic exFs (.filesystem exSt) [108]).1 = .rejected := by decide

/-- **A3 (template, filesystem mode).** -/
theorem A3_template (fs : Fs) (st : FsState) (bn : List Name) (name d : Bytes) (a' : Assets)
    (hroot : RootOK st.templatesRoot bn) (hcache : st.templateCache = [])
    (h : getTemplate fs (.filesystem st) name = (some d, a')) : Inside fs bn d := by
  unfold getTemplate getTemplateAt at h
  by_cases hn : lexicallyRejected name = true
  · simp [hn] at h
  · simp only [hn, Bool.false_eq_true, ↓reduceIte] at h
    have hg := getTemplateFilesystemAt_good wcMissingNoFile (Inside fs bn) fs fs st name bn hroot (dirsPreserved_refl fs)
      (by simpa using hn) (fun d hd => hd) (by rw [hcache]; intro k e hm; simp at hm)
    injection h with h1 _
    exact (hg.1 d h1).1

/-- **A3 (embedded mode, with the EXTERNAL_DIR fallback).** Bytes come from the registry entry of exactly this path, or — only
for a path of the externalised set — from a regular file strictly inside EXTERNAL_DIR (absolute, NUL-free, `..`-free,
resolving to the canonical directory `bn`). -/
theorem A3_embedded (fsR fsO : Fs) (r : Registry) (path : Bytes) (b : Blob) (a' : Assets)
    (hd : DirsPreserved fsR fsO) (h : getStaticAt fsR fsO (.embedded r) path = (.found b, a')) :
    (∃ a ∈ r.statics, a.path = path ∧ b.bytes = a.bytes ∧ b.gz = a.gz) ∨
    (isExternalPath r path = true ∧
      ∀ bn, isAbs r.externalDir = true → (0 : UInt8) ∉ r.externalDir → dotdot ∉ comps r.externalDir →
        weaklyCanonical fsR r.externalDir = .ok (renderAbs bn) → (∀ n ∈ bn, Plain n) →
        fsO.get bn.reverse = some .dir → BlobGood (Inside fsO bn) b) := by
  unfold getStaticAt at h
  by_cases hn : lexicallyRejected path = true
  · simp [hn] at h
  · simp only [hn, Bool.false_eq_true, ↓reduceIte] at h
    injection h with h1 _
    exact getStaticEmbeddedAt_good wcMissingNoFile fsR fsO r path b (by simpa using hn) hd h1

/-! ## A4 — the leaf swap: schedule {resolve, swap, open} -/

/-- **A4.** Resolution, containment test and regular-file test run in `fsR`; before the `open` the environment changes the file
system to ANY `fsO` in which the directories of `fsR` are still directories (the file named by the final component replaced by
a symbolic link to anywhere, links re-targeted, files created/removed, the `.gz` sibling swapped …).  Bytes that are still
returned are the content of a regular file strictly inside the root IN `fsO`: `open(O_NOFOLLOW)` refuses a swapped-in link. -/
theorem A4_leaf_swap (fsR fsO : Fs) (st : FsState) (bn : List Name) (path : Bytes) (b : Blob) (a' : Assets)
    (hroot : RootOK st.staticsRoot bn) (hcache : st.staticCache = []) (hd : DirsPreserved fsR fsO)
    (h : getStaticAt fsR fsO (.filesystem st) path = (.found b, a')) : BlobGood (Inside fsO bn) b := by
  unfold getStaticAt at h
  by_cases hn : lexicallyRejected path = true
  · simp [hn] at h
  · simp only [hn, Bool.false_eq_true, ↓reduceIte] at h
    have hg := getStaticFilesystemAt_good wcMissingNoFile (Inside fsO bn) fsR fsO st path bn hroot hd
      (by simpa using hn) (fun d hd => hd) (by rw [hcache]; intro k e hm; simp at hm)
    injection h with h1 _
    exact (hg.1 b h1).1

/-- non-vacuity: swapping the leaf `/s/a` for a link to the secret preserves directories; the lookup whose open sees the swapped
world returns nothing (and the unswapped one returns `[7]`) -/
example : DirsPreserved exFs exSwap ∧ (getStaticAt exFs exSwap (.filesystem exSt) [97]).1 = .notFound ∧
    (getStaticAt exFs exFs (.filesystem exSt) [97]).1 = .found ⟨[7], Gen.Assets.mimeDefault, none⟩ :=
  ⟨set_preserves_dirs _ _ _ (by decide), by decide, by decide⟩

/-- the concrete leaf swap of the statement is an instance of `DirsPreserved` -/
theorem A4_swap_is_dirs_preserving (fs : Fs) (loc : Loc) (e : Entry) (h : fs.get loc ≠ some .dir) :
    DirsPreserved fs (fs.set loc e) := set_preserves_dirs fs loc e h

/-! ## A0 — the configured roots -/

/-- **A0.** Whatever `fromDirectory` returns — root given absolute or relative to a sane working directory, with or without
trailing slash, through links, `static`/`templates` present, missing, a file, a link, a loop — has canonical absolute roots
(`/n1/…/nk` with ordinary NUL-free names) and empty caches: the hypotheses `RootOK` of A3/A4 are what the constructor delivers. -/
theorem A0_fromDirectory (fs : Fs) (root : Bytes) (per : Bool) (st : FsState) (hcwd : LocOK fs.cwd)
    (h : fromDirectory fs root per = some st) :
    ∃ bnS bnT, RootOK st.staticsRoot bnS ∧ RootOK st.templatesRoot bnT ∧ st.staticCache = [] ∧ st.templateCache = [] :=
  fromDirectory_inv fs root per st hcwd h

/-- non-vacuity: in `exFs` the constructor succeeds for the root `/` -/
example : (fromDirectory exFs [47] false).isSome = true := by decide

/-! ## A5 — the caches, over every history -/

/-- **A5 (every history).** Start from whatever `fromDirectory` returns (any file system, any spelling of the root).  For EVERY
sequence of `getStatic` / `getTemplate` / `reload` / arbitrary environment changes between lookups / directory-preserving
changes between the resolution and the open of a lookup: every blob and every template ever returned — fresh or from a cache —
consists of bytes that were, at the open of some lookup of this history, the content of a regular file strictly inside the
canonical static (resp. template) root.  In particular a cache entry is only ever created from such bytes. -/
theorem A5_history (fs0 : Fs) (root : Bytes) (per : Bool) (st : FsState) (ops : List Op) (hcwd : LocOK fs0.cwd)
    (h : fromDirectory fs0 root per = some st) (hv : Valid ⟨fs0, .filesystem st, []⟩ ops) :
    ∃ bnS bnT, RootOK st.staticsRoot bnS ∧ RootOK st.templatesRoot bnT ∧
      ∀ o ∈ hrun ⟨fs0, .filesystem st, []⟩ ops, OutGood bnS bnT o := by
  obtain ⟨bnS, bnT, hS, hT, hc1, hc2⟩ := fromDirectory_inv fs0 root per st hcwd h
  refine ⟨bnS, bnT, hS, hT, history_good bnS bnT ops _ ⟨st, rfl, hS, hT, ?_, ?_⟩ hv⟩
  · rw [hc1]; intro k e hm; simp at hm
  · rw [hc2]; intro k d hm; simp at hm

/-- a valid history: look `a` up, the environment rewrites the file, look it up again, reload, look it up again -/
def exOps : List Op := [.static [97] exFs, .env exFs2, .static [97] exFs2, .reload, .static [97] exFs2]
example : Valid ⟨exFs, .filesystem exSt, []⟩ exOps :=
  ⟨dirsPreserved_refl _, trivial, dirsPreserved_refl _, trivial, dirsPreserved_refl _, trivial⟩

/-- **A5 (what the cache does NOT guarantee), stated precisely.** A cached entry outlives a change of the file: in the history
`exOps` the second lookup returns the OLD bytes `[7]` although `/s/a` now holds `[8]`; only `reload()` makes the new bytes
visible.  The stale bytes are still bytes that were inside the root (that is all `A5_history` claims). -/
theorem A5_cache_can_be_stale :
    (hrun ⟨exFs, .filesystem exSt, []⟩ exOps).map (fun o => match o.1 with | .static (.found b) => some b.bytes | _ => none)
      = [some [7], none, some [7], none, some [8]] ∧ exFs2.get [[97], [115]] = some (.file [8]) := by decide

/-- **A5 (re-validation).** A cache hit is not a bypass: whenever a filesystem-mode static lookup returns a blob — also from the
cache — the name, resolved in the CURRENT file system, names a regular file strictly inside the root.  (A name whose file was
replaced by an escaping link is refused even though its old bytes are still cached.) -/
theorem A5_revalidated (fsR fsO : Fs) (st : FsState) (bn : List Name) (path : Bytes) (b : Blob)
    (hroot : RootOK st.staticsRoot bn) (hd : DirsPreserved fsR fsO) (hn : lexicallyRejected path = false)
    (h : (getStaticFilesystemAt fsR fsO st path).1 = .found b) : ∃ d0, Inside fsR bn d0 :=
  ((getStaticFilesystemAt_good wcMissingNoFile (fun _ => True) fsR fsO st path bn hroot hd hn (fun _ _ => trivial)
    (fun _ _ _ => ⟨trivial, fun _ _ => trivial⟩)).1 b h).2

/-! ## Conformance of the regenerated facts with what the model and the proofs assume -/

theorem Gen_open_flags : Gen.Assets.openNoFollow = true ∧ Gen.Assets.openFlags = ["O_RDONLY", "O_NOFOLLOW", "O_CLOEXEC"] := by decide
theorem Gen_filter : Gen.Assets.emptyRejected = false ∧ Gen.Assets.forbiddenLeading = [47] ∧ Gen.Assets.forbiddenAnywhere = [0, 92] ∧
    Gen.Assets.segmentSeparator = 47 ∧ Gen.Assets.forbiddenSegments = [[46, 46]] := by decide
theorem Gen_contained : Gen.Assets.containedCmp = "!=" ∧ Gen.Assets.containedLit = [46, 46] := by decide
/-- the order of the security-relevant calls: resolve → contain → regular-file test → (cache) → open; the cache is consulted
only AFTER the validation of the current request -/
theorem Gen_call_order :
    Gen.Assets.getStaticCalls = ["lexicallyRejected", "getStaticEmbedded", "getStaticFilesystem"] ∧
    Gen.Assets.getTemplateCalls = ["lexicallyRejected", "findTemplate", "getTemplateFilesystem"] ∧
    Gen.Assets.getStaticFilesystemCalls = ["weakly_canonical", "isContained", "is_regular_file", "perRequestRead", "buildEntry",
      "staticCache.find", "buildEntry", "staticCache.find", "staticCache.emplace"] ∧
    Gen.Assets.getTemplateFilesystemCalls = ["weakly_canonical", "isContained", "is_regular_file", "templateCache.find", "readFile",
      "templateCache.find", "templateCache.emplace"] ∧
    Gen.Assets.getStaticEmbeddedCalls = ["findStatic", "isExternalPath", "weakly_canonical", "weakly_canonical", "isContained",
      "is_regular_file", "buildEntry"] ∧
    Gen.Assets.buildEntryCalls = ["readFile", "is_regular_file", "readFile"] ∧
    Gen.Assets.fromDirectoryCalls = ["fs::canonical", "fs::is_directory", "weakly_canonical", "weakly_canonical"] := by decide
/-- `static`, `templates`, `.gz` -/
theorem Gen_roots : Gen.Assets.staticsSub = [115, 116, 97, 116, 105, 99] ∧ Gen.Assets.templatesSub = [116, 101, 109, 112, 108, 97, 116, 101, 115] ∧
    Gen.Assets.gzSuffix = [46, 103, 122] := by decide

end Iora.C20
