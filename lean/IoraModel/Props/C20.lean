import IoraModel.Lemmas.AssetsHistory
/-!
# C20 — Static asset and template lookup never escapes its root directory  (partial: see the end of this header)

Property theorems only; the lemmas live in `Lemmas/Assets*.lean`, the model in `Model/Assets.lean`, constants and call orders
in the regenerated `Gen/Assets.lean`.

*Partial by nature.*  `walk`/`kwalk` (kernel path resolution), `status`, `canonical` (= `realpath`), `weaklyCanonical`,
`lexicallyNormal`, `lexRelFirst` (libstdc++) and `readFile`'s `open(O_NOFOLLOW)` are MODEL functions over the file-system model
`Fs`.  Everything below is proved about these model functions for EVERY `Fs`, name and history; that they behave like the real
libstdc++/glibc/Linux ones is what the correspondence harness checks on generated directory trees.

*Concurrency of the environment.*  One lookup issues several path-taking system calls; the model gives each of them its own
file-system snapshot (`Snaps`: `status(candidate)`, `realpath(candidate)`, `is_regular_file(resolved)`, `open(resolved)`,
`is_regular_file(resolved.gz)`, `open(resolved.gz)`).  NOT split further (assumed atomic, stated here once): the prefix loop +
`realpath(prefix)` that `weakly_canonical` runs when the candidate does NOT exist, and the inside of one `realpath`/`open`.
What the environment may do between the snapshots is `LeafOnly` (A4); what it must not do — make a NEW intermediate symbolic
link appear — is shown to break containment by the witness `A4_residual_intermediate_link` (the code documents this residual:
"intermediate-component swaps would need openat() chains").
-/
namespace Iora.C20
open Iora Iora.Assets

/-! ## A small concrete world for the non-vacuity examples
`/s` is the static root; `/s/a` holds `[7]`; `/o/x` holds `[9]` (the secret, outside); `/s/l -> /o/x` (escaping link);
`/s/in -> a` (inside link). -/
def exFs : Fs := { entries := [([[115]], .dir), ([[97], [115]], .file [7]), ([[111]], .dir), ([[120], [111]], .file [9]),
                               ([[108], [115]], .link [47, 111, 47, 120]), ([[105], [115]], .link [97])] }
def exSt : FsState := { root := [47], templatesRoot := [47, 116], staticsRoot := [47, 115], perRequest := false }
/-- the same world after the environment rewrote `/s/a` to `[8]` -/
def exFs2 : Fs := exFs.set [[97], [115]] (.file [8])
/-- the same world after the leaf `/s/a` was replaced by a link to the secret -/
def exSwap : Fs := exFs.set [[97], [115]] (.link [47, 111, 47, 120])
theorem exRoot : RootOK exSt.staticsRoot [[115]] :=
  ⟨by decide, fun n hn => by simp at hn; subst hn; exact ⟨⟨⟨by decide, by decide⟩, by decide, by decide⟩, by decide⟩⟩

/-! ## A1 — the lexical filter -/

/-- **A1.** For ALL byte strings: a name passes `lexicallyRejected` iff it does not start with `/`, contains no NUL byte,
no backslash, and none of its `/`-separated segments is `..` (the empty name passes). -/
theorem A1_lexical_filter (p : Bytes) :
    lexicallyRejected p = false ↔
      (p.head? ≠ some 47 ∧ (0 : UInt8) ∉ p ∧ (92 : UInt8) ∉ p ∧ dotdot ∉ splitSlash p) :=
  lexicallyRejected_iff p

/-- `splitSlash` is THE decomposition into `/`-separated segments: joining gives the string back, and the split of a join of
slash-free segments is that list of segments. -/
theorem A1_segments (p : Bytes) (segs : List Bytes) (hne : segs ≠ []) (h : ∀ s ∈ segs, SLASH ∉ s) :
    joinSlash (splitSlash p) = p ∧ splitSlash (joinSlash segs) = segs :=
  ⟨joinSlash_splitSlash p, splitSlash_joinSlash segs hne h⟩

/-- `a/../b` is refused, `a/..b/c` passes, `a\b` is refused, `%2e%2e/x` passes (the filter never decodes) -/
example : lexicallyRejected [97, 47, 46, 46, 47, 98] = true ∧ lexicallyRejected [97, 47, 46, 46, 98, 47, 99] = false ∧
    lexicallyRejected [97, 92, 98] = true ∧ lexicallyRejected [37, 50, 101, 37, 50, 101, 47, 120] = false := by decide

/-! ## A2 — component-wise containment -/

/-- **A2.** On canonical absolute paths (`/n1/…/nk`, ordinary names) `isContained base target` holds exactly when the names of
`base` are a prefix of the names of `target` — component-wise, so `/r/static2` is NOT inside `/r/static`. -/
theorem A2_containment (bn tn : List Name) (hb : ∀ n ∈ bn, Plain n) (ht : ∀ n ∈ tn, Plain n) :
    isContained (renderAbs bn) (renderAbs tn) = true ↔ bn <+: tn :=
  isContained_canonical bn tn hb ht

/-- the `rel == "."` corner, exactly as the code computes it: the root itself counts as contained (it is not a regular file
and is refused by the later `is_regular_file` test — `Inside` below is strict) -/
theorem A2_root_itself (bn : List Name) (hb : ∀ n ∈ bn, Plain n) : isContained (renderAbs bn) (renderAbs bn) = true :=
  (isContained_canonical bn bn hb hb).mpr (List.prefix_refl bn)

/-- `/r/static2/a` is not inside `/r/static`; `/r/static/a` is -/
example : isContained [47, 114, 47, 115, 116, 97, 116, 105, 99] [47, 114, 47, 115, 116, 97, 116, 105, 99, 50, 47, 97] = false ∧
    isContained [47, 114, 47, 115, 116, 97, 116, 105, 99] [47, 114, 47, 115, 116, 97, 116, 105, 99, 47, 97] = true := by decide

/-! ## The platform lemma the containment argument rests on -/

/-- **`weakly_canonical` of a non-existing path never names a regular file** (in the same file system, absolute NUL-free path
without `..`): its "existing prefix made canonical + remaining names kept lexically" result cannot be opened as a file, so a
lookup only ever opens names that `realpath` produced. -/
theorem WC_missing_is_no_file : WcMissingNoFile := wcMissingNoFile

/-- **The leaf lemma**: `readFile` (`open(O_RDONLY|O_NOFOLLOW|O_CLOEXEC)` + read; the flags come from the source) on the canonical
name of a location whose parent is a real directory returns bytes only if that very location holds a regular file with these
bytes — never through a link, whatever else the file system contains. -/
theorem A4_open_nofollow (fs : Fs) (L : Loc) (d : Bytes) (hL : LocOK L) (hpar : fs.get L.tail = some .dir)
    (h : readFile fs (renderLoc L) = some d) : fs.get L = some (.file d) :=
  readFile_at_loc fs L d hL hpar h

/-- **The model of the path-taking system calls is total**: the fuel that makes the walk structurally recursive is always enough
(at most `SYMLOOP` links are followed and every link adds at most `maxTarget` names), so "out of fuel" is never an answer. -/
theorem Model_walk_total (fs : Fs) (fol : Bool) (p : Bytes) : kwalk fs fol p ≠ .error .EFUEL :=
  kwalk_never_efuel fs fol p

/-! ## A3 — containment, one lookup, file system at rest: the bytes of THE NAMED file -/

/-- the blob is the content of the regular file the request names (`realpath(<root>/<name>)`), which lies strictly inside the root;
its gzip bytes are the content of the regular file `<that file>.gz` next to it -/
def NamedFile (fs : Fs) (root : Bytes) (bn : List Name) (name : Bytes) (b : Blob) : Prop :=
  ∃ last up, kwalk fs true (pathAppend root name) = .ok (last :: up, .file b.bytes) ∧
    bn <+: (last :: up).reverse ∧ (last :: up).reverse ≠ bn ∧
    ∀ g, b.gz = some g → fs.get ((last ++ Gen.Assets.gzSuffix) :: up) = some (.file g)

theorem NamedFile.inside {fs root bn name b} (hroot : RootOK root bn) (hn : lexicallyRejected name = false)
    (h : NamedFile fs root bn name b) : BlobGood (Inside fs bn) b := by
  obtain ⟨last, up, hk, hpre, hne, hgz⟩ := h
  have ha := isAbs_candidate root name hroot.ne hn hroot.abs
  have h0 := no_nul_candidate root name hroot.ne hn hroot.no_nul
  have hg := (kwalk_abs_ok fs true _ h0 ha _ _ hk).1
  refine ⟨⟨_, hg, hpre, hne⟩, ?_⟩
  intro g hg'
  have hp : bn <+: up.reverse := prefix_of_prefix_snoc_ne bn up.reverse last (by simpa using hpre) (by simpa using hne)
  refine ⟨_, hgz g hg', ?_, ?_⟩
  · simp only [List.reverse_cons]
    exact List.IsPrefix.trans hp (List.prefix_append _ _)
  · intro e
    have h1 := hp.length_le
    have h2 := congrArg List.length e
    simp at h1 h2
    omega

/-- **A3 (static, filesystem mode).** In EVERY file system, for EVERY name: if `getStatic` returns a blob (cache empty or per-request
mode: nothing served from memory), its bytes are the content of THE regular file the request names — the object at
`realpath(<static root>/<name>)` — whose location has the static root as a PROPER component-wise prefix; the gzip bytes are the
content of the regular file `<that file>.gz`. -/
theorem A3_static (fs : Fs) (st : FsState) (bn : List Name) (path : Bytes) (b : Blob) (a' : Assets)
    (hroot : RootOK st.staticsRoot bn) (hcache : st.staticCache = [])
    (h : getStatic fs (.filesystem st) path = (.found b, a')) :
    lexicallyRejected path = false ∧ NamedFile fs st.staticsRoot bn path b := by
  unfold getStatic getStaticAt at h
  by_cases hn : lexicallyRejected path = true
  · simp [hn] at h
  have hn' : lexicallyRejected path = false := by simpa using hn
  refine ⟨hn', ?_⟩
  simp only [hn, Bool.false_eq_true, ↓reduceIte] at h
  injection h with h1 _
  unfold getStaticFilesystemAt at h1
  simp only [hcache, List.lookup_nil, Snaps.const] at h1
  split at h1
  · cases h1
  rename_i resolved hw
  split at h1
  · cases h1
  rename_i hc
  split at h1
  · cases h1
  rename_i hr
  simp only [Bool.not_eq_true] at hc hr
  simp only [Bool.not_eq_eq_eq_not] at hc hr
  obtain ⟨last, up, d0, hk, hres, hg, hpre, hne, hmain, hgz⟩ :=
    resolve_named_const fs st.staticsRoot bn hroot path resolved hn' hw (by simpa using hc) (by simpa using hr)
  have key : ∀ e, buildEntryAt fs fs fs resolved = some e → NamedFile fs st.staticsRoot bn path (blobOf e path) := by
    intro e he
    unfold buildEntryAt at he
    split at he
    · cases he
    rename_i d hd
    injection he with he; subst he
    refine ⟨last, up, ?_, hpre, hne, ?_⟩
    · simp only [blobOf]; rw [hmain d hd]; exact hk
    · intro g hg'
      simp only [blobOf] at hg'
      split at hg'
      · exact hgz g hg'
      · cases hg'
  split at h1
  · split at h1
    · cases h1
    · rename_i e he; injection h1 with h1; subst h1; exact key e he
  · split at h1
    · cases h1
    · rename_i e he; injection h1 with h1; subst h1; exact key e he

/-- non-vacuity: in `exFs` the name `a` is served with the bytes of `/s/a`; the inside link `in` is served; the escaping link
`l` is rejected -/
example : ∃ b a', getStatic exFs (.filesystem exSt) [97] = (.found b, a') ∧ b.bytes = [7] := ⟨_, _, rfl, rfl⟩
example : (getStatic exFs (.filesystem exSt) [105]).1 = .found ⟨[7], Gen.Assets.mimeDefault, none⟩ ∧
    (getStatic exFs (.filesystem exSt) [108]).1 = .rejected := by decide

/-- **A3 (template, filesystem mode).** The bytes are the content of the regular file `realpath(<template root>/<name>)`, strictly
inside the template root. -/
theorem A3_template (fs : Fs) (st : FsState) (bn : List Name) (name d : Bytes) (a' : Assets)
    (hroot : RootOK st.templatesRoot bn) (hcache : st.templateCache = [])
    (h : getTemplate fs (.filesystem st) name = (some d, a')) :
    ∃ last up, kwalk fs true (pathAppend st.templatesRoot name) = .ok (last :: up, .file d) ∧
      bn <+: (last :: up).reverse ∧ (last :: up).reverse ≠ bn := by
  unfold getTemplate getTemplateAt at h
  by_cases hn : lexicallyRejected name = true
  · simp [hn] at h
  have hn' : lexicallyRejected name = false := by simpa using hn
  simp only [hn, Bool.false_eq_true, ↓reduceIte] at h
  injection h with h1 _
  unfold getTemplateFilesystemAt at h1
  simp only [hcache, List.lookup_nil, Snaps.const] at h1
  split at h1
  · cases h1
  rename_i resolved hw
  split at h1
  · cases h1
  rename_i hc
  split at h1
  · cases h1
  rename_i hr
  simp only [Bool.not_eq_true] at hc hr
  simp only [Bool.not_eq_eq_eq_not] at hc hr
  obtain ⟨last, up, d0, hk, hres, hg, hpre, hne, hmain, _⟩ :=
    resolve_named_const fs st.templatesRoot bn hroot name resolved hn' hw (by simpa using hc) (by simpa using hr)
  split at h1
  · cases h1
  · rename_i d' hd
    injection h1 with h1; subst h1
    exact ⟨last, up, by rw [hmain d' hd]; exact hk, hpre, hne⟩

/-- **A3 (embedded mode, with the EXTERNAL_DIR fallback), every interleaving point.** Bytes come from the registry entry of exactly
this path, or — only for a path of the externalised set — from a regular file strictly inside EXTERNAL_DIR (absolute, NUL-free,
`..`-free, resolving to the canonical directory `bn`, a directory when the file is opened; environment `LeafOnly`). -/
theorem A3_embedded (sn : Snaps) (r : Registry) (path : Bytes) (b : Blob) (a' : Assets)
    (h : getStaticAt sn (.embedded r) path = (.found b, a')) :
    (∃ a ∈ r.statics, a.path = path ∧ b.bytes = a.bytes ∧ b.gz = a.gz) ∨
    (isExternalPath r path = true ∧
      ∀ bn, isAbs r.externalDir = true → (0 : UInt8) ∉ r.externalDir → dotdot ∉ comps r.externalDir →
        weaklyCanonical sn.s r.externalDir = .ok (renderAbs bn) → (∀ n ∈ bn, Plain n) →
        LeafOnly sn (pathAppend r.externalDir path) bn → sn.o.get bn.reverse = some .dir → BlobInside sn bn b) := by
  unfold getStaticAt at h
  by_cases hn : lexicallyRejected path = true
  · simp [hn] at h
  · simp only [hn, Bool.false_eq_true, ↓reduceIte] at h
    injection h with h1 _
    exact getStaticEmbeddedAt_good sn r path b (by simpa using hn) h1


/-- non-vacuity of `A3_embedded`'s second disjunct, every hypothesis inhabited: EXTERNAL_DIR `/s` (absolute, NUL-free, `..`-free,
resolving to the canonical directory `/s`, a directory at the open), externalised set `{a, l}`; `a` is served from `/s/a`, the
escaping link `l` is rejected, a name outside the externalised set is not even looked for -/
def exReg : Registry := { externalDir := [47, 115], externalPaths := [[97], [108]] }
example : (getStaticAt (Snaps.const exFs) (.embedded exReg) [97]).1 = .found ⟨[7], Gen.Assets.mimeDefault, none⟩ ∧
    (getStaticAt (Snaps.const exFs) (.embedded exReg) [108]).1 = .rejected ∧
    (getStaticAt (Snaps.const exFs) (.embedded exReg) [105]).1 = .notFound ∧
    isExternalPath exReg [97] = true ∧ isAbs exReg.externalDir = true ∧ (0 : UInt8) ∉ exReg.externalDir ∧
    dotdot ∉ comps exReg.externalDir ∧ weaklyCanonical (Snaps.const exFs).s exReg.externalDir = .ok (renderAbs [[115]]) ∧
    (∀ n ∈ [[115]], Plain n) ∧ LeafOnly (Snaps.const exFs) (pathAppend exReg.externalDir [97]) [[115]] ∧
    (Snaps.const exFs).o.get [[115]].reverse = some .dir :=
  ⟨by decide, by decide, by decide, by decide, by decide, by decide, by decide, by rfl,
   fun n hn => (exRoot.plain n hn).1, leafOnly_const _ _ _ (by decide) (by decide) (by decide), by decide⟩

/-! ## A4 — the environment acts WHILE the lookup runs: every interleaving point -/

/-- **A4.** Every path-taking system call of the lookup sees its own file-system snapshot (`sn`); between them the environment does
anything `LeafOnly` allows — in particular it replaces the file named by the final path component (or its `.gz` sibling) by a
symbolic link to anywhere, at ANY of the points: before `realpath`, between `realpath`/containment and the regular-file test,
between that test and the `open`, before the sibling's test, before the sibling's `open`.  Bytes that are still returned are the
content of a regular file strictly inside the root IN THE SNAPSHOT OF THE OPEN THAT READ THEM. -/
theorem A4_every_point (sn : Snaps) (st : FsState) (bn : List Name) (path : Bytes) (b : Blob) (a' : Assets)
    (hroot : RootOK st.staticsRoot bn) (hcache : st.staticCache = [])
    (hL : LeafOnly sn (pathAppend st.staticsRoot path) bn)
    (h : getStaticAt sn (.filesystem st) path = (.found b, a')) : BlobInside sn bn b := by
  unfold getStaticAt at h
  by_cases hn : lexicallyRejected path = true
  · simp [hn] at h
  · simp only [hn, Bool.false_eq_true, ↓reduceIte] at h
    injection h with h1 _
    -- two instances of the lookup theorem: one predicate for the bytes, one for the gzip bytes
    have hg := getStaticFilesystemAt_good (fun d => Inside sn.o bn d ∨ Inside sn.z bn d) sn st path bn hroot hL
      (by simpa using hn) (fun d hd => Or.inl hd) (fun g hg => Or.inr hg) (by rw [hcache]; intro k e hm; simp at hm)
    -- the precise attribution (bytes from `o`, gzip from `z`) is read off the definition
    unfold getStaticFilesystemAt at h1
    simp only [hcache, List.lookup_nil] at h1
    split at h1
    · cases h1
    rename_i resolved hw
    split at h1
    · cases h1
    rename_i hc
    split at h1
    · cases h1
    simp only [Bool.not_eq_true] at hc
    simp only [Bool.not_eq_eq_eq_not] at hc
    have key : ∀ e, buildEntryAt sn.o sn.g sn.z resolved = some e → BlobInside sn bn (blobOf e path) := by
      intro e he
      unfold buildEntryAt at he
      split at he
      · cases he
      rename_i d hd
      injection he with he; subst he
      obtain ⟨h1', h2'⟩ := resolve_phases_inside sn st.staticsRoot bn hroot path resolved (by simpa using hn) hw
        (by simpa using hc) hL d hd
      refine ⟨h1', ?_⟩
      intro g hg'
      simp only [blobOf] at hg'
      split at hg'
      · exact h2' g hg'
      · cases hg'
    split at h1
    · split at h1
      · cases h1
      · rename_i e he; injection h1 with h1; subst h1; exact key e he
    · split at h1
      · cases h1
      · rename_i e he; injection h1 with h1; subst h1; exact key e he

/-- **A4 (the concrete swap).** Replacing the non-directory at ANY location `X` by another non-directory (a regular file by a
symbolic link to anywhere, say) just before ANY of the five points is an admissible environment — provided that, in the case
where the request did not exist at resolution time, `X` is the leaf of the resolved path or of its `.gz` sibling and the root is a
directory.  (If the request exists at resolution time there is no condition on `X` at all.) -/
theorem A4_leaf_swap_admissible (fs : Fs) (X : Loc) (e : Entry) (pt : Point) (p : Bytes) (bn : List Name)
    (h1 : fs.get X ≠ some .dir) (h2 : e ≠ .dir)
    (hm : status fs p = .notFound → ∀ r, weaklyCanonical fs p = .ok r →
      X ∈ leafLocs r ∧ fs.get bn.reverse = some .dir ∧ (fs.set X e).get bn.reverse = some .dir) :
    LeafOnly (Snaps.switchAt fs (fs.set X e) pt) p bn := by
  have hd := set_preserves_dirs fs X e h1
  cases pt <;>
  · refine ⟨?_, ?_, ?_⟩
    · first | exact dirsPreserved_refl _ | exact hd
    · first | exact dirsPreserved_refl _ | exact hd
    · intro hs r hw d _
      obtain ⟨hX, hr1, hr2⟩ := hm hs r hw
      refine ⟨?_, ?_, ?_⟩
      · first | exact agreeOff_refl _ _ | exact set_agreeOff fs X e _ hX h1 h2
      · first | exact agreeOff_refl _ _ | exact set_agreeOff fs X e _ hX h1 h2
      · first | exact hr1 | exact hr2

/-- non-vacuity and the five points at work: swapping the leaf `/s/a` for a link to the secret just before `realpath`, the
regular-file test, the `open`, the sibling test or the sibling `open` never yields the secret `[9]`; at the last two points the
main file was already read and `[7]` is served -/
example : DirsPreserved exFs exSwap ∧
    (getStaticAt (Snaps.switchAt exFs exSwap .C) (.filesystem exSt) [97]).1 = .rejected ∧
    (getStaticAt (Snaps.switchAt exFs exSwap .R) (.filesystem exSt) [97]).1 = .notFound ∧
    (getStaticAt (Snaps.switchAt exFs exSwap .O) (.filesystem exSt) [97]).1 = .notFound ∧
    (getStaticAt (Snaps.switchAt exFs exSwap .G) (.filesystem exSt) [97]).1 = .found ⟨[7], Gen.Assets.mimeDefault, none⟩ ∧
    (getStaticAt (Snaps.switchAt exFs exSwap .Z) (.filesystem exSt) [97]).1 = .found ⟨[7], Gen.Assets.mimeDefault, none⟩ :=
  ⟨set_preserves_dirs _ _ _ (by decide), by decide, by decide, by decide, by decide, by decide⟩

/-- the concrete leaf swap of the statement is an instance of `DirsPreserved` -/
theorem A4_swap_is_dirs_preserving (fs : Fs) (loc : Loc) (e : Entry) (h : fs.get loc ≠ some .dir) :
    DirsPreserved fs (fs.set loc e) := set_preserves_dirs fs loc e h

/-- the world after a NEW link `/s/new -> /o` appeared (nothing was replaced, every directory is still a directory) -/
def exNewLink : Fs := exFs.set [[110, 101, 119], [115]] (.link [47, 111])

/-- **What A4 does NOT cover, stated precisely (the code's documented residual).** A request for the NON-EXISTING path `new/x`:
`weakly_canonical` returns `/s/new/x` (existing prefix made canonical + remaining names kept lexically), which is lexically inside
the root; then the environment makes a new INTERMEDIATE symbolic link `/s/new -> /o` appear — a directory-preserving change that
is not confined to the leaf — and the regular-file test and the `open` follow it: the secret `[9]` is returned.  `O_NOFOLLOW`
guards only the final component. -/
theorem A4_residual_intermediate_link :
    DirsPreserved exFs exNewLink ∧
    (getStaticAt (Snaps.switchAt exFs exNewLink .R) (.filesystem exSt) [110, 101, 119, 47, 120]).1
      = .found ⟨[9], Gen.Assets.mimeDefault, none⟩ ∧
    (getStatic exNewLink (.filesystem exSt) [110, 101, 119, 47, 120]).1 = .rejected :=
  ⟨set_preserves_dirs _ _ _ (by decide), by decide, by decide⟩


/-- **A3 (embedded mode, templates).** An embedded `getTemplate` touches NO file system at all: whatever it returns is the bytes
of the registry entry of EXACTLY this name (the name passed the lexical filter), the answer is the same in every file-system
state, and the `Assets` value is unchanged.  (There is no EXTERNAL_DIR fallback for templates.) -/
theorem A3_embedded_template (sn : Snaps) (r : Registry) (name d : Bytes) (a' : Assets)
    (h : getTemplateAt sn (.embedded r) name = (some d, a')) :
    lexicallyRejected name = false ∧ (name, d) ∈ r.templates ∧ a' = .embedded r ∧
      ∀ sn', getTemplateAt sn' (.embedded r) name = (some d, a') := by
  have hall : ∀ sn', getTemplateAt sn' (.embedded r) name = getTemplateAt sn (.embedded r) name := fun _ => rfl
  unfold getTemplateAt at h
  by_cases hn : lexicallyRejected name = true
  · simp [hn] at h
  simp only [hn, Bool.false_eq_true, ↓reduceIte] at h
  injection h with h1 h2
  refine ⟨by simpa using hn, ?_, h2.symm, fun sn' => by rw [hall sn']; unfold getTemplateAt; simp [hn, h1, h2]⟩
  unfold findTemplate at h1
  split at h1
  · rename_i a rest hdw
    split at h1
    · rename_i heq
      injection h1 with h1
      have hmem : a ∈ r.templates := (List.dropWhile_suffix _).subset (by rw [hdw]; exact List.mem_cons_self ..)
      rw [← heq, ← h1]
      exact hmem
    · cases h1
  · cases h1

/-- non-vacuity: a registry with one template; a traversal name is refused before the table is even searched -/
example : (getTemplateAt (Snaps.const exFs) (.embedded { templates := [([116], [1, 2])] }) [116]).1 = some [1, 2] ∧
    (getTemplateAt (Snaps.const exFs) (.embedded { templates := [([46, 46, 47, 116], [1, 2])] }) [46, 46, 47, 116]).1 = none := by decide

/-- **A4 (templates).** The same as `A4_every_point` for `getTemplate` in filesystem mode: one snapshot per system call
(`status`, `realpath`, `is_regular_file`, `open`), environment `LeafOnly` in between; bytes that are returned fresh are the content
of a regular file strictly inside the template root IN THE SNAPSHOT OF THE OPEN. -/
theorem A4_every_point_template (sn : Snaps) (st : FsState) (bn : List Name) (name d : Bytes) (a' : Assets)
    (hroot : RootOK st.templatesRoot bn) (hcache : st.templateCache = [])
    (hL : LeafOnly sn (pathAppend st.templatesRoot name) bn)
    (h : getTemplateAt sn (.filesystem st) name = (some d, a')) : Inside sn.o bn d := by
  unfold getTemplateAt at h
  by_cases hn : lexicallyRejected name = true
  · simp [hn] at h
  simp only [hn, Bool.false_eq_true, ↓reduceIte] at h
  have hg := (getTemplateFilesystemAt_good (fun d => Inside sn.o bn d) sn st name bn hroot hL (by simpa using hn) (fun d hd => hd)
    (by rw [hcache]; intro k d hm; simp at hm)).1 d
  apply hg
  cases hx : getTemplateFilesystemAt sn st name with
  | mk r st' =>
    rw [hx] at h
    injection h with h1 _

/-- non-vacuity, at the point between the regular-file test and the `open`: the template `/t/a` is swapped for a link to the secret -/
def exFsT : Fs := { entries := [([[116]], .dir), ([[97], [116]], .file [7]), ([[111]], .dir), ([[120], [111]], .file [9])] }
def exSwapT : Fs := exFsT.set [[97], [116]] (.link [47, 111, 47, 120])
example : (getTemplateAt (Snaps.const exFsT) (.filesystem exSt) [97]).1 = some [7] ∧
    (getTemplateAt (Snaps.switchAt exFsT exSwapT .C) (.filesystem exSt) [97]).1 = none ∧
    (getTemplateAt (Snaps.switchAt exFsT exSwapT .R) (.filesystem exSt) [97]).1 = none ∧
    (getTemplateAt (Snaps.switchAt exFsT exSwapT .O) (.filesystem exSt) [97]).1 = none := by decide

/-- **A4, by LOCATION.** The bytes returned are not merely equal to the content of SOME file inside the root: they were read from
the object AT THE LOCATION the request named — the location `realpath(<root>/<name>)` ended at when it ran (or, when the request
did not exist at resolution time, a location below a root that is a directory at the open) — which has the root as component-wise
prefix; and the gzip bytes were read from the location next to it whose last name is `<last>.gz`. -/
theorem A4_every_point_located (sn : Snaps) (st : FsState) (bn : List Name) (path : Bytes) (b : Blob) (a' : Assets)
    (hroot : RootOK st.staticsRoot bn) (hcache : st.staticCache = [])
    (hL : LeafOnly sn (pathAppend st.staticsRoot path) bn)
    (h : getStaticAt sn (.filesystem st) path = (.found b, a')) :
    ∃ last up, sn.o.get (last :: up) = some (.file b.bytes) ∧ bn <+: (last :: up).reverse ∧
      ((∃ e, kwalk sn.c true (pathAppend st.staticsRoot path) = .ok (last :: up, e) ∧ sn.c.get (last :: up) = some e) ∨
        sn.o.get bn.reverse = some .dir) ∧
      ∀ g, b.gz = some g → sn.z.get ((last ++ Gen.Assets.gzSuffix) :: up) = some (.file g) := by
  unfold getStaticAt at h
  by_cases hn : lexicallyRejected path = true
  · simp [hn] at h
  simp only [hn, Bool.false_eq_true, ↓reduceIte] at h
  injection h with h1 _
  unfold getStaticFilesystemAt at h1
  simp only [hcache, List.lookup_nil] at h1
  split at h1
  · cases h1
  rename_i resolved hw
  split at h1
  · cases h1
  rename_i hc
  split at h1
  · cases h1
  simp only [Bool.not_eq_true] at hc
  simp only [Bool.not_eq_eq_eq_not] at hc
  have key : ∀ e, buildEntryAt sn.o sn.g sn.z resolved = some e →
      ∃ last up, sn.o.get (last :: up) = some (.file (blobOf e path).bytes) ∧ bn <+: (last :: up).reverse ∧
        ((∃ e', kwalk sn.c true (pathAppend st.staticsRoot path) = .ok (last :: up, e') ∧ sn.c.get (last :: up) = some e') ∨
          sn.o.get bn.reverse = some .dir) ∧
        ∀ g, (blobOf e path).gz = some g → sn.z.get ((last ++ Gen.Assets.gzSuffix) :: up) = some (.file g) := by
    intro e he
    unfold buildEntryAt at he
    split at he
    · cases he
    rename_i d hd
    injection he with he; subst he
    obtain ⟨last, up, hget, hpre, hwhy, hgz⟩ :=
      resolve_phases_loc sn st.staticsRoot st.staticsRoot bn path resolved hroot.abs hroot.no_nul hroot.no_dotdot hroot.ne hroot.eq
        (fun n hn' => (hroot.plain n hn').1) (by simpa using hn) hw (by simpa using hc) hL d hd
    refine ⟨last, up, hget, hpre, hwhy, ?_⟩
    intro g hg'
    simp only [blobOf] at hg'
    split at hg'
    · exact hgz g hg'
    · cases hg'
  split at h1
  · split at h1
    · cases h1
    · rename_i e he; injection h1 with h1; subst h1; exact key e he
  · split at h1
    · cases h1
    · rename_i e he; injection h1 with h1; subst h1; exact key e he

/-- the world after a NEW regular file `/s/new` (content `[5]`) appeared, and after a NEW link `/s/new -> /o/x` appeared -/
def exNewFile : Fs := exFs.set [[110, 101, 119], [115]] (.file [5])
def exNewLeafLink : Fs := exFs.set [[110, 101, 119], [115]] (.link [47, 111, 47, 120])

/-- **non-vacuity of the `missing` branch of `LeafOnly`** (the request does NOT exist when `weakly_canonical` runs): the leaf
`/s/new` is created while the lookup runs, just before the regular-file test.  This environment is `LeafOnly` (instance of
`A4_leaf_swap_admissible` whose third hypothesis is really used here); created as a regular file the lookup serves its bytes
`[5]` (inside the root), created as a link to the secret the `open(O_NOFOLLOW)` refuses it. -/
example : LeafOnly (Snaps.switchAt exFs exNewFile .R) (pathAppend exSt.staticsRoot [110, 101, 119]) [[115]] ∧
    LeafOnly (Snaps.switchAt exFs exNewLeafLink .O) (pathAppend exSt.staticsRoot [110, 101, 119]) [[115]] ∧
    status exFs (pathAppend exSt.staticsRoot [110, 101, 119]) = .notFound ∧
    (getStaticAt (Snaps.switchAt exFs exNewFile .R) (.filesystem exSt) [110, 101, 119]).1 = .found ⟨[5], Gen.Assets.mimeDefault, none⟩ ∧
    (getStaticAt (Snaps.switchAt exFs exNewLeafLink .R) (.filesystem exSt) [110, 101, 119]).1 = .notFound ∧
    (getStaticAt (Snaps.switchAt exFs exNewLeafLink .O) (.filesystem exSt) [110, 101, 119]).1 = .notFound := by
  have hw : weaklyCanonical exFs (pathAppend exSt.staticsRoot [110, 101, 119]) = .ok [47, 115, 47, 110, 101, 119] := by rfl
  refine ⟨?_, ?_, by decide, by decide, by decide, by decide⟩
  · refine A4_leaf_swap_admissible exFs _ _ .R _ _ (by decide) (by decide) ?_
    intro _ r hr
    rw [hw] at hr
    injection hr with hr
    subst hr
    decide
  · refine A4_leaf_swap_admissible exFs _ _ .O _ _ (by decide) (by decide) ?_
    intro _ r hr
    rw [hw] at hr
    injection hr with hr
    subst hr
    decide

/-! ## A0 — the configured roots -/

/-- **A0.** Whatever `fromDirectory` returns — root given absolute or relative to a sane working directory, with or without
trailing slash, through links, `static`/`templates` present, missing, a file, a link, a loop — has canonical absolute roots
(`/n1/…/nk` with ordinary NUL-free names) and empty caches: the hypotheses `RootOK` of A3/A4 are what the constructor delivers. -/
theorem A0_fromDirectory (fs : Fs) (root : Bytes) (per : Bool) (st : FsState) (hcwd : LocOK fs.cwd)
    (h : fromDirectory fs root per = some st) :
    ∃ bnS bnT, RootOK st.staticsRoot bnS ∧ RootOK st.templatesRoot bnT ∧ st.staticCache = [] ∧ st.templateCache = [] :=
  fromDirectory_inv fs root per st hcwd h

/-- non-vacuity: in `exFs` the constructor succeeds for the root `/` -/
example : (fromDirectory exFs [47] false).isSome = true := by decide

/-! ## A5 — the caches, over every history -/

/-- **A5 (every history).** Start from whatever `fromDirectory` returns (any file system, any spelling of the root).  For EVERY
sequence of `getStatic` / `getTemplate` (each with one snapshot per system call, environment `LeafOnly` while it runs) / `reload` /
arbitrary environment changes between lookups: every blob and every template ever returned — fresh or from a cache — consists of
bytes that were, at an open of some lookup of this history, the content of a regular file strictly inside the canonical static
(resp. template) root.  In particular a cache entry is only ever created from such bytes. -/
theorem A5_history (fs0 : Fs) (root : Bytes) (per : Bool) (st : FsState) (ops : List Op) (hcwd : LocOK fs0.cwd)
    (h : fromDirectory fs0 root per = some st) :
    ∃ bnS bnT, RootOK st.staticsRoot bnS ∧ RootOK st.templatesRoot bnT ∧
      (Valid bnS bnT ops → ∀ o ∈ hrun ⟨fs0, .filesystem st, []⟩ ops, OutGood bnS bnT o) := by
  obtain ⟨bnS, bnT, hS, hT, hc1, hc2⟩ := fromDirectory_inv fs0 root per st hcwd h
  refine ⟨bnS, bnT, hS, hT, fun hv => history_good bnS bnT ops _ ⟨st, rfl, hS, hT, ?_, ?_⟩ hv⟩
  · rw [hc1]; intro k e hm; simp at hm
  · rw [hc2]; intro k d hm; simp at hm

/-- a valid history: look `a` up, the environment rewrites the file, look it up again, reload, look it up again -/
def exOps : List Op := [.static [97] (Snaps.const exFs), .env exFs2, .static [97] (Snaps.const exFs2), .reload,
  .static [97] (Snaps.const exFs2)]
example : Valid [[115]] [[116]] exOps := by
  intro op hop
  simp only [exOps, List.mem_cons, List.mem_nil_iff, or_false] at hop
  rcases hop with rfl | rfl | rfl | rfl | rfl <;> simp only [OpOK] <;>
    first | trivial | exact leafOnly_const _ _ _ (by decide) (by decide) (by decide)

/-- **A5 (what the cache does NOT guarantee), stated precisely.** A cached entry outlives a change of the file: in the history
`exOps` the second lookup returns the OLD bytes `[7]` although `/s/a` now holds `[8]`; only `reload()` makes the new bytes
visible.  The stale bytes are still bytes that were inside the root (that is all `A5_history` claims). -/
theorem A5_cache_can_be_stale :
    (hrun ⟨exFs, .filesystem exSt, []⟩ exOps).map (fun o => match o.1 with | .static (.found b) => some b.bytes | _ => none)
      = [some [7], none, some [7], none, some [8]] ∧ exFs2.get [[97], [115]] = some (.file [8]) := by decide


/-- a world laid out the way `fromDirectory` expects it: `/static/a` holds `[7]`, `/templates/t` holds `[6]`, `/static/l -> /o/x` -/
def exFsD : Fs := { entries := [([[115, 116, 97, 116, 105, 99]], .dir), ([[97], [115, 116, 97, 116, 105, 99]], .file [7]),
    ([[116, 101, 109, 112, 108, 97, 116, 101, 115]], .dir), ([[116], [116, 101, 109, 112, 108, 97, 116, 101, 115]], .file [6]),
    ([[111]], .dir), ([[120], [111]], .file [9]), ([[108], [115, 116, 97, 116, 105, 99]], .link [47, 111, 47, 120])] }
def exOpsD : List Op := [.static [97] (Snaps.const exFsD), .template [116] (Snaps.const exFsD), .static [108] (Snaps.const exFsD),
  .reload, .static [97] (Snaps.const exFsD)]

/-- **non-vacuity of `A5_history`, tied to a `fromDirectory` RESULT**: the constructor succeeds on `exFsD` for the root `/` given
with a trailing `.`; the history `exOpsD` from ITS result is valid for the roots it computed and returns bytes (static `[7]`,
template `[6]`), refuses the escaping link, and serves `[7]` again after the reload. -/
example : ∃ st, fromDirectory exFsD [47, 46] false = some st ∧
    st.staticsRoot = renderAbs [[115, 116, 97, 116, 105, 99]] ∧ st.templatesRoot = renderAbs [[116, 101, 109, 112, 108, 97, 116, 101, 115]] ∧
    Valid [[115, 116, 97, 116, 105, 99]] [[116, 101, 109, 112, 108, 97, 116, 101, 115]] exOpsD ∧
    (hrun ⟨exFsD, .filesystem st, []⟩ exOpsD).map (fun o => match o.1 with
      | .static (.found b) => some b.bytes | .template (some d) => some d | _ => none) = [some [7], some [6], none, none, some [7]] := by
  refine ⟨_, rfl, by decide, by decide, ?_, by decide⟩
  intro op hop
  simp only [exOpsD, List.mem_cons, List.mem_nil_iff, or_false] at hop
  rcases hop with rfl | rfl | rfl | rfl | rfl <;> simp only [OpOK] <;>
    first | trivial | exact leafOnly_const _ _ _ (by decide) (by decide) (by decide)

/-- **A5 (re-validation).** A cache hit is not a bypass: whenever a filesystem-mode static lookup in a file system at rest returns
a blob — also from the cache — the name, resolved NOW, names a regular file strictly inside the root.  (A name whose file was
replaced by an escaping link is refused even though its old bytes are still cached.) -/
theorem A5_revalidated (fs : Fs) (st : FsState) (bn : List Name) (path : Bytes) (b : Blob)
    (hroot : RootOK st.staticsRoot bn) (hn : lexicallyRejected path = false)
    (h : (getStaticFilesystemAt (Snaps.const fs) st path).1 = .found b) :
    ∃ last up d0, kwalk fs true (pathAppend st.staticsRoot path) = .ok (last :: up, .file d0) ∧
      bn <+: (last :: up).reverse ∧ (last :: up).reverse ≠ bn := by
  unfold getStaticFilesystemAt at h
  simp only [Snaps.const] at h
  split at h
  · cases h
  rename_i resolved hw
  split at h
  · cases h
  rename_i hc
  simp only [Bool.not_eq_true] at hc
  simp only [Bool.not_eq_eq_eq_not] at hc
  by_cases hr : isRegularFile fs resolved = true
  case neg => simp [hr] at h
  obtain ⟨last, up, d0, hk, _, _, hpre, hne, _, _⟩ :=
    resolve_named_const fs st.staticsRoot bn hroot path resolved hn hw (by simpa using hc) (by simpa using hr)
  exact ⟨last, up, d0, hk, hpre, hne⟩

/-! ## Conformance of the regenerated facts with what the model and the proofs assume -/

theorem Gen_open_flags : Gen.Assets.openNoFollow = true ∧ Gen.Assets.openFlags = ["O_RDONLY", "O_NOFOLLOW", "O_CLOEXEC"] := by decide
theorem Gen_filter : Gen.Assets.emptyRejected = false ∧ Gen.Assets.forbiddenLeading = [47] ∧ Gen.Assets.forbiddenAnywhere = [0, 92] ∧
    Gen.Assets.segmentSeparator = 47 ∧ Gen.Assets.forbiddenSegments = [[46, 46]] := by decide
theorem Gen_contained : Gen.Assets.containedCmp = "!=" ∧ Gen.Assets.containedLit = [46, 46] := by decide
/-- the order of the security-relevant calls: resolve → contain → regular-file test → (cache) → open; the cache is consulted
only AFTER the validation of the current request -/
theorem Gen_call_order :
    Gen.Assets.getStaticCalls = ["lexicallyRejected", "getStaticEmbedded", "getStaticFilesystem"] ∧
    Gen.Assets.getTemplateCalls = ["lexicallyRejected", "findTemplate", "getTemplateFilesystem"] ∧
    Gen.Assets.getStaticFilesystemCalls = ["weakly_canonical", "isContained", "is_regular_file", "perRequestRead", "buildEntry",
      "staticCache.find", "buildEntry", "staticCache.find", "staticCache.emplace"] ∧
    Gen.Assets.getTemplateFilesystemCalls = ["weakly_canonical", "isContained", "is_regular_file", "templateCache.find", "readFile",
      "templateCache.find", "templateCache.emplace"] ∧
    Gen.Assets.getStaticEmbeddedCalls = ["findStatic", "isExternalPath", "weakly_canonical", "weakly_canonical", "isContained",
      "is_regular_file", "buildEntry"] ∧
    Gen.Assets.buildEntryCalls = ["readFile", "is_regular_file", "readFile"] ∧
    Gen.Assets.fromDirectoryCalls = ["fs::canonical", "fs::is_directory", "weakly_canonical", "weakly_canonical"] := by decide
/-- the lookups WITH their operands: which root is the containment base, what is canonicalised, what is tested and what is opened
(`isContained(base, candidate)`, `weakly_canonical(base)`, `readFile(candidate)` … change this list and break the build) -/
theorem Gen_skeleton :
    Gen.Assets.getStaticFilesystemSkel = ["base = _fs->staticsRoot", "candidate = _fs->staticsRoot / fs::path(std::string(path))", "resolved = fs::weakly_canonical(candidate, ec)", "isContained(base, resolved)", "is_regular_file(resolved, ec)", "buildEntry(resolved)", "blobFromEntry(std::move(entry), path)", "key = path", "blobFromEntry(it->second, path)", "buildEntry(resolved)", "blobFromEntry(chosen, path)"] ∧
    Gen.Assets.getTemplateFilesystemSkel = ["base = _fs->templatesRoot", "candidate = _fs->templatesRoot / fs::path(std::string(name))", "resolved = fs::weakly_canonical(candidate, ec)", "isContained(base, resolved)", "is_regular_file(resolved, ec)", "key = name", "readFile(resolved)"] ∧
    Gen.Assets.getStaticEmbeddedSkel = ["findStatic(path)", "isExternalPath(path)", "externalDir = std::string(_registry->externalDir)", "base = fs::weakly_canonical(externalDir, ec)", "candidate = externalDir / fs::path(std::string(path))", "resolved = fs::weakly_canonical(candidate, ec)", "isContained(base, resolved)", "is_regular_file(resolved, ec)", "buildEntry(resolved)", "blobFromEntry(std::move(entry), path)"] ∧
    Gen.Assets.buildEntrySkel = ["readFile(file)", "gz = file", "gz += \".gz\"", "is_regular_file(gz, ec)", "readFile(gz)"] ∧
    Gen.Assets.isContainedSkel = ["rel = target.lexically_relative(base);", "return false;", "return false;", "return *it != std::filesystem::path(\"..\");"] := by decide
/-- `static`, `templates`, `.gz` -/
theorem Gen_roots : Gen.Assets.staticsSub = [115, 116, 97, 116, 105, 99] ∧ Gen.Assets.templatesSub = [116, 101, 109, 112, 108, 97, 116, 101, 115] ∧
    Gen.Assets.gzSuffix = [46, 103, 122] := by decide


/-! ## A6 — the read loop of `readFile` -/

/-- **A6.** For EVERY way the kernel cuts a file into `read` answers — full buffers, SHORT reads of any length, any number of
`EINTR` failures in between — the loop returns exactly the concatenation of the bytes it was handed before the first `n == 0`
(nothing dropped, nothing repeated, whatever follows the EOF answer is never read).  `pre` is the list of answers before the
EOF: each a `data` chunk or an `eintr`. -/
theorem A6_read_loop (pre rest : List ReadEv) (h : ∀ e ∈ pre, e.benign = true) :
    readLoop [] (pre ++ .eof :: rest) = some (dataOf pre) := by
  simpa using readLoop_benign pre h [] rest

/-- **A6 (chunking is irrelevant).** Two runs whose answers carry the same bytes return the same result — in particular the run
the model of `readFile` uses (`kernelReads`: full buffers of the source's size, then EOF) stands for all of them: a file holding
`d` that nobody touches is returned as `d`. -/
theorem A6_chunking_irrelevant (d : Bytes) (pre : List ReadEv) (h : ∀ e ∈ pre, e.benign = true) (hd : dataOf pre = d) :
    readLoop [] (pre ++ [.eof]) = readLoop [] (kernelReads Gen.Assets.readBufSize d) ∧
    readLoop [] (kernelReads Gen.Assets.readBufSize d) = some d := by
  rw [readLoop_kernelReads, A6_read_loop pre [] h, hd]
  exact ⟨rfl, rfl⟩

/-- **A6 (errors).** Any failure other than `EINTR` before the EOF makes `readFile` give up with `nullopt`: a partial content is
never returned as if it were the file. -/
theorem A6_read_error (pre rest : List ReadEv) (h : ∀ e ∈ pre, e.benign = true) : readLoop [] (pre ++ .err :: rest) = none :=
  readLoop_error pre h [] rest

/-- non-vacuity: `[1,2,3,4,5]` read as `[1] EINTR [2,3] EINTR EINTR [4,5] EOF`; an I/O error after the first chunk; and the
zero-byte file -/
example : readLoop [] [.data [1], .eintr, .data [2, 3], .eintr, .eintr, .data [4, 5], .eof] = some [1, 2, 3, 4, 5] ∧
    readLoop [] [.data [1], .err, .data [2], .eof] = none ∧ readLoop [] [.eof] = some [] ∧
    kernelReads 2 [1, 2, 3, 4, 5] = [.data [1, 2], .data [3, 4], .data [5], .eof] := by decide

/-! ## MIME type (not part of containment; the table the model uses is the source's) -/

/-- the MIME type is the default or the second component of an entry of the source's table -/
theorem M1_mime_from_table (path : Bytes) :
    mimeFor path = Gen.Assets.mimeDefault ∨ ∃ e ∈ Gen.Assets.mimeTable, mimeFor path = e.2 := by
  unfold mimeFor
  simp only
  split
  · exact Or.inl rfl
  · split
    · rename_i e he
      exact Or.inr ⟨e, List.mem_of_find?_eq_some he, rfl⟩
    · exact Or.inl rfl

/-- the table has no two entries for the same extension (the linear scan's order does not matter), every key starts with `.` and is
lower-case (the comparison lowers the request's extension only... and the key), and the default is `application/octet-stream` -/
theorem Gen_mime : Gen.Assets.mimeDefault = "application/octet-stream" ∧ Gen.Assets.mimeTable.length = 21 ∧
    (Gen.Assets.mimeTable.map (·.1)).Nodup ∧
    Gen.Assets.mimeTable.all (fun e => e.1.toList.head? == some '.' && e.1.toList.all (fun c => !c.isUpper)) = true := by decide

/-! ## Conformance: the read loop, the census of file-system tokens, the lock skeleton -/

/-- the read loop as the model's `readLoop` assumes it: a 65536-byte buffer, `n > 0` appends, `n == 0` leaves the loop, `EINTR`
retries, any other error returns `nullopt` (`append` → `assign` or a dropped `continue` changes these and breaks `readLoop_benign`) -/
theorem Gen_read_loop : Gen.Assets.readBufSize = 65536 ∧ Gen.Assets.readAccumulate = "append" ∧ Gen.Assets.readAtEof = "break" ∧
    Gen.Assets.readRetryErrno = "EINTR" ∧ Gen.Assets.readAtRetryErrno = "continue" ∧ Gen.Assets.readAtError = "return std::nullopt" := by
  decide

/-- **census**: EVERY `fs::…(` / `std::filesystem::…(` call, every path-typed local, every global-namespace call (`::open`,
`::read`, `::close`), every stream / swap / `/=` token of the ten functions on the lookup paths — nothing else touches the file
system or can redirect a checked path (an added `fs::symlink_status`, `fs::canonical`, `fs::exists`, `read_symlink`, a second
`::open`, an `ifstream`, a new `fs::path joined` local … changes this list; `resolved.swap(x)`, `candidate /= x` are refused by
the translator outright) -/
theorem Gen_census : Gen.Assets.census = [
    ("fromDirectory", ["fs::path canonicalRoot", "fs::canonical()", "fs::is_directory()", "fs::filesystem_error()", "fs::weakly_canonical()", "fs::weakly_canonical()"]),
    ("getTemplate", []), ("getStatic", []), ("reload", []),
    ("isContained", ["fs::path rel", "fs::path()"]),
    ("readFile", ["::open()", "::close()", "::read()"]),
    ("buildEntry", ["fs::path gz", "fs::is_regular_file()"]),
    ("getStaticEmbedded", ["fs::path externalDir", "fs::path base", "fs::weakly_canonical()", "fs::path candidate", "fs::path()", "fs::path resolved", "fs::weakly_canonical()", "fs::is_regular_file()"]),
    ("getStaticFilesystem", ["fs::path base", "fs::path candidate", "fs::path()", "fs::path resolved", "fs::weakly_canonical()", "fs::is_regular_file()"]),
    ("getTemplateFilesystem", ["fs::path base", "fs::path candidate", "fs::path()", "fs::path resolved", "fs::weakly_canonical()", "fs::is_regular_file()"]),
    ("readFile#else", ["std::ifstream"])] := by decide

/-- the critical sections of the two caches: probe under the lock, build/read OUTSIDE it, second probe and insertion in ONE
critical section, insertion by `emplace` (never overwrites), no access outside a critical section; `reload` clears both under the lock -/
theorem Gen_lock_skeleton :
    Gen.Assets.staticCriticalSections = ["find,end", "find,end,emplace"] ∧ Gen.Assets.staticUnguardedAccesses = [] ∧
    Gen.Assets.templateCriticalSections = ["find,end", "find,end,emplace"] ∧ Gen.Assets.templateUnguardedAccesses = [] ∧
    Gen.Assets.staticBuildUnderLock = false ∧ Gen.Assets.templateReadUnderLock = false ∧
    Gen.Assets.staticCacheInsert = "emplace" ∧ Gen.Assets.templateCacheInsert = "emplace" ∧
    Gen.Assets.reloadUnderLock = true ∧ Gen.Assets.reloadClears = ["staticCache", "templateCache"] := by decide

end Iora.C20
