import IoraModel.Lemmas.HttpRetry
import IoraModel.Lemmas.HttpRetryCache
import IoraModel.Lemmas.HttpLease
import IoraModel.Lemmas.HttpClose
import IoraModel.Lemmas.HttpClientLife
import IoraModel.Lemmas.HttpRetryFraming
/-!
# C17 — The HTTP client transmits a non-idempotent request at most once

Property theorems only (helper lemmas live in `Lemmas/HttpRetry.lean`).  The model is `Model/HttpRetry.lean`; the
idempotent-method table, the exception classes, the catch order, the disjuncts of `retryEligible`, the budget test,
the receive-branch table and the conjuncts of `reusable` come from the regenerated `Gen/HttpRetry.lean`.

A *fault script* `rq.script : Nat → Attempt` gives, for every attempt, the environment's answer to every question the
code asks (lease, idle check, connect, mode switches, `sendSync`, each `receiveSync`+`frameResponse` iteration).  All
theorems quantify over every script, every client state, every method string, every budget (a signed `int`).
-/
namespace Iora.C17
open Iora Iora.HttpRetry

/-- **R1 (at most once).** For a method that is not in the idempotent table, every attempt except the last one ended in
`HttpRequestNotSentError` without having called `sendSync` (and without a single receive): the request is handed to the
transport in at most one attempt, and once an attempt has reached `sendSync` no further attempt is made — for every
budget, every fault script, every client state. -/
theorem R1_at_most_once (cfg : Cfg) (c : Client) (rq : Request) (hm : isIdempotent rq.method = false) :
    ∀ lg ∈ (performRequest cfg c rq).log.dropLast,
      lg.result = .error .notSent ∧ lg.reachedSend = false ∧ lg.receives = 0 := by
  intro lg hlg
  obtain ⟨e, hres, _, h⟩ := performLoop_retried cfg rq _ _ _ lg hlg
  rcases h with h | ⟨rfl, h1, h2⟩
  · rw [hm] at h; cases h
  · exact ⟨hres, h1, h2⟩

/-- R1, counted: at most one attempt of a non-idempotent request reaches `sendSync`. -/
theorem R1_send_count (cfg : Cfg) (c : Client) (rq : Request) (hm : isIdempotent rq.method = false) :
    (performRequest cfg c rq).log.countP (·.reachedSend) ≤ 1 :=
  countP_le_one_of_dropLast _ _ fun lg hlg => (R1_at_most_once cfg c rq hm lg hlg).2.1

/-- R1 on the engine trace: `engine->send` is called at most once for a non-idempotent request -/
theorem R1_trace (cfg : Cfg) (c : Client) (rq : Request) (hm : isIdempotent rq.method = false) :
    (performRequest cfg c rq).evs.countP isSend ≤ 1 := by
  have := performLoop_sends cfg rq (rq.retries.toNat + 2) 0 c
  unfold performRequest
  rw [this]
  exact R1_send_count cfg c rq hm

/-- non-vacuity: a POST whose first attempt is refused at connect and whose second attempt is reset after the request
was sent makes exactly two attempts, the first one not sent, and is not retried again although the budget is 5 -/
example :
    let rq : Request := { method := "POST", retries := 5,
                          script := fun i => if i = 0 then { connect := .refused } else { recvs := [.peerClosed none] } }
    isIdempotent rq.method = false ∧
    ((performRequest {} {} rq).log.map fun l => (l.reachedSend, l.receives)) = [(false, 0), (true, 1)] := by
  decide

/-- **R2 (budget).** For every method, at most `budget + 1` attempts (a negative budget counts as 0), and the model's own
recursion bound is never what stops the loop. -/
theorem R2_budget (cfg : Cfg) (c : Client) (rq : Request) :
    (performRequest cfg c rq).log.length ≤ rq.retries.toNat + 1 ∧ (performRequest cfg c rq).fuelOut = false := by
  constructor
  · have := performLoop_length cfg rq (rq.retries.toNat + 2) 0 c
    simpa [performRequest] using this
  · exact performLoop_fuel cfg rq _ 0 c (by omega)

/-- non-vacuity: an idempotent request against a peer that always resets uses the whole budget, no more -/
example :
    let rq : Request := { method := "GET", retries := 3, script := fun _ => { recvs := [.more, .peerClosed none] } }
    (performRequest {} {} rq).log.length = 4 := by
  decide

/-- **R3 (framing errors are final).** For EVERY method: an attempt that was followed by another attempt did not end in
`HttpFramingError`; so a framing error is always the last attempt, and (next theorem) it is what the caller gets. -/
theorem R3_framing_not_retried (cfg : Cfg) (c : Client) (rq : Request) :
    ∀ lg ∈ (performRequest cfg c rq).log.dropLast, lg.result ≠ .error .framing := by
  intro lg hlg hf
  obtain ⟨e, hres, hne, _⟩ := performLoop_retried cfg rq _ _ _ lg hlg
  rw [hres] at hf
  cases hf
  exact hne rfl

/-- the caller always gets the outcome of the last attempt -/
theorem R3_result_is_last (cfg : Cfg) (c : Client) (rq : Request) (lg : AttemptLog)
    (h : (performRequest cfg c rq).log.getLast? = some lg) : lg.result = (performRequest cfg c rq).result :=
  performLoop_result cfg rq _ 0 c lg (R2_budget cfg c rq).2 h

/-- what makes an attempt end in a framing error: once the request is sent, a malformed message, the response cap or a
sync-buffer overflow as the first event that is not "need more" -/
theorem R3_framing_outcomes (cfg : Cfg) (c : Client) (h : Host) (a : Attempt) (sid : Sid) (ev : RecvEv)
    (hl : a.lease = .granted) (hp : (preSend { c with leased := h :: c.leased } h a).2.1 = .ok sid) (hs : a.send = true)
    (hev : a.recvs.dropWhile isMore = ev :: rest) (hk : ev = .malformed ∨ ev = .capExceeded ∨ ev = .overflow) :
    (executeRequest cfg c true h a).2.1.result = .error .framing := by
  rw [exec_log_received cfg c h a sid hl hp hs]
  have : loopRes a.recvs = .fail .framing := by
    unfold loopRes
    rw [hev]
    rcases hk with rfl | rfl | rfl <;> rfl
  simp [this]

/-- non-vacuity + the idempotent case: a GET with budget 4 that meets a malformed response is not retried -/
example :
    let rq : Request := { method := "GET", retries := 4, script := fun _ => { recvs := [.more, .more, .malformed] } }
    (performRequest {} {} rq).log.length = 1 ∧
      (match (performRequest {} {} rq).result with | .error .framing => true | _ => false) = true := by
  decide

/-- **R4a (a failed attempt leaves nothing cached).** Whenever an attempt got the lease and ended in an error — connect
failure, mode-switch failure, send failure, time-out, peer close, framing error, overflow — the host has no cached
connection afterwards, so the next attempt or request connects afresh. (`cl` = sessions closed so far; `Inv` holds for
every reachable client, see R4c.) -/
theorem R4_failure_evicts {cl : List Sid} (cfg : Cfg) (c : Client) (hi : Inv cl c) (h : Host) (a : Attempt) (e : Exn)
    (hl : a.lease = .granted) (hr : (executeRequest cfg c true h a).2.1.result = .error e) :
    (executeRequest cfg c true h a).1.conns.lookup h = none := by
  have := exec_cache cfg hi h a hl
  rw [hr] at this
  exact this

/-- **R4b (what may stay cached).** If a connection is cached for the host after a successful attempt, then the client
allows reuse, the response did not signal close (`responseRequestsClose`: token list, HTTP/1.0 default), the framer saw
no surplus bytes, the body was not close-delimited, the transport held NO residue when it was probed (no received bytes
the framer was never handed, no peer close, no error — `residualDataPending`, repair FC17a), and the switch back to async
mode succeeded. -/
theorem R4_reuse_only_if {cl : List Sid} (cfg : Cfg) (c : Client) (hi : Inv cl c) (h : Host) (a : Attempt) (r0 : RespInfo)
    (hl : a.lease = .granted) (hr : (executeRequest cfg c true h a).2.1.result = .ok r0)
    (hc : (executeRequest cfg c true h a).1.conns.lookup h ≠ none) :
    ∃ r, loopRes a.recvs = .done r false false ∧ cfg.reuse = true ∧
      responseRequestsClose r.conn r.version = false ∧ a.residue = false ∧ a.setAsync = true := by
  have := exec_cache cfg hi h a hl
  rw [hr] at this
  obtain ⟨r, fe, cd, h1, h2, h3⟩ := this hc
  rw [reusable_eq] at h2
  simp only [Bool.and_eq_true, Bool.not_eq_true'] at h2
  obtain ⟨⟨⟨⟨h4, h5⟩, h6⟩, h7⟩, h8⟩ := h2
  subst h6 h7
  exact ⟨r, h1, h4, h5, h8, h3⟩

/-- **R4i (surplus the framer never saw).** `frameResponse` detects surplus only inside the bytes it has been handed, and
one `receiveSync` hands over at most 8192 bytes; bytes that follow a message ending exactly where a read ends stay in the
transport. Whatever the response looks like otherwise: if the transport still holds something when the reuse decision is
taken, nothing stays cached for the host. -/
theorem R4_residue_evicts {cl : List Sid} (cfg : Cfg) (c : Client) (hi : Inv cl c) (h : Host) (a : Attempt)
    (hl : a.lease = .granted) (hres : a.residue = true) :
    (executeRequest cfg c true h a).1.conns.lookup h = none := by
  cases hr : (executeRequest cfg c true h a).2.1.result with
  | error e => exact R4_failure_evicts cfg c hi h a e hl hr
  | ok r0 =>
    refine Classical.byContradiction fun hne => ?_
    obtain ⟨_, _, _, _, h4, _⟩ := R4_reuse_only_if cfg c hi h a r0 hl hr hne
    rw [hres] at h4
    cases h4

/-- non-vacuity: the same keep-alive response is kept without residue and evicted with it -/
example :
    (executeRequest {} {} true 0 { recvs := [.more, .complete {}] }).1.conns.lookup 0 = some 1 ∧
    (executeRequest {} {} true 0 { recvs := [.more, .complete {}], residue := true }).1.conns.lookup 0 = none := by
  decide

/-- **R4g (what "signals close" means).** The index loop of `responseRequestsClose` computes the RFC 7230 §6.1/§6.3 reading
for EVERY field value and version string: split the `Connection` value at commas, trim SP/HTAB, fold ASCII case; the
response signals close iff some element is exactly `close`, or no element is exactly `keep-alive` and the version is
`1.0`. (`connTokens`, `splitComma`, `segTok` are the specification, `Lemmas/HttpClose.lean`.) -/
theorem R4_close_signal_spec (v ver : Bytes) :
    responseRequestsClose (some v) ver =
      (decide (tokClose ∈ connTokens v) || (!decide (tokKeepAlive ∈ connTokens v) && decide (ver = [49, 46, 48]))) :=
  responseRequestsClose_spec v ver

/-- without a `Connection` field: HTTP/1.0 closes, everything else persists -/
theorem R4_close_signal_absent (ver : Bytes) : responseRequestsClose none ver = decide (ver = [49, 46, 48]) :=
  responseRequestsClose_absent ver

/-- `Connection: foo,	Close ` has the tokens `foo` and `close`; `x-close-hint` and `c lose` are not `close` -/
example : connTokens [102, 111, 111, 44, 9, 67, 108, 111, 115, 101, 32] = [[102, 111, 111], tokClose] ∧
    tokClose ∉ connTokens [120, 45, 99, 108, 111, 115, 101, 45, 104, 105, 110, 116] ∧
    tokClose ∉ connTokens [99, 32, 108, 111, 115, 101] ∧ connTokens [44, 32, 44] = [] := by decide

/-- a response that carries a `close` token is never kept, whatever else it says -/
theorem R4_close_token_evicts {cl : List Sid} (cfg : Cfg) (c : Client) (hi : Inv cl c) (h : Host) (a : Attempt)
    (r : RespInfo) (v : Bytes) (rest : List RecvEv) (hl : a.lease = .granted)
    (hev : a.recvs.dropWhile isMore = .complete r :: rest) (hv : r.conn = some v) (hc : tokClose ∈ connTokens v) :
    (executeRequest cfg c true h a).1.conns.lookup h = none := by
  cases hres : (executeRequest cfg c true h a).2.1.result with
  | error e => exact R4_failure_evicts cfg c hi h a e hl hres
  | ok r0 =>
    refine Classical.byContradiction fun hne => ?_
    obtain ⟨r', h1, _, h3, _, _⟩ := R4_reuse_only_if cfg c hi h a r0 hl hres hne
    have : loopRes a.recvs = .done r r.surplus false := by unfold loopRes; rw [hev]; rfl
    rw [this] at h1
    simp only [RecvRes.done.injEq] at h1
    obtain ⟨rfl, _, _⟩ := h1
    rw [hv, R4_close_signal_spec] at h3
    simp [hc] at h3

/-- **R4j (a kept connection saw no surplus bytes at all).** If a connection stays cached, the response was completed by
`frameResponse` itself (never by a peer close: not close-delimited), with no bytes beyond the message among those handed to
the framer, AND none left behind in the transport: surplus anywhere in what the client had received when it took the
decision evicts the connection. -/
theorem R4_surplus_or_close_delimited_never_kept {cl : List Sid} (cfg : Cfg) (c : Client) (hi : Inv cl c) (h : Host)
    (a : Attempt) (r0 : RespInfo) (hl : a.lease = .granted) (hr : (executeRequest cfg c true h a).2.1.result = .ok r0)
    (hc : (executeRequest cfg c true h a).1.conns.lookup h ≠ none) :
    ∃ r rest, a.recvs.dropWhile isMore = .complete r :: rest ∧ r.surplus = false ∧ a.residue = false := by
  obtain ⟨r, h1, _, _, h4, _⟩ := R4_reuse_only_if cfg c hi h a r0 hl hr hc
  unfold loopRes at h1
  split at h1
  · cases h1
  · rename_i e rest heq
    cases e with
    | complete r' =>
      simp only [terminalRes, RecvRes.done.injEq] at h1
      obtain ⟨h1a, h2, _⟩ := h1
      subst h1a
      exact ⟨r', rest, heq, h2, h4⟩
    | peerClosed cd => cases cd <;> simp [terminalRes] at h1
    | _ => simp [terminalRes] at h1

/-- **R4c (cache and trace invariants, every sequence of requests).** Starting from a fresh client, after ANY sequence of
requests (any methods, budgets, fault scripts — keep-alive sequences included): no session is connected or sent on after
it was closed/evicted; at most one connection is cached per host:port; no session is cached under two hosts; no cached
session was ever closed; and no lease is left held. -/
theorem R4_sequences (cfg : Cfg) (rqs : List Request) :
    let out := runRequests cfg {} rqs
    wellUsed [] out.2.1 ∧ Inv (closedAfter [] out.2.1) out.1 ∧ out.1.leased = [] := by
  have := step_runRequests (cl := []) cfg rqs {} Inv.init
  exact ⟨this.used, this.inv, this.leased⟩

/-- non-vacuity of R4: a keep-alive sequence — the second request reuses session 1 and meets `Connection: foo, Close`, the third
one therefore opens session 2 -/
example :
    let ok : RespInfo := {}
    let rqs : List Request :=
      [{ method := "GET", script := fun _ => { recvs := [.complete ok] } },
       { method := "POST", script := fun _ => { recvs := [.complete { ok with conn := some [102, 111, 111, 44, 32, 67, 108, 111, 115, 101] }] } },
       { method := "GET", script := fun _ => { recvs := [.more, .complete ok] } }]
    (runRequests {} {} rqs).2.1.filter (fun e => match e with | .acquire _ => false | .release _ => false | _ => true) =
      [.connect 0 1, .send 1, .send 1, .close 1, .connect 0 2, .send 2] := by
  decide

/-! ### Concurrent callers sharing one client (`Model/HttpLease.lean`): every schedule -/

/-- **R4d (one lease holder at a time, every interleaving).** Any number of threads issue requests on one client, any
methods/budgets/fault scripts, any schedule `sched` (which thread moves next; a thread whose host is leased is blocked).
In every reachable state, for every host:port the number of threads inside an exchange equals the number of lease
entries and is at most one. -/
theorem R4_one_lease_holder (cfg : Cfg) (rqs : List Request) (sched : List Nat) (h : Host) :
    let w := runSched cfg (World.init rqs) sched
    holders w.threads h = w.client.leased.count h ∧ holders w.threads h ≤ 1 := by
  have hw := (WorldInv.init rqs).run cfg sched
  have := hw.lease h
  exact ⟨this.1, by rw [this.1]; exact this.2⟩

/-- **R4e (cache and trace under every interleaving).** Whatever the schedule, no session is connected or sent on after it
was closed, at most one connection is cached per host:port, and no cached session was ever closed. -/
theorem R4_concurrent_trace (cfg : Cfg) (rqs : List Request) (sched : List Nat) :
    let w := runSched cfg (World.init rqs) sched
    wellUsed [] (traceOf w) ∧ Inv (closedAfter [] (traceOf w)) w.client := by
  have hw := (WorldInv.init rqs).run cfg sched
  exact ⟨hw.trace, hw.cache⟩

/-- **R1/R2/R3 for every caller under every interleaving.** For each thread, at every moment: every attempt that was
followed by another one failed with an error other than `HttpFramingError`, and — unless the method is idempotent — it was
`HttpRequestNotSentError` without `sendSync` and without a receive; a finished thread made at most `budget + 1` attempts and
returned the outcome of its last attempt. -/
theorem R123_concurrent (cfg : Cfg) (rqs : List Request) (sched : List Nat) :
    ∀ t ∈ (runSched cfg (World.init rqs) sched).threads, ThreadOK t :=
  ((WorldInv.init rqs).run cfg sched).threads

/-- **no deadlock on the lease.** In every reachable state in which some caller has not finished, some thread can make a step
that does work: a caller blocked in `acquireLease` waits for a lease whose holder can always move (the model does not cover
the condition-variable hand-off itself — that `releaseLease` erases under `_mutex` and notifies ALL waiters is a translator check). -/
theorem R4_no_deadlock (cfg : Cfg) (rqs : List Request) (sched : List Nat)
    (hun : ∃ t ∈ (runSched cfg (World.init rqs) sched).threads, t.finished = false) :
    ∃ i, (runSched cfg (World.init rqs) sched).work < (stepThread cfg (runSched cfg (World.init rqs) sched) i).work :=
  ((WorldInv.init rqs).run cfg sched).progress cfg hun

/-- reading `ThreadOK` for a finished thread with a non-idempotent method -/
theorem R1_concurrent_reading (t : Thread) (res : Except Exn RespInfo) (hpc : t.pc = .done res) (ht : ThreadOK t)
    (hm : isIdempotent t.rq.method = false) :
    t.log.length ≤ t.rq.retries.toNat + 1 ∧
    (∀ lg ∈ t.log.dropLast, lg.result = .error .notSent ∧ lg.reachedSend = false ∧ lg.receives = 0) ∧
    t.log.countP (·.reachedSend) ≤ 1 := by
  unfold ThreadOK at ht
  rw [hpc] at ht
  have h2 : ∀ lg ∈ t.log.dropLast, lg.result = .error .notSent ∧ lg.reachedSend = false ∧ lg.receives = 0 := by
    intro lg hlg
    obtain ⟨e, hres, _, hor⟩ := ht.2.1 lg hlg
    rcases hor with hor | ⟨rfl, h1, h2⟩
    · rw [hm] at hor; cases hor
    · exact ⟨hres, h1, h2⟩
  exact ⟨ht.1, h2, countP_le_one_of_dropLast _ _ fun lg hlg => (h2 lg hlg).2.1⟩

/-- non-vacuity: two POSTs and a GET to the same host, the GET's first exchange is cut after the request was sent; under
this schedule the three exchanges are serialised and the GET is retried on a new session -/
example :
    let ok : RespInfo := {}
    let rqs : List Request :=
      [{ method := "POST", script := fun _ => { recvs := [.complete ok] } },
       { method := "GET", retries := 1, script := fun i => if i = 0 then { recvs := [.peerClosed none] } else { recvs := [.complete ok] } },
       { method := "POST", script := fun _ => { recvs := [.more, .complete ok] } }]
    let w := runSched {} (World.init rqs) [0, 1, 2, 1, 0, 1, 1, 2, 1, 1, 2, 1, 1]
    w.threads.all Thread.finished = true ∧ w.client.leased = [] ∧
    (traceOf w).filter (fun e => match e with | .acquire _ => false | .release _ => false | _ => true) =
      [.connect 0 1, .send 1, .send 1, .close 1, .connect 0 2, .send 2, .send 2] := by
  decide

/-- **R5 (method matching).** `isIdempotentMethod` is exactly membership in the six-entry table, compared byte for byte:
no case folding, no prefix matching, no trimming. -/
theorem R5_exact (m : String) :
    isIdempotent m = true ↔ (m = "GET" ∨ m = "HEAD" ∨ m = "PUT" ∨ m = "DELETE" ∨ m = "OPTIONS" ∨ m = "TRACE") := by
  simp [isIdempotent, Gen.HttpRetry.idempotentMethods]

/-- every idempotent token is upper-case ASCII, so any method with another character is treated as non-idempotent -/
theorem R5_case_sensitive (m : String) (h : isIdempotent m = true) : m.toList.all Char.isUpper = true := by
  rcases (R5_exact m).1 h with rfl | rfl | rfl | rfl | rfl | rfl <;> decide

example : isIdempotent "get" = false ∧ isIdempotent "Get" = false ∧ isIdempotent "GETX" = false ∧ isIdempotent "GE" = false ∧
    isIdempotent " GET" = false ∧ isIdempotent "POST" = false ∧ isIdempotent "PATCH" = false := by decide

/-- the table agrees with RFC 9110 §9.2.2 (safe methods GET/HEAD/OPTIONS/TRACE plus PUT and DELETE) and every public entry
point has default budget 0 -/
theorem R5_table_and_defaults :
    Gen.HttpRetry.idempotentMethods = ["GET", "HEAD", "PUT", "DELETE", "OPTIONS", "TRACE"] ∧
    Gen.HttpRetry.entryPoints.all (fun e => decide (e.2.2.2 = 0)) = true := by
  decide

/-! ### The public API (every function with an `int retries` parameter) -/

/-- **P1 (entry-point table).** Every public entry point (every row the translator extracted: each function that calls
`performRequest` or another entry point) resolves — directly or by delegation — to ONE method handed to `performRequest`;
no name occurs twice; and the documented API keeps its documented methods (a NEW entry point does not break this statement,
a changed method of an existing one does). For every row the translator has checked that the body contains exactly ONE
request-issuing call, outside any try/catch and any loop, with the caller's unmodified `retries` as its budget. -/
theorem P1_entry_table :
    Gen.HttpRetry.entryPoints.all (fun e => (entryMethod 4 e.1).isSome) = true ∧
    (Gen.HttpRetry.entryPoints.map (·.1)).Nodup ∧
    [("get", "GET"), ("head", "HEAD"), ("postJson", "POST"), ("post", "POST"), ("deleteRequest", "DELETE"), ("getAsync", "GET"),
     ("postJsonAsync", "POST"), ("postStream", "POST"), ("postFile", "POST")].all
      (fun d => entryMethod 4 d.1 == some d.2) = true := by
  decide

/-- **P2 (every call site).** `Gen.requestCallers` lists EVERY textual call of `performRequest` / `executeRequest` in
http_client.hpp and http_client_pool.hpp (translator: a call anywhere else is a `TranslateError`). The only caller of
`executeRequest` is `performRequest`; every caller of `performRequest` is a row of the entry-point table whose recorded callee is
`performRequest`; no function contains two such calls; and every such row is a real call site. So there is no path to the wire
that bypasses the retry discipline of R1–R3, and no wrapper that calls the loop twice. -/
theorem P2_call_sites :
    (∀ p ∈ Gen.HttpRetry.requestCallers,
      (p.2 = "executeRequest" → p.1 = "performRequest") ∧
      (p.2 = "performRequest" → ∃ e ∈ Gen.HttpRetry.entryPoints, e.1 = p.1 ∧ e.2.1 = "performRequest") ∧
      (p.2 = "executeRequest" ∨ p.2 = "performRequest")) ∧
    (Gen.HttpRetry.requestCallers.map (·.1)).Nodup ∧
    (∀ e ∈ Gen.HttpRetry.entryPoints, e.2.1 = "performRequest" → (e.1, "performRequest") ∈ Gen.HttpRetry.requestCallers) ∧
    ("performRequest", "executeRequest") ∈ Gen.HttpRetry.requestCallers := by
  decide

/-- (unfolding of `publicCall`; the content of P2 is `P2_call_sites` above plus the translator's per-row checks) a public call is
exactly one run of the retry loop with the table's method and the caller's budget. -/
theorem P2_public_is_one_performRequest (cfg : Cfg) (c : Client) (fn : String) (rq : Request) (r : Run)
    (h : publicCall cfg c fn rq = some r) :
    ∃ m, entryMethod 4 fn = some m ∧ r = performRequest cfg c { rq with method := m } := by
  unfold publicCall at h
  cases hm : entryMethod 4 fn with
  | none => simp [hm] at h
  | some m => simp [hm] at h; exact ⟨m, rfl, h.symm⟩

/-- **R1 for the public API.** A call of `post`, `postJson`, `postFile`, `postStream`, `postJsonAsync` — any entry point
whose method is not in the idempotent table — with ANY budget and fault script: every attempt but the last ended in
`HttpRequestNotSentError` without `sendSync`, and at most one attempt reached `sendSync`. -/
theorem R1_public (cfg : Cfg) (c : Client) (fn : String) (rq : Request) (r : Run) (m : String)
    (h : publicCall cfg c fn rq = some r) (hm : entryMethod 4 fn = some m) (hi : isIdempotent m = false) :
    (∀ lg ∈ r.log.dropLast, lg.result = .error .notSent ∧ lg.reachedSend = false ∧ lg.receives = 0) ∧
    r.log.countP (·.reachedSend) ≤ 1 ∧ r.log.length ≤ rq.retries.toNat + 1 := by
  obtain ⟨m', hm', hr⟩ := P2_public_is_one_performRequest cfg c fn rq r h
  rw [hm] at hm'
  cases hm'
  subst hr
  exact ⟨R1_at_most_once cfg c { rq with method := m } hi, R1_send_count cfg c { rq with method := m } hi,
         (R2_budget cfg c { rq with method := m }).1⟩

example : entryMethod 4 "postStream" = some "POST" ∧ isIdempotent "POST" = false ∧ entryMethod 4 "put" = none := by decide

/-! ### Back-off and timed waits -/

/-- **no overflow in the back-off (repair FC17c).** `(1 << min(attempt, 16)) * 100 + jitter` fits a 32-bit `int` for EVERY
attempt number, so "any retry budget" stays inside defined behaviour (the unclamped `1 << attempt` overflows at attempt 25). -/
theorem Backoff_fits_int (attempt : Nat) : backoffHi attempt < 2 ^ 31 := by
  have h1 : backoffExp attempt ≤ 16 := by
    have : backoffExp attempt = min attempt 16 := by simp [backoffExp, Gen.HttpRetry.backoffShiftCap]
    rw [this]; exact Nat.min_le_right _ _
  have h2 : 2 ^ backoffExp attempt ≤ 2 ^ 16 := Nat.pow_le_pow_right (by decide) h1
  simp only [backoffHi, Gen.HttpRetry.backoffBaseMs, Gen.HttpRetry.jitterHi]
  omega

example : backoffLo 0 = 100 ∧ backoffHi 3 = 899 ∧ backoffHi 40 = backoffHi 16 := by decide

/-- **R6 (what each timed wait may cost).** The time-out expression of every timed wait on the request path, read from the
source: the lease wait is `leaseAcquireTimeout`, a connect to a loopback address `min(connectTimeout, 200 ms)`, every
receive `requestTimeout`, the residual-data probe 0 — for every configuration. -/
theorem R6_wait_budgets (t : Timeouts) :
    waitMs t "lease" = some t.lease ∧ waitMs t "connect" = some (min t.connect 200) ∧
    waitMs t "receive" = some t.request ∧ waitMs t "probe" = some 0 := by
  simp [waitMs, evalWait, Gen.HttpRetry.timedWaits, Gen.HttpRetry.localConnectCapMs, List.lookup]

/-- **R4k (scheme).** A cached connection whose TLS mode differs from the request's scheme (FC07a) — or that is idle — is
not handed out: it is closed and evicted first, and a new connection is opened in the request's mode. -/
theorem R4_other_mode_not_reused (c : Client) (h : Host) (a : Attempt) (sid : Sid)
    (hl : c.conns.lookup h = some sid) (hu : entryUsable c sid a = false) :
    acquireConnection c h a =
      ((connectNew { c with conns := eraseHost h c.conns } h a).1, (connectNew { c with conns := eraseHost h c.conns } h a).2.1,
       .close sid :: (connectNew { c with conns := eraseHost h c.conns } h a).2.2) := by
  simp [acquireConnection, hl, hu]

/-- non-vacuity: an http request caches session 1 in plain mode; an https request to the same host:port closes it and opens
session 2 -/
example :
    let c1 := (executeRequest {} {} true 0 { recvs := [.complete {}] }).1
    c1.conns.lookup 0 = some 1 ∧ entryUsable c1 1 { https := true } = false ∧
    (acquireConnection c1 0 { https := true }).2.2 = [.close 1, .connect 0 2] := by
  decide

/-- **R6 (step bound; the wall-clock part is measured by the harness).** An attempt makes at most one `receiveSync` call per
"need more" answer plus one; each call is bounded by `requestTimeout` (assumption on `Transport::receiveSync`, C03/C04). -/
theorem R6_receive_bound (cfg : Cfg) (c : Client) (urlOk : Bool) (h : Host) (a : Attempt) :
    (executeRequest cfg c urlOk h a).2.1.receives ≤ (a.recvs.takeWhile isMore).length + 1 :=
  exec_receives_le cfg c urlOk h a

/-- a peer that goes silent (a time-out, or simply no further event) ends the attempt with an error at that very receive -/
theorem R6_silence_ends_attempt (cfg : Cfg) (c : Client) (h : Host) (a : Attempt) (sid : Sid)
    (hl : a.lease = .granted) (hp : (preSend { c with leased := h :: c.leased } h a).2.1 = .ok sid) (hs : a.send = true)
    (hsil : a.recvs.dropWhile isMore = [] ∨ ∃ rest, a.recvs.dropWhile isMore = .timeout :: rest) :
    (executeRequest cfg c true h a).2.1 = ⟨.error .runtime, true, (a.recvs.takeWhile isMore).length + 1⟩ := by
  rw [exec_log_received cfg c h a sid hl hp hs]
  have : loopRes a.recvs = .fail .runtime := by
    unfold loopRes
    rcases hsil with h | ⟨rest, h⟩ <;> rw [h] <;> rfl
  simp [this]

example : (executeRequest {} {} true 0 { recvs := [.more, .more, .timeout, .complete {}] }).2.1.receives = 3 := by decide

/-! ### Extension round: parseUrl, pre-lease failures, the lease wait as a loop of wake-ups, cleanup -/

/-- **U1 (the port is a `uint16_t`).** Whatever the URL, the port `parseUrl` hands on — the one `connectSync` is called with AND
the one in the `host:port` cache/lease key — is below 65536. -/
theorem U1_port_in_range (u : UrlIn) (p : Nat) (h : parseUrlPort u = .ok p) : p < 65536 := parseUrlPort_lt u p h

/-- **U2 (observation: the port wraps).** `static_cast<std::uint16_t>(std::stoi(...))`: an explicit port `p + 65536` (that still
fits `int`) is the SAME port, the same connection and the same cache key as `p` — `http://h:65616/` is sent to port 80. Not a
clause of C17 (request and cache key agree, so nothing is reused wrongly); recorded as the behaviour of the code. -/
theorem U2_port_wraps (u : UrlIn) (p : Nat) (h : p + 65536 ≤ 2147483647) :
    parseUrlPort { u with port := some (p + 65536) } = parseUrlPort { u with port := some p } :=
  parseUrlPort_wrap u p h

example : parseUrlPort { port := some 65616 } = .ok 80 ∧ parseUrlPort { port := some 99999999999 } = .error .other ∧
    parseUrlPort { wellFormed := false } = .error .invalidArg ∧ parseUrlPort { https := true } = .ok 443 :=
  ⟨by rfl, by rfl, by rfl, by rfl⟩

/-- **U3 (a URL that does not parse sends nothing, within the budget).** `parseUrl` throws `std::invalid_argument` (no match) or
`std::out_of_range` (port beyond `int`) — nothing else — before the lease is taken; whichever it is: at most `budget + 1`
calls of `executeRequest`, exactly ONE for a non-idempotent method (an idempotent method re-tries the deterministic failure:
observation). For `invalid_argument` the count is the one of the full model, which makes no engine call and leaves the client
unchanged. -/
theorem U3_url_failure (u : UrlIn) (e : Exn) (m : String) (retries : Int) (h : parseUrlPort u = .error e) :
    (e = .invalidArg ∨ e = .other) ∧ failAttempts m retries e ≤ retries.toNat + 1 ∧
    (isIdempotent m = false → failAttempts m retries e = 1) := by
  have he := parseUrlPort_error u e h
  refine ⟨he, ?_, ?_⟩
  · have := failLoop_le m retries e (retries.toNat + 2) 0
    simpa [failAttempts] using this
  · intro hm
    exact failLoop_not_eligible m retries e (retries.toNat + 1) 0 hm (by rcases he with rfl | rfl <;> decide)

theorem U3_tie (cfg : Cfg) (c : Client) (rq : Request) (hu : rq.urlOk = false) :
    (performRequest cfg c rq).log.length = failAttempts rq.method rq.retries .invalidArg ∧
    (performRequest cfg c rq).evs = [] ∧ (performRequest cfg c rq).client = c :=
  performLoop_urlFail cfg rq hu (rq.retries.toNat + 2) 0 c

example : failAttempts "GET" 3 .other = 4 ∧ failAttempts "POST" 3 .other = 1 := by decide

/-- **R6 (lease wait, every wake-up pattern).** `acquireLease` with `leaseAcquireTimeout = d > 0`: however often and whenever the
waiter is woken — by `notify_all` of exchanges with OTHER hosts, spuriously, by `cleanup` — the wait is over no later than `d`
after it began; a time-out is reported at exactly `d`; and the lease is granted only by a wake-up (or the entry test) that saw the
host free and the client not closing. (The model's deadline is DEFINED from the extracted form of the wait: with a loop that re-arms
`wait_for(lock, d)` after each wake-up this theorem does not build.) -/
theorem R6_lease_wait_bounded (d : Nat) (free0 closing0 : Bool) (wakes : List Wake) :
    (acquireLeaseTimed d free0 closing0 wakes).time ≤ d ∧
    (∀ t, acquireLeaseTimed d free0 closing0 wakes = .timedOut t → t = d) ∧
    ((acquireLeaseTimed d free0 closing0 wakes).ans = .granted →
      closing0 = false ∧ (free0 = true ∨ ∃ w ∈ wakes, w.free = true ∧ w.closing = false)) := by
  unfold acquireLeaseTimed
  cases closing0 with
  | true => simp [LeaseOut.time, LeaseOut.ans]
  | false =>
    cases free0 with
    | true => simp [LeaseOut.time, LeaseOut.ans]
    | false =>
      have := leaseLoop_bound d 0 wakes 0 (Nat.zero_le _)
      simpa using this

/-- the seeded scenario (C17-d): a caller completes an exchange with ANOTHER host every `step` ms, `n` times, each release waking
the same-host waiter; the host stays leased: the waiter times out at exactly `d`, whatever `step` and `n` -/
theorem R6_lease_wait_foreign_wakeups (d step n : Nat) :
    acquireLeaseTimed d false false (foreignWakes step n 0) = .timedOut d := by
  have := leaseLoop_held d 0 (foreignWakes step n 0) 0 (Nat.zero_le _) (foreignWakes_held step n 0)
  simpa [acquireLeaseTimed] using this

/-- non-vacuity: seven wake-ups 40 ms apart do not move a 250 ms deadline; a wake-up that sees the host free grants at once; one that
comes after the deadline is too late even if the host is free by then... unless it is what the deadline check itself sees -/
example : acquireLeaseTimed 250 false false (foreignWakes 40 7 0) = .timedOut 250 ∧
    acquireLeaseTimed 250 false false [⟨40, false, false⟩, ⟨80, true, false⟩] = .granted 80 ∧
    acquireLeaseTimed 250 false false [⟨40, false, false⟩, ⟨90, false, true⟩] = .closing 90 ∧
    acquireLeaseTimed 250 false false [⟨300, true, false⟩] = .granted 250 ∧
    acquireLeaseTimed 250 true false [] = .granted 0 := by decide

/-- **L1 (cleanup).** `cleanup()` sets `_closing` for good, closes exactly the cached sessions and leaves an empty cache. -/
theorem L1_cleanup (lc : LClient) :
    (cleanup lc).1.closing = true ∧ (cleanup lc).1.client.conns = [] ∧
    (cleanup lc).2 = lc.client.conns.map (fun p => Ev.close p.2) :=
  ⟨(cleanup_spec lc).1, (cleanup_spec lc).2.1, (cleanup_spec lc).2.2.1⟩

/-- **L2 (a cleaned-up client is dead, safely).** After `cleanup()` EVERY request — any method, budget, script — makes no engine call
at all (no connect, no send: nothing reaches the wire), leaves the cache empty, reaches `sendSync` in no attempt, makes at most
`budget + 1` attempts, and (URL well-formed) ends in `std::runtime_error`. -/
theorem L2_after_cleanup_every_request_fails (cfg : Cfg) (lc : LClient) (rq : Request) :
    let lc' := (cleanup lc).1
    let r := performRequestL cfg lc' rq
    r.evs = [] ∧ r.client.conns = [] ∧ (∀ lg ∈ r.log, lg.reachedSend = false ∧ lg.receives = 0) ∧
    r.log.length ≤ rq.retries.toNat + 1 ∧ (rq.urlOk = true → r.result = .error .runtime) := by
  intro lc' r
  have hcl : lc'.closing = true := (cleanup_spec lc).1
  have hcn : lc'.client.conns = [] := (cleanup_spec lc).2.1
  have hr : r = performRequest cfg lc'.client (forceClosing rq) := by
    show performRequestL cfg lc' rq = _
    simp [performRequestL, hcl]
  have hall : ∀ i, ((forceClosing rq).script i).lease = .closing := fun _ => rfl
  obtain ⟨h1, h2, h3, h4⟩ := performLoop_closing cfg (forceClosing rq) hall ((forceClosing rq).retries.toNat + 2) 0 lc'.client
  have hf := performLoop_fuel cfg (forceClosing rq) ((forceClosing rq).retries.toNat + 2) 0 lc'.client (by omega)
  have hlen := performLoop_length cfg (forceClosing rq) ((forceClosing rq).retries.toNat + 2) 0 lc'.client
  rw [hr]
  refine ⟨h1, ?_, h3, ?_, ?_⟩
  · show (performLoop cfg (forceClosing rq) _ 0 lc'.client).client.conns = []
    rw [h2]; exact hcn
  · simpa [performRequest, forceClosing] using hlen
  · intro hu
    exact h4 hf hu

/-- non-vacuity: a client with a cached connection; cleanup closes session 1; a GET with budget 2 then fails three times at the lease -/
example :
    let c1 := (executeRequest {} {} true 0 { recvs := [.complete {}] }).1
    let lc := (cleanup { client := c1 }).1
    (cleanup { client := c1 }).2 = [.close 1] ∧
    (performRequestL {} lc { method := "GET", retries := 2, script := fun _ => { recvs := [.complete {}] } }).log.length = 3 ∧
    (performRequestL {} lc { method := "POST", retries := 2, script := fun _ => { recvs := [.complete {}] } }).log.length = 1 := by
  decide

/-- **G (skeleton facts the model relies on but does not compute with).** Pinned here so that a change of any of them stops the
build: what runs before / inside the pre-send region, the comparison of the response cap, `receiveSync` never reports success
with zero bytes, and every thrown type on the request path is one the model knows. -/
theorem G_skeleton_pins :
    Gen.HttpRetry.beforePreSend = ["parseUrl", "acquireLease"] ∧
    Gen.HttpRetry.preSendCalls = ["acquireConnection", "setReadMode", "dropConnection"] ∧
    Gen.HttpRetry.capCmp = ">" ∧ Gen.HttpRetry.receiveOkHasBytes = true ∧
    Gen.HttpRetry.leaseWaitForm = "wait_for_pred" ∧
    exnOfName Gen.HttpRetry.portRangeThrow = .other ∧ exnOfName Gen.HttpRetry.urlFailThrow = .invalidArg := by
  decide

/-! ### Link to the byte-level model of the response framer (C15's `Model/HttpClientFraming.lean`, imported read-only) -/

/-- **R4 (bytes): the two models of the reuse decision are one.** For every method, cap, `reuseConnections`, every script of
`receiveSync` answers carrying the RECEIVED BYTES, every client state and host: C15's byte-level `executeReceive` drops the
connection iff C17's `underLease` — run on the attempt ABSTRACTED from the same bytes (`Link.absAttempt`: one `RecvEv` per
`receiveSync`, `surplus` = the framer's `forceEvict`, `residue` = bytes left unread in the transport, `conn`/`version` = what
`parseHeaderBlock` extracted) — leaves nothing cached for the host; and the result classes agree. `RespInfo.conn/version/surplus`
and `Attempt.residue` are therefore no longer free inputs: they are functions of the bytes. -/
theorem R4_bytes_reuse_decision_agrees (method : Bytes) (mrb jmp : Nat) (reuse : Bool) (script : List Http.Recv)
    (c : Client) (h : Host) :
    (((Http.executeReceive method mrb jmp reuse script).2 = true) ↔
      ((underLease { reuse := reuse } c h (Link.absAttempt method (Http.effectiveCap mrb jmp) script)).1.conns.lookup h = none)) ∧
    (underLease { reuse := reuse } c h (Link.absAttempt method (Http.effectiveCap mrb jmp) script)).2.1.result =
      Link.absResult (Http.executeReceive method mrb jmp reuse script).1 :=
  Link.reuse_decision_agrees method mrb jmp reuse script c h

/-- the two Lean readings of the C++ `responseRequestsClose` (C15: split/trim/lower/contains; C17: the index loop) agree on
every parsed response -/
theorem R4_bytes_close_signal_agrees (r : Http.Resp) :
    Http.responseRequestsClose r = responseRequestsClose (Http.hdrFind r.headers (Http.ascii "Connection")) r.version :=
  Link.rrc_agree r

/-- **R4 (bytes): any received byte beyond the message ⇒ not cached.** If the byte-level run ends in a response and ANY received
byte lies beyond the framed message — handed to the framer (`forceEvict`) or left in the transport (`residual`) — nothing is
cached for the host afterwards, whatever the client state and configuration. -/
theorem R4_bytes_beyond_message_not_cached (method : Bytes) (mrb jmp : Nat) (reuse : Bool) (script : List Http.Recv)
    (c : Client) (h : Host) (st : Http.St) (r : Http.Resp) (fe residual : Bool)
    (hrun : Http.runScript method (Http.effectiveCap mrb jmp) {} script = (st, .response r fe, residual))
    (hbeyond : st.forceEvict = true ∨ fe = true ∨ residual = true) :
    (underLease { reuse := reuse } c h (Link.absAttempt method (Http.effectiveCap mrb jmp) script)).1.conns.lookup h = none :=
  Link.received_byte_beyond_message_not_cached method mrb jmp reuse script c h st r fe residual hrun hbeyond

/-- non-vacuity (concrete bytes): a keep-alive `Content-Length: 0` response followed by ONE surplus byte in the same delivery is
not cached; the same response without that byte is -/
theorem R4_bytes_demo :
    (underLease { reuse := true } {} 0 (Link.absAttempt (Http.ascii "GET") (Http.effectiveCap 1048576 0)
      [.data (Link.demoResp ++ [88])])).1.conns.lookup 0 = none ∧
    (underLease { reuse := true } {} 0 (Link.absAttempt (Http.ascii "GET") (Http.effectiveCap 1048576 0)
      [.data Link.demoResp])).1.conns.lookup 0 ≠ none := by
  exact ⟨Link.demo_surplus_not_cached, Link.demo_exact_cached⟩

/-- **R6 (the list of timed waits is complete; observation on DNS).** Besides lease / connect / receive / probe the request path
has two more timed waits: `sendSync`, bounded by `requestTimeout` like every receive, and — only for a host NAME other than
`localhost` — the DNS look-up inside `resolveHostAddress`, whose length is `DnsClient`'s own default (5 s per query, 3 retries,
A and AAAA in turn), which NO `HttpClient::Config` value bounds (observation: the clause "configured timeout" has no handle on
it; a resolution failure falls through to `connectSync` with the literal name). -/
theorem R6_send_and_dns_waits (t : Timeouts) :
    waitMs t "send" = some t.request ∧ Gen.HttpRetry.timedWaits.lookup "dns" = some "dnsClientDefaults" ∧ waitMs t "dns" = none ∧
    Gen.HttpRetry.timedWaits.length = 6 := by
  simp [waitMs, evalWait, Gen.HttpRetry.timedWaits, List.lookup]

/-- **S1 (transport start failure).** `ensureInitialized()` runs before the retry loop: when the transport cannot be started the
caller gets `std::runtime_error` after ZERO attempts — no `executeRequest` call, no engine call, client unchanged — whatever the
method and budget (a start failure is not retried even for an idempotent method); otherwise the call is the loop of L2/R1–R6. -/
theorem S1_start_failure_no_attempt (cfg : Cfg) (lc : LClient) (rq : Request) :
    (performRequestS cfg lc false rq).log = [] ∧ (performRequestS cfg lc false rq).evs = [] ∧
    (performRequestS cfg lc false rq).client = lc.client ∧ (performRequestS cfg lc false rq).result = .error .runtime ∧
    performRequestS cfg lc true rq = performRequestL cfg lc rq := by
  have : exnOfName Gen.HttpRetry.startFailThrow = .runtime := by decide
  simp [performRequestS, this]

/-- **R3 (bytes): an announced chunk-size above the response cap is a framing error AT THE SIZE LINE** (seed C17-e).
(1) the source rejects right after the chunk-size parse, before it waits for the chunk data, when the number does not parse OR
`chunkSize > effectiveCap` (regenerated fact `Gen.chunkSizeReject`: moving the cap test behind the data makes this fail to build);
(2) the byte-level model (C15's `sizeLine`, mirrored from that test) accepts a size line only for a size within the cap;
(3) so `advanceChunked` answers NeedMore after a complete size line — i.e. the attempt goes on to another `receiveSync`, which a
silent or closing peer ends with a RETRYABLE generic error — only for an announced size within the cap;
(4) and whatever the byte-level loop classifies as a framing error is `HttpFramingError` in this model (never retried: R3), with the
connection dropped. -/
theorem R3_bytes_chunk_size_above_cap_is_framing_error :
    ("chunkSize>effectiveCap" ∈ Gen.HttpRetry.chunkSizeReject ∧ Gen.HttpRetry.chunkRejectBeforeDataWait = true) ∧
    (∀ (buf : Bytes) (cap pos n ds : Nat), Http.sizeLine buf cap pos = .ok n ds → n ≤ cap) ∧
    (∀ (buf : Bytes) (cap : Nat) (st : Http.ChunkState), Http.chunkStep buf cap st = .needMore →
      Http.sizeLine buf cap st.pos = .noLF ∨ ∃ n ds, Http.sizeLine buf cap st.pos = .ok n ds ∧ n ≤ cap) ∧
    (∀ (method : Bytes) (mrb jmp : Nat) (reuse : Bool) (script : List Http.Recv) (c : Client) (h : Host) (k : Http.Kind),
      (Http.executeReceive method mrb jmp reuse script).1 = .framingError k →
      (underLease { reuse := reuse } c h (Link.absAttempt method (Http.effectiveCap mrb jmp) script)).2.1.result = .error .framing ∧
      (underLease { reuse := reuse } c h (Link.absAttempt method (Http.effectiveCap mrb jmp) script)).1.conns.lookup h = none) := by
  refine ⟨by decide, Link.sizeLine_ok_le_cap, Link.chunkStep_needMore_within_cap, ?_⟩
  intro method mrb jmp reuse script c h k hk
  have hl := Link.reuse_decision_agrees method mrb jmp reuse script c h
  have hdrop : (Http.executeReceive method mrb jmp reuse script).2 = true := by
    revert hk
    unfold Http.executeReceive
    simp only
    cases hrun : Http.runScript method (Http.effectiveCap mrb jmp) {} script with
    | mk st or =>
      obtain ⟨o, residual⟩ := or
      cases o <;> simp
  exact ⟨by rw [hl.2, hk]; rfl, hl.1.mp hdrop⟩

/-- non-vacuity with concrete bytes: `7FFFFFFF`, `FFFFFFFFFFFFFFFF` and cap + 1 are Malformed at the size line with the default cap,
exactly the cap is NeedMore -/
theorem R3_bytes_chunk_demo :
    Http.chunkStep Link.demoChunkOverCap 16777216 {} = .malformed ∧
    Http.chunkStep (Http.ascii "FFFFFFFFFFFFFFFF\r\nhello") 16777216 {} = .malformed ∧
    Http.chunkStep (Http.ascii "1000001\r\nhello") 16777216 {} = .malformed ∧
    Http.chunkStep (Http.ascii "1000000\r\nhello") 16777216 {} = .needMore ∧
    (Http.advanceChunked Link.demoChunkOverCap 16777216 {}).1 = .malformed :=
  ⟨Link.demo_chunk_over_cap_step.1, Link.demo_chunk_over_cap_step.2.1, Link.demo_chunk_over_cap_step.2.2.1,
   Link.demo_chunk_over_cap_step.2.2.2, Link.demo_chunk_over_cap_advance⟩

end Iora.C17
