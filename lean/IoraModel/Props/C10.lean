import IoraModel.Lemmas.RingBuffer
import IoraModel.Model.BqSkel
import IoraModel.Lemmas.RingSpsc
import IoraModel.Lemmas.BlockingQueue
import IoraModel.Lemmas.BlockingQueueLogs
import IoraModel.Lemmas.BlockingQueueBroadcast
import IoraModel.Lemmas.BlockingQueueDestroy
import IoraModel.Lemmas.BlockingQueueClosedPush
import IoraModel.Lemmas.RingSpscObs
import IoraModel.Lemmas.RingThrow
import IoraModel.Model.BqSkelTrace
/-!
# C10 — Bounded queues are FIFO, lossless, capacity-bounded and race-free

Property theorems only (helper lemmas live in `Lemmas/RingBuffer.lean`, `Lemmas/BlockingQueue.lean`, `Lemmas/RingSpsc.lean`).
-/
namespace Iora.C10
open Iora

/-! ## Ring buffers, sequential (R1) -/

/-- **R1 (sequential refinement).** For every capacity `2^k`, every well-formed ring state and EVERY history of
`tryPush / tryPop / peek / tryPushBatch / tryPopBatch / size / empty / full / capacity / clear / resize` (both ring
classes share the algorithm), the ring answers exactly like the bounded FIFO it stands for and stays well-formed — slot
wrap (`& mask`) and batches across the wrap included.  Hypotheses: the counters do not overflow
(`_head + total pushed < 2^64`, stated on the history) and resize requests are `≤ 2^63`. -/
theorem R1_ring_refines_fifo {α : Type} (ops : List (Ring.Op α)) (r : Ring.Ring α) (h : Ring.WF r)
    (hov : r.head.toNat + Ring.totalWeight ops < 2 ^ 64) (hrs : Ring.resizesOk ops) :
    Ring.WF (Ring.run r ops).1 ∧ (Ring.abs r).run ops = (Ring.abs (Ring.run r ops).1, (Ring.run r ops).2) :=
  Ring.run_refines ops r h hov hrs

/-- non-vacuity: fresh rings of both classes are well-formed (static: any power of two; dynamic: any request `≤ 2^63`) and empty -/
example : Ring.WF (Ring.mkStatic (0 : Nat) 64) := Ring.mkStatic_wf 0 64 6 (by decide) (by decide)
example (req : UInt64) (h : req.toNat ≤ 2 ^ 63) : Ring.WF (Ring.mkDynamic (0 : Nat) req) := Ring.mkDynamic_wf 0 req h
example : (Ring.abs (Ring.mkDynamic (0 : Nat) 5)).items = [] := by simp [Ring.mkDynamic, Ring.mkStatic_abs]

/-- **R1 (capacity).** A well-formed ring never holds more than `capacity` items and never computes a slot index outside
the buffer. -/
theorem R1_ring_bounded {α : Type} (r : Ring.Ring α) (h : Ring.WF r) :
    (Ring.abs r).items.length ≤ r.cap.toNat ∧ ∀ c : UInt64, Ring.slot r c < r.cap.toNat :=
  ⟨by rw [Ring.abs_len h]; exact h.bound, Ring.slot_lt h⟩

/-- `nextPowerOfTwo` returns the least power of two `≥ v` for every `v ≤ 2^63` -/
theorem R1_nextPowerOfTwo (v : UInt64) (hv : v.toNat ≤ 2 ^ 63) :
    ∃ k, k ≤ 63 ∧ (Ring.nextPowerOfTwo v).toNat = 2 ^ k ∧ v.toNat ≤ 2 ^ k ∧ (1 < v.toNat → 2 ^ k < 2 * v.toNat) :=
  Ring.nextPowerOfTwo_spec v hv

/-- … and above `2^63`, where no power of two fits into 64 bits, the code's 64-bit arithmetic wraps to 0: such a ring has
capacity 0 and `mask = 2^64 - 1`; `head - tail >= 0` is always true, so it refuses every push (it never indexes a slot) -/
theorem R1_nextPowerOfTwo_wraps (v : UInt64) (hv : 2 ^ 63 < v.toNat) :
    Ring.nextPowerOfTwo v = 0 ∧ ∀ x : Nat, (Ring.tryPush (Ring.mkDynamic 0 v) x).1 = false := by
  have h := Ring.nextPowerOfTwo_wraps v hv
  refine ⟨h, fun x => ?_⟩
  simp [Ring.tryPush, Ring.mkDynamic, Ring.mkStatic, h]

/-- **The model's `nextPowerOfTwo` and `resize` ARE the source's** (tie, not a property): `Ring.nextPowerOfTwo` is defined
as a fold over the shift list the translator extracts (`Gen.Orders.npotShifts`), `Ring.resize` evaluates the expression
trees extracted for `count`, `toCopy`, `startTail`, `dropped` and the two final stores (`Gen.Orders.resize*`).  On the
unmodified source they unfold to the hand-written forms the R1 proofs reason about; a dropped or changed shift
(`v |= v >> 16`), or a changed window start (`count - newCapacity` for `head - newCapacity`, seeded change C10-d) makes
these `rfl`s - and with them every R1 theorem - fail to build. -/
theorem R1_arithmetic_is_the_sources :
    Gen.Orders.npotShifts = [1, 2, 4, 8, 16, 32] ∧
    (∀ {α : Type} (r : Ring.Ring α) (n : UInt64), Ring.resize r n = Ring.resizeRef r n) :=
  ⟨rfl, fun r n => Ring.resize_unfold r n⟩

/-! ## Ring buffers, one producer and one consumer (R2, R3) -/

/-- **R2 (SPSC: FIFO, lossless, bounded, for every interleaving).** For every capacity, every pair of programs (any mix of
`tryPush`/`tryPushBatch` resp. `tryPop`/`tryPopBatch`/`peek`) and EVERY schedule in which each atomic access and each slot
access is one step — including schedules in which a counter load returns a stale value, which the C++ model allows —:
the items handed to the consumer, followed by the items in flight, are exactly the items accepted from the producer, in
order (each accepted item is delivered at most once, none is invented, none overtakes); at most `C` items are in flight;
and the ghost logs are what the calls returned: a producer call returning `n` had exactly the first `n` items of its
batch accepted, a consumer call's returned items are what was received. -/
theorem R2_spsc_fifo (c : Spsc.Cfg) (p : List Spsc.POp) (q : List Spsc.QOp) (as : List Spsc.Act) :
    let s := Spsc.run c (Spsc.init p q) as
    s.acc = s.recv ++ Spsc.inflight s ∧ (Spsc.inflight s).length ≤ c.C ∧ Spsc.RetInv p q s := by
  intro s
  have I := Spsc.inv_run c as (Spsc.init p q) (Spsc.inv_init c p q)
  have F := Spsc.fifo_of_inv c _ I
  exact ⟨F.1, by rw [F.2.1]; exact F.2.2, Spsc.retInv_run c p q as _ (Spsc.retInv_init p q)⟩

/-- **R2 (refusals).** A refusal is conservative: `tryPush` answering "full" after a FRESH read of `_tail` means the ring
holds `C` items at that moment, `tryPop` answering "empty" after a fresh read of `_head` means it holds none.  (After a
stale read the answer may be a spurious "full"/"empty"; a partial `tryPushBatch` is likewise conservative — it is NOT
linearizable to an atomic "push min(count, room)": C = 2, one item queued, `tryPushBatch [x, y]` reads room 1, the
consumer pops twice (item, then empty), the batch publishes `x` and returns 1.) -/
theorem R2_refusals_genuine (c : Spsc.Cfg) (p : List Spsc.POp) (q : List Spsc.QOp) (as : List Spsc.Act) (x : Spsc.Val) :
    let s := Spsc.run c (Spsc.init p q) as
    ((Spsc.POp.push x).count c.C s.head s.tail = 0 → (Spsc.inflight s).length = c.C) ∧
    (Spsc.QOp.pop.count s.tail s.head = 0 → Spsc.inflight s = []) := by
  intro s
  have I := Spsc.inv_run c as (Spsc.init p q) (Spsc.inv_init c p q)
  exact ⟨Spsc.push_refusal_genuine c s x I, Spsc.pop_refusal_genuine c s I⟩

/-- **R2 (a refusal that was actually returned).** The producer, idle with `tryPush x` next, reads the LATEST `_tail` and
completes the call: if that call returns `false` (0 pushed) the ring held exactly `C` items at the load; likewise a
`tryPop` that returns `false` after reading the latest `_head` saw an empty ring. -/
theorem R2_returned_refusals_genuine (c : Spsc.Cfg) (p : List Spsc.POp) (q : List Spsc.QOp) (as : List Spsc.Act) (x : Spsc.Val) :
    let s := Spsc.run c (Spsc.init p q) as
    (∀ rest, s.pPc = .idle → s.pTodo = .push x :: rest →
        (Spsc.step c (Spsc.step c s (.pLoad s.tail)) .pStore).pRets = s.pRets ++ [0] → (Spsc.inflight s).length = c.C) ∧
    (∀ rest, s.qPc = .idle → s.qTodo = .pop :: rest →
        (Spsc.step c (Spsc.step c s (.qLoad s.head)) .qStore).qRets = s.qRets ++ [[]] → Spsc.inflight s = []) := by
  intro s
  have I := Spsc.inv_run c as (Spsc.init p q) (Spsc.inv_init c p q)
  exact ⟨fun rest h1 h2 h3 => Spsc.push_returns_zero_fresh c s x rest I h1 h2 h3,
         fun rest h1 h2 h3 => Spsc.pop_returns_empty_fresh c s rest I h1 h2 h3⟩

/-- **R2 (`size()` / `empty()` / `full()` called concurrently by the producer or by the consumer).**  `size()` is two relaxed
loads (`_head`, then `_tail`; either may be stale) and a `size_t` subtraction.  In EVERY reachable state of every
interleaving: whatever a call by the producer can return lies between the true number of items and `C` (it may
over-estimate), whatever a call by the consumer can return lies between 0 and the true number (it may under-estimate) -
never above the capacity; hence `full() == true` seen by the consumer and `empty() == true` seen by the producer are
genuine.  Hypothesis: `_head < 2^64` (no counter overflow). -/
theorem R2_size_same_side (c : Spsc.Cfg) (p : List Spsc.POp) (q : List Spsc.QOp) (as : List Spsc.Act) :
    let s := Spsc.run c (Spsc.init p q) as
    s.head < 2 ^ 64 →
    (∀ ret, Spsc.ProducerSizeRet s ret → s.head - s.tail ≤ ret ∧ ret ≤ c.C) ∧
    (∀ ret, Spsc.ConsumerSizeRet s ret → ret ≤ s.head - s.tail ∧ ret ≤ c.C) ∧
    (∀ ret, Spsc.ConsumerSizeRet s ret → ret ≥ c.C → s.head - s.tail = c.C) ∧
    (∀ ret, Spsc.ProducerSizeRet s ret → ret = 0 → s.head = s.tail) := by
  intro s hb
  have I := Spsc.inv_run c as (Spsc.init p q) (Spsc.inv_init c p q)
  exact ⟨(Spsc.size_same_side c s I hb).1, (Spsc.size_same_side c s I hb).2,
         (Spsc.full_empty_same_side c s I hb).1, (Spsc.full_empty_same_side c s I hb).2⟩

/-- non-vacuity: in the initial state both callers can get the answer 0 -/
example : Spsc.ProducerSizeRet (Spsc.init [] []) 0 ∧ Spsc.ConsumerSizeRet (Spsc.init [] []) 0 :=
  ⟨⟨0, by decide, by decide, by decide⟩, ⟨0, by decide, by decide, by decide⟩⟩

/-- **… but not by a third thread** (observation; the header calls `size()` "approximate"): an observer that loads `_head`
before a push/pop pair and `_tail` after it sees `tail > head`; its `size()` wraps to `2^64 - 1`, far above `C` -/
theorem R2_size_third_thread_wraps :
    let c : Spsc.Cfg := { C := 1, pAcq := true, qAcq := true, pRel := true, qRel := true }
    let s1 := Spsc.init [.push 1] [.pop]
    let s2 := Spsc.run c s1 [.pLoad 0, .pWrite, .pStore, .qLoad 1, .qRead, .qStore]
    s1.head < s2.tail ∧ Spsc.sizeRet s1.head s2.tail = 2 ^ 64 - 1 :=
  Spsc.third_thread_size_wraps

/-- **R2 (`peek` under concurrency).**  In every reachable state of every interleaving, a `peek` that completes returns
exactly the oldest item(s) in flight at that moment (`n ≤ 1` of them: nothing when it saw an empty ring) - the item the
next `tryPop` will deliver - and consumes nothing (`_tail` and the received log are unchanged). -/
theorem R2_peek_returns_oldest (c : Spsc.Cfg) (p : List Spsc.POp) (q : List Spsc.QOp) (as : List Spsc.Act)
    (hs n : Nat) (got : List Spsc.Val) (rest : List Spsc.QOp) :
    let s := Spsc.run c (Spsc.init p q) as
    s.qPc = .reading hs n got → s.qTodo = .peek :: rest → got.length = n →
    (Spsc.step c s .qStore).qRets = s.qRets ++ [(Spsc.inflight s).take n] ∧ (Spsc.step c s .qStore).recv = s.recv ∧
    (Spsc.step c s .qStore).tail = s.tail ∧ n ≤ (Spsc.inflight s).length := by
  intro s h1 h2 h3
  exact Spsc.peek_returns_oldest c s (Spsc.inv_run c as (Spsc.init p q) (Spsc.inv_init c p q)) hs n got rest h1 h2 h3

/-- non-vacuity: one item pushed, the consumer is about to complete a `peek` -/
example :
    let c : Spsc.Cfg := { C := 1, pAcq := true, qAcq := true, pRel := true, qRel := true }
    let s := Spsc.run c (Spsc.init [.push 7] [.peek]) [.pLoad 0, .pWrite, .pStore, .qLoad 1, .qRead]
    s.qPc = .reading 1 1 [7] ∧ s.qTodo = [.peek] ∧ Spsc.inflight s = [7] := by
  decide

/-! ## Rings of an element type whose assignment may throw (every `noexcept(is_nothrow_…)` method, `resize`) -/

/-- **count stays consistent.**  A ring call interrupted by an exception from the element's copy/move assignment leaves
`_head`, `_tail`, `_capacity`, `_mask` exactly as they were. -/
theorem RT_throw_keeps_counters (r : Ring.Ring RingT.Cell) (arm : Nat) (o : RingT.TOp)
    (h : RingT.isThrow (RingT.stepT r arm o).2 = true) :
    (RingT.stepT r arm o).1.head = r.head ∧ (RingT.stepT r arm o).1.tail = r.tail ∧
    (RingT.stepT r arm o).1.cap = r.cap ∧ (RingT.stepT r arm o).1.mask = r.mask :=
  RingT.throw_keeps_counters r arm o h

/-- **strong guarantee where the code has it.**  A throwing `tryPush`, `tryPop` or `peek` changes nothing; a throwing
`tryPushBatch` changes only slots beyond `_head`: the FIFO content the ring stands for is the same. -/
theorem RT_strong_guarantee_partial (r : Ring.Ring RingT.Cell) (h : Ring.WF r) (arm : Nat) (x : RingT.Cell) (xs : List RingT.Cell)
    (ho : r.head.toNat + xs.length < 2 ^ 64) :
    (RingT.isThrow (RingT.tryPush r arm x).2 = true → (RingT.tryPush r arm x).1 = r) ∧
    (RingT.isThrow (RingT.tryPop r arm).2 = true → (RingT.tryPop r arm).1 = r) ∧
    (RingT.isThrow (RingT.peek r arm).2 = true → (RingT.peek r arm).1 = r) ∧
    (RingT.isThrow (RingT.tryPushBatch r arm xs).2 = true → Ring.abs (RingT.tryPushBatch r arm xs).1 = Ring.abs r) :=
  let ⟨a, b, c⟩ := RingT.single_item_throw_unchanged r arm x
  ⟨a, b, c, RingT.pushBatch_throw_content r h arm xs ho⟩

/-- non-vacuity: the second assignment of a 3-item batch into an empty 4-slot ring throws -/
example : RingT.isThrow (RingT.tryPushBatch (Ring.mkStatic none 4) 2 [some 1, some 2, some 3]).2 = true := by decide

/-- **what the code does in `tryPopBatch` and `resize`** (OBSERVATION: exception safety of the element type is not part of
the property as stated, whose quantifier ranges over schedules and histories of queue operations; recorded because the
moved-from elements are afterwards handed out as items).  The full statement - after an exception the ring still stands
for the same content - is FALSE: with 1,2,3,4 queued and the third move throwing, `tryPopBatch` leaves 1 and 2 in the
caller's array AND two moved-from husks at the front of the ring (`tryPop` returns them), `resize` loses 1 and 2 in the
abandoned new buffer and leaves the two husks. -/
theorem RT_strong_guarantee_refuted :
    ¬ RingT.strong_guarantee_statement ∧
    ((RingT.tryPopBatch RingT.four 3 4).2 = .threw 2 [some 1, some 2] ∧
     (Ring.abs (RingT.tryPopBatch RingT.four 3 4).1).items = [none, none, some 3, some 4] ∧
     (RingT.tryPop (RingT.tryPopBatch RingT.four 3 4).1 0).2 = .ok (.item (some none))) ∧
    ((RingT.resize RingT.four 3 8).2 = .threw 2 [] ∧ (RingT.resize RingT.four 3 8).1.cap = 4 ∧
     (Ring.abs (RingT.resize RingT.four 3 8).1).items = [none, none, some 3, some 4]) :=
  ⟨RingT.strong_guarantee_refuted, RingT.popBatch_throw_witness, RingT.resize_throw_witness⟩

/-- with nothing armed the throwing-element model gives the plain ring's answers and counters (so R1 speaks about it) -/
theorem RT_unarmed_agrees (r : Ring.Ring RingT.Cell) (x : RingT.Cell) (xs : List RingT.Cell) (n : Nat) (m : UInt64) :
    RingT.tryPush r 0 x = ((Ring.tryPush r x).2, .ok (.bool (Ring.tryPush r x).1)) ∧
    RingT.tryPushBatch r 0 xs = ((Ring.tryPushBatch r xs).2, .ok (.count (Ring.tryPushBatch r xs).1)) ∧
    (RingT.tryPopBatch r 0 n).2 = .ok (.items (Ring.tryPopBatch r n).1) ∧
    (RingT.tryPopBatch r 0 n).1.tail = (Ring.tryPopBatch r n).2.tail ∧
    (RingT.tryPop r 0).2 = .ok (.item (Ring.tryPop r).1) ∧ (RingT.tryPop r 0).1.tail = (Ring.tryPop r).2.tail ∧
    RingT.resize r 0 m = ((Ring.resize r m).2, .ok (.count (Ring.resize r m).1.toNat)) :=
  RingT.unarmed_agrees r x xs n m

/-- non-vacuity: a full 1-slot ring refuses the second push with 0 -/
example :
    let c : Spsc.Cfg := { C := 1, pAcq := true, qAcq := true, pRel := true, qRel := true }
    let s := Spsc.run c (Spsc.init [.push 1, .push 2] []) [.pLoad 0, .pWrite, .pStore]
    s.pPc = .idle ∧ s.pTodo = [.push 2] ∧ (Spsc.step c (Spsc.step c s (.pLoad s.tail)) .pStore).pRets = s.pRets ++ [0] := by
  decide

/-- **The accesses in the source are the modelled ones** (translator `Gen/Orders.lean`, both ring classes, every method): the
memory orders are the required ones AND every method is exactly "load own counter, load the other counter, slot
access(es), one store of the own counter" in that source order, with no other rows.  Fails to build when an order is
weakened, when a method publishes before writing its slot or releases before reading it, or when rows are added/reordered. -/
theorem C10_orders : Spsc.OrdersOK Gen.Orders.ring := by decide

/-- **R3 (data-race freedom in the release/acquire view model).** With acquire loads of the other side's counter and
release stores of one's own, no schedule of any two programs reaches a plain slot access that conflicts with an
unordered earlier access of the other thread. -/
theorem R3_drf_of_orders (o : Spsc.Orders) (C : Nat) (h : Spsc.OrdersOK o) : Spsc.DRF (Spsc.cfgOf o C) :=
  let ⟨a, b, c, d⟩ := Spsc.cfg_of_ordersOK o C h
  Spsc.drf_of_orders _ a b c d

/-- R3 for the working tree -/
theorem R3_ring_drf (C : Nat) : Spsc.DRF (Spsc.cfgOf Gen.Orders.ring C) := R3_drf_of_orders _ C C10_orders

/-- each order is necessary in the model: weaken any one of the four and a racy execution exists (the first one is the
ring as found, F02: `_tail` loaded relaxed in `tryPush`/`tryPushBatch`) -/
theorem R3_tight :
    ¬ Spsc.DRF { C := 1, pAcq := false, qAcq := true, pRel := true, qRel := true } ∧
    ¬ Spsc.DRF { C := 1, pAcq := true, qAcq := true, pRel := true, qRel := false } ∧
    ¬ Spsc.DRF { C := 1, pAcq := true, qAcq := false, pRel := true, qRel := true } ∧
    ¬ Spsc.DRF { C := 1, pAcq := true, qAcq := true, pRel := false, qRel := true } :=
  ⟨Spsc.relaxed_tail_load_races, Spsc.relaxed_tail_store_races, Spsc.relaxed_head_load_races, Spsc.relaxed_head_store_races⟩

/-! ## Blocking queue (Q1–Q4): any number of threads, any programs, every schedule

`BQ.init cap ps` = an empty open queue of capacity `cap`; thread `t` is to execute the calls `ps[t]` (any mix of
`queue`, timed and non-blocking `tryQueue`, `dequeue`, timed `dequeue`, `tryDequeue`, `close`, `size/empty/full`).
`Monitor.run (BQ.prog true) … sched` = the state after the schedule `sched` (next thread, which sleeper a `notify_one`
wakes, time-outs, spurious wake-ups, "deadline passed meanwhile") of the class as repaired. -/

open Monitor in
/-- **Q1 (FIFO, lossless, nothing invented).** In every reachable state the values pushed so far, in the order of the
`push_back`s, are exactly the values popped so far, in the order of the `pop_front`s, followed by the queue content: every
item put is taken at most once, items are taken in the order they were put (hence each producer's items in that
producer's order), and what has not been taken is still queued. -/
theorem Q1_fifo_lossless (cap : Nat) (ps : List (List BQ.Call)) (sched : List Choice) :
    let s := run (BQ.prog true) (BQ.init cap ps) sched
    s.data.puts.map (·.2) = s.data.takes.map (·.2) ++ s.data.q :=
  (BQ.inv_run cap ps sched).cons

open Monitor in
/-- **Q1 (on return values, per thread).** In every reachable state, for every thread `t`: the calls it has completed are a
prefix `done` of its program with one result each; the values `t` pushed — its entries of the global push log, in that
order — are exactly the arguments of its `queue`/`tryQueue` calls that returned `true`, in program order (plus the one of
the call in progress whose result is already determined); the values it popped are exactly the items its
`dequeue`/`tryDequeue` calls returned, in program order.  With `Q1_fifo_lossless` (global push order = global pop order):
every item whose put returned `true` is returned by at most one take, no take returns an item that was not put, and the
items of one producer come out in the order that producer put them. -/
theorem Q1_results_are_the_logs (cap : Nat) (ps : List (List BQ.Call)) (sched : List Choice) :
    let s := run (BQ.prog true) (BQ.init cap ps) sched
    ∀ t, t < s.n → ∃ done, BQ.progOf ps t = done ++ (s.thr t).loc.todo ∧ done.length = (s.thr t).loc.rets.length ∧
      BQ.mine t s.data.puts = BQ.logP done (s.thr t).loc.rets ++ BQ.pendP (s.thr t).loc ∧
      BQ.mine t s.data.takes = BQ.logT (s.thr t).loc.rets ++ BQ.pendT (s.thr t).loc :=
  fun t ht => (BQ.logs_run cap ps sched t ht).done

open Monitor in
/-- **Q2 (capacity).** `|_queue| ≤ _maxSize` in every reachable state. -/
theorem Q2_capacity (cap : Nat) (ps : List (List BQ.Call)) (sched : List Choice) :
    (run (BQ.prog true) (BQ.init cap ps) sched).data.q.length ≤ cap := by
  have h := (BQ.inv_run cap ps sched).bound
  rwa [(BQ.cap_n_run cap ps sched).1] at h

open Monitor in
/-- **Q3a (close wakes everybody).** Once `close()` has returned — the flag is set and no thread is inside `close()` any
more — no thread is asleep on either condition variable, in every reachable state of every schedule. -/
theorem Q3_close_wakes_all (cap : Nat) (ps : List (List BQ.Call)) (sched : List Choice) :
    let s := run (BQ.prog true) (BQ.init cap ps) sched
    s.data.closed = true → (∀ u, u < s.n → BQ.closerFor BQ.NF (s.thr u) = false) →
    ∀ t, t < s.n → isAsleepOn BQ.NE (s.thr t) = false ∧ isAsleepOn BQ.NF (s.thr t) = false :=
  fun hc hret t ht => BQ.closed_no_sleeper _ (BQ.inv_run cap ps sched) hc hret t ht

/-- non-vacuity of Q3a/Q3b: after a lone `close()` has run to completion the queue is closed and nobody is inside `close()` -/
example :
    let s := Monitor.run (BQ.prog true) (BQ.init 2 [[.close], [.dequeue]])
      [.run 0 0, .run 0 0, .run 0 0, .run 0 0, .run 0 0, .run 1 0, .run 1 0]
    s.data.closed = true ∧ (∀ u, u < s.n → BQ.closerFor BQ.NF (s.thr u) = false) := by
  decide

open Monitor in
/-- **Q3b (close refuses further items, for ever).** From a closed state on, whatever happens next, the queue stays closed
and no item is pushed any more. -/
theorem Q3_closed_refuses (cap : Nat) (ps : List (List BQ.Call)) (sched more : List Choice) :
    let s := run (BQ.prog true) (BQ.init cap ps) sched
    s.data.closed = true →
    (run (BQ.prog true) s more).data.puts = s.data.puts ∧ (run (BQ.prog true) s more).data.closed = true :=
  fun hc => BQ.closed_run _ hc more

open Monitor in
/-- **Q3b, step by step (a push step has `_closed = false`).** In EVERY reachable state and for EVERY next step of ANY
thread: if `_closed` is set, the step pushes nothing, does not make the queue longer and leaves it closed - equivalently, a
step that pushes starts from an open queue.  This covers a producer that went to sleep on a full OPEN queue and is woken by
a take followed by another thread's `close()` (seeded change C10-e: re-testing only `size >= maxSize` after the wait): the
step in which it re-acquires `_mutex` re-reads `_closed` and returns false. -/
theorem Q3_push_only_while_open (cap : Nat) (ps : List (List BQ.Call)) (sched : List Choice) (c : Choice) :
    let s := run (BQ.prog true) (BQ.init cap ps) sched
    (s.data.closed = true →
      (step (BQ.prog true) s c).data.puts = s.data.puts ∧ (step (BQ.prog true) s c).data.q.length ≤ s.data.q.length ∧
      (step (BQ.prog true) s c).data.closed = true) ∧
    ((step (BQ.prog true) s c).data.puts ≠ s.data.puts → s.data.closed = false) := by
  intro s
  refine ⟨fun hc => BQ.closed_step_no_push cap ps sched c hc, fun hne => ?_⟩
  cases hcl : s.data.closed with
  | false => rfl
  | true => exact absurd (BQ.closed_step_no_push cap ps sched c hcl).1 hne

open Monitor in
/-- non-vacuity (the C10-e shape): capacity 1, producer `queue 100; queue 101`, consumer `dequeue; close`.  The producer
sleeps in its second put on the full queue; the consumer takes the item (notify) and closes; the woken producer then
re-acquires the mutex on a queue that has room AND is closed: it does not push (one item in the log) and returns false. -/
example :
    let s := run (BQ.prog true) (BQ.init 1 [[.queue 100, .queue 101], [.dequeue, .close]])
      [.run 0 0, .run 0 0, .run 0 0, .run 0 0, .run 0 0, .run 0 0,
       .run 1 0, .run 1 0, .run 1 0, .run 1 0, .run 1 0, .run 1 0, .run 1 0, .run 1 0]
    s.data.closed = true ∧ s.data.q = [] ∧ (s.thr 0).status = .woken BQ.M false false ∧
    (step (BQ.prog true) s (.run 0 0)).data.puts = [(0, 100)] ∧
    ((step (BQ.prog true) s (.run 0 0)).thr 0).loc.pc = .unlockRet (.bool false) := by
  decide

/-- **Q3c (queued items stay retrievable).** A `dequeue`, timed `dequeue` or `tryDequeue` that obtains the mutex while the
queue is non-empty takes the oldest item without waiting — whether or not the queue is closed. -/
theorem Q3_retrievable (l : BQ.Loc) (d : BQ.Data) (x : BQ.Val) (xs : List BQ.Val) (rest : List BQ.Call) (c : BQ.Call)
    (hc : c = .dequeue ∨ c = .dequeueFor ∨ c = .tryDequeue) (ht : l.todo = c :: rest) (hq : d.q = x :: xs) :
    (BQ.entered l d).1.pc = .unlockNotify BQ.NF (.item (some x)) ∧ (BQ.entered l d).2.q = xs :=
  BQ.entered_takes l d x xs rest c hc ht hq

/-- non-vacuity of Q3c -/
example : (BQ.entered { me := 0, todo := [.dequeue], pc := .enter, rets := [] }
            { cap := 2, q := [7, 8], closed := true, puts := [], takes := [] }).1.pc = .unlockNotify BQ.NF (.item (some 7)) := by
  decide

open Monitor in
/-- **Q3d (draining a closed queue).** From a closed reachable state on, whatever the further schedule `more`: the items
taken from then on are exactly a prefix of the queue content at that moment, in order; what remains queued is the rest;
nothing is added.  Together with Q3c/Q3e (a take never waits on a closed queue: item if non-empty, `false` if empty),
Q3a (nobody sleeps once `close()` returned) and `Q1_results_are_the_logs` (logs = return values): after `close()`, the
next `k` successful takes return the `k` oldest queued items in order, and once the queue is empty every take returns `false`. -/
theorem Q3_drain_after_close (cap : Nat) (ps : List (List BQ.Call)) (sched more : List Choice) :
    let s := run (BQ.prog true) (BQ.init cap ps) sched
    let s' := run (BQ.prog true) s more
    s.data.closed = true →
    ∃ taken, s'.data.takes.map (·.2) = s.data.takes.map (·.2) ++ taken ∧ taken ++ s'.data.q = s.data.q :=
  fun hc => BQ.drain_after_close cap ps sched more hc

/-- **Q3e.** A take that obtains the mutex on a closed EMPTY queue returns `false` without waiting and changes nothing. -/
theorem Q3_closed_empty_returns_false (l : BQ.Loc) (d : BQ.Data) (rest : List BQ.Call) (c : BQ.Call)
    (hc : c = .dequeue ∨ c = .dequeueFor ∨ c = .tryDequeue) (ht : l.todo = c :: rest) (hq : d.q = []) (hcl : d.closed = true) :
    (BQ.entered l d).1.pc = .unlockRet (.item none) ∧ (BQ.entered l d).2 = d :=
  BQ.entered_closed_empty l d rest c hc ht hq hcl

open Monitor in
/-- **Q4 (every reachable state, not only dead-locked ones).** In EVERY state reachable under every schedule: whenever a
thread is asleep on a condition variable while its wait condition holds, a wake-up for that condition variable is already
in the pipeline — some thread is a notifier between its state change and its `notify_one`, or a waiter of that condition
variable that has been woken and has not yet re-evaluated its predicate, or is inside `close()` before the corresponding
`notify_all`.  (All three kinds of thread are enabled or become enabled as soon as the mutex is released, so the sleeper's
wake-up cannot be lost.)  The quantitative form is the credit invariant `BQ.InvK.credNE/credNF`: while the queue is open
and somebody sleeps on `_condNotEmpty`, #queued items ≤ #wake-ups in the pipeline (symmetrically free slots for `_condNotFull`). -/
theorem Q4_wakeup_pending_in_every_state (cap : Nat) (ps : List (List BQ.Call)) (sched : List Choice) :
    let s := run (BQ.prog true) (BQ.init cap ps) sched
    (∀ t, t < s.n →
      (isAsleepOn BQ.NE (s.thr t) = true → BQ.predNE s.data = true →
          ∃ u, u < s.n ∧ (BQ.creditOn BQ.NE (s.thr u) = true ∨ BQ.closerFor BQ.NE (s.thr u) = true)) ∧
      (isAsleepOn BQ.NF (s.thr t) = true → BQ.predNF s.data = true →
          ∃ u, u < s.n ∧ (BQ.creditOn BQ.NF (s.thr u) = true ∨ BQ.closerFor BQ.NF (s.thr u) = true))) ∧
    ((∃ t, t < s.n ∧ isAsleepOn BQ.NE (s.thr t) = true) → s.data.closed = false →
        s.data.q.length ≤ cnt (BQ.creditOn BQ.NE) s.thr s.n) ∧
    ((∃ t, t < s.n ∧ isAsleepOn BQ.NF (s.thr t) = true) → s.data.closed = false →
        s.data.cap ≤ s.data.q.length + cnt (BQ.creditOn BQ.NF) s.thr s.n) := by
  intro s
  have I := BQ.inv_run cap ps sched
  exact ⟨fun t ht => BQ.wakeup_pending s I t ht, fun a b => by have := I.credNE a b; omega, fun a b => by have := I.credNF a b; omega⟩

open Monitor in
/-- **Q4 / Q3 (no lost wake-up).** In every reachable state of every schedule: if no thread can run (every thread is
finished or asleep), then every thread asleep on `_condNotEmpty` has a false condition (queue empty and not closed) and
every thread asleep on `_condNotFull` has a false condition (queue full and not closed).  No caller stays blocked while
its condition holds. -/
theorem Q4_no_lost_wakeup (cap : Nat) (ps : List (List BQ.Call)) (sched : List Choice) :
    let s := run (BQ.prog true) (BQ.init cap ps) sched
    Deadlocked (BQ.prog true) s → ∀ t, t < s.n →
      (isAsleepOn BQ.NE (s.thr t) = true → BQ.predNE s.data = false) ∧
      (isAsleepOn BQ.NF (s.thr t) = true → BQ.predNF s.data = false) :=
  fun hd t ht => BQ.deadlocked_sleepers _ (BQ.inv_run cap ps sched) hd t ht

/-- non-vacuity of Q4's hypothesis: a consumer alone on an empty open queue does end dead-locked, asleep, with a false condition -/
example : Monitor.Deadlocked (BQ.prog true) (Monitor.run (BQ.prog true) (BQ.init 1 [[.dequeue]]) [.run 0 0, .run 0 0, .run 0 0]) := by
  decide

/-- **F01 (the class as found).** With `close()` flipping `_closed` outside the mutex the statement of Q4 is FALSE: a
6-step schedule of one `dequeue` and one `close` ends with the consumer asleep for ever although the queue is closed. -/
theorem Q4_refuted_for_unrepaired_close :
    BQ.LostWakeup false (Monitor.run (BQ.prog false) (BQ.init 4 [[.dequeue], [.close]]) BQ.f01Schedule) :=
  BQ.buggy_close_loses_wakeup

/-- … and with the repaired `close()` no schedule of any program ends like that -/
theorem Q4_repaired (cap : Nat) (ps : List (List BQ.Call)) (sched : List Monitor.Choice) :
    ¬ BQ.LostWakeup true (Monitor.run (BQ.prog true) (BQ.init cap ps) sched) :=
  BQ.fixed_no_lost_wakeup cap ps sched

/-! ## The broadcast discipline, generically (DESIGN §6.3: "proved once as a theorem") -/

/-- **Generic no-lost-wake-up theorem for the broadcast discipline.**  For EVERY monitor program `P` over one mutex `m`
that satisfies `Monitor.Broadcast P m` (waits only under `m` and in the step that found the predicate false; data changes
only in steps of the holder; whoever turns a predicate true owes — and eventually performs — the `notifyAll`), from every
state satisfying the invariant (e.g. any initial state, `Broadcast.inv_init`) and after EVERY schedule: if no thread can
run, every sleeper's predicate is false. -/
theorem broadcast_no_lost_wakeup {D L : Type} {P : Monitor.Prog D L} {m : Monitor.MutexId} (B : Monitor.Broadcast P m)
    (s : Monitor.State D L) (h : B.Inv s) (sched : List Monitor.Choice)
    (hd : Monitor.Deadlocked P (Monitor.run P s sched)) (t : Monitor.Tid) (cv : Monitor.CvId)
    (ht : t < (Monitor.run P s sched).n) (ha : Monitor.isAsleepOn cv ((Monitor.run P s sched).thr t) = true) :
    B.pred cv (Monitor.run P s sched).data = false :=
  B.deadlocked_sleepers _ (B.inv_run s h sched) hd t cv ht ha

/-- … and in every reachable state (dead-locked or not) every sleeper's predicate is false or some ready thread still
owes the broadcast -/
theorem broadcast_invariant {D L : Type} {P : Monitor.Prog D L} {m : Monitor.MutexId} (B : Monitor.Broadcast P m)
    (s : Monitor.State D L) (h : B.Inv s) (sched : List Monitor.Choice) : B.Inv (Monitor.run P s sched) :=
  B.inv_run s h sched

/-- **The queue's `close()` is an instance** (non-vacuity of the generic theorem, and the F01-relevant half of Q3/Q4
obtained from it): `BQ.closeBroadcast : Broadcast (BQ.prog true) BQ.M` with predicate `_closed`; hence, for every
program set and every schedule, in a dead-locked state nobody sleeps on a closed queue. -/
theorem Q3_close_is_broadcast_instance (cap : Nat) (ps : List (List BQ.Call)) (sched : List Monitor.Choice)
    (hd : Monitor.Deadlocked (BQ.prog true) (Monitor.run (BQ.prog true) (BQ.init cap ps) sched)) (t : Monitor.Tid)
    (cv : Monitor.CvId) (ht : t < (Monitor.run (BQ.prog true) (BQ.init cap ps) sched).n) (hcv : cv = BQ.NE ∨ cv = BQ.NF)
    (ha : Monitor.isAsleepOn cv ((Monitor.run (BQ.prog true) (BQ.init cap ps) sched).thr t) = true) :
    (Monitor.run (BQ.prog true) (BQ.init cap ps) sched).data.closed = false :=
  BQ.close_deadlocked cap ps sched hd t cv ht hcv ha

/-! ## Destruction (`~BlockingQueue()` = `close()`, then the members are gone) -/

/-- **Q5 (destruction, full statement - FALSE).**  "When the destructor has returned every other thread is out of the
object" does not hold: `close()` wakes a blocked `dequeue` (Q3), but when the destroying thread is finished the waiter is
merely *woken* and still has to re-acquire `_mutex` - a member of the destroyed object.  This is the C++ lifetime rule
(the caller must join/quiesce its threads first), not a defect of the class: an observation. -/
theorem Q5_destroy_with_callers_inside_refuted :
    ¬ BQ.destroy_statement ∧
    (let s := Monitor.run (BQ.prog true) (BQ.init 1 [[.dequeue], [.close]]) BQ.destroySchedule
     (s.thr 1).loc.pc = .finished ∧ (s.thr 0).status = .woken BQ.M false false ∧ (s.thr 0).loc.pc = .sleepNE) :=
  ⟨BQ.destroy_refuted, BQ.destroy_witness⟩

/-- **Q5 (destruction, partial).**  If every thread other than the destroyer is out of the object (finished, nothing left
to call), then under EVERY continuation - the destructor's `close()` with its two `notify_all` included - none of them
ever moves again: nobody but the destroyer touches the members from then on. -/
theorem Q5_destroy_partial (d : Monitor.Tid) (sched : List Monitor.Choice) (s : Monitor.State BQ.Data BQ.Loc)
    (h : ∀ t, t ≠ d → BQ.Gone (s.thr t)) (t : Monitor.Tid) (ht : t ≠ d) :
    (Monitor.run (BQ.prog true) s sched).thr t = s.thr t ∧ BQ.Gone ((Monitor.run (BQ.prog true) s sched).thr t) :=
  BQ.destroy_partial true d sched s h t ht

/-- non-vacuity: the hypothesis holds e.g. for a destroyer next to a thread with an empty program that has started -/
example : BQ.Gone ((Monitor.run (BQ.prog true) (BQ.init 1 [[], [.close]]) [.run 0 0]).thr 0) := by
  unfold BQ.Gone
  decide

/-! ## Blocking queue: the source still has the lock/notify skeleton the model mirrors -/

/-- the skeleton extracted from the working tree is the one the monitor model was written against -/
theorem skeleton_conforms : Gen.BqSkel.skeleton = BQ.expected := by decide

/-- **the monitor PROGRAM is the source's, event for event**: the lock / wait / unlock / notify trace of every call of
`BQ.prog true` (run alone, through the wait where the method has one) equals the projection of the EXTRACTED skeleton of
the corresponding source method to those events (13 methods: `queue`×2, `tryQueue`×4, `dequeue`×2, `tryDequeue`, `close`,
`size`, `empty`, `full`).  Unlike `skeleton_conforms` this compares the extracted facts with the model the Q theorems are
about, not with a hand-written list. -/
theorem model_trace_is_skeleton : BQ.modelTraceIsSkeleton Gen.BqSkel.skeleton = true := by decide

/-- the data members PARSED from the class (declaration order) are the modelled ones (the translator additionally insists on
`const std::size_t _maxSize;`, on no assignment to it, and on no member function it does not know) -/
theorem members_conform :
    Gen.BqSkel.members = ["_mutex", "_condNotEmpty", "_condNotFull", "_queue", "_maxSize", "_closed"] := by decide

/-- the extracted skeleton satisfies the lost-wake-up discipline (writes of predicate variables under the mutex and
followed by a notify, waits under the mutex, deque only touched under the mutex) -/
theorem skeleton_disciplined : BQ.disciplined Gen.BqSkel.skeleton = true := by decide

end Iora.C10
