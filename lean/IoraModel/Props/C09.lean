import IoraModel.Lemmas.TpAfter
import IoraModel.Lemmas.TpRefuse
import IoraModel.Lemmas.TpSize
/-!
# C09 — Every accepted task runs exactly once before pool shutdown completes

Property theorems only (helper lemmas live in `Lemmas/Tp*.lean`).  The model is `Model/ThreadPool.lean`: the monitor
model of `iora::core::ThreadPool` at DetSched granularity, with the spawn protocol as repaired by
fixes/F24-threadpool-atomic-spawn.patch.  "For every schedule" = `∀ sched : List Choice` (thread choice, which sleeper a
`notify_one` wakes, time-outs, spurious wake-ups, late clocks, hash order of the join loop); the scripts of the
controller, of the submitters and of the task bodies (`Cfg`) are arbitrary too.
-/
namespace Iora.C09
open Iora.ThreadPool

/-- hypotheses on the configuration: `maxSize ≥ 1`; the shutdown mode is IMMEDIATE or GRACEFUL (DETACHED does not wait
for the workers — excluded, as stated in DESIGN §7 C09) -/
structure CfgOk (cfg : Cfg) : Prop where
  max : 1 ≤ cfg.maxSize
  joined : cfg.detached = false

/-- `stop()` returned ok (4), `shutdown()` returned (7) or the destructor returned (8, 9) at some point of the run -/
def Returned (s : St) : Prop := ∃ c, c ∈ s.sh.mlog ∧ isReturnCode c

-- ---------------------------------------------------------------------------------------------------------------- non-vacuity
/-- a small scenario: 1 worker (min = max = 1), the controller submits one task, calls `stop()`, destroys the pool -/
def exCfg : Cfg :=
  { initialSize := 1, maxSize := 1, maxQueue := 2, detached := false, hook := false,
    bodies := [{ acts := [], throws := false }], main := [.act ⟨.enq, 0⟩, .stop, .destroy] }

/-- the schedule of a real DetSched run of this scenario (harness/c09_tp.cpp, seed 5), as accepted by the driver -/
def exSched : List Choice :=
  [.run 0 0, .run 0 0, .run 0 0, .run 1 0, .run 0 0, .run 1 0, .run 0 0, .run 1 0, .run 0 0, .run 0 0, .run 0 0, .run 0 1, .run 1 1,
   .run 1 0, .run 1 0, .run 0 0, .run 1 0, .run 1 0, .run 0 0, .run 0 0, .run 0 0, .run 0 0, .run 0 0, .run 0 0, .run 0 0, .run 1 1,
   .run 1 0, .run 0 0, .run 0 0, .run 0 0, .run 0 0, .run 0 0, .run 0 1, .run 0 0, .run 0 0, .run 0 0, .run 0 0, .run 0 0, .run 0 0,
   .run 0 0, .run 0 0]

/-- `CfgOk` is satisfiable, and in this run `stop()` returns ok (4), `shutdown()` (7) and the destructor (8) return, one task is
accepted, started once and finished once, and the queue had been non-empty on the way (prefix of 11 steps): the hypotheses of
P2, P3, P5b and P6 are met by non-trivial states -/
example : CfgOk exCfg := ⟨by decide, rfl⟩
example : exCfg.initialSize ≤ exCfg.maxSize := by decide
example : (run exCfg exSched).sh.mlog = [8, 4, 7, 1] := by decide
example : Returned (run exCfg exSched) := ⟨8, by decide, Or.inr (Or.inr (Or.inl rfl))⟩
example : (run exCfg exSched).sh.accCnt 0 = 1 ∧ (run exCfg exSched).sh.startCnt 0 = 1 ∧ (run exCfg exSched).sh.doneCnt 0 = 1 := by decide
example : (run exCfg (exSched.take 11)).sh.tasks ≠ [] := by decide
example : (run exCfg exSched).sh.threads.length = 0 ∧ (run exCfg (exSched.take 11)).sh.threads.length = 1 := by decide

/-- **P1 (conservation).** In every reachable state, for every task id: the number of accepted submissions equals
queued + in a worker's hand + finished, and the number of started bodies equals running + finished.  Hence no
accepted submission is ever lost or duplicated, and no body starts more often than its task was accepted. -/
theorem P1_conservation (cfg : Cfg) (sched : List Choice) (id : Nat) :
    let s := run cfg sched
    s.sh.tasks.count id + handCnt s.thr id + s.sh.doneCnt id = s.sh.accCnt id ∧
    s.sh.startCnt id = runCnt s.thr id + s.sh.doneCnt id ∧
    s.sh.startCnt id ≤ s.sh.accCnt id := by
  have h := conserved_run cfg sched
  refine ⟨h.1 id, h.2 id, ?_⟩
  have h1 := h.1 id
  have h2 := h.2 id
  have : runCnt (run cfg sched).thr id ≤ handCnt (run cfg sched).thr id := by
    simp only [runCnt, handCnt]
    apply List.countP_mono_left
    intro th _ hr
    simp only [decide_eq_true_eq] at hr ⊢
    cases th with
    | main pc r => simp [running] at hr
    | sub x => simp [running] at hr
    | worker w => cases w <;> simp [running] at hr <;> simp [cur, hr]
  omega

/-- **P2 (join ⇒ finished; exactly once).** Whenever `stop()` has returned ok, or `shutdown()` or the destructor has
returned: the queue is empty, no thread has a task in hand, every worker has left its loop, and every accepted
submission has been started exactly once and has finished exactly once. -/
theorem P2_returns_only_when_finished (cfg : Cfg) (hc : CfgOk cfg) (sched : List Choice) (hr : Returned (run cfg sched)) :
    let s := run cfg sched
    s.sh.tasks = [] ∧
    (∀ (t : Nat) (th : Thread), s.thr[t]? = some th → cur th = none ∧ (isWorker th = true → goneW th = true)) ∧
    (∀ id, s.sh.startCnt id = s.sh.accCnt id ∧ s.sh.doneCnt id = s.sh.accCnt id) := by
  have hall := allInv_run cfg hc.joined hc.max sched
  obtain ⟨pc, r, _, hm⟩ := hall.main
  obtain ⟨c, hcm, hcr⟩ := hr
  have hq := hm.log c hcm hcr
  have Q := hall.q hq
  have hcons := conserved_run cfg sched
  refine ⟨Q.tasks, ?_, ?_⟩
  · intro t th hget
    have h2 := (Q.thr t th hget).2.1
    refine ⟨?_, h2⟩
    cases th with
    | main pc r => rfl
    | sub x => rfl
    | worker w =>
      have := h2 rfl
      cases w <;> simp [goneW] at this <;> rfl
  · intro id
    have hz := quiet_no_hand _ Q id
    have h1 := hcons.1 id
    have h2 := hcons.2 id
    rw [Q.tasks, hz.1] at h1
    rw [hz.2] at h2
    simp at h1 h2
    omega

/-- **P3 (nothing starts afterwards).** After `stop()` (ok), `shutdown()` or the destructor has returned, no task
body starts any more, whatever the threads do. -/
theorem P3_no_start_after_return (cfg : Cfg) (hc : CfgOk cfg) (sched more : List Choice) (hr : Returned (run cfg sched)) :
    (run cfg (sched ++ more)).sh.startCnt = (run cfg sched).sh.startCnt := by
  have hq0 : (run cfg sched).sh.quiesced = true := by
    obtain ⟨pc, r, _, hm⟩ := (allInv_run cfg hc.joined hc.max sched).main
    obtain ⟨c, hcm, hcr⟩ := hr
    exact hm.log c hcm hcr
  clear hr
  suffices h : ∀ (more sched : List Choice), (run cfg sched).sh.quiesced = true →
      (run cfg (sched ++ more)).sh.quiesced = true ∧ (run cfg (sched ++ more)).sh.startCnt = (run cfg sched).sh.startCnt from
    (h more sched hq0).2
  intro more
  induction more with
  | nil => intro sched hq; simp [hq]
  | cons c cs ih =>
    intro sched hq
    have hstep := quiet_step cfg (run cfg sched) c hq (allInv_run cfg hc.joined hc.max sched).q
    have e : run cfg (sched ++ [c]) = step cfg (run cfg sched) c := by simp [run, List.foldl_append]
    have h2 := ih (sched ++ [c]) (by rw [e]; exact hstep.1)
    have e2 : sched ++ c :: cs = (sched ++ [c]) ++ cs := by simp
    rw [e2]
    exact ⟨h2.1, by rw [h2.2, e]; exact hstep.2⟩

/-- **P5a (the idle exit sees an empty queue).** Whenever a step takes a worker from its loop into its exit path
(idle time-out above the minimum, or shutdown), the queue is empty in that very critical section. -/
theorem P5_exit_decision_with_empty_queue (cfg : Cfg) (sh : Shared) (n t : Nat) (w : WSt) (alt : Nat)
    (h0 : tailW (.worker w) = false) (h1 : tailW (.worker (transW cfg sh n t w).2.1) = true) :
    sh.tasks = [] ∧ (transW cfg sh n t w).1.tasks = [] := by
  have he := transW_eff cfg sh n t w alt
  cases he with
  | quiet h _ _ _ _ htail => rw [htail, h0] at h1; cases h1
  | push _ _ _ _ _ _ _ _ _ _ htail => rw [htail, h0] at h1; cases h1
  | create _ _ _ _ _ _ _ _ htail => rw [htail, h0] at h1; cases h1
  | exitIdle h _ _ he => exact ⟨he, by rw [h.tasks]; exact he⟩
  | exitShutdown h _ _ he => exact ⟨he, by rw [h.tasks]; exact he⟩
  | pop _ _ _ _ _ _ _ hw => rw [hw] at h1; simp [tailW] at h1
  | selfErase hth => rw [hth] at h0; simp [tailW] at h0
  | finishW hth => rw [hth] at h0; simp [tailW] at h0
  | pick r hth => cases hth
  | quiesce r hth => cases hth
  | joined w0 r hth => rcases hth with e | e <;> cases e
  | setShut r hth => cases hth

/-- non-vacuity: a worker at the top of its loop, pool shut down, queue empty: the step takes it into the exit path -/
example : tailW (.worker .lock) = false ∧
    tailW (.worker (transW exCfg { shutdown := true } 2 1 .lock).2.1) = true := by decide

/-- the same for the re-acquisition after a wake-up (time-out, notify, spurious) -/
theorem P5_exit_decision_after_wait (cfg : Cfg) (sh : Shared) (t : Nat) (late : Bool)
    (h1 : tailW (.worker (reacq cfg sh t late).2) = true) : sh.tasks = [] := by
  rcases reacq_eff cfg sh t late with he | ⟨_, hw⟩
  · cases he with
    | cont _ hw => rw [hw] at h1; simp [tailW] at h1
    | exitIdle _ he => exact he
    | exitShutdown _ he => exact he
    | pop _ _ _ _ _ hw => rw [hw] at h1; simp [tailW] at h1
  · rw [hw] at h1; simp [tailW] at h1

/-- **P5b (no stranded task).** In every reachable state with a non-empty queue there is a guardian: a worker that is
registered in `_threads` (or is being joined) and has not decided to exit — it will look at the queue under the mutex
before it can leave — or a submitter that holds the mutex and is about to create such a worker. -/
theorem P5_no_stranded_task (cfg : Cfg) (hc : CfgOk cfg) (sched : List Choice) (hne : (run cfg sched).sh.tasks ≠ []) :
    let s := run cfg sched
    (∃ (w : Nat) (th : Thread), s.thr[w]? = some th ∧ Guardian s.sh.threads s.thr w th) ∨
    (∃ (t : Nat) (th : Thread), s.thr[t]? = some th ∧ atCreate th = true) :=
  (allInv_run cfg hc.joined hc.max sched).w.guard hne

/-- **P6 (worker bound).** With `initialSize ≤ maxSize`: in every reachable state at most `maxSize` workers are registered
in `_threads` (`getTotalThreadCount()`); by `worker_registered` below these are all the workers that can still take a task. -/
theorem P6_workers_le_max (cfg : Cfg) (hc : CfgOk cfg) (hinit : cfg.initialSize ≤ cfg.maxSize) (sched : List Choice) :
    (run cfg sched).sh.threads.length ≤ cfg.maxSize := by
  have hall := allInv_run cfg hc.joined hc.max sched
  obtain ⟨pc, r, h0, _⟩ := hall.main
  have := (sizeInv_run cfg hc.joined hc.max hinit sched).size _ h0
  omega

/-- **P4 (refusal reasons).** The outcome of a submission is decided only by a step of its own enqueue call, and:
"draining" only if `_accepting` is false at the unlocked check; "shutting down" only if `_shutdown` is set, "queue full"
only if the queue is at capacity — both read in the critical section; accepted (= pushed) only if neither holds. -/
theorem P4_refusal_reasons (cfg : Cfg) (sh : Shared) (n t : Nat) (th : Thread) (alt : Nat) (id : Nat)
    (h : (trans cfg sh n t th alt).1.result id ≠ sh.result id) :
    (∃ c, callOf th = some c) ∧
    (match (trans cfg sh n t th alt).1.result id with
     | .refDraining => sh.accepting = false
     | .refShutdown => sh.shutdown = true
     | .refFull => sh.shutdown = false ∧ cfg.maxQueue ≤ sh.tasks.length
     | .accepted => sh.shutdown = false ∧ sh.tasks.length < cfg.maxQueue
     | .pending => False) := by
  obtain ⟨h1, h2⟩ := trans_result cfg sh n t th alt id h
  refine ⟨h1, ?_⟩
  cases hr : (trans cfg sh n t th alt).1.result id <;> rw [hr] at h2 <;> exact h2

/-- non-vacuity: a submitter's call while the pool is draining changes the outcome of submission 0 (to "draining") -/
example : (trans exCfg { accepting := false } 2 1 (.sub (.run (.yield_ [⟨.enq, 0⟩]))) 0).1.result 0 = .refDraining ∧
    ({ accepting := false } : Shared).result 0 = .pending := by decide

/-- **Mutual exclusion** (what makes "one critical section" meaningful): in every reachable state every thread whose
state says it is inside a critical section of `_mutex` is its owner — so at most one is. -/
theorem mutex_exclusive (cfg : Cfg) (sched : List Choice) (t t' : Nat) (th th' : Thread)
    (h : (run cfg sched).thr[t]? = some th) (h' : (run cfg sched).thr[t']? = some th')
    (hh : holdsM th = true) (hh' : holdsM th' = true) : t = t' := by
  have hm : MutexOk (run cfg sched) :=
    inv_run cfg MutexOk (mutexOk_init cfg) (fun s c h => mutexOk_step cfg s c h) sched
  have e1 := hm t th h hh
  have e2 := hm t' th' h' hh'
  rw [e1] at e2
  exact Option.some.inj e2

/-- **Registered before running** (the repaired spawn protocol): every worker that has not returned is in `_threads`,
or is the one the controller is joining, or has removed itself after an idle time-out and is about to return — in
particular a worker with a task in hand is always visible to the join loop. -/
theorem worker_registered (cfg : Cfg) (hc : CfgOk cfg) (sched : List Choice) (w : Nat) (th : Thread)
    (h : (run cfg sched).thr[w]? = some th) (hw : isWorker th = true) (hnd : th ≠ .worker .done) :
    Accounted (run cfg sched).sh.threads (run cfg sched).thr w th :=
  (allInv_run cfg hc.joined hc.max sched).w.reg w th h hw hnd

-- ------------------------------------------------------------------------------------------------------------------
-- Conformance of the source text (Gen/TpSkel.lean, regenerated from the working tree on every run) with the programs the
-- model executes.  Each list below is written next to the model function it mirrors; the obligations are closed by
-- `decide`, so a tree whose lock/notify/spawn skeleton differs does not build.

abbrev Ev := String × String × String

/-- skeleton of one unit, verification hooks removed -/
def unit (n : String) : List Ev :=
  match Gen.TpSkel.skeleton.find? (fun r => r.1 == n) with
  | some r => r.2.filter (fun e => e.1 != "hook")
  | none => []

def hooksOf (n : String) : List String :=
  match Gen.TpSkel.skeleton.find? (fun r => r.1 == n) with
  | some r => (r.2.filter (fun e => e.1 == "hook")).map (fun e => e.2.1)
  | none => []

/-- what `callStep` does (Model/ThreadPool.lean): `yield_` reads `_accepting` outside the lock; `lock` checks `_shutdown`,
fullness, pushes, decides AND spawns inside the critical section; `unlock`; `notify` outside. `ref` = how a refusal leaves. -/
def enqueueExpected (ref : String) (tail : List Ev) : List Ev :=
  [("read", "_accepting", ""), (ref, "", ""), ("lock", "_mutex", ""), ("read", "_shutdown", "_mutex"), (ref, "", "_mutex"),
   ("full?", "_tasks", "_mutex"), (ref, "", "_mutex"), ("push", "_tasks", "_mutex"),
   ("room?:_threads.size()<_maxSize", "_threads", "_mutex"), ("call", "spawnWorkerLocked", "_mutex"),
   ("unlock", "_mutex", "_mutex"), ("notify_one", "_condition", "")] ++ tail

/-- **Conformance 1.** `enqueueImpl`: accepting check outside the lock; shutdown check, full check, push, spawn decision and
spawn INSIDE one critical section; `notify_one` after the unlock. -/
theorem skel_enqueueImpl : unit "enqueueImpl" = enqueueExpected "throw" [] := by decide
/-- **Conformance 2.** the same for `tryEnqueueImpl` (refusal = `return false`). -/
theorem skel_tryEnqueueImpl : unit "tryEnqueueImpl" = enqueueExpected "return" [("return", "", "")] := by decide

/-- **Conformance 3.** `spawnWorkerLocked` creates the thread and registers it in `_threads` with no lock operation in
between (the caller holds `_mutex`); `spawnWorker` (constructor) is lock / spawnWorkerLocked / unlock. -/
theorem skel_spawn :
    unit "spawnWorkerLocked" = [("create", "thread", ""), ("lambda", "worker", ""), ("register", "_threads", "")] ∧
    unit "spawnWorker" = [("lock", "_mutex", ""), ("call", "spawnWorkerLocked", "_mutex"), ("unlock", "_mutex", "_mutex")] := by
  decide

/-- what `transW` does (Model/ThreadPool.lean), in textual order of the lambda -/
def workerExpected : List Ev :=
  [("inc", "_threadsCreated", ""), ("inc", "_threadsStarted", ""),
   ("lock", "_mutex", ""), ("inc", "_waitingThreads", "_mutex"), ("wait_for:_idleTimeout", "_condition", "_mutex"),
   ("return", "", "_mutex"), ("read", "_shutdown", "_mutex"), ("empty?", "_tasks", "_mutex"),     -- the wait predicate
   ("dec", "_waitingThreads", "_mutex"),
   -- idle time-out: CAS on _threadsExited, detach + erase self, return — all inside the critical section
   ("read", "_threadsExited", "_mutex"), ("read", "_threadsCreated", "_mutex"), ("cas", "_threadsExited", "_mutex"),
   ("read", "_threads", "_mutex"), ("read", "_threads", "_mutex"), ("detach", "thread", "_mutex"), ("erase", "_threads", "_mutex"),
   ("return", "", "_mutex"), ("continue", "", "_mutex"),
   -- shutdown exit
   ("read", "_shutdown", "_mutex"), ("empty?", "_tasks", "_mutex"), ("inc", "_threadsExited", "_mutex"), ("return", "", "_mutex"),
   -- pop
   ("empty?", "_tasks", "_mutex"), ("front", "_tasks", "_mutex"), ("pop", "_tasks", "_mutex"), ("inc", "_busyThreads", "_mutex"),
   ("unlock", "_mutex", "_mutex"),
   -- run
   ("inc", "_activeThreads", ""), ("run", "task", ""), ("lock", "_configMutex", ""), ("unlock", "_configMutex", "_configMutex"),
   ("destroy", "task", ""), ("dec", "_activeThreads", ""), ("dec", "_busyThreads", "")]

/-- **Conformance 4.** the worker loop: the wait, both exit decisions (with their emptiness checks) and the pop are inside
ONE critical section; every `return` of the lambda happens with `_mutex` held; the task runs outside. -/
theorem skel_worker : unit "worker" = workerExpected ∧ Gen.TpSkel.workerWaitPred = "_shutdown||!_tasks.empty()" := by decide

/-- the only hook in the worker is `tp:popped` (or none) -/
theorem skel_worker_hooks : hooksOf "worker" = [] ∨ hooksOf "worker" = ["tp:popped"] := by decide

/-- **Conformance 5.** `shutdown()` and phase 1 of the destructor set `_shutdown` under `_mutex` and `notify_all` after the
unlock; both join loops pick and erase under `_mutex` and join outside. -/
theorem skel_shutdown :
    (unit "shutdown").take 6 = [("lock", "_mutex", ""), ("read", "_shutdown", "_mutex"), ("return", "", "_mutex"),
      ("write:true", "_shutdown", "_mutex"), ("unlock", "_mutex", "_mutex"), ("notify_all", "_condition", "")] ∧
    (unit "phase1").take 6 = (unit "shutdown").take 6 ∧
    (unit "shutdown").drop 15 = [("lock", "_mutex", ""), ("read", "_threads", "_mutex"), ("read", "_threads", "_mutex"),
      ("erase", "_threads", "_mutex"), ("unlock", "_mutex", "_mutex"), ("join", "thread", "")] ∧
    (unit "phase4").drop 2 = [("lock", "_mutex", ""), ("read", "_threads", "_mutex"), ("read", "_threads", "_mutex"),
      ("erase", "_threads", "_mutex"), ("unlock", "_mutex", "_mutex"), ("detach", "thread", ""), ("join", "thread", ""),
      ("return", "", "")] ∧
    Gen.TpSkel.dtorPhases = [1, 2, 3, 4, 5] ∧ Gen.TpSkel.workerScaling = true := by decide

end Iora.C09
