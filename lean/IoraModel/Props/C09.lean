import IoraModel.Lemmas.TpAfter
import IoraModel.Lemmas.TpRefuse
import IoraModel.Lemmas.TpSize
import IoraModel.Lemmas.TpIds
import IoraModel.Lemmas.TpLive
/-!
# C09 — Every accepted task runs exactly once before pool shutdown completes

Property theorems only (helper lemmas live in `Lemmas/Tp*.lean`).  The model is `Model/ThreadPool.lean`: the monitor
model of `iora::core::ThreadPool` at DetSched granularity, with the spawn protocol as repaired by
fixes/F24-threadpool-atomic-spawn.patch, the wait of a concurrent `shutdown()` caller as repaired by
fixes/FC09a-threadpool-concurrent-shutdown-waits.patch and the clamp of `_maxSize` of
fixes/FC09b-threadpool-maxsize-clamp.patch (the restart path also has fixes/FC09c-threadpool-start-respects-bound.patch).
"For every schedule" = `∀ sched : List Choice` (thread choice, which sleeper a
`notify_one` wakes, time-outs, spurious wake-ups, late clocks, hash order of the join loop); the scripts of the
controller thread, of ANY NUMBER of additional controller threads (`Cfg.ctls`: each may call drain / stop / shutdown and
submit, concurrently with each other), of the submitters and of the task bodies (`Cfg`) are arbitrary too.

Declared assumptions (see `CfgOk` and the level note): the shutdown mode is IMMEDIATE or GRACEFUL; the pool is not
restarted (`reset()` + `start()` after `stop()`): the restart path is part of the model, of the source conformance
theorems and of the run-time check, but the theorems below are proved for `allowRestart = false`; only thread 0 destroys
the pool (the additional controllers never run the destructor — the model ignores a `destroy` in their scripts).
-/
namespace Iora.C09
open Iora.ThreadPool

/-- hypotheses on the configuration: the shutdown mode is IMMEDIATE or GRACEFUL (DETACHED does not wait for the workers —
excluded, as stated in DESIGN §7 C09); no restart after `stop()`.  Nothing is assumed about `initialSize`, `maxSize`
(0 and values below `initialSize` included: the constructor clamps, `Cfg.effMax`), the queue bound, the scripts, or the
number of controller threads. -/
structure CfgOk (cfg : Cfg) : Prop where
  joined : cfg.detached = false
  norestart : cfg.allowRestart = false

/-- `stop()` returned ok (4), `shutdown()` returned (7) or the destructor returned (8, 9) at some point of the run -/
def Returned (s : St) : Prop := ∃ c, c ∈ s.sh.mlog ∧ isReturnCode c

-- ---------------------------------------------------------------------------------------------------------------- non-vacuity
/-- a small scenario: 1 worker (min = max = 1), the controller submits one task, calls `stop()`, destroys the pool -/
def exCfg : Cfg :=
  { initialSize := 1, maxSize := 1, maxQueue := 2, detached := false, hook := false,
    bodies := [{ acts := [], throws := false }], main := [.act ⟨.enq, 0⟩, .stop, .destroy] }

/-- the schedule of a real DetSched run of this scenario (harness/c09_tp.cpp, seed 5), as accepted by the driver -/
def exSched : List Choice :=
  [.run 0 0, .run 0 0, .run 0 0, .run 1 0, .run 0 0, .run 1 0, .run 0 0, .run 1 0, .run 0 0, .run 0 0, .run 0 0, .run 0 1, .run 1 1,
   .run 1 0, .run 1 0, .run 0 0, .run 1 0, .run 1 0, .timeout 1, .run 1 1, .run 1 0, .run 0 0, .run 0 0, .run 1 0, .run 1 0, .run 0 0,
   .run 0 0, .run 0 0, .run 0 0, .run 0 0, .run 0 0, .run 0 0, .run 1 1, .run 1 0, .run 0 0, .run 0 0, .run 0 0, .run 0 1, .run 0 0,
   .run 0 0, .run 0 0, .run 0 0, .run 0 0, .run 0 0, .run 0 0, .run 0 0]

/-- two controller threads: thread 0 submits a task, starts a second controller whose script is `shutdown()`, and calls
`shutdown()` itself; then joins the second controller and destroys the pool -/
def exCfg2 : Cfg :=
  { initialSize := 1, maxSize := 1, maxQueue := 2, detached := false, hook := false,
    bodies := [{ acts := [], throws := false }], ctls := [[.shutdown]],
    main := [.act ⟨.enq, 0⟩, .spawnCtl 0, .shutdown, .joinSubs, .destroy] }

/-- a real DetSched run of it (seed 7): thread 0 owns the shutdown; thread 2 finds `_shutdown` set and polls
`_shutdownComplete` (7 steps at `sDoneZ`) until thread 0 has joined the worker -/
def exSched2 : List Choice :=
  [.run 0 0, .run 0 0, .run 0 0, .run 0 0, .run 1 0, .run 0 0, .run 1 0, .run 0 0, .run 1 0, .run 0 0, .run 0 0, .run 0 1, .run 0 0,
   .run 1 1, .run 1 0, .run 1 0, .run 0 0, .run 1 0, .run 2 0, .run 2 0, .run 1 0, .timeout 1, .run 0 0, .run 0 0, .run 0 0, .run 2 0,
   .run 0 0, .run 2 0, .run 0 0, .run 0 0, .run 0 0, .run 0 0, .run 0 0, .run 0 1, .run 2 0, .run 2 0, .run 2 0, .run 2 0, .run 0 0,
   .run 1 1, .run 1 0, .run 0 0, .run 2 0, .run 0 0, .run 0 0, .run 0 0, .run 2 0, .run 2 0, .run 0 0, .run 0 0, .run 0 0, .run 0 0,
   .run 0 0]

/-- `CfgOk` is satisfiable, and in the first run `stop()` returns ok (4), `shutdown()` (7) and the destructor (8) return, one
task is accepted, started once and finished once, and the queue had been non-empty on the way (prefix of 12 steps): the
hypotheses of P2, P3, P5b and P6 are met by non-trivial states.  In the second run both `shutdown()` calls return (7, 7),
the second one after waiting, and the destructor returns (8). -/
example : CfgOk exCfg := ⟨rfl, rfl⟩
example : CfgOk exCfg2 := ⟨rfl, rfl⟩
example : (run exCfg exSched).sh.mlog = [8, 4, 7] := by decide
set_option maxRecDepth 8000 in
example : (run exCfg2 exSched2).sh.mlog = [8, 7, 7] := by decide
set_option maxRecDepth 8000 in
example : (match (run exCfg2 (exSched2.take 36)).thr[2]? with | some (.main (.sDoneZ 1) _) => true | _ => false) = true ∧
    (run exCfg2 (exSched2.take 36)).sh.complete = 0 ∧ (run exCfg2 exSched2).sh.complete = 1 := by decide
example : Returned (run exCfg exSched) := ⟨8, by decide, Or.inr (Or.inr (Or.inl rfl))⟩
example : (run exCfg exSched).sh.result 0 = .accepted ∧ (run exCfg exSched).sh.accCnt 0 = 1 ∧
    (run exCfg exSched).sh.startCnt 0 = 1 ∧ (run exCfg exSched).sh.doneCnt 0 = 1 := by decide
example : (run exCfg (exSched.take 12)).sh.tasks ≠ [] := by decide
example : (run exCfg exSched).sh.threads.length = 0 ∧ (run exCfg (exSched.take 12)).sh.threads.length = 1 := by decide
example : (run exCfg (exSched.take 12)).sh.shutdown = false ∧ (run exCfg (exSched.take 12)).thr.countP liveWorker = 1 := by decide
/-- `maxSize = 0` (also the default when `hardware_concurrency()` is 0) is clamped: -/
example : ({ exCfg with initialSize := 0, maxSize := 0 } : Cfg).effMax = 1 ∧ ({ exCfg with initialSize := 3, maxSize := 1 } : Cfg).effMax = 3 := by decide

/-- **P1 (conservation).** In every reachable state, for every task id: the number of accepted submissions equals
queued + in a worker's hand + finished, and the number of started bodies equals running + finished.  Hence no
accepted submission is ever lost or duplicated, and no body starts more often than its task was accepted. -/
theorem P1_conservation (cfg : Cfg) (hc : CfgOk cfg) (sched : List Choice) (id : Nat) :
    let s := run cfg sched
    s.sh.tasks.count id + handCnt s.thr id + s.sh.doneCnt id = s.sh.accCnt id ∧
    s.sh.startCnt id = runCnt s.thr id + s.sh.doneCnt id ∧
    s.sh.startCnt id ≤ s.sh.accCnt id := by
  have h := conserved_run cfg hc.norestart sched
  refine ⟨h.1 id, h.2 id, ?_⟩
  have h1 := h.1 id
  have h2 := h.2 id
  have : runCnt (run cfg sched).thr id ≤ handCnt (run cfg sched).thr id := by
    simp only [runCnt, handCnt]
    apply List.countP_mono_left
    intro th _ hr
    simp only [decide_eq_true_eq] at hr ⊢
    cases th with
    | main pc r => simp [running] at hr
    | sub x => simp [running] at hr
    | worker w => cases w <;> simp [running] at hr <;> simp [cur, hr]
  omega

/-- **B (an id is decided once).** In every reachable state (any mode, with or without restart): submission `id` has
outcome "accepted" iff it has been pushed exactly once; no id is pushed twice. -/
theorem accepted_iff_pushed_once (cfg : Cfg) (sched : List Choice) (id : Nat) :
    ((run cfg sched).sh.result id = .accepted ↔ (run cfg sched).sh.accCnt id = 1) ∧ (run cfg sched).sh.accCnt id ≤ 1 :=
  ⟨accepted_iff_accCnt cfg sched id, accCnt_le_one cfg sched id⟩

/-- **P2 (join ⇒ finished; exactly once).** Whenever `stop()` has returned ok, or `shutdown()` — called by ANY controller
thread, also one that found `_shutdown` already set — or the destructor has returned: the queue is empty, no thread has a
task in hand, every worker has left its loop, every accepted submission has been started exactly once and has finished
exactly once, and no other submission has started. -/
theorem P2_returns_only_when_finished (cfg : Cfg) (hc : CfgOk cfg) (sched : List Choice) (hr : Returned (run cfg sched)) :
    let s := run cfg sched
    s.sh.tasks = [] ∧
    (∀ (t : Nat) (th : Thread), s.thr[t]? = some th → cur th = none ∧ (isWorker th = true → goneW th = true)) ∧
    (∀ id, s.sh.result id = .accepted → s.sh.startCnt id = 1 ∧ s.sh.doneCnt id = 1) ∧
    (∀ id, s.sh.result id ≠ .accepted → s.sh.startCnt id = 0 ∧ s.sh.doneCnt id = 0) := by
  have hall := allInv_run cfg hc.joined hc.norestart sched
  obtain ⟨c, hcm, hcr⟩ := hr
  have hq := hall.c.gok.log c hcm hcr
  have Q := hall.q hq
  have hcons := conserved_run cfg hc.norestart sched
  have counts : ∀ id, (run cfg sched).sh.startCnt id = (run cfg sched).sh.accCnt id ∧
      (run cfg sched).sh.doneCnt id = (run cfg sched).sh.accCnt id := by
    intro id
    have hz := quiet_no_hand _ Q id
    have h1 := hcons.1 id
    have h2 := hcons.2 id
    rw [Q.tasks, hz.1] at h1
    rw [hz.2] at h2
    simp at h1 h2
    omega
  refine ⟨Q.tasks, ?_, ?_, ?_⟩
  · intro t th hget
    have h2 := (Q.thr t th hget).2
    refine ⟨?_, h2⟩
    cases th with
    | main pc r => rfl
    | sub x => rfl
    | worker w =>
      have := h2 rfl
      cases w <;> simp [goneW] at this <;> rfl
  · intro id hacc
    have := (idInv_run cfg sched).acc id
    have h1 := this.1 hacc
    have := counts id
    omega
  · intro id hacc
    have := (idInv_run cfg sched).acc id
    have h1 := this.2 hacc
    have := counts id
    omega

/-- **P3 (nothing starts afterwards).** After `stop()` (ok), `shutdown()` (of any controller thread) or the destructor
has returned, no task body starts any more, whatever the threads do. -/
theorem P3_no_start_after_return (cfg : Cfg) (hc : CfgOk cfg) (sched more : List Choice) (hr : Returned (run cfg sched)) :
    (run cfg (sched ++ more)).sh.startCnt = (run cfg sched).sh.startCnt := by
  have hq0 : (run cfg sched).sh.quiesced = true := by
    obtain ⟨c, hcm, hcr⟩ := hr
    exact (allInv_run cfg hc.joined hc.norestart sched).c.gok.log c hcm hcr
  clear hr
  suffices h : ∀ (more sched : List Choice), (run cfg sched).sh.quiesced = true →
      (run cfg (sched ++ more)).sh.quiesced = true ∧ (run cfg (sched ++ more)).sh.startCnt = (run cfg sched).sh.startCnt from
    (h more sched hq0).2
  intro more
  induction more with
  | nil => intro sched hq; simp [hq]
  | cons c cs ih =>
    intro sched hq
    have hstep := quiet_step cfg (run cfg sched) c hq (allInv_run cfg hc.joined hc.norestart sched).q
      (allInv_run cfg hc.joined hc.norestart sched).c.nors
    have e : run cfg (sched ++ [c]) = step cfg (run cfg sched) c := by simp [run, List.foldl_append]
    have h2 := ih (sched ++ [c]) (by rw [e]; exact hstep.1)
    have e2 : sched ++ c :: cs = (sched ++ [c]) ++ cs := by simp
    rw [e2]
    exact ⟨h2.1, by rw [h2.2, e]; exact hstep.2⟩

/-- **P5a (the idle exit sees an empty queue).** Whenever a step takes a worker from its loop into its exit path
(idle time-out above the minimum, or shutdown), the queue is empty in that very critical section. -/
theorem P5_exit_decision_with_empty_queue (cfg : Cfg) (sh : Shared) (n t : Nat) (w : WSt) (alt : Nat)
    (h0 : tailW (.worker w) = false) (h1 : tailW (.worker (transW cfg sh n t w).2.1) = true) :
    sh.tasks = [] ∧ (transW cfg sh n t w).1.tasks = [] := by
  have he := transW_eff cfg sh n t w alt
  cases he with
  | quiet h _ _ _ _ htail => rw [htail, h0] at h1; cases h1
  | push _ _ _ _ _ _ _ _ _ _ htail => rw [htail, h0] at h1; cases h1
  | create _ _ _ _ _ _ _ _ htail => rw [htail, h0] at h1; cases h1
  | exitIdle h _ _ he => exact ⟨he, by rw [h.tasks]; exact he⟩
  | exitShutdown h _ _ he => exact ⟨he, by rw [h.tasks]; exact he⟩
  | pop _ _ _ _ _ _ _ hw => rw [hw] at h1; simp [tailW] at h1
  | selfErase hth => rw [hth] at h0; simp [tailW] at h0
  | finishW hth => rw [hth] at h0; simp [tailW] at h0
  | pick r hth => cases hth
  | quiesce r hth => cases hth
  | joined w0 r hth => rcases hth with e | e <;> cases e
  | setShut r r' hth => cases hth
  | restart hth => simp [restartTh] at hth

/-- non-vacuity: a worker at the top of its loop, pool shut down, queue empty: the step takes it into the exit path -/
example : tailW (.worker .lock) = false ∧
    tailW (.worker (transW exCfg { shutdown := true } 2 1 .lock).2.1) = true := by decide

/-- the same for the re-acquisition after a wake-up (time-out, notify, spurious) -/
theorem P5_exit_decision_after_wait (cfg : Cfg) (sh : Shared) (t : Nat) (late : Bool)
    (h1 : tailW (.worker (reacq cfg sh t late).2) = true) : sh.tasks = [] := by
  rcases reacq_eff cfg sh t late with he | ⟨_, hw⟩
  · cases he with
    | cont _ hw => rw [hw] at h1; simp [tailW] at h1
    | exitIdle _ he => exact he
    | exitShutdown _ he => exact he
    | pop _ _ _ _ _ hw => rw [hw] at h1; simp [tailW] at h1
  · rw [hw] at h1; simp [tailW] at h1

/-- **P5b (no stranded task).** In every reachable state with a non-empty queue there is a guardian: a worker that is
registered in `_threads` (or is being joined) and has not decided to exit — it will look at the queue under the mutex
before it can leave — or a submitter that holds the mutex and is about to create such a worker. -/
theorem P5_no_stranded_task (cfg : Cfg) (hc : CfgOk cfg) (sched : List Choice) (hne : (run cfg sched).sh.tasks ≠ []) :
    let s := run cfg sched
    (∃ (w : Nat) (th : Thread), s.thr[w]? = some th ∧ Guardian s.sh.threads s.thr w th) ∨
    (∃ (t : Nat) (th : Thread), s.thr[t]? = some th ∧ atCreate th = true) :=
  (allInv_run cfg hc.joined hc.norestart sched).w.guard hne

/-- **P6 (worker bound).** In every reachable state at most `_maxSize` workers are registered in `_threads`
(`getTotalThreadCount()`), where `_maxSize` is the constructor argument clamped to at least `max(initialSize, 1)`
(`Cfg.effMax`); no hypothesis on `initialSize` / `maxSize`. -/
theorem P6_workers_le_max (cfg : Cfg) (hc : CfgOk cfg) (sched : List Choice) :
    (run cfg sched).sh.threads.length ≤ cfg.effMax := by
  have hall := allInv_run cfg hc.joined hc.norestart sched
  obtain ⟨pc, r, h0⟩ := hall.c.main0
  have := (sizeInv_run cfg hc.joined hc.norestart sched).size _ h0
  omega

/-- **F (live worker threads ≤ max).** Until shutdown, the number of THREADS that are workers and have neither removed
themselves from `_threads` (idle exit: such a worker still holds `_mutex` and only unlocks and returns) nor returned is at
most `_maxSize`. -/
theorem P6_live_worker_threads_le_max (cfg : Cfg) (hc : CfgOk cfg) (sched : List Choice)
    (hs : (run cfg sched).sh.shutdown = false) : (run cfg sched).thr.countP liveWorker ≤ cfg.effMax :=
  live_workers_le_max cfg hc.joined hc.norestart sched hs

/-- the clamp: `_maxSize ≥ 1` and `_maxSize ≥ initialSize`, so a pool always can have a worker for an accepted task -/
theorem effMax_ge (cfg : Cfg) : 1 ≤ cfg.effMax ∧ cfg.initialSize ≤ cfg.effMax ∧ cfg.maxSize ≤ cfg.effMax :=
  ⟨effMax_pos cfg, effMax_init cfg, by unfold Cfg.effMax; simp only []; (repeat' split) <;> omega⟩

/-- **A (one owner).** At most one controller thread is between setting `_shutdown` and returning from `shutdown()` / the
destructor — only it runs a join loop; every other caller of `shutdown()` is on the "already shut down" path. -/
theorem one_shutdown_owner (cfg : Cfg) (hc : CfgOk cfg) (sched : List Choice) (t t' : Nat) (pc pc' : MPc) (r r' : MRegs)
    (h : (run cfg sched).thr[t]? = some (.main pc r)) (h' : (run cfg sched).thr[t']? = some (.main pc' r'))
    (ho : ownsPc pc = true) (ho' : ownsPc pc' = true) : t = t' :=
  (allInv_run cfg hc.joined hc.norestart sched).c.oneOwner t t' pc pc' r r' h h' ho ho'

/-- `_shutdownCompleteEpoch` becomes non-zero only after a join loop has completed -/
theorem complete_implies_quiesced (cfg : Cfg) (hc : CfgOk cfg) (sched : List Choice)
    (h : 0 < (run cfg sched).sh.complete) : (run cfg sched).sh.quiesced = true :=
  (allInv_run cfg hc.joined hc.norestart sched).c.gok.cq h

/-- **FC09d (1): a caller on the "already shut down" path waits for a shutdown that has begun.**  The number it read under
`_mutex` is positive, and `_shutdown` is still set while it waits (no restart). -/
theorem poller_epoch_positive (cfg : Cfg) (hc : CfgOk cfg) (sched : List Choice) (t : Nat) (pc : MPc) (r : MRegs) (e : Nat)
    (h : (run cfg sched).thr[t]? = some (.main pc r)) (hp : pollEp pc = some e) : 0 < e ∧ (run cfg sched).sh.shutdown = true :=
  ((allInv_run cfg hc.joined hc.norestart sched).c.cok t pc r h).ep e hp

/-- **FC09d (2): `reset()` + `start()` never lower `_shutdownCompleteEpoch`** (with or without `allowRestart`): every step of
the restart sequence `rsL … kU` leaves it alone — the completion a waiting `shutdown()` caller polls for cannot be hidden by
a restart, which is what clearing the boolean latch in `start()` did. -/
theorem restart_keeps_complete (cfg : Cfg) (sh : Shared) (n t : Nat) (pc : MPc) (r : MRegs) (alt : Nat)
    (h : restartPc pc = true) : (transM cfg sh n t pc r alt).1.complete = sh.complete := by
  cases pc <;> simp [restartPc] at h <;> simp only [transM] <;> (repeat' split) <;> rfl

/-- **FC09d (3): once its shutdown number is completed the waiting caller returns at its next step**, whatever happened
in between (in particular a restart that cleared `_shutdown`): the step logs 7 and leaves the polling loop. -/
theorem poller_returns_when_completed (cfg : Cfg) (sh : Shared) (n t : Nat) (r : MRegs) (alt : Nat) (e : Nat)
    (h : e ≤ sh.complete) :
    7 ∈ (transM cfg sh n t (.sDoneZ e) r alt).1.mlog ∧ (transM cfg sh n t (.sDoneZ e) r alt).2.1.1 = .mYield := by
  simp only [transM, h, if_true, shutdownReturn]
  split <;> simp

/-- non-vacuity: a waiting caller with number 1, the pool restarted meanwhile (`shutdown = false`), completed number 1 -/
example : 7 ∈ (transM exCfg { shutdown := false, complete := 1, epoch := 1 } 3 2 (.sDoneZ 1) {} 0).1.mlog := by decide

/-- **P4 (refusal reasons).** The outcome of a submission is decided only by a step of its own enqueue call, and:
"draining" only if `_accepting` is false at the unlocked check; "shutting down" only if `_shutdown` is set, "queue full"
only if the queue is at capacity — both read in the critical section; accepted (= pushed) only if neither holds. -/
theorem P4_refusal_reasons (cfg : Cfg) (sh : Shared) (n t : Nat) (th : Thread) (alt : Nat) (id : Nat)
    (h : (trans cfg sh n t th alt).1.result id ≠ sh.result id) :
    (∃ c, callOf th = some c) ∧
    (match (trans cfg sh n t th alt).1.result id with
     | .refDraining => sh.accepting = false
     | .refShutdown => sh.shutdown = true
     | .refFull => sh.shutdown = false ∧ cfg.maxQueue ≤ sh.tasks.length
     | .accepted => sh.shutdown = false ∧ sh.tasks.length < cfg.maxQueue
     | .pending => False) := by
  obtain ⟨h1, h2⟩ := trans_result cfg sh n t th alt id h
  refine ⟨h1, ?_⟩
  cases hr : (trans cfg sh n t th alt).1.result id <;> rw [hr] at h2 <;> exact h2

/-- non-vacuity: a submitter's call while the pool is draining changes the outcome of submission 0 (to "draining") -/
example : (trans exCfg { accepting := false } 2 1 (.sub (.run (.yield_ [⟨.enq, 0⟩]))) 0).1.result 0 = .refDraining ∧
    ({ accepting := false } : Shared).result 0 = .pending := by decide

/-- **FC09e (thread creation fails after the push).** Let `cid` be the task just pushed (`tasks ++ [cid]`, `cid` not queued
before) when `std::thread` throws.  If the call is then REFUSED, the queue is exactly what it was before the push and `cid` is
not in it (a refused task can never be popped, hence never runs); if the call is ACCEPTED, `cid` is queued and at least one
worker is registered in `_threads` (by P5b/`worker_registered` such a worker looks at the queue again before it can leave). -/
theorem spawn_failure_refused_or_has_worker (sh : Shared) (cid : Nat) (hn : cid ∉ sh.tasks) :
    let r := spawnFailed { sh with tasks := sh.tasks ++ [cid] }
    (r.2 = true → r.1.tasks = sh.tasks ∧ cid ∉ r.1.tasks ∧ sh.threads = []) ∧
    (r.2 = false → cid ∈ r.1.tasks ∧ r.1.threads ≠ [] ∧ r.1.tasks = sh.tasks ++ [cid]) := by
  simp only [spawnFailed]
  by_cases h : sh.threads = []
  · simp [h, hn]
  · simp [h]

/-- **FC09e, strengthened (seed C09-e): accepted ⇒ a LIVE worker exists.**  In every reachable state in which `_shutdown` is
false (the submitter read it in the same critical section): if the thread creation fails after the push of `cid` and the call
is accepted, then some entry `w` of `_threads` is a worker THREAD that has neither removed itself from `_threads` nor returned —
not merely "`_threads` is non-empty".  The model's `_threads` holds only threads that the registering step itself created
(`create`: `threads ++ [n]` with `.spawn newWorker`); the source is tied to that by `skel_spawn` (the only insertion into
`_threads` is `emplace(t.get_id(), std::move(t))` of the `std::thread t` constructed just before — a placeholder entry does not
build). -/
theorem spawn_failure_accepted_has_live_worker (cfg : Cfg) (hc : CfgOk cfg) (sched : List Choice) (cid : Nat)
    (hs : (run cfg sched).sh.shutdown = false)
    (ha : (spawnFailed { (run cfg sched).sh with tasks := (run cfg sched).sh.tasks ++ [cid] }).2 = false) :
    ∃ (w : Nat) (th : Thread), w ∈ (run cfg sched).sh.threads ∧ (run cfg sched).thr[w]? = some th ∧ liveWorker th = true := by
  have hne : (run cfg sched).sh.threads ≠ [] := by
    intro e
    simp [spawnFailed, e] at ha
  obtain ⟨w, hw⟩ := List.exists_mem_of_ne_nil _ hne
  obtain ⟨th, hget, hiw, hg⟩ := (allInv_run cfg hc.joined hc.norestart sched).w.live hs w hw
  exact ⟨w, th, hw, hget, by simp [liveWorker, hiw, hg]⟩

/-- non-vacuity: after 12 steps of the example run the pool is not shut down, one worker is registered, and a failed creation
would be accepted (the registered worker is the live one) -/
example : (run exCfg (exSched.take 12)).sh.shutdown = false ∧
    (spawnFailed { (run exCfg (exSched.take 12)).sh with tasks := (run exCfg (exSched.take 12)).sh.tasks ++ [7] }).2 = false := by decide

/-- non-vacuity: both outcomes occur -/
example : (spawnFailed { tasks := [3] ++ [4] }).2 = true ∧ (spawnFailed { tasks := [3] ++ [4] }).1.tasks = [3] ∧
    (spawnFailed { tasks := [3] ++ [4], threads := [1] }).2 = false := by decide

/-- **Mutual exclusion** (what makes "one critical section" meaningful): in every reachable state every thread whose
state says it is inside a critical section of `_mutex` is its owner — so at most one is. -/
theorem mutex_exclusive (cfg : Cfg) (sched : List Choice) (t t' : Nat) (th th' : Thread)
    (h : (run cfg sched).thr[t]? = some th) (h' : (run cfg sched).thr[t']? = some th')
    (hh : holdsM th = true) (hh' : holdsM th' = true) : t = t' := by
  have hm : MutexOk (run cfg sched) :=
    inv_run cfg MutexOk (mutexOk_init cfg) (fun s c h => mutexOk_step cfg s c h) sched
  have e1 := hm t th h hh
  have e2 := hm t' th' h' hh'
  rw [e1] at e2
  exact Option.some.inj e2

/-- **Registered before running** (the repaired spawn protocol): every worker that has not returned is in `_threads`,
or is the one the controller is joining, or has removed itself after an idle time-out and is about to return — in
particular a worker with a task in hand is always visible to the join loop. -/
theorem worker_registered (cfg : Cfg) (hc : CfgOk cfg) (sched : List Choice) (w : Nat) (th : Thread)
    (h : (run cfg sched).thr[w]? = some th) (hw : isWorker th = true) (hnd : th ≠ .worker .done) :
    Accounted (run cfg sched).sh.threads (run cfg sched).thr w th :=
  (allInv_run cfg hc.joined hc.norestart sched).w.reg w th h hw hnd

-- ------------------------------------------------------------------------------------------------------------------
-- Conformance of the source text (Gen/TpSkel.lean, regenerated from the working tree on every run) with the programs the
-- model executes.  Each list below is written next to the model function it mirrors; the obligations are closed by
-- `decide`, so a tree whose lock/notify/spawn skeleton differs does not build.

abbrev Ev := String × String × String

/-- skeleton of one unit, verification hooks removed -/
def unit (n : String) : List Ev :=
  match Gen.TpSkel.skeleton.find? (fun r => r.1 == n) with
  | some r => r.2.filter (fun e => e.1 != "hook")
  | none => []

def hooksOf (n : String) : List String :=
  match Gen.TpSkel.skeleton.find? (fun r => r.1 == n) with
  | some r => (r.2.filter (fun e => e.1 == "hook")).map (fun e => e.2.1)
  | none => []

/-- what `callStep` does (Model/ThreadPool.lean): `yield_` reads `_accepting` outside the lock; `lock` checks `_shutdown`,
fullness, pushes, decides AND spawns inside the critical section; `unlock`; `notify` outside. `ref` = how a refusal leaves. -/
def enqueueExpected (ref : String) (tail : List Ev) : List Ev :=
  [("read", "_accepting", ""), (ref, "", ""), ("lock", "_mutex", ""), ("read", "_shutdown", "_mutex"), (ref, "", "_mutex"),
   ("full?", "_tasks", "_mutex"), (ref, "", "_mutex"), ("push", "_tasks", "_mutex"),
   ("room?:_threads.size()<_maxSize", "_threads", "_mutex"), ("try", "", "_mutex"), ("call", "spawnWorkerLocked", "_mutex"),
   -- fixes/FC09e: a failed thread creation is caught; only when no worker exists the task is taken back and the call refused
   ("catch:conststd::system_error&", "", "_mutex"), ("none?", "_threads", "_mutex"), ("call", "discardNewestTaskLocked", "_mutex"),
   (ref, "", "_mutex"),
   ("unlock", "_mutex", "_mutex"), ("notify_one", "_condition", "")] ++ tail

/-- **Conformance 1.** `enqueueImpl`: accepting check outside the lock; shutdown check, full check, push, spawn decision and
spawn INSIDE one critical section; `notify_one` after the unlock. -/
theorem skel_enqueueImpl : unit "enqueueImpl" = enqueueExpected "throw" [] := by decide
/-- **Conformance 2.** the same for `tryEnqueueImpl` (refusal = `return false`). -/
theorem skel_tryEnqueueImpl : unit "tryEnqueueImpl" = enqueueExpected "return" [("return", "", "")] := by decide

/-- **Conformance 3.** `spawnWorkerLocked` creates the thread and registers it in `_threads` with no lock operation in
between (the caller holds `_mutex`); `spawnWorker` (constructor) is lock / spawnWorkerLocked / unlock. -/
theorem skel_spawn :
    unit "spawnWorkerLocked" = [("create", "thread", ""), ("lambda", "worker", ""), ("register", "_threads", "")] ∧
    unit "spawnWorker" = [("lock", "_mutex", ""), ("call", "spawnWorkerLocked", "_mutex"), ("unlock", "_mutex", "_mutex")] ∧
    unit "discardNewest" = [("size", "_tasks", ""), ("front", "_tasks", ""), ("pop", "_tasks", ""), ("swap", "_tasks", "")] ∧
    -- every insertion into `_threads` inserts the constructed thread under its own id (no placeholder, no second insertion)
    Gen.TpSkel.createdThreadVar = "t" ∧ Gen.TpSkel.registrations = [("t.get_id()", "std::move(t)")] := by
  decide

/-- what `transW` does (Model/ThreadPool.lean), in textual order of the lambda -/
def workerExpected : List Ev :=
  [("inc", "_threadsCreated", ""), ("inc", "_threadsStarted", ""),
   ("lock", "_mutex", ""), ("inc", "_waitingThreads", "_mutex"), ("wait_for:_idleTimeout", "_condition", "_mutex"),
   ("return", "", "_mutex"), ("read", "_shutdown", "_mutex"), ("empty?", "_tasks", "_mutex"),     -- the wait predicate
   ("dec", "_waitingThreads", "_mutex"),
   -- idle time-out: CAS on _threadsExited, detach + erase self, return — all inside the critical section
   ("read", "_threadsExited", "_mutex"), ("read", "_threadsCreated", "_mutex"), ("cas", "_threadsExited", "_mutex"),
   ("read", "_threads", "_mutex"), ("read", "_threads", "_mutex"), ("detach", "thread", "_mutex"), ("erase", "_threads", "_mutex"),
   ("return", "", "_mutex"), ("continue", "", "_mutex"),
   -- shutdown exit
   ("read", "_shutdown", "_mutex"), ("empty?", "_tasks", "_mutex"), ("inc", "_threadsExited", "_mutex"), ("return", "", "_mutex"),
   -- pop
   ("empty?", "_tasks", "_mutex"), ("front", "_tasks", "_mutex"), ("pop", "_tasks", "_mutex"), ("inc", "_busyThreads", "_mutex"),
   ("unlock", "_mutex", "_mutex"),
   -- run
   ("inc", "_activeThreads", ""), ("try", "", ""), ("run", "task", ""), ("catch:...", "", ""), ("lock", "_configMutex", ""), ("unlock", "_configMutex", "_configMutex"),
   ("destroy", "task", ""), ("dec", "_activeThreads", ""), ("dec", "_busyThreads", "")]

/-- **Conformance 4.** the worker loop: the wait, both exit decisions (with their emptiness checks) and the pop are inside
ONE critical section; every `return` of the lambda happens with `_mutex` held; the task runs outside. -/
theorem skel_worker : unit "worker" = workerExpected ∧ Gen.TpSkel.workerWaitPred = "_shutdown||!_tasks.empty()" := by decide

/-- the only hook in the worker is `tp:popped` (or none) -/
theorem skel_worker_hooks : hooksOf "worker" = [] ∨ hooksOf "worker" = ["tp:popped"] := by decide

/-- **Conformance 5.** `shutdown()`: `_shutdown` is read under `_mutex`; on the "already shut down" path the caller
unlocks, then polls `_shutdownComplete` (sleeping 1 ms) and only then returns (`sFlagUA` / `sDoneZ` of the model); the owner
sets `_shutdown` under `_mutex`, `notify_all` after the unlock, and stores `_shutdownComplete` after the join loop, as its
last operation.  Phase 1 of the destructor sets `_shutdown` the same way; both join loops pick and erase under `_mutex` and
join outside; phase 4 detaches exactly under the condition `mode == DETACHED` — every other mode joins. -/
theorem skel_shutdown :
    unit "shutdown" = [("lock", "_mutex", ""), ("read", "_shutdown", "_mutex"), ("read", "_shutdownEpoch", "_mutex"),
      ("unlock", "_mutex", "_mutex"), ("read:acquire", "_shutdownCompleteEpoch", ""), ("sleep:1ms", "", ""), ("return", "", ""),
      ("write:true", "_shutdown", "_mutex"), ("inc", "_shutdownEpoch", "_mutex"), ("unlock", "_mutex", "_mutex"),
      ("notify_all", "_condition", ""),
      -- first wait (pollL/pollU/pollZ .shut), grace sleep, re-check (sGrace/sChkL/sChkU), race wait (.race)
      ("read", "_activeThreads", ""), ("call", "getPendingTaskCount", ""), ("sleep:50ms", "", ""), ("sleep:10ms", "", ""),
      ("read", "_activeThreads", ""), ("call", "getPendingTaskCount", ""), ("read", "_activeThreads", ""),
      ("call", "getPendingTaskCount", ""), ("sleep:50ms", "", ""),
      -- join loop, then the release store of the caller's own number
      ("lock", "_mutex", ""), ("read", "_threads", "_mutex"), ("read", "_threads", "_mutex"),
      ("erase", "_threads", "_mutex"), ("unlock", "_mutex", "_mutex"), ("join", "thread", ""),
      ("write:myEpoch:release", "_shutdownCompleteEpoch", "")] ∧
    unit "phase1" = [("lock", "_mutex", ""), ("read", "_shutdown", "_mutex"), ("return", "", "_mutex"),
      ("write:true", "_shutdown", "_mutex"), ("inc", "_shutdownEpoch", "_mutex"), ("unlock", "_mutex", "_mutex"),
      ("notify_all", "_condition", ""), ("return", "", "")] ∧
    unit "phase4" = [("lock", "_configMutex", ""), ("unlock", "_configMutex", "_configMutex"),
      ("lock", "_mutex", ""), ("read", "_threads", "_mutex"), ("read", "_threads", "_mutex"),
      ("erase", "_threads", "_mutex"), ("unlock", "_mutex", "_mutex"), ("cond:mode==ShutdownMode::DETACHED", "", ""),
      ("detach", "thread", ""), ("join", "thread", ""), ("return", "", "")] ∧
    unit "getPendingTaskCount" = [("lock", "_mutex", ""), ("return", "", "_mutex"), ("size", "_tasks", "_mutex"),
      ("unlock", "_mutex", "_mutex")] ∧
    Gen.TpSkel.dtorPhases = [1, 2, 3, 4, 5] ∧ Gen.TpSkel.workerScaling = true ∧
    Gen.TpSkel.shutdownGraceMs = 10 ∧ Gen.TpSkel.maxQueueDefault = 1024 ∧ Gen.TpSkel.idleTimeoutDefaultS = 30 := by decide

/-- **Conformance 6.** restart (`rsL … kU` of the model): `reset()` empties `_tasks` and clears `_threads` under `_mutex` and
zeroes the counters; `start()` clears `_shutdown` under `_mutex` and does NOT touch `_shutdownCompleteEpoch` (fixes/FC09d), then opens `_accepting`, then
runs `workerCount = _workerScaling ? _initialSize : _maxSize` iterations (loop condition `i < workerCount`), each of which
locks `_mutex` and creates + registers a worker only if `_threads.size() < workerCount` in that critical section (`kL` of
the model; fixes/FC09c: submitters may already be growing the pool). -/
theorem skel_restart :
    unit "reset" = [("return", "", ""), ("lock", "_mutex", ""), ("empty?", "_tasks", "_mutex"), ("pop", "_tasks", "_mutex"),
      ("clear", "_threads", "_mutex"), ("unlock", "_mutex", "_mutex"), ("write", "_activeThreads", ""), ("write", "_busyThreads", ""),
      ("write", "_threadsCreated", ""), ("write", "_threadsStarted", ""), ("write", "_threadsExited", ""),
      ("write", "_waitingThreads", ""), ("return", "", "")] ∧
    unit "start" = [("return", "", ""), ("return", "", ""), ("return", "", ""), ("lock", "_mutex", ""),
      ("write:false", "_shutdown", "_mutex"), ("unlock", "_mutex", "_mutex"),
      ("write:true", "_accepting", ""), ("workerCount:_workerScaling?_initialSize:_maxSize", "", ""),
      ("loop:i<workerCount", "", ""), ("lock", "_mutex", ""), ("room?:_threads.size()<workerCount", "_threads", "_mutex"),
      ("call", "spawnWorkerLocked", "_mutex"), ("unlock", "_mutex", "_mutex"), ("return", "", "")] := by decide

/-- **Conformance 7.** the constructor (`start … cU` of the model and `Cfg.effMax`): same worker count and loop condition
as `start()`; the default shutdown mode is IMMEDIATE (a joining mode); `_maxSize` is initialised with
`effectiveMaxSize(initialSize, maxSize)`, whose body is the clamp that `Cfg.effMax` computes. -/
theorem skel_ctor :
    unit "ctor" = [("write:true", "_accepting", ""), ("workerCount:_workerScaling?_initialSize:_maxSize", "", ""),
      ("loop:i<workerCount", "", ""), ("call", "spawnWorker", "")] ∧
    Gen.TpSkel.ctorDefaultMode = "IMMEDIATE" ∧
    Gen.TpSkel.maxSizeInit = "effectiveMaxSize(initialSize,maxSize)" ∧
    Gen.TpSkel.effectiveMaxSizeBody = "std::size_tatLeast=initialSize>0?initialSize:1;returnmaxSize<atLeast?atLeast:maxSize;" := by
  decide

end Iora.C09
