import IoraModel.Lemmas.HttpRespond
import IoraModel.Lemmas.HttpRespondConn
import IoraModel.Lemmas.HttpRespondFramer
import IoraModel.Lemmas.HttpRespondRestart
import IoraModel.Lemmas.HttpRespondHead
/-
C16 — Each HTTP request gets exactly one well-formed response, in order.

Statements only; proofs are in `Lemmas/HttpRespond*.lean`.  The model is `Model/HttpServerRespond.lean`
(`process` = `HttpServer::processHttpRequest`), `Model/HttpRespondConn.lean` (worker pool, engine side of a session,
reference framer).  `srv` ranges over all routing tables, handlers (arbitrary functions that return or throw) and hooks,
`env` over everything `stop()` and the engine can do while the request is handled, `data` over all byte strings,
`steps` over all schedules.
-/
namespace Iora.C16
open Iora Iora.HttpRespond

/-! ## Gen conformance -/

/-- the method table found in http_message.hpp is the model's `Method` type, in the same order, and `parseMethod` maps
    each upper-case name to its own enumerator -/
theorem gen_methods :
    Gen.HttpRespond.methods = Method.all.map Method.name ∧
    Gen.HttpRespond.parseMethodTable = Method.all.map (fun m => (m.name, m.name)) := by decide

/-- the Connection decision found in http_server.hpp is the tokenised one (F33 repaired) and 204/304 are reconciled under
    every method (FC16a repaired) -/
theorem gen_connection_tokenised :
    Gen.HttpRespond.connectionTokenised = true ∧ Gen.HttpRespond.bodylessAllMethods = true ∧
    Gen.HttpRespond.headBodylessStatuses = [204, 304] := by decide

/-- a default-constructed `SessionInfo` (what `onAccept` creates) never asks for close by itself: version 1.1, keep-alive.
    (Whether anything in http_server.hpp assigns the two fields is an observation in the evidence, `session_field_writes`,
    not an obligation: the model takes the session as an input, `Env.sess`.) -/
theorem gen_session_defaults :
    (({} : SessionInfo).httpVersion == ascii Gen.HttpRespond.sessionCloseVersion) = false ∧
    ({} : SessionInfo).connectionKeepAlive = true ∧
    connectionDecision (some {}) [] = (false, ascii "keep-alive") := by decide

/-- every throw site of the request parser carries the status the model documents for it -/
theorem gen_parse_status_table :
    Gen.HttpRespond.stTargetTooLong = 414 ∧ Gen.HttpRespond.stUnknownMethod = 501 ∧ Gen.HttpRespond.stUnsupportedMajor = 505 ∧
    [Gen.HttpRespond.stMalformedMethodToken, Gen.HttpRespond.stLineShape, Gen.HttpRespond.stMethodWs, Gen.HttpRespond.stVersionWs,
     Gen.HttpRespond.stTargetCtl, Gen.HttpRespond.stBadVersion, Gen.HttpRespond.stObsFold, Gen.HttpRespond.stMultipleHost,
     Gen.HttpRespond.stMissingHost, Gen.HttpRespond.stEmptyHost] = List.replicate 10 400 ∧
    Gen.HttpRespond.stWsBeforeColon = 400 ∧ Gen.HttpRespond.errDefaultStatus = 500 := by decide

/-! ## O1 — exactly one response per request -/

/-- For every server (routes, handlers, seams that return or throw anything), every environment (shutdown racing at any
    point, transport gone, engine refusing the command) and every request bytes: the transport calls one
    `processHttpRequest` makes — `processCalls` lists them arm by arm, following the function's control flow, the buffer
    drain into the third virtual hook `onUpgradedData` included — are `[]`, `[close]`, `[sendAsync w]` or
    `[sendAsync w, close]`: never two Sends, never a Send after the Close.  The engine commands
    are those calls minus a refused `sendAsync`, hence at most one Send command.  (Proved by case analysis of the control
    flow, `processCalls_shape`; not a property of the result type.) -/
theorem O1_at_most_one_send (srv : Server) (env : Env) (data : Bytes) :
    CallsShaped (processCalls srv env data).1 ∧
    (process srv env data).cmds = engineCmds env (processCalls srv env data).1 ∧
    countSends (process srv env data).cmds ≤ 1 := by
  refine ⟨processCalls_shape srv env data, process_cmds srv env data, ?_⟩
  rw [process_cmds]
  exact engineCmds_count env _ (processCalls_shape srv env data)

/-- Server up (not shutting down, transport present, engine accepts): every extracted request — parseable or not, routed
    or not, handler throwing or not — is answered by exactly one Send command; the only other outcome is an explicit
    take-over: the handler that ran returned normally with `_suppressSend` set, or `onResponseSuppressed` returned true. -/
theorem O1_exactly_one_response (srv : Server) (env : Env) (data : Bytes)
    (h1 : env.shutdownAtEntry = false) (h2 : env.upAtSend = true) (h3 : env.enqueueOk = true) :
    (∃ w c, process srv env data = .respond w c ∧ countSends (process srv env data).cmds = 1) ∨
    (process srv env data = .suppressed ∧
      ∃ p h, fromWireFormat data = .ok p ∧ (decisionOf srv p).userHandler? = some h ∧
        (((h (reqOf srv p) prefilled).threw = false ∧ (h (reqOf srv p) prefilled).res.suppress = true) ∨
         srv.suppressHook (reqOf srv p) (dispatched srv p).1 = .ret true)) := by
  rcases process_up_cases srv env data h1 h2 h3 with ⟨w, c, h⟩ | ⟨h, p, hp, _, hs⟩
  · left; refine ⟨w, c, h, ?_⟩; rw [h]; cases c <;> simp [Outcome.cmds, countSends]
  · right
    obtain ⟨hd, hh, hx⟩ := suppressSeam_explicit srv p hs
    exact ⟨h, p, hd, hp, hh, hx⟩

example : process { defaultHandler := some (fun _ r => { res := { r with suppress := true } }) } Env.up
    (ascii "GET / HTTP/1.1\r\nHost: x\r\n\r\n") = .suppressed := by decide +kernel

/-- Shutdown seen at entry: a 503 with `Connection: close` and a Close while the transport still exists, nothing once it
    is gone — on every request.  The Send and the Close are two `_mutex` sections, each with its own `_transport` test:
    `stop()` resetting the transport between them leaves the 503 without its Close (the transport is gone with all its
    sessions then), never a Close without the 503 and never a second Send. -/
theorem O1_shutdown (srv : Server) (env : Env) (data : Bytes) (h : env.shutdownAtEntry = true) :
    process srv env data =
      (if env.transportAtEntry then
         (if env.enqueueOk then .respond (shutdownWire (isHeadRaw data)) env.transportAtShutdownClose
          else .sendFailed env.transportAtShutdownClose)
       else .nothing) ∧
    (∀ head, shutdownWire head = toWire 503 (ascii "Service Unavailable")
      [(ascii "Connection", ascii "close"), (ascii "Content-Length", ascii "20"), (ascii "Content-Type", ascii "text/plain")]
      (if head then [] else ascii "Server Shutting Down")) :=
  ⟨process_shutdown srv env data h, by intro head; cases head <;> decide +kernel⟩

/-- Pool overflow: a request that arrives while the task queue is at capacity gets, at once and on the I/O thread, exactly
    one 503 Send followed by Close; no task is created for it. -/
theorem O1_overflow (P : Params) (p : Pool) (sid : Nat) (data : Bytes) (h : queuedCount p.tasks ≥ P.qcap) :
    (stepPool P p (.arrive sid data)).log = p.log ++ [(sid, .send (overflowWire (isHeadRaw data))), (sid, .close)] ∧
    (stepPool P p (.arrive sid data)).tasks = p.tasks ∧
    (∀ head, overflowWire head = toWire 503 (ascii "Service Unavailable")
      [(ascii "Connection", ascii "close"), (ascii "Content-Length", ascii "38"), (ascii "Content-Type", ascii "text/plain"),
       (ascii "Server", ascii "Iora HttpServer")]
      (if head then [] else ascii "Server overloaded - please retry later")) := by
  rw [stepPool_arrive_full P p sid data h]
  exact ⟨rfl, rfl, by intro head; cases head <;> decide +kernel⟩

/-- For EVERY schedule (any number of workers, any queue capacity, any interleaving of arrivals, picks and emits, handlers
    of any duration): the commands already in the engine queue together with the commands still owed by unfinished
    requests are a permutation of what the arrived requests were entitled to — nothing is lost, nothing is issued twice.
    The entitlement is exactly one ticket per arrival, in arrival order (`ticketsOf` replays the schedule): the overflow
    503-and-close precisely for the arrivals that found the task queue at capacity, what `processHttpRequest` issues for
    that request for all others. -/
theorem O1_all_schedules (P : Params) (steps : List Step) :
    ((runPool P {} steps).log ++ pending (runPool P {} steps).tasks).Perm (runPool P {} steps).ledger ∧
    (runPool P {} steps).ledger = flattenTickets (ticketsOf P {} steps) ∧
    Tickets P (arrivals steps) (ticketsOf P {} steps) ∧
    (NoOverflow P {} steps → ticketsOf P {} steps = (arrivals steps).map (fun a => (a.1, P.respond a.1 a.2))) := by
  refine ⟨runPool_perm P {} steps (by simp [pending]), ?_, ticketsOf_tickets P {} steps, ticketsOf_noOverflow P {} steps⟩
  simpa using runPool_ledger_eq P {} steps

/-- Once every worker is idle, the responses the engine received for a session are a permutation of the responses its
    requests were entitled to: one per request. -/
theorem O1_quiescent (P : Params) (steps : List Step) (hq : (runPool P {} steps).tasks = []) (sid : Nat) :
    (sends sid (runPool P {} steps).log).Perm (sends sid (runPool P {} steps).ledger) := by
  have := (O1_all_schedules P steps).1
  rw [hq] at this
  simp only [pending, List.flatMap_nil, List.append_nil] at this
  exact ((this.filter _).map _).filterMap _

/-- A subclass seam (`onUpgradeRequest`, `onResponseSuppressed`) that throws — a `std::exception` or ANYTHING else — yields,
    with the server up, exactly one `500 Internal Server Error` with `Connection: close`, followed by a Close: the arm that
    ends the function's `try` is `catch (...)` (FC16b repaired; on the unrepaired tree `Gen.errCatchesAll` is false and the
    lemmas behind this theorem do not build). -/
theorem O1_seam_throw_500 (srv : Server) (env : Env) (data : Bytes) (p : ParsedReq) (std : Bool)
    (h1 : env.shutdownAtEntry = false) (h2 : env.upAtSend = true) (h3 : env.enqueueOk = true) (h4 : env.upAtClose = true)
    (hp : fromWireFormat data = .ok p)
    (ht : upgradeSeam srv p = .threw std ∨ (upgradeSeam srv p = .ret none ∧ suppressSeam srv p = .threw std)) :
    process srv env data = .respond (errorWire 500 (isHeadRaw data)) true := by
  rcases ht with ht | ⟨hu, hs⟩
  · rw [process_upgrade_threw srv env data p std h1 hp ht, errorOutcome_up env _ _ h2 h3, h4]
  · rw [process_suppress_threw srv env data p std h1 hp hu hs, errorOutcome_up env _ _ h2 h3, h4]

example : process { upgradeHook := fun _ => .threw false } Env.up
    (ascii "GET / HTTP/1.1\r\nHost: x\r\nUpgrade: websocket\r\n\r\n") = .respond (errorWire 500) true := by decide +kernel

/-- F1 (review round 2), repaired by FC16c; drain loop and upgrade hold of FC18f: an accepted upgrade whose request was
    followed by bytes of the upgraded protocol — in the same read, or in reads that arrive while the worker is still busy
    (the I/O thread queues them behind under the hold).  The arm hands the upgrade response to the transport and then
    drains in a loop: `env.drainChunks` passes find bytes, pass `k` hands them to the virtual `onUpgradedData`
    (`srv.drainHook k`) on the worker thread.  Whatever those calls do — return, throw a `std::exception`, throw anything
    else, at any pass — and in every environment, the request gets the upgrade response and NOTHING else is sent: the only
    effect of a throw is one Close (when the transport is still up), and the loop is left at that pass: the hook is called
    once per pass up to and including the first throwing one, never again (`drainHookCalls`).  (On a tree without the
    drain's own `catch (...)`, `Gen.upgradeDrainGuarded` is false, the throw reaches the function's error arm, the calls are
    `[sendAsync 101, sendAsync 500, close]`, and `drainLoop_eq` / `processCalls_shape` do not build.) -/
theorem O1_upgrade_drain (srv : Server) (env : Env) (data : Bytes) (p : ParsedReq) (u : Resp)
    (h : env.shutdownAtEntry = false) (hp : fromWireFormat data = .ok p) (hu : upgradeSeam srv p = .ret (some u)) :
    (processCalls srv env data).1 =
      (if !env.upAtSend then []
       else [.sendAsync (toWire u.status (statusText u.status)
               (hSet u.headers (ascii "Server") (ascii Gen.HttpRespond.serverHeader)) u.body)]) ++
      (if drainCloses srv env then [.close] else []) ∧
    (drainCloses srv env = true ↔
      (∃ k, k < env.drainChunks ∧ ∃ std, srv.drainHook k = .threw std) ∧ env.upAtClose = true) ∧
    drainHookCalls srv.drainHook env.drainChunks 0 ≤ env.drainChunks ∧
    (drainThrows srv.drainHook env.drainChunks 0 = false →
      drainHookCalls srv.drainHook env.drainChunks 0 = env.drainChunks) ∧
    Gen.HttpRespond.upgradeDrainGuarded = true := by
  refine ⟨?_, ?_, drainHookCalls_le _ _ _, drainHookCalls_no_throw _ _ _, drainGuarded_eq⟩
  · unfold upgradeSeam at hu
    simp [processCalls, h, hp, hu, drainCalls_eq]
  · unfold drainCloses
    rw [Bool.and_eq_true, drainThrows_iff]
    constructor
    · rintro ⟨⟨j, _, h2, h3⟩, hc⟩; exact ⟨⟨j, by omega, h3⟩, hc⟩
    · rintro ⟨⟨j, h2, h3⟩, hc⟩; exact ⟨⟨j, Nat.zero_le _, by omega, h3⟩, hc⟩

/-- three passes find bytes, the second call throws: the 101, one Close, and the hook was called exactly twice -/
example : (processCalls { upgradeHook := fun _ => .ret (some { status := 101 }), drainHook := fun k => if k = 1 then .threw false else .ret () }
      { drainChunks := 3 } (ascii "GET / HTTP/1.1\r\nHost: x\r\nUpgrade: websocket\r\n\r\n")).1 =
    [.sendAsync (ascii "HTTP/1.1 101 Switching Protocols\r\nServer: Iora/1.0\r\n\r\n"), .close] ∧
    drainHookCalls (fun k => if k = 1 then .threw false else .ret ()) 3 0 = 2 := by decide +kernel

/-- F4a (review round 2): `sendErrorResponse` on pool overflow in EVERY environment, not only on a running server: nothing
    while `_transport && !_shutdown` fails; otherwise the 503 Send and the Close — and the Close also when the engine
    refused the Send command, so an overflowing request never leaves its connection open and unanswered.  On a running
    server these are the `overflowCmds` of the pool theorems. -/
theorem O1_overflow_every_env (env : Env) (head : Bool) :
    CallsShaped (overflowCalls env head) ∧
    engineCmds env (overflowCalls env head) =
      (if !env.upAtSend then [] else if env.enqueueOk then [.send (overflowWire head), .close] else [.close]) ∧
    engineCmds Env.up (overflowCalls Env.up head) = overflowCmds head :=
  ⟨overflowCalls_shaped env head, overflowCalls_cmds env head, overflowCalls_up head⟩

/-! ## O1 across `stop()` / `start()` on one server object (review round 2, F2) -/

/-- "…exactly one response, to the request's connection", across restarts: for every schedule of arrivals, picks, emits,
    `stop()` and `start()` calls on one `HttpServer` object, every engine command reaches the transport its request arrived
    on (a command of a request that arrived on an earlier transport is dropped, never delivered to the current one).  The
    worker is the one the translator found: do its guards compare an epoch (`Gen.dispatchChecksGeneration`), and is that
    epoch read by `handleIncomingData` and captured by value, or only when a worker starts the task
    (`Gen.epochCapturedAtDispatch`). -/
def O1_restart_statement : Prop :=
  ∀ (P : Params) (steps : List RStep),
    LogSameGen (runR (EpochCheck.ofFacts Gen.HttpRespond.dispatchChecksGeneration Gen.HttpRespond.epochCapturedAtDispatch) P {} steps).log

/-- FC16e, repaired: since the worker compares, inside every guarded block (7 guards, `start()` advances the epoch under
    `_mutex`), the transport epoch that `handleIncomingData` read AT DISPATCH and the pool lambda captured by value, the
    statement holds for every schedule — handlers that outlive `stop()`'s bounded drain wait (`Gen.stopDrainSeconds` s),
    requests still QUEUED in the pool across `stop()` + `start()`, and any number of restarts included.  On a tree whose
    guards do not check, or whose lambda reads the epoch only when the task starts, the facts differ and this theorem does
    not build. -/
theorem O1_restart : O1_restart_statement := by
  intro P steps
  have hk : EpochCheck.ofFacts Gen.HttpRespond.dispatchChecksGeneration Gen.HttpRespond.epochCapturedAtDispatch = .atDispatch := by decide
  rw [hk]
  exact runR_dispatch_log P {} steps (by intro t h; cases h) (by intro e h; cases h)

/-- What the repair prevents, first half (the worker without any check): `stop()` gives up on a running handler, the task
    survives in the pool, `start()` installs a fresh transport whose engine numbers sessions from 1 again, and the late
    worker's `sendAsync(sid, …)` passes the `_transport && !_shutdown` guard.  Witness: a request arrives on session 1, a
    worker takes it, `stop()`, `start()`, the worker sends: the command of a generation-0 request is delivered by the
    generation-1 transport — to whoever holds session id 1 there. -/
theorem O1_restart_unguarded_refuted :
    ¬ ∀ (P : Params) (steps : List RStep), LogSameGen (runR .none P {} steps).log := by
  intro h
  have := h { w := 2, qcap := 1024, respond := fun _ _ => [.send [65]] } [.arrive 1 [], .pick, .stop, .start, .emit 0]
    ⟨1, 0, 1, .send [65]⟩ (by decide +kernel)
  revert this
  decide

/-- Second half (seed C16-e): guards that compare an epoch read only when a worker STARTS the task protect the request that
    was already running at `stop()`, not the one still queued.  Witness, the twin of the first with the pick after the
    restart: a request arrives on session 1 and stays in the queue (all workers busy), `stop()` gives up, `start()`, a freed
    worker takes the task and reads the NEW epoch, every guard passes: again a generation-0 request answered by the
    generation-1 transport. -/
theorem O1_restart_epoch_at_task_start_refuted :
    ¬ ∀ (P : Params) (steps : List RStep), LogSameGen (runR .atTaskStart P {} steps).log := by
  intro h
  have := h { w := 2, qcap := 1024, respond := fun _ _ => [.send [65]] } [.arrive 1 [], .stop, .start, .pick, .emit 0]
    ⟨1, 0, 1, .send [65]⟩ (by decide +kernel)
  revert this
  decide

/-- … while it does protect the running request: on the first witness schedule the task-start worker logs nothing -/
example : (runR .atTaskStart { w := 2, qcap := 1024, respond := fun _ _ => [.send [65]] } {}
    [.arrive 1 [], .pick, .stop, .start, .emit 0]).log = [] := by decide +kernel

/-- Partial: if `start()` is only ever called when no task of the previous run is left (the drain wait of `stop()` did not
    expire), every command reaches the transport its request arrived on — for every schedule and each of the three workers. -/
theorem O1_restart_partial_drained (g : EpochCheck) (P : Params) (steps : List RStep) (hd : StartsDrained g P {} steps) :
    LogSameGen (runR g P {} steps).log :=
  runR_drained g P {} steps hd (by intro t h; cases h) (by intro e h; cases h)

example : StartsDrained .none { w := 2, qcap := 4, respond := fun _ _ => [.send [65]] } {}
    [.arrive 1 [], .pick, .emit 0, .stop, .start, .arrive 1 [], .pick, .emit 0] :=
  ⟨trivial, trivial, trivial, trivial, rfl, trivial, trivial, trivial, trivial⟩

/-- a command of a stale task is dropped, not redirected: after BOTH witness schedules (picked before the restart, picked after
    it) the log of the repaired worker is empty -/
example : (runR .atDispatch { w := 2, qcap := 1024, respond := fun _ _ => [.send [65]] } {}
    [.arrive 1 [], .pick, .stop, .start, .emit 0]).log = [] ∧
    (runR .atDispatch { w := 2, qcap := 1024, respond := fun _ _ => [.send [65]] } {}
    [.arrive 1 [], .stop, .start, .pick, .emit 0]).log = [] := by decide +kernel

/-- Gen conformance for the two restart facts and the write-queue bound `start()` hands to the transport: the session write
    queue holds at least one response per task the pool can queue (a slow reader on a keep-alive connection is not closed by
    back-pressure before the pool itself pushes back). -/
theorem gen_restart_and_write_queue :
    Gen.HttpRespond.dispatchChecksGeneration = true ∧ Gen.HttpRespond.epochCapturedAtDispatch = true ∧
    Gen.HttpRespond.stopDrainSeconds = 2 ∧
    Gen.HttpRespond.poolQueueCap ≤ Gen.HttpRespond.maxWriteQueue := by decide

/-! ## O2 — responses never interleave -/

/-- For every schedule, every Send command in the engine queue carries exactly the payload of a Send that one arrived
    request of that same session was entitled to: a whole response, never a fragment or a mixture.  (That one Send command
    is written to the socket contiguously is C01.) -/
theorem O2_whole_responses (P : Params) (steps : List Step) (sid : Nat) (w : Bytes)
    (h : (sid, Cmd.send w) ∈ (runPool P {} steps).log) :
    ∃ ts, Tickets P (arrivals steps) ts ∧ ∃ t ∈ ts, t.1 = sid ∧ Cmd.send w ∈ t.2 := by
  obtain ⟨hperm, hl, ht, _⟩ := O1_all_schedules P steps
  generalize ticketsOf P {} steps = ts at hl ht
  have hm : (sid, Cmd.send w) ∈ (runPool P {} steps).ledger := hperm.subset (by simp [h])
  rw [hl] at hm
  simp only [flattenTickets, List.mem_flatMap, tag, List.mem_map] at hm
  obtain ⟨t, htm, c, hc, he⟩ := hm
  cases he
  exact ⟨ts, ht, t, htm, rfl, hc⟩

/-- Every ticket — what one arrived request is entitled to — contains at most one Send, whatever the server, the
    environment of that call and the request bytes; the overflow ticket contains exactly one. -/
theorem O1_one_send_per_ticket (srv : Server) (envOf : Nat → Bytes → Env) (w qcap : Nat) (steps : List Step)
    (ts : List (Nat × List Cmd))
    (ht : Tickets { w := w, qcap := qcap, respond := fun sid d => (process srv (envOf sid d) d).cmds } (arrivals steps) ts) :
    ∀ t ∈ ts, countSends t.2 ≤ 1 := by
  generalize arrivals steps = as at ht
  induction ht with
  | nil => intro t h; cases h
  | cons hd _ ih =>
    intro t hm
    rcases List.mem_cons.1 hm with rfl | hm
    · rcases hd.2 with h | h
      · rw [h]; exact (O1_at_most_one_send srv _ _).2.2
      · rw [h]; cases isHeadRaw _ <;> decide
    · exact ih t hm

/-- On the wire: whatever the kernel and the event loop do, what the peer of a session reads is a prefix of the
    concatenation — in engine-queue order — of the whole payloads of the Send commands issued before the first Close. -/
theorem O2_stream_is_prefix_of_whole_responses (evs : List EngEv) :
    (runSock {} evs).delivered <+: payloadBeforeClose (cmdsOf evs) := by
  rw [← sentBeforeClose_eq]
  simpa using (runSock_inv {} evs rfl).1

/-! ## O3 — responses in request order (F28) -/

/-- Full statement: for every schedule the commands a session's requests issue reach the engine in request order. -/
def O3_statement : Prop :=
  ∀ (srv : Server) (w qcap : Nat) (steps : List Step) (sid : Nat),
    let P : Params := { w := w, qcap := qcap, respond := fun _ d => (process srv Env.up d).cmds }
    (runPool P {} steps).tasks = [] → proj sid (runPool P {} steps).log = proj sid (runPool P {} steps).ledger

/-- the witness: two pipelined requests, two workers, the second handler finishes first -/
def O3_witness : List Step :=
  [.arrive 1 (ascii "\r\n\r\n"), .arrive 1 [], .pick, .pick, .emit 1, .emit 1, .emit 0, .emit 0]

/-- F28: refuted.  With two workers the Send order is the completion order. -/
theorem O3_refuted : ¬ O3_statement := by
  intro h
  have := h {} 2 1024 O3_witness 1 (by decide)
  revert this
  decide

/-- Partial: for every schedule in which a request of a session arrives only when no earlier request of that session is
    still queued or being handled (a client that waits for each response: at most one request of a connection in flight),
    at EVERY moment each session's commands so far, followed by the commands still owed, are exactly its requests'
    commands in arrival order. -/
theorem O3_partial_one_in_flight (P : Params) (steps : List Step) (h : OneInFlight P {} steps) (sid : Nat) :
    proj sid (runPool P {} steps).log ++ proj sid (pending (runPool P {} steps).tasks) = proj sid (runPool P {} steps).ledger :=
  runPool_inOrder P {} steps h (by simp) (by intro s; simp [proj, pending]) sid

example : OneInFlight { w := 8, qcap := 1024, respond := fun _ d => [.send d] } {}
    [.arrive 1 [1], .arrive 2 [2], .pick, .pick, .emit 1, .emit 0, .arrive 1 [3], .pick, .emit 0] := by
  simp [OneInFlight, stepPool, queuedCount, runningCount, markFirstQueued, emitAt]

/-- Partial: with one worker and a task queue that is never full the whole engine queue is in arrival order, at every
    moment, however the client pipelines. -/
theorem O3_partial_single_worker (P : Params) (hw : P.w = 1) (steps : List Step) (h : NoOverflow P {} steps) :
    (runPool P {} steps).log ++ pending (runPool P {} steps).tasks = (runPool P {} steps).ledger :=
  (runPool_fifo P hw {} steps h ⟨by simp, by simp [pending]⟩).2

/-! ## O4 — wire self-consistency -/

/-- Content-Length: if the response object is API-consistent when the handler is done (its `Content-Length` field says how
    long its body is — what `set_content` establishes), then for a request that is not HEAD and a status other than
    204/304 the bytes sent are `toWire status text H body` where `H` carries `Content-Length: |body|`: the declared length
    is the number of body bytes that follow the header section. -/
theorem O4_content_length (srv : Server) (env : Env) (data : Bytes) (p : ParsedReq)
    (h1 : env.shutdownAtEntry = false) (h2 : env.upAtSend = true) (h3 : env.enqueueOk = true)
    (hp : fromWireFormat data = .ok p) (hu : upgradeSeam srv p = .ret none) (hs : suppressSeam srv p = .ret false)
    (hc : ApiConsistent (dispatched srv p).1) (hm : p.method ≠ .HEAD) (hb : bodylessStatus (dispatched srv p).1.status = false) :
    ∃ H c, process srv env data =
        .respond (toWire (dispatched srv p).1.status (statusText (dispatched srv p).1.status) H (dispatched srv p).1.body) c ∧
      hFind H kCL = some (dec (dispatched srv p).1.body.length) := by
  have hm' : (reqOf srv p).method ≠ .HEAD := by rw [reqOf_method]; exact hm
  obtain ⟨H, hw, hcl⟩ := buildWire_content_length env (reqOf srv p) (dispatched srv p).1 hc hm' hb
  refine ⟨H, ((buildWire env (reqOf srv p) (dispatched srv p).1).2 && env.upAtClose), ?_, hcl⟩
  rw [process_ok_false srv env data p h1 hp hu hs, ← hw]
  exact sendBlock_up env _ _ h2 h3

/-- Every handler written with the response API — `status =`, `set_content`, `set_header` (other than Content-Length), in
    any number and order, returning or throwing at any point — leaves the response object API-consistent, starting from
    the pre-seeded response the dispatcher hands it; so does every dispatch category that runs no handler. -/
theorem O4_api_script_consistent (sc : Script) (hs : ApiScript sc) (d : Decision Handler) (req : Req)
    (hd : d.anyHandler? = some (runScript sc) ∨ d.anyHandler? = none)
    (hb : bodylessStatus (dispatch d req).1.status = false) :
    ApiConsistent (dispatch d req).1 := by
  rcases hd with hd | hd
  · exact dispatch_consistent_of_handler d req _ hd (runScript_consistent sc hs req prefilled prefilled_consistent)
  · exact dispatch_consistent_no_handler d req hd hb

example : ApiScript [.setStatus 201, .setContent [1, 2, 3] (ascii "a/b"), .setHeader (ascii "X-A") [49], .throwStd] := by
  intro a ha
  simp only [List.mem_cons, List.not_mem_nil, or_false] at ha
  rcases ha with rfl | rfl | rfl | rfl <;> decide

/-- HEAD: a parsed HEAD request is answered without a single body byte, on every dispatch category (auto-HEAD of a GET
    route, 405, 404, default handler) and whatever the handler put into the response object; a 204/304 also loses its
    Content-Length, any other status keeps the Content-Length the handler left. -/
theorem O4_head_no_body (srv : Server) (env : Env) (data : Bytes) (p : ParsedReq) (b : Bool)
    (h1 : env.shutdownAtEntry = false) (h2 : env.upAtSend = true) (h3 : env.enqueueOk = true)
    (hp : fromWireFormat data = .ok p) (hu : upgradeSeam srv p = .ret none) (hs : suppressSeam srv p = .ret b)
    (hm : p.method = .HEAD) :
    process srv env data = .suppressed ∨
    ∃ H c, process srv env data =
        .respond (toWire (dispatched srv p).1.status (statusText (dispatched srv p).1.status) H []) c ∧
      (bodylessStatus (dispatched srv p).1.status = true → hFind H kCL = none) ∧
      (bodylessStatus (dispatched srv p).1.status = false → hFind H kCL = hFind (dispatched srv p).1.headers kCL) := by
  cases b with
  | true => left; exact process_ok_true srv env data p h1 hp hu hs
  | false =>
    right
    have hm' : (reqOf srv p).method = .HEAD := by rw [reqOf_method]; exact hm
    obtain ⟨H, hw, hx, hy⟩ := buildWire_head env (reqOf srv p) (dispatched srv p).1 hm'
    refine ⟨H, ((buildWire env (reqOf srv p) (dispatched srv p).1).2 && env.upAtClose), ?_, hx, hy⟩
    rw [process_ok_false srv env data p h1 hp hu hs, ← hw]
    exact sendBlock_up env _ _ h2 h3

/-- the bytes of a response behind the end of its header section -/
def wireBody (w : Bytes) : Option Bytes := (splitAtSub crlf2 w).map (fun hb => hb.2)

/-- "Responses to HEAD carry no body", for EVERY arm of the server (FC16f repaired): request bytes whose request line starts
    with `HEAD ` — whichever arm answers them, in every environment: the shutdown arm (503), the error arm (400/414/501/505 of
    a parse reject, 500 of a throwing hook), the normal path (auto-HEAD of a GET route, 405, 404, default handler) — get
    `toWire st text H []`: status line, field lines, the empty line and not one byte more.  The arms outside the normal path
    decide from the raw bytes (`isHeadRequest(requestData)`), the normal path from the parsed method; the two readings agree
    for all bytes (`fromWireFormat_head`: a request that starts with `HEAD ` and that the parser accepts has the parsed
    method HEAD).  The one response the server does not build itself — an upgrade the subclass hook accepted — is the hook's (`hup`).  Pool
    overflow, the fourth arm, is `O1_overflow` + `O1_overflow_every_env` with `head = isHeadRaw data`.  (On a tree whose arms
    do not strip, `Gen.errorArmsStripHead` is false and this theorem does not build.) -/
theorem O4_head_every_arm (srv : Server) (env : Env) (data w : Bytes) (c : Bool)
    (hpre : (ascii "HEAD ").isPrefixOf data = true)
    (hup : ∀ p u, fromWireFormat data = .ok p → upgradeSeam srv p ≠ .ret (some u))
    (hr : process srv env data = .respond w c) :
    ∃ st text H, w = toWire st text H [] := by
  have hmeth : ∀ p, fromWireFormat data = .ok p → p.method = .HEAD := fun p hp => fromWireFormat_head data p hpre hp
  have hg : Gen.HttpRespond.errorArmsStripHead = true := by decide
  have hh : isHeadRaw data = true := by simp [isHeadRaw, hg, hpre]
  have herr : ∀ s, errorOutcome env s true = .respond w c → ∃ st text H, w = toWire st text H [] := by
    intro s h
    unfold errorOutcome at h
    cases hs : env.upAtSend <;> cases he : env.enqueueOk <;> simp [hs, he] at h
    rw [← h.1, errorWire_eq s true]
    exact ⟨_, _, _, rfl⟩
  cases hsd : env.shutdownAtEntry with
  | true =>
    rw [process_shutdown srv env data hsd, hh] at hr
    cases ht : env.transportAtEntry <;> cases he : env.enqueueOk <;> simp [ht, he] at hr
    rw [← hr.1]
    exact ⟨_, _, _, (O1_shutdown srv env data hsd).2 true⟩
  | false =>
    cases hp : fromWireFormat data with
    | error e =>
      rw [process_error srv env data e hsd hp, hh] at hr
      exact herr _ hr
    | ok p =>
      cases hu : upgradeSeam srv p with
      | threw std =>
        rw [process_upgrade_threw srv env data p std hsd hp hu, hh] at hr
        exact herr _ hr
      | ret o =>
        cases o with
        | some u => exact absurd hu (hup p u hp)
        | none =>
          cases hs : suppressSeam srv p with
          | threw std =>
            rw [process_suppress_threw srv env data p std hsd hp hu hs, hh] at hr
            exact herr _ hr
          | ret b =>
            rw [process_ok srv env data p b hsd hp hu hs] at hr
            cases b with
            | true => simp at hr
            | false =>
              simp only [Bool.false_eq_true, if_false] at hr
              have hm' : (reqOf srv p).method = .HEAD := by rw [reqOf_method]; exact hmeth p hp
              obtain ⟨H, hw, _, _⟩ := buildWire_head env (reqOf srv p) (dispatched srv p).1 hm'
              unfold sendBlock at hr
              cases hs2 : env.upAtSend <;> cases he : env.enqueueOk <;> simp [hs2, he] at hr
              rw [← hr.1, hw]
              exact ⟨_, _, H, rfl⟩

/-- the hypotheses are satisfiable, and the four arms on concrete HEAD requests: no byte behind the header section, the
    Content-Length a GET would get is kept -/
example : (fromWireFormat (ascii "HEAD /x HTTP/1.1\r\nHost: a\r\n\r\n")).toOption.map (·.method) = some .HEAD := by decide +kernel
example : process {} Env.up (ascii "HEAD / HTTP/1.1\r\n\r\n") = .respond (errorWire 400 true) true ∧
    wireBody (errorWire 400 true) = some [] ∧ wireBody (errorWire 400) = some (ascii "Bad Request") := by decide +kernel
example : process {} { shutdownAtEntry := true } (ascii "HEAD / HTTP/1.1\r\nHost: x\r\n\r\n") = .respond (shutdownWire true) true ∧
    wireBody (shutdownWire true) = some [] := by decide +kernel
example : process { upgradeHook := fun _ => .threw true } Env.up (ascii "HEAD / HTTP/1.1\r\nHost: x\r\nUpgrade: h2c\r\n\r\n") =
      .respond (errorWire 500 true) true ∧ wireBody (errorWire 500 true) = some [] := by decide +kernel
example : wireBody (overflowWire true) = some [] ∧
    wireBody (overflowWire false) = some (ascii "Server overloaded - please retry later") := by decide +kernel
/-- a request that merely contains the letters is not a HEAD request: `HEADER / …` keeps its body -/
example : isHeadRaw (ascii "HEADER / HTTP/1.1\r\n\r\n") = false ∧ isHeadRaw (ascii "head / HTTP/1.1\r\n\r\n") = false := by decide +kernel

/-- The normal path alone, keyed on the parsed method: request parsed as HEAD, no upgrade taken, response not suppressed — the response is
    `toWire st text H []`. -/
theorem O4_head_partial_normal_path (srv : Server) (env : Env) (data : Bytes) (p : ParsedReq)
    (h1 : env.shutdownAtEntry = false) (h2 : env.upAtSend = true) (h3 : env.enqueueOk = true)
    (hp : fromWireFormat data = .ok p) (hu : upgradeSeam srv p = .ret none) (hs : suppressSeam srv p = .ret false)
    (hm : p.method = .HEAD) :
    ∃ st text H c, process srv env data = .respond (toWire st text H []) c := by
  rcases O4_head_no_body srv env data p false h1 h2 h3 hp hu hs hm with h | ⟨H, c, h, _, _⟩
  · rw [process_ok_false srv env data p h1 hp hu hs, sendBlock_up env _ _ h2 h3] at h; cases h
  · exact ⟨_, _, H, c, h⟩

/-- A HEAD request is never suppressed by a handler flag when it is served by a GET route (MATCHED_AS_HEAD ignores
    `_suppressSend`). -/
example : ∀ h c r req, (dispatch (.matchedAsHead h c r) req).2 = false := by intros; rfl

/-- A handler that throws — `std::exception` or anything else, after doing anything to the response object — yields status
    500 with the body `Internal Server Error` and a matching Content-Length, and the response is not suppressed by the
    handler's own flag. -/
theorem O4_throw_500 (d : Decision Handler) (req : Req) (h : Handler) (hd : d.anyHandler? = some h)
    (ht : (h req prefilled).threw = true) :
    (dispatch d req).1.status = 500 ∧ (dispatch d req).1.body = ascii "Internal Server Error" ∧
    ApiConsistent (dispatch d req).1 ∧ (dispatch d req).1.suppress = false :=
  dispatch_threw d req h hd ht

/-- A request that `fromWireFormat` rejects yields (server up) exactly one response with the status the parser asked for —
    500 when the exception was not an `HttpRequestError` — `Connection: close`, a body equal to the status text with its
    Content-Length, followed by a Close command: an error status AND a closed connection, never a connection left waiting. -/
theorem O4_parse_failure (srv : Server) (env : Env) (data : Bytes) (e : ParseErr)
    (h1 : env.shutdownAtEntry = false) (h2 : env.upAtSend = true) (h3 : env.enqueueOk = true) (h4 : env.upAtClose = true)
    (hp : fromWireFormat data = .error e) :
    process srv env data = .respond (errorWire (errStatus e) (isHeadRaw data)) true ∧
    errorWire (errStatus e) (isHeadRaw data) = toWire (errStatus e) (statusText (errStatus e))
      [(ascii "Connection", ascii "close"), (ascii "Content-Length", dec (statusText (errStatus e)).length),
       (ascii "Content-Type", ascii "text/plain")] (if isHeadRaw data then [] else statusText (errStatus e)) ∧
    (errStatus e = 500 ∨ errStatus e ∈ [400, 414, 501, 505]) := by
  refine ⟨?_, errorWire_eq _ _, ?_⟩
  · rw [process_error srv env data e h1 hp, errorOutcome_up env _ _ h2 h3, h4]
  · cases e with
    | other => left; decide
    | request s => right; exact fromWireFormat_status data s hp

/-- the statuses the request parser can ask for are exactly 400, 414, 501, 505; 400/501/505 and the non-`HttpRequestError`
    case are exhibited here (414 needs an 8193-byte target: exhibited by the lockstep boundary cases, too deep for the kernel) -/
theorem O4_parse_statuses :
    (∀ data s, fromWireFormat data = .error (.request s) → s ∈ [400, 414, 501, 505]) ∧
    parseErrIs (ascii "GET / HTTP/1.1\r\n\r\n") (.request 400) = true ∧
    parseErrIs (ascii "BREW / HTTP/1.1\r\nHost: x\r\n\r\n") (.request 501) = true ∧
    parseErrIs (ascii "GET / HTTP/2.0\r\nHost: x\r\n\r\n") (.request 505) = true ∧
    parseErrIs (ascii "GET / HTTP/1.1\r\nHost: x\r\n") .other = true :=
  ⟨fromWireFormat_status, by decide +kernel, by decide +kernel, by decide +kernel, by decide +kernel⟩

/-- Connection: close as a TOKEN: if the request's Connection value (as parsed) contains `close` among its
    comma-separated, OWS-trimmed, case-folded tokens — `close`, `Close`, `TE, close`, `keep-alive ,\tCLOSE` — the response
    says `Connection: close` and a Close command follows it (server up).  Holds for the repaired code only: on the
    unrepaired tree `Gen.connectionTokenised` is false and this does not build (F33). -/
theorem O4_close_token (srv : Server) (env : Env) (data : Bytes) (p : ParsedReq) (v : Bytes)
    (h1 : env.shutdownAtEntry = false) (h2 : env.upAtSend = true) (h3 : env.enqueueOk = true) (h4 : env.upAtClose = true)
    (hp : fromWireFormat data = .ok p) (hu : upgradeSeam srv p = .ret none) (hs : suppressSeam srv p = .ret false)
    (hv : hFind p.headers (ascii "Connection") = some v) (ht : ascii "close" ∈ connTokens v) :
    ∃ H body, process srv env data =
        .respond (toWire (dispatched srv p).1.status (statusText (dispatched srv p).1.status) H body) true ∧
      hFind H (ascii "Connection") = some (ascii "close") := by
  have hh : (reqOf srv p).headers = p.headers := reqOf_headers srv p
  have hcd : (connectionDecision env.sess (reqOf srv p).headers).1 = true := by
    rw [hh]; exact connectionDecision_close_of_token env.sess p.headers v hv ht
  obtain ⟨H, hw, hc⟩ := buildWire_connection env (reqOf srv p) (dispatched srv p).1
  have h2' : (buildWire env (reqOf srv p) (dispatched srv p).1).2 = true := by rw [buildWire_eq]; exact hcd
  refine ⟨H, (headStrip (reqOf srv p).method (dispatched srv p).1).body, ?_, by simpa [h2'] using hc⟩
  rw [process_ok_false srv env data p h1 hp hu hs, ← hw, sendBlock_up env _ _ h2 h3, h2', h4]
  rfl

example : ascii "close" ∈ connTokens (ascii "TE, close") ∧ ascii "close" ∈ connTokens (ascii "keep-alive ,\tCLOSE ") ∧
    ascii "close" ∉ connTokens (ascii "x-close, closed") := by decide

/-- The response's Connection field and the Close command say the same thing (server up): `close` exactly when the Close
    command follows, `keep-alive` otherwise — for every request, session state and handler. -/
theorem O4_close_header_iff (srv : Server) (env : Env) (data : Bytes) (p : ParsedReq)
    (h1 : env.shutdownAtEntry = false) (h2 : env.upAtSend = true) (h3 : env.enqueueOk = true) (h4 : env.upAtClose = true)
    (hp : fromWireFormat data = .ok p) (hu : upgradeSeam srv p = .ret none) (hs : suppressSeam srv p = .ret false) :
    ∃ H body c, process srv env data =
        .respond (toWire (dispatched srv p).1.status (statusText (dispatched srv p).1.status) H body) c ∧
      hFind H (ascii "Connection") = some (if c then ascii "close" else ascii "keep-alive") := by
  obtain ⟨H, hw, hc⟩ := buildWire_connection env (reqOf srv p) (dispatched srv p).1
  refine ⟨H, (headStrip (reqOf srv p).method (dispatched srv p).1).body, (buildWire env (reqOf srv p) (dispatched srv p).1).2, ?_, hc⟩
  rw [process_ok_false srv env data p h1 hp hu hs, ← hw, sendBlock_up env _ _ h2 h3, h4]
  simp

/-- No Connection field on the request and the (only possible) default session: `Connection: keep-alive`, no Close. -/
theorem O4_keepalive_default (srv : Server) (env : Env) (data : Bytes) (p : ParsedReq)
    (h1 : env.shutdownAtEntry = false) (h2 : env.upAtSend = true) (h3 : env.enqueueOk = true) (h5 : env.sess = some {})
    (hp : fromWireFormat data = .ok p) (hu : upgradeSeam srv p = .ret none) (hs : suppressSeam srv p = .ret false)
    (hv : hFind p.headers (ascii "Connection") = none) :
    ∃ w, process srv env data = .respond w false := by
  have hh : (reqOf srv p).headers = p.headers := reqOf_headers srv p
  have h2' : (buildWire env (reqOf srv p) (dispatched srv p).1).2 = false := by
    rw [buildWire_eq, hh, h5, connectionDecision_default p.headers hv]
  refine ⟨(buildWire env (reqOf srv p) (dispatched srv p).1).1, ?_⟩
  rw [process_ok_false srv env data p h1 hp hu hs, sendBlock_up env _ _ h2 h3, h2']
  rfl

/-! ## O4′ — a response followed by a close is written completely (F31) -/

/-- Full statement: whatever the kernel and the event loop do, once the session has been closed everything that was sent
    before the Close has been delivered. -/
def O4p_statement : Prop :=
  ∀ evs : List EngEv, (runSock {} evs).isOpen = false → (runSock {} evs).delivered = sentBeforeClose evs

/-- F31: refuted.  The response is one Send command and the close the next; `closeNow` destroys the session together
    with its write queue: a 2-byte response of which the kernel takes 1 byte at once is cut to 1 byte by the Close. -/
theorem O4p_refuted : ¬ O4p_statement := by
  intro h
  have := h [.cmd (.send [1, 2]) 1, .cmd .close 0] (by decide)
  revert this
  decide

/-- Partial: if the kernel takes every Send whole — every response fits the free space of the socket buffer — then for
    every event sequence everything sent before the Close is delivered, exactly and in order. -/
theorem O4p_partial_fits_buffer (evs : List EngEv) (h : FitsBuffer evs) :
    (runSock {} evs).delivered = sentBeforeClose evs := by
  simpa using (runSock_fits {} evs rfl rfl h).1

example : FitsBuffer [.cmd (.send [1, 2, 3]) 3, .writable 5, .cmd (.send [4]) 100, .cmd .close 0] := by
  simp [FitsBuffer]

/-- What holds without any hypothesis: the delivered bytes are always a prefix of what was sent before the Close — a Close
    can cut a response short, it can never reorder, duplicate or invent bytes. -/
theorem O4p_prefix_always (evs : List EngEv) : (runSock {} evs).delivered <+: sentBeforeClose evs := by
  simpa using (runSock_inv {} evs rfl).1

/-! ## O5 — a reference framer recovers the responses -/

/-- The reference HTTP/1.1 framer (status line, field lines up to the empty line, Content-Length body; no body for
    HEAD / 1xx / 204 / 304) applied to the concatenation of any list of wire-safe responses returns exactly their
    (status, field lines, body) and leaves nothing over: the stream the client reads splits back into the responses. -/
theorem O5_framer_recovers (rs : List WireResp) (h : ∀ r ∈ rs, r.Safe) :
    frameAll (rs.map (·.isHead)) (rs.flatMap WireResp.wire) = some (rs.map WireResp.frame) :=
  frameAll_recovers rs h

/-- What `processHttpRequest` sends for a parsed request is such a wire-safe response whenever the handler left a response
    object with a status in 200..999, header names that are tokens, no LF in header values, no Transfer-Encoding, and
    either an API-consistent body/Content-Length pair or a 204/304 status (whose body and Content-Length the dispatcher
    now drops under every method — FC16a repaired).  `res.headers` is a `std::map`, so `Sorted` holds of every real value. -/
theorem O5_process_wire_safe (env : Env) (req : Req) (res : Resp)
    (hst : 200 ≤ res.status ∧ res.status ≤ 999) (hf : FieldsSafe res.headers)
    (hc : ApiConsistent res ∨ bodylessStatus res.status = true) :
    ∃ r : WireResp, r.Safe ∧ r.wire = (buildWire env req res).1 ∧ r.isHead = (req.method == .HEAD) ∧
      (r.status : Int) = res.status :=
  buildWire_wire_safe env req res hst hf hc

/-- the hypotheses are satisfiable by the server's own responses: the pre-seeded response is field-safe and consistent -/
example : FieldsSafe defaultResp.headers ∧ ApiConsistent defaultResp :=
  ⟨⟨by unfold Sorted keysOf; decide +kernel, by unfold TokenFields; decide +kernel, by decide +kernel⟩, defaultResp_consistent⟩

/-- ... and the unrepaired behaviour is exactly what breaks O5: a handler that only says `res.status = 204` used to put
    `Content-Length: 9` and the pre-seeded `Not Found` on the wire, which no framer reads back as one response. -/
example : frameAll [false, false]
    (toWire 204 (statusText 204) (finalHeaders defaultResp.headers (ascii "keep-alive")) defaultResp.body ++
     toWire 200 (statusText 200) (finalHeaders defaultResp.headers (ascii "keep-alive")) defaultResp.body) = none := by
  decide +kernel

/-- Everything together for one connection whose responses are wire-safe and fit the socket buffer: if the session's
    commands are the Sends of responses `rs` in order, optionally followed by one Close, then for every behaviour of the
    kernel and the event loop the bytes the client reads split — by the reference framer — into exactly `rs`. -/
theorem O5_end_to_end (rs : List WireResp) (hs : ∀ r ∈ rs, r.Safe) (evs : List EngEv) (hf : FitsBuffer evs)
    (tail : List Cmd) (ht : tail = [] ∨ tail = [.close])
    (hc : cmdsOf evs = (rs.map WireResp.wire).map Cmd.send ++ tail) :
    frameAll (rs.map (·.isHead)) (runSock {} evs).delivered = some (rs.map WireResp.frame) := by
  rw [O4p_partial_fits_buffer evs hf, sentBeforeClose_eq, hc, payloadBeforeClose_sends _ _ ht]
  have : (rs.map WireResp.wire).flatten = rs.flatMap WireResp.wire := by simp [List.flatMap]
  rw [this]
  exact O5_framer_recovers rs hs

/-- The composed wire-level partial theorem: pool, engine and framer together.  For every schedule in which a request of a
    session arrives only when no earlier one of that session is unfinished (`OneInFlight`) and the task queue is never
    full, once the workers are idle: if the commands `processHttpRequest` issues for session `sid`'s requests, in request
    order, are the Sends of wire-safe responses `rs` followed by at most one final Close, then for EVERY behaviour of the
    kernel and the event loop that takes each Send whole (`FitsBuffer`) and processes exactly the session's commands of the
    engine queue, the bytes the client reads split — by the reference framer — into exactly `rs`, in request order:
    exactly one well-formed response per request, in order, nothing else on the wire. -/
theorem O1_wire_partial (P : Params) (steps : List Step) (hone : OneInFlight P {} steps) (hno : NoOverflow P {} steps)
    (hq : (runPool P {} steps).tasks = []) (sid : Nat)
    (rs : List WireResp) (hs : ∀ r ∈ rs, r.Safe) (tail : List Cmd) (ht : tail = [] ∨ tail = [.close])
    (hreq : ((arrivals steps).filter (fun a => a.1 == sid)).flatMap (fun a => P.respond a.1 a.2) =
              (rs.map WireResp.wire).map Cmd.send ++ tail)
    (evs : List EngEv) (hf : FitsBuffer evs) (hc : cmdsOf evs = proj sid (runPool P {} steps).log) :
    frameAll (rs.map (·.isHead)) (runSock {} evs).delivered = some (rs.map WireResp.frame) := by
  have h3 := O3_partial_one_in_flight P steps hone sid
  rw [hq] at h3
  simp only [pending, List.flatMap_nil, proj, List.filter_nil, List.map_nil, List.append_nil] at h3
  have hl : proj sid (runPool P {} steps).log = (rs.map WireResp.wire).map Cmd.send ++ tail := by
    show (List.filter _ _).map _ = _
    rw [h3]
    obtain ⟨_, hled, _, htk⟩ := O1_all_schedules P steps
    rw [hled, htk hno]
    have := proj_flattenTickets sid ((arrivals steps).map (fun a => (a.1, P.respond a.1 a.2)))
    simp only [proj] at this
    rw [this, ← hreq]
    simp [List.filter_map, List.flatMap_map, Function.comp_def]
  exact O5_end_to_end rs hs evs hf tail ht (hc.trans hl)

/-- the hypotheses of `O1_wire_partial` are satisfiable: one request, one worker step sequence, a 200 with a 1-byte body -/
example :
    let r : WireResp := { status := 200, text := ascii "OK", fields := [(ascii "Content-Length", ascii "1")], body := [65], isHead := false }
    let P : Params := { w := 2, qcap := 4, respond := fun _ _ => [.send r.wire] }
    let steps : List Step := [.arrive 1 [], .pick, .emit 0]
    r.Safe ∧ OneInFlight P {} steps ∧ NoOverflow P {} steps ∧ (runPool P {} steps).tasks = [] ∧
    FitsBuffer [.cmd (.send r.wire) 1000] ∧ cmdsOf [EngEv.cmd (.send r.wire) 1000] = proj 1 (runPool P {} steps).log := by
  refine ⟨⟨by decide, by decide, by decide, by unfold TokenFields; decide +kernel, by decide +kernel,
    by rw [if_neg (by decide)]; exact ⟨ascii "1", by decide +kernel, by decide +kernel⟩⟩, ?_, ?_, ?_, ?_, ?_⟩
  · simp [OneInFlight, stepPool, queuedCount, runningCount, markFirstQueued, emitAt]
  · simp [NoOverflow, stepPool, queuedCount, runningCount, markFirstQueued, emitAt]
  · decide +kernel
  · simp [FitsBuffer, WireResp.wire, toWire]; decide +kernel
  · decide +kernel

end Iora.C16
