import IoraModel.Lemmas.TcpSession
/-!
# C01 — TCP/TLS sessions deliver sent bytes exactly once and in order

Property theorems only (helper lemmas live in `Lemmas/TcpSession.lean`).  The model is `Model/TcpSession.lean`
(`doSend`, `writePending`, `updateInterest`, `readAvail`, `driveHandshake`, `onSession`, `closeNow`, `enqueue`/`process`);
constants and source-shape facts come from the regenerated `Gen/TcpSession.lean`.

Every theorem quantifies over ALL input histories; an input carries the environment's answers (`wrote n`, `again`,
`wantR`, `wantW`, `err`, read results, handshake results) to the calls it triggers, so "all histories" is "all fault
sequences at every call", for every payload size and content.
-/
namespace Iora.C01
open Iora Iora.Tcp

/-- **T1 (exactly once, in order, no interleaving; early end ⇒ prefix).** From a fresh session, for every input history
and every answer sequence, under the close-on-backpressure policy: while the session is open, the bytes the kernel /
`SSL_write` took (`wire`) followed by the bytes still queued are exactly the accepted payloads concatenated in
command-queue order; and always — open or closed — `wire` is a prefix of that concatenation. -/
theorem T1_exactly_once_in_order (cfg : Cfg) (hcob : cfg.closeOnBackpressure = true) (s0 : St) (h0 : s0.Fresh)
    (is : List In) :
    let s := (run cfg s0 is).1
    (s.closed = false → s.wire ++ s.wq.flatten = s.accepted.flatten) ∧ s.wire <+: s.accepted.flatten :=
  (run_good cfg hcob is s0 (fresh_good cfg s0 h0)).1

/-- the default configuration satisfies the policy hypothesis (regenerated from `transport_types.hpp`) -/
theorem T1_default_policy : ({} : Cfg).closeOnBackpressure = true := by decide

/-- non-vacuity: both initial states the engine creates are fresh, for plain and TLS sessions -/
example (tls : Bool) : (initAccepted tls).Fresh ∧ (initConnecting tls).Fresh := by
  cases tls <;> simp [initAccepted, initConnecting, St.Fresh]

/-- non-vacuity of T1: a 3-byte payload cut after 1 byte, a second payload queued behind the tail, then a writable event
that is refused once and then takes everything -/
example :
    let is : List In := [.cmdSend [1, 2, 3] (.wrote 1), .cmdSend [4, 5] .again,
      .event { out := true } true .established .done [] [.again],
      .event { out := true } true .established .done [] [.wrote 2, .wrote 1, .wrote 1]]
    let s := (run {} (initAccepted false) is).1
    s.wire = [1, 2, 3, 4] ∧ s.wq = [[5]] ∧ s.accepted = [[1, 2, 3], [4, 5]] ∧ s.closed = false := by decide

/-- **T1, inductive form.** The invariant (`Inv` = conservation while open + prefix always, `Armed` = T3) is preserved by
every single step from every state that satisfies it — not only from fresh states. -/
theorem T1_step (cfg : Cfg) (hcob : cfg.closeOnBackpressure = true) (s : St) (i : In) (h : Good cfg s) :
    Good cfg (step cfg s i).1 :=
  step_good cfg hcob s i h

/-- **T2 (no clear text on a TLS session).** On a session with TLS (`tls ≠ none`: handshake or open), no input history
whatsoever makes the engine call the plain `::send`; and a step that leaves the session in the handshake state has put
nothing on the wire — sends accepted in the handshake window are only queued. -/
theorem T2_no_cleartext_on_tls (cfg : Cfg) (s : St) (ht : s.tls ≠ .none) (is : List In) :
    NoClear (run cfg s is).2 ∧
    (∀ i, s.tls = .handshake → (step cfg s i).1.tls = .handshake → (step cfg s i).1.wire = s.wire) :=
  ⟨run_noClear cfg is s ht, fun i hs hs' => by
    simp only [St.wire]; rw [step_handshake_wire cfg s i hs hs']⟩

/-- non-vacuity of T2: in the handshake window a send produces no write at all and is queued; after the handshake
completes the queued payload goes out through `SSL_write` -/
example :
    let s1 := (step {} (initAccepted true) (.cmdSend [7, 8] (.wrote 2)))
    s1.1.wq = [[7, 8]] ∧ s1.2 = [.interest true true] ∧
    (step {} s1.1 (.event { inn := true, out := true } true .notYet .done [.wantR, .wantR] [.wrote 2])).2 =
      [.soError, .handshake, .connected, .interest true true, .read true 65536, .interest true true, .read true 65536,
       .interest true true, .write true [7, 8], .interest false true] := by decide

/-- **T3 (no lost EPOLLOUT re-arm, ET and LT).** After every step of every history from a fresh session: if the session
is open and its queue is not empty then EPOLLOUT is in the registered mask, and that registration was issued by an
`epoll_ctl` AFTER the last write attempt (so an edge-triggered epoll reports the socket writable again). -/
theorem T3_rearm (cfg : Cfg) (hcob : cfg.closeOnBackpressure = true) (hmod : cfg.modSkipsUnchanged = false)
    (s0 : St) (h0 : s0.Fresh) (is : List In) :
    let s := (run cfg s0 is).1
    s.closed = false → s.wq ≠ [] → s.interestOut = true ∧ s.rearmed = true :=
  (run_good cfg hcob is s0 (fresh_good cfg s0 h0)).2 hmod

/-- the code as it is issues the `epoll_ctl(MOD)` unconditionally (regenerated from `updateInterest` / `modEpoll`) -/
theorem T3_default_mod : ({} : Cfg).modSkipsUnchanged = false := by decide

/-- **T3 needs the unconditional MOD.** If `updateInterest` skipped the `epoll_ctl` when the mask is unchanged (a per-session
mask cache), then after a short write issued by the drain loop — EPOLLOUT already registered — nothing re-arms the
edge-triggered EPOLLOUT: the session is open, bytes are queued, and no `epoll_ctl` follows the last write attempt. -/
theorem T3_needs_unconditional_mod :
    ∃ (cfg : Cfg) (is : List In), cfg.closeOnBackpressure = true ∧ cfg.modSkipsUnchanged = true ∧
      let s := (run cfg (initAccepted false) is).1
      s.closed = false ∧ s.wq = [[3]] ∧ s.interestOut = true ∧ s.rearmed = false :=
  ⟨{ modSkipsUnchanged := true, closeOnBackpressure := true },
   [.cmdSend [1, 2, 3] (.wrote 1), .event { out := true } true .established .done [] [.wrote 1]], rfl, rfl, by decide⟩

/-- a writable event on an established, open session -/
def evWritable (ws : List WAns) : In := .event { out := true } true .established .done [] ws

theorem step_writable (cfg : Cfg) (s : St) (ws : List WAns) (hc : s.closed = false) (hh : s.tls ≠ .handshake)
    (hp : s.connectPending = false) :
    (step cfg s (evWritable ws)).1 = (writePending cfg s ws).1 := by
  simp [step, evWritable, onSession, onSessionIo, hc, hh, hp]

/-- **T3 (progress).** A writable event whose first write takes `n > 0` bytes of a non-empty front buffer strictly
decreases the number of pending bytes, and the wire grows by exactly the bytes that left the queue (unless the session
closes in that event). -/
theorem T3_progress (cfg : Cfg) (s : St) (d : Bytes) (rest : List Bytes) (n : Nat) (ws : List WAns)
    (hc : s.closed = false) (hh : s.tls ≠ .handshake) (hp : s.connectPending = false)
    (hq : s.wq = d :: rest) (hd : d ≠ []) (hn : 0 < n) :
    let s' := (step cfg s (evWritable (.wrote n :: ws))).1
    s'.closed = false → s'.pending < s.pending ∧ s'.wire.length + s'.pending = s.wire.length + s.pending := by
  intro s' hc'
  have hs' : s' = (writePending cfg s (.wrote n :: ws)).1 := step_writable cfg s _ hc hh hp
  have hl := writeLoop_progress (s.tls == .open) d rest n ws hn hd
  have hcons := writeLoop_conserves (s.tls == .open) (d :: rest) (.wrote n :: ws)
  have hlen := congrArg List.length hcons
  simp only [List.length_append] at hlen
  rw [hs'] at hc' ⊢
  unfold writePending at hc' ⊢
  simp only [hq] at hc' ⊢
  generalize writeLoop (s.tls == .open) (d :: rest) (.wrote n :: ws) = r at hl hlen hc' ⊢
  have hclosed : ∀ (x : St) (w : Why), (closeNow x w).1.closed = false → False := by
    intro x w h; simp at h
  cases hst : r.stop <;> simp only [hst] at hc' ⊢
  · simp only [St.pending, St.wire, ui_wq, ui_wireRev, flat_rev_append, List.length_append, hq]; omega
  · simp only [St.pending, St.wire, ui_wq, ui_wireRev, flat_rev_append, List.length_append, hq]; omega
  · simp only [St.pending, St.wire, ui_wq, ui_wireRev, flat_rev_append, List.length_append, hq]; omega
  · exact absurd hc' (by simp)

/-- non-vacuity of T3-progress: 3 of 5 pending bytes leave in one event -/
example : let s : St := { wq := [[1, 2], [3, 4, 5]], wantWrite := true, interestOut := true }
    (step {} s (evWritable [.wrote 2, .wrote 1])).1.pending = 2 := by decide

/-- **T3 (draining).** If the environment takes every buffer whole, a single writable event empties the queue and
everything that was pending is on the wire. -/
theorem T3_drains (cfg : Cfg) (s : St) (hc : s.closed = false) (hh : s.tls ≠ .handshake) (hp : s.connectPending = false)
    (hne : ∀ d ∈ s.wq, d ≠ []) :
    let s' := (step cfg s (evWritable (s.wq.map fun d => .wrote d.length))).1
    s'.wq = [] ∧ s'.closed = false ∧ s'.wire = s.wire ++ s.wq.flatten := by
  intro s'
  have hs' : s' = (writePending cfg s _).1 := step_writable cfg s _ hc hh hp
  have hd := writeLoop_drains (s.tls == .open) s.wq hne
  rw [hs']
  unfold writePending
  simp only [hd.2.1]
  refine ⟨by simpa using hd.1, by simpa using hc, ?_⟩
  simp [St.wire, flat_rev_append, hd.2.2]

/-- a closed session ignores every further input -/
theorem run_closed (cfg : Cfg) : ∀ (is : List In) (s : St), s.closed = true → (run cfg s is).1.closed = true
  | [], _, h => h
  | i :: is, s, h => run_closed cfg is _ (step_closed cfg s i h).2.1

/-- **T3 (a fair environment drains the queue).** If every writable event's first write takes at least one byte, then after
as many writable events as there are pending bytes the queue is empty (or the session has been closed by an error the
environment reported) — whatever the cut positions, EAGAINs and errors after the first answer of each event are. Together
with `T3_rearm` (a writable event is always armed while the queue is non-empty) this is "no accepted byte stays queued
forever". -/
theorem T3_fair_drain (cfg : Cfg) : ∀ (evs : List (List WAns)) (s : St),
    (∀ ws ∈ evs, ∃ n rest, ws = .wrote (n + 1) :: rest) →
    s.closed = false → s.tls ≠ .handshake → s.connectPending = false → NonEmptyBufs s.wq →
    s.pending ≤ evs.length →
    (run cfg s (evs.map evWritable)).1.closed = true ∨ (run cfg s (evs.map evWritable)).1.wq = []
  | [], s, _, _, _, _, hne, hlen => by
    right
    simp only [List.map_nil, run]
    cases hq : s.wq with
    | nil => rfl
    | cons d rest =>
      have hd : d ≠ [] := hne d (by simp [hq])
      have hdl : 0 < d.length := List.length_pos_iff.mpr hd
      have hp : s.pending = d.length + rest.flatten.length := by simp [St.pending, hq]
      simp only [List.length_nil] at hlen
      omega
  | ws :: evs, s, hall, hc, hh, hp, hne, hlen => by
    simp only [List.map_cons, run]
    have hs1 : (step cfg s (evWritable ws)).1 = (writePending cfg s ws).1 := step_writable cfg s ws hc hh hp
    rw [hs1]
    by_cases hc1 : (writePending cfg s ws).1.closed = true
    · left; exact run_closed cfg _ _ hc1
    · have hc1' : (writePending cfg s ws).1.closed = false := by simpa using hc1
      have hwq := writePending_wq cfg s ws hc1'
      refine T3_fair_drain cfg evs _ (fun w hw => hall w (by simp [hw])) hc1' (by simpa using hh) (by simpa using hp)
        (by rw [hwq]; exact writeLoop_nonEmpty _ _ _ hne) ?_
      -- the pending byte count went down by at least one
      cases hq : s.wq with
      | nil =>
        have : (writeLoop (s.tls == .open) s.wq ws).wq = [] := by rw [hq]; simp [writeLoop]
        simp [St.pending, hwq, this]
      | cons d rest =>
        obtain ⟨n, rest', hws⟩ := hall ws (by simp)
        have hd : d ≠ [] := hne d (by simp [hq])
        have hprog := T3_progress cfg s d rest (n + 1) rest' hc hh hp hq hd (by omega)
        simp only at hprog
        rw [← hws, hs1] at hprog
        have := (hprog hc1').1
        simp only [List.length_cons] at hlen
        omega

/-- **T3 (fair drain, reachable states).** The same for every state reachable from a fresh session by ANY history: that every
queued buffer is non-empty is not an assumption there but a consequence of `send` not enqueueing `n == 0` (`run_ne`). -/
theorem T3_fair_drain_reachable (cfg : Cfg) (s0 : St) (h0 : s0.Fresh) (is : List In) (evs : List (List WAns))
    (hall : ∀ ws ∈ evs, ∃ n rest, ws = .wrote (n + 1) :: rest) :
    let s := (run cfg s0 is).1
    s.closed = false → s.tls ≠ .handshake → s.connectPending = false → s.pending ≤ evs.length →
    (run cfg s (evs.map evWritable)).1.closed = true ∨ (run cfg s (evs.map evWritable)).1.wq = [] := by
  intro s hc hh hp hlen
  have hne : NonEmptyBufs s.wq := run_ne cfg is s0 (by rw [h0.1]; exact ne_nil)
  exact T3_fair_drain cfg evs s hall hc hh hp hne hlen

/-- non-vacuity of T3-fair: 5 pending bytes, five events that each take one byte and are then refused -/
example : (run {} ({ wq := [[1, 2], [3, 4, 5]], wantWrite := true, interestOut := true } : St)
    ((List.replicate 5 [WAns.wrote 1, WAns.again]).map evWritable)).1.wq = [] := by decide

/-- **T4 (read loop).** For every answer sequence: the data callbacks carry exactly the chunks of the leading data
answers, in order, each once (`deliveries`, and the same chunks are appended to `delivered`/`received`); the loop issues
one more read than it got data answers, i.e. it stops exactly at the first non-data answer (EAGAIN / WANT_* / EOF /
error), consumes it and nothing after it; and the session is closed afterwards iff it was closed before or that answer
is EOF or an error. -/
theorem T4_read_loop (cfg : Cfg) (s : St) (rs : List RAns) :
    let ssl := s.tls == .open
    let r := readAvail cfg s rs
    deliveries r.1.2 = dataPrefix ssl rs ∧
    r.1.1.delivered = s.delivered ++ (dataPrefix ssl rs).flatten ∧
    r.1.1.received = s.received ++ (dataPrefix ssl rs).flatten ∧
    r.2 = (afterData ssl rs).tail ∧
    readCalls r.1.2 = (dataPrefix ssl rs).length + 1 ∧
    r.1.1.closed = (s.closed || ((afterData ssl rs).head?.map (endsSession ssl)).getD false) := by
  have h := readAvail_spec' cfg (s.tls == .open) rs s rfl
  refine ⟨h.1, ?_, ?_, h.2.2.2.1, h.2.2.2.2.1, h.2.2.2.2.2⟩
  · simp [St.delivered, h.2.1, List.reverse_append, List.flatten_append]
  · simp [St.received, h.2.2.1, List.reverse_append, List.flatten_append]

/-- non-vacuity of T4: two chunks, then EAGAIN, then answers that must stay untouched -/
example : let r := readAvail {} ({} : St) [.data [1, 2], .data [3], .again, .data [9]]
    deliveries r.1.2 = [[1, 2], [3]] ∧ r.2 = [.data [9]] ∧ r.1.1.closed = false ∧ readCalls r.1.2 = 3 := by decide
example : let r := readAvail {} ({} : St) [.data [1], .eof]
    deliveries r.1.2 = [[1]] ∧ r.1.1.closed = true := by decide

/-- **T5 (per-thread FIFO under one mutex).** `enqueue` = lock `_cmdMutex`, read the end position, store + publish,
unlock; `process` swaps the queue under the same mutex. For every number of sender threads and EVERY schedule of these
micro-steps (a step that is not enabled is a stutter), the commands of each thread `t` in dispatched-then-queued order
are exactly the sequence numbers `0, 1, …, k-1` in order, where `k` is the number of `enqueue` calls of `t` that have
stored their command (`next` completed calls, plus one if `t` stands between its store and its unlock): nothing lost,
duplicated or reordered within a thread; and every queued or dispatched command belongs to one of the `n` threads. So the
accepted order is exactly an interleaving of the per-thread send orders. The lock flag is the one the
translator extracts from `enqueue()`. -/
theorem T5_per_thread_fifo (n : Nat) (sched : List Enq.Actor) (t : Enq.Tid) (ht : t < n) :
    let q := Enq.run Gen.TcpSession.enqueuePushUnderCmdMutex (Enq.init n) sched
    (∃ th, q.thr[t]? = some th ∧
      Enq.seqOf t (q.taken ++ q.cmds) = List.range (th.next + (if th.pc = .stored then 1 else 0))) ∧
    (∀ c ∈ q.taken ++ q.cmds, c.1 < n) := by
  show (∃ th, (Enq.run true (Enq.init n) sched).thr[t]? = some th ∧
      Enq.seqOf t ((Enq.run true (Enq.init n) sched).taken ++ (Enq.run true (Enq.init n) sched).cmds) =
        List.range (th.next + (if th.pc = .stored then 1 else 0))) ∧
    (∀ c ∈ (Enq.run true (Enq.init n) sched).taken ++ (Enq.run true (Enq.init n) sched).cmds, c.1 < n)
  have hinv : Enq.EInv (Enq.run true (Enq.init n) sched) := Enq.run_inv sched (Enq.init n) (Enq.init_inv n)
  have hlen : (Enq.run true (Enq.init n) sched).thr.length = n := by
    rw [Enq.run_thr_length]; simp [Enq.init]
  have hlt : t < (Enq.run true (Enq.init n) sched).thr.length := by rw [hlen]; exact ht
  refine ⟨⟨_, List.getElem?_eq_getElem hlt, hinv.fifo t _ (List.getElem?_eq_getElem hlt)⟩, ?_⟩
  intro c hc
  have := hinv.dom c hc
  rw [hlen] at this; exact this

/-- **One accepted send is one command.** Corollary of T5: after any schedule, the number of commands of thread `t` in the
dispatched-then-queued list is exactly the number `k` of `send` calls of `t` that have stored their command — one command per
accepted send, never several (a `send` that queued its payload in pieces would contribute more), none twice, and the sequence
numbers present are exactly `0 … k-1`. The source-side half is `gen_conforms`: `send` has no loop, copies all `n` bytes into ONE
`Command::send` and calls `enqueue` once. -/
theorem send_is_one_command (n : Nat) (sched : List Enq.Actor) (t : Enq.Tid) (ht : t < n) :
    let q := Enq.run Gen.TcpSession.enqueuePushUnderCmdMutex (Enq.init n) sched
    ∃ th, q.thr[t]? = some th ∧
      ((q.taken ++ q.cmds).filter (·.1 == t)).length = th.next + (if th.pc = .stored then 1 else 0) ∧
      (Enq.seqOf t (q.taken ++ q.cmds)).Nodup ∧
      ∀ j, j ∈ Enq.seqOf t (q.taken ++ q.cmds) ↔ j < th.next + (if th.pc = .stored then 1 else 0) := by
  intro q
  obtain ⟨⟨th, hth, hseq⟩, _⟩ := T5_per_thread_fifo n sched t ht
  refine ⟨th, hth, ?_, ?_, ?_⟩
  · have := congrArg List.length hseq
    simpa [Enq.seqOf] using this
  · rw [hseq]; exact List.nodup_range
  · intro j; rw [hseq]; exact List.mem_range

/-- **The bytes of one accepted send are contiguous on the wire (T1 ∘ T5).** The session's `accepted` list is exactly the list of
(non-empty) payloads of the Send commands in dispatch order; hence for every history with every fault sequence, and for every
way of singling out one accepted payload `p` (`xs` before it, `ys` after it): while the session is open the wire followed by the
pending bytes is `xs.flatten ++ p ++ ys.flatten`, and always the wire is a prefix of it — the bytes of `p` form one block, the
bytes of every other accepted send lie wholly before or wholly after it. -/
theorem one_send_contiguous_on_wire (cfg : Cfg) (hcob : cfg.closeOnBackpressure = true) (s0 : St) (h0 : s0.Fresh)
    (is : List In) :
    let s := (run cfg s0 is).1
    s.accepted = sentPayloads is ∧
    ∀ xs p ys, sentPayloads is = xs ++ p :: ys →
      (s.closed = false → s.wire ++ s.wq.flatten = xs.flatten ++ p ++ ys.flatten) ∧
      s.wire <+: xs.flatten ++ p ++ ys.flatten := by
  intro s
  have hacc : s.accepted = sentPayloads is := by
    show (run cfg s0 is).1.accepted = _
    rw [run_accepted]; simp [St.accepted, h0.2.2.1]
  refine ⟨hacc, fun xs p ys hsplit => ?_⟩
  have ht1 := T1_exactly_once_in_order cfg hcob s0 h0 is
  have hflat : s.accepted.flatten = xs.flatten ++ p ++ ys.flatten := by
    rw [hacc, hsplit]; simp [List.flatten_append, List.append_assoc]
  simp only at ht1
  rw [hflat] at ht1
  exact ht1

/-- **… for every schedule of any number of senders.** Let `n` sender threads run any schedule of `enqueue` micro-steps; let the
`j`-th `send` of thread `t` carry `pay t j`. If the session's Send commands are the dispatched commands in dispatch order (with
arbitrary events, answers and faults in between), then for every dispatched command `c`, with `a` dispatched before it and `b`
after it: open ⇒ wire ++ pending = (bytes of `a`) ++ `pay c` ++ (bytes of `b`), and always the wire is a prefix of that; and the
commands of each thread among the dispatched ones are its sends `0, 1, …` in order, each once (T5). -/
theorem T5_T1_one_send_contiguous (cfg : Cfg) (hcob : cfg.closeOnBackpressure = true) (s0 : St) (h0 : s0.Fresh)
    (n : Nat) (sched : List Enq.Actor) (pay : Enq.Tid → Nat → Bytes) (is : List In) :
    let q := Enq.run Gen.TcpSession.enqueuePushUnderCmdMutex (Enq.init n) sched
    let bytesOf : List Enq.Cmd → Bytes := fun l => (l.map fun c => pay c.1 c.2).flatten
    sentPayloads is = q.taken.map (fun c => pay c.1 c.2) →
    let s := (run cfg s0 is).1
    ∀ a c b, q.taken = a ++ c :: b →
      (s.closed = false → s.wire ++ s.wq.flatten = bytesOf a ++ pay c.1 c.2 ++ bytesOf b) ∧
      s.wire <+: bytesOf a ++ pay c.1 c.2 ++ bytesOf b := by
  intro q bytesOf hsent s a c b hsplit
  have h := (one_send_contiguous_on_wire cfg hcob s0 h0 is).2
    (a.map fun c => pay c.1 c.2) (pay c.1 c.2) (b.map fun c => pay c.1 c.2)
    (by rw [hsent, hsplit]; simp)
  exact h

/-- example: two senders; thread 0's one send `[1,2,3]` is cut after one byte and refused once, thread 1's `[9]` was dispatched
after it — the wire shows `[1,2,3]` as one block followed by `[9]`, whatever happened in between -/
example :
    let q := Enq.run true (Enq.init 2) [.sender 0, .sender 0, .sender 1, .sender 0, .sender 0, .sender 1, .sender 1, .sender 1,
      .sender 1, .io]
    let pay : Enq.Tid → Nat → Bytes := fun t _ => if t = 0 then [1, 2, 3] else [9]
    let is : List In := [.cmdSend [1, 2, 3] (.wrote 1), .cmdSend [9] .again,
      .event { out := true } true .established .done [] [.again],
      .event { out := true } true .established .done [] [.wrote 2, .wrote 1]]
    q.taken = [(0, 0), (1, 0)] ∧ sentPayloads is = q.taken.map (fun c => pay c.1 c.2) ∧
    (run {} (initAccepted false) is).1.wire = [1, 2, 3, 9] ∧ (run {} (initAccepted false) is).1.wq = [] := by decide

/-- `process()` takes the queue under the same mutex (regenerated fact) -/
theorem T5_swap_locked : Gen.TcpSession.processSwapUnderCmdMutex = true := by decide

/-- non-vacuity of T5: two threads interleaved step by step, the I/O thread swapping in between -/
def demoSched : List Enq.Actor :=
  [.sender 0, .sender 1, .sender 0, .sender 0, .sender 0, .io, .sender 1, .sender 1, .sender 1, .sender 1, .sender 0,
   .sender 0, .sender 0, .sender 0]
example : (Enq.run true (Enq.init 2) demoSched).taken = [(0, 0)] ∧
    (Enq.run true (Enq.init 2) demoSched).cmds = [(1, 0), (0, 1)] := by decide

/-- **T5 needs the mutex.** With `locking = false` there is a two-thread schedule in which both `enqueue` calls return
but only one command is in the queue — the translator fact `enqueuePushUnderCmdMutex` is load-bearing. -/
theorem T5_needs_mutex :
    ∃ sched, let q := Enq.run false (Enq.init 2) sched
      (q.thr.map (·.next)) = [1, 1] ∧ (q.thr.map (·.pc)) = [.idle, .idle] ∧ Enq.seqOf 0 (q.taken ++ q.cmds) = [] :=
  ⟨[.sender 0, .sender 1, .sender 0, .sender 1, .sender 0, .sender 1, .sender 0, .sender 1], by decide⟩

/-- **T6 (bytes are dropped only together with a reported close).** Close-on-backpressure policy, any state satisfying
the invariant, any input: after the step either every accepted byte is still accounted for (`wire ++ pending =
accepted`, session open) or the session is closed; it never becomes closed silently — if it was open before and is
closed after, the step's outputs contain the close (epoll DEL + close callback); and a closed session emits nothing,
stays closed and its wire is frozen. -/
theorem T6_drop_only_with_close (cfg : Cfg) (hcob : cfg.closeOnBackpressure = true) (s : St) (i : In) (h : Good cfg s) :
    let r := step cfg s i
    (r.1.closed = false → r.1.wire ++ r.1.wq.flatten = r.1.accepted.flatten) ∧
    (s.closed = false → r.1.closed = true → ∃ w, Out.close w ∈ r.2) ∧
    (s.closed = true → r.2 = [] ∧ r.1.closed = true ∧ r.1.wire = s.wire) := by
  refine ⟨(step_good cfg hcob s i h).1.1, ?_, ?_⟩
  · intro hc hc'
    rcases step_loud cfg s i with hl | hl
    · rw [hl, hc] at hc'; cases hc'
    · exact hl
  · intro hc
    have := step_closed cfg s i hc
    exact ⟨this.1, this.2.1, by simp only [St.wire]; rw [this.2.2]⟩

/-- non-vacuity of T6: with `maxWriteQueue = 1` the second queued payload closes the session and the close is emitted -/
example : let cfg : Cfg := { maxWriteQueue := 1 }
    let s := (run cfg (initAccepted false) [.cmdSend [1, 2] .again]).1
    Good cfg s ∧ (step cfg s (.cmdSend [3] .again)).2 = [.close .backpressure] ∧ (step cfg s (.cmdSend [3] .again)).1.closed = true := by
  refine ⟨run_good _ rfl _ _ (fresh_good _ _ (by simp [initAccepted, St.Fresh])), by decide, by decide⟩

/-- **Scope of T1/T6: the policy matters.** With `closeOnBackpressure = false` ("drop oldest") the engine pops the FRONT
of the queue, which may be the unsent tail of a half-written payload: the wire is then no longer a prefix of the accepted
stream (here: byte 1 of payload `[1,2]` is on the wire, byte 2 is dropped, payload `[3]` follows). The statement of C01
restricts itself to the default close-on-backpressure policy for this reason. -/
theorem T6_drop_oldest_breaks_stream :
    ∃ (cfg : Cfg) (is : List In), cfg.closeOnBackpressure = false ∧
      let s := (run cfg (initAccepted false) is).1
      s.closed = false ∧ s.wire = [1, 3] ∧ s.accepted.flatten = [1, 2, 3] ∧ ¬ s.wire <+: s.accepted.flatten :=
  ⟨{ maxWriteQueue := 1, closeOnBackpressure := false },
   [.cmdSend [1, 2] (.wrote 1), .cmdSend [3] .again, .event { out := true } true .established .done [] [.wrote 1]],
   rfl, by decide⟩

/-- **Source shapes the model mirrors** (regenerated from `tcp_engine.hpp` on every run; a changed offset, queue end,
comparison or lock scope makes this obligation fail to build): `send` copies all `n` bytes into one command and does not
enqueue `n == 0`; both `enqueue` overloads `push_back` under `_cmdMutex`, `process` swaps under it; in `doSend` the
TLS-handshake guard comes before every write call and contains none, the unsent tail is `[begin + n, end)` pushed at the
FRONT, whole payloads are pushed at the BACK, short-write tests are `n < size`, backpressure is `wq.size() > maxWriteQueue`;
`writePending` writes the FRONT buffer, erases exactly `[begin, begin + n)` on a short write and pops the front on a full one;
`updateInterest` computes `EPOLLIN | (ET) | (needWrite ? EPOLLOUT)` with `needWrite = wantWrite || !wq.empty() || (Handshake ?
tlsWantWrite : connectPending)` and ends in ONE unconditional `modEpoll` = `epoll_ctl(EPOLL_CTL_MOD)`, called from exactly the
sites the model has; `tlsMode` and `tlsState` are only ever set together (None/None by default, mode + Handshake in
`onListener`/`doConnect`, Open in `driveHandshake`), which is what lets the model merge them into one field; `sendAsync`
and the `Transport` wrappers only delegate to `send`. -/
theorem gen_conforms :
    Gen.TcpSession.enqueuePushUnderCmdMutex = true ∧ Gen.TcpSession.processSwapUnderCmdMutex = true ∧
    Gen.TcpSession.enqueueQueueOps = ["push_back", "push_back"] ∧
    Gen.TcpSession.sendEmptyReturns = "true" ∧ Gen.TcpSession.sendCopyLength = ["n", "n"] ∧ Gen.TcpSession.sendEnqueueCalls = 1 ∧
    Gen.TcpSession.sendLoopCount = 0 ∧
    Gen.TcpSession.doSendTailOffsets = ["n", "n"] ∧ Gen.TcpSession.doSendTailEnds = ["end", "end"] ∧
    Gen.TcpSession.doSendTailPush = ["emplace_front", "emplace_front"] ∧
    Gen.TcpSession.doSendWholePush = ["emplace_back", "emplace_back"] ∧
    Gen.TcpSession.doSendShortTests = ["<", "<"] ∧ Gen.TcpSession.doSendBackpressureTest = ">" ∧
    Gen.TcpSession.doSendHandshakeBranchWrites = 0 ∧ Gen.TcpSession.doSendHandshakeGuardFirst = true ∧
    Gen.TcpSession.writePendingBuffer = ["front"] ∧ Gen.TcpSession.writePendingEraseFrom = [""] ∧
    Gen.TcpSession.writePendingEraseTo = ["n"] ∧ Gen.TcpSession.writePendingPop = ["pop_front"] ∧
    Gen.TcpSession.writePendingShortTests = ["<"] ∧
    Gen.TcpSession.updateInterestSkipsUnchangedMask = false ∧ Gen.TcpSession.modEpollOp = "EPOLL_CTL_MOD" ∧
    Gen.TcpSession.updateInterestBaseMask = "EPOLLIN" ∧
    Gen.TcpSession.updateInterestEdge = ["_config.useEdgeTriggered", "EPOLLET"] ∧
    Gen.TcpSession.updateInterestNeedWrite = "s->wantWrite || !s->wq.empty()" ∧
    Gen.TcpSession.updateInterestStateSplit = ["s->tlsState == TlsState::Handshake", "s->tlsWantWrite", "s->connectPending"] ∧
    Gen.TcpSession.updateInterestOut = ["needWrite", "EPOLLOUT"] ∧
    Gen.TcpSession.updateInterestCallSites =
      [("doSend", 4), ("writePending", 4), ("readAvail", 1), ("driveHandshake", 2), ("onSession", 1)] ∧
    Gen.TcpSession.tlsAssignments = ["onListener:tlsMode=Server", "onListener:tlsState=Handshake",
      "doConnect:tlsMode=Client", "doConnect:tlsState=Handshake", "driveHandshake:tlsState=Open"] ∧
    Gen.TcpSession.tlsDefaults = ["None", "None"] ∧
    Gen.TcpSession.sendAsyncSendCalls = 1 ∧ Gen.TcpSession.transportSendDelegates = ["send", "sendAsync"] := by decide

/-! ## Observations (true of the code as it is; none contradicts the statement of C01) -/

/-- **Observation: busy polling in the handshake window.** While the TLS handshake waits for the peer (`WANT_READ`) and a
payload is already queued, every event re-registers EPOLLOUT (`needWrite` counts the queue), the socket is writable, so
epoll reports again at once and the state does not change: the I/O thread spins until the peer answers. No byte is lost
or reordered; it costs CPU (seen in the traces as runs of `G:0;H:r;E:M:7` wake-ups). -/
theorem obs_handshake_window_spins (cfg : Cfg) (s : St) (c : CAns) (rs : List RAns) (ws : List WAns)
    (hmod : cfg.modSkipsUnchanged = false) (hc : s.closed = false) (hs : s.tls = .handshake) (hq : s.wq ≠ []) :
    let r := step cfg s (.event { out := true } true c .wantR rs ws)
    r.1.interestOut = true ∧ r.1.wq = s.wq ∧ r.1.tls = .handshake ∧ r.1.closed = false ∧
    r.2 = [.soError, .handshake, .interest true cfg.edge] := by
  have hne : s.wq.isEmpty = false := by
    cases h : s.wq with
    | nil => exact absurd h hq
    | cons _ _ => rfl
  simp [step, onSession, driveHandshake, updateInterest, needWrite, hmod, hc, hs, hne]

/-- **Observation: the queue limit is not applied in the handshake window.** Payloads accepted while the handshake is in
progress are queued without the `maxWriteQueue` test (the handshake branch of `doSend` returns before it). -/
theorem obs_handshake_queue_unbounded (cfg : Cfg) (p : Bytes) (a : WAns) (hp : p ≠ []) : ∀ (n : Nat) (s : St),
    s.tls = .handshake → s.closed = false →
    (run cfg s (List.replicate n (.cmdSend p a))).1.wq.length = s.wq.length + n ∧
    (run cfg s (List.replicate n (.cmdSend p a))).1.closed = false
  | 0, s, _, hc => by simp [run, hc]
  | n + 1, s, hs, hc => by
    have h1 : (step cfg s (.cmdSend p a)).1.tls = .handshake ∧ (step cfg s (.cmdSend p a)).1.closed = false ∧
        (step cfg s (.cmdSend p a)).1.wq.length = s.wq.length + 1 := by
      have hpe : p.isEmpty = false := by cases p <;> simp_all
      simp [step, doSend, hs, hc, hpe]
    have ih := obs_handshake_queue_unbounded cfg p a hp n _ h1.1 h1.2.1
    simp only [List.replicate_succ, run]
    rw [ih.1, h1.2.2]
    exact ⟨by omega, ih.2⟩

/-- **Observation: a read that wants to write is not re-armed once the handshake is over.** `readAvail` records
`SSL_ERROR_WANT_WRITE` in `tlsWantWrite`, but `updateInterest` looks at that flag only in the handshake state: with an
empty queue EPOLLOUT is not registered, so the read resumes only with the next EPOLLIN (renegotiation / KeyUpdate with a
full send buffer; delivery is delayed, nothing is lost or reordered). -/
theorem obs_read_wantWrite_not_armed :
    let s : St := { tls := .open }
    let r := step {} s (.event { inn := true } true .established .done [.wantW] [])
    r.1.tlsWantWrite = true ∧ r.1.interestOut = false ∧ r.1.closed = false := by decide

end Iora.C01
