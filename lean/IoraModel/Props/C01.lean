import IoraModel.Lemmas.TcpSession
import IoraModel.Lemmas.TcpWake
import IoraModel.Lemmas.TcpExt
/-!
# C01 — TCP/TLS sessions deliver sent bytes exactly once and in order

Property theorems only (helper lemmas live in `Lemmas/TcpSession.lean`, `Lemmas/TcpExt.lean`, `Lemmas/TcpWake.lean`).  The model is
`Model/TcpSession.lean` (`doSend`, `writePending`, `updateInterest`, `readAvail`, `driveHandshake`, `onSession`, `closeNow`, the Send /
Close arms of `process()` with the stale-timeout guards, `shutdownDrain`, `enqueue`/`process` as lock micro-steps, `processBatch`'s
order, the receive-side environment `Rd`) and `Model/TcpWake.lean` (the eventfd wake-up protocol);
constants and source-shape facts come from the regenerated `Gen/TcpSession.lean`.

Every theorem quantifies over ALL input histories; an input carries the environment's answers (`wrote n`, `again`,
`wantR`, `wantW`, `err`, read results, handshake results) to the calls it triggers, so "all histories" is "all fault
sequences at every call", for every payload size and content.
-/
namespace Iora.C01
open Iora Iora.Tcp

/-- **T1 (exactly once, in order, no interleaving; early end ⇒ prefix).** From a fresh session, for every input history
and every answer sequence, under the close-on-backpressure policy: while the session is open, the bytes the kernel /
`SSL_write` took (`wire`) followed by the bytes still queued are exactly the accepted payloads concatenated in
command-queue order; and always — open or closed — `wire` is a prefix of that concatenation. -/
theorem T1_exactly_once_in_order (cfg : Cfg) (hcob : cfg.closeOnBackpressure = true) (s0 : St) (h0 : s0.Fresh)
    (is : List In) :
    let s := (run cfg s0 is).1
    (s.closed = false → s.wire ++ s.wq.flatten = s.accepted.flatten) ∧ s.wire <+: s.accepted.flatten :=
  (run_good cfg hcob is s0 (fresh_good cfg s0 h0)).1

/-- the default configuration satisfies the policy hypothesis (regenerated from `transport_types.hpp`) -/
theorem T1_default_policy : ({} : Cfg).closeOnBackpressure = true := by decide

/-- non-vacuity: both initial states the engine creates are fresh, for plain and TLS sessions -/
example (tls : Bool) : (initAccepted tls).Fresh ∧ (initConnecting tls).Fresh := by
  cases tls <;> simp [initAccepted, initConnecting, St.Fresh]

/-- non-vacuity of T1: a 3-byte payload cut after 1 byte, a second payload queued behind the tail, then a writable event
that is refused once and then takes everything -/
example :
    let is : List In := [.cmdSend [1, 2, 3] (.wrote 1), .cmdSend [4, 5] .again,
      .event { out := true } true .established .done [] [.again],
      .event { out := true } true .established .done [] [.wrote 2, .wrote 1, .wrote 1]]
    let s := (run {} (initAccepted false) is).1
    s.wire = [1, 2, 3, 4] ∧ s.wq = [[5]] ∧ s.accepted = [[1, 2, 3], [4, 5]] ∧ s.closed = false := by decide

/-- **T1, inductive form.** The invariant (`Inv` = conservation while open + prefix always, `Armed` = T3) is preserved by
every single step from every state that satisfies it — not only from fresh states. -/
theorem T1_step (cfg : Cfg) (hcob : cfg.closeOnBackpressure = true) (s : St) (i : In) (h : Good cfg s) :
    Good cfg (step cfg s i).1 :=
  step_good cfg hcob s i h

/-- **T2 (no clear text on a TLS session).** On a session with TLS (`tls ≠ none`: handshake or open), no input history
whatsoever makes the engine call the plain `::send` — or the plain `::recv` (`NoClear` excludes `.write false _` and
`.read false _`: nothing is written to or taken from the socket behind OpenSSL's back); and a step that leaves the session in the handshake state has put
nothing on the wire — sends accepted in the handshake window are only queued. -/
theorem T2_no_cleartext_on_tls (cfg : Cfg) (s : St) (ht : s.tls ≠ .none) (is : List In) :
    NoClear (run cfg s is).2 ∧
    (∀ i, s.tls = .handshake → (step cfg s i).1.tls = .handshake → (step cfg s i).1.wire = s.wire) :=
  ⟨run_noClear cfg is s ht, fun i hs hs' => by
    simp only [St.wire]; rw [step_handshake_wire cfg s i hs hs']⟩

/-- `NoClear` really excludes plain reads as well as plain writes -/
example : ¬ NoClear [.read false 10] ∧ ¬ NoClear [.write false [1]] ∧ NoClear [.read true 10, .write true [1], .handshake] := by
  unfold NoClear; decide

/-- non-vacuity of T2: in the handshake window a send produces no write at all and is queued; after the handshake
completes the queued payload goes out through `SSL_write` -/
example :
    let s1 := (step {} (initAccepted true) (.cmdSend [7, 8] (.wrote 2)))
    s1.1.wq = [[7, 8]] ∧ s1.2 = [.interest true true] ∧
    (step {} s1.1 (.event { inn := true, out := true } true .notYet .done [.wantR, .wantR] [.wrote 2])).2 =
      [.soError, .handshake, .connected, .interest true true, .read true 65536, .interest true true, .read true 65536,
       .interest true true, .write true [7, 8], .interest false true] := by decide

/-- **T3 (no lost EPOLLOUT re-arm, ET and LT).** After every step of every history from a fresh session: if the session
is open and its queue is not empty then EPOLLOUT is in the registered mask, and that registration was issued by an
`epoll_ctl` AFTER the last write attempt (so an edge-triggered epoll reports the socket writable again). -/
theorem T3_rearm (cfg : Cfg) (hcob : cfg.closeOnBackpressure = true) (hmod : cfg.modSkipsUnchanged = false)
    (s0 : St) (h0 : s0.Fresh) (is : List In) :
    let s := (run cfg s0 is).1
    s.closed = false → s.wq ≠ [] → s.interestOut = true ∧ s.rearmed = true :=
  (run_good cfg hcob is s0 (fresh_good cfg s0 h0)).2 hmod

/-- the code as it is issues the `epoll_ctl(MOD)` unconditionally (regenerated from `updateInterest` / `modEpoll`) -/
theorem T3_default_mod : ({} : Cfg).modSkipsUnchanged = false := by decide

/-- **T3 needs the unconditional MOD.** If `updateInterest` skipped the `epoll_ctl` when the mask is unchanged (a per-session
mask cache), then after a short write issued by the drain loop — EPOLLOUT already registered — nothing re-arms the
edge-triggered EPOLLOUT: the session is open, bytes are queued, and no `epoll_ctl` follows the last write attempt. -/
theorem T3_needs_unconditional_mod :
    ∃ (cfg : Cfg) (is : List In), cfg.closeOnBackpressure = true ∧ cfg.modSkipsUnchanged = true ∧
      let s := (run cfg (initAccepted false) is).1
      s.closed = false ∧ s.wq = [[3]] ∧ s.interestOut = true ∧ s.rearmed = false :=
  ⟨{ modSkipsUnchanged := true, closeOnBackpressure := true },
   [.cmdSend [1, 2, 3] (.wrote 1), .event { out := true } true .established .done [] [.wrote 1]], rfl, rfl, by decide⟩

/-- a writable event on an established, open session -/
def evWritable (ws : List WAns) : In := .event { out := true } true .established .done [] ws

theorem step_writable (cfg : Cfg) (s : St) (ws : List WAns) (hc : s.closed = false) (hh : s.tls ≠ .handshake)
    (hp : s.connectPending = false) :
    (step cfg s (evWritable ws)).1 = (writePending cfg s ws).1 := by
  simp [step, evWritable, onSession, onSessionIo, hc, hh, hp]

/-- **T3 (progress).** A writable event whose first write takes `n > 0` bytes of a non-empty front buffer strictly
decreases the number of pending bytes, and the wire grows by exactly the bytes that left the queue (unless the session
closes in that event). -/
theorem T3_progress (cfg : Cfg) (s : St) (d : Bytes) (rest : List Bytes) (n : Nat) (ws : List WAns)
    (hc : s.closed = false) (hh : s.tls ≠ .handshake) (hp : s.connectPending = false)
    (hq : s.wq = d :: rest) (hd : d ≠ []) (hn : 0 < n) :
    let s' := (step cfg s (evWritable (.wrote n :: ws))).1
    s'.closed = false → s'.pending < s.pending ∧ s'.wire.length + s'.pending = s.wire.length + s.pending := by
  intro s' hc'
  have hs' : s' = (writePending cfg s (.wrote n :: ws)).1 := step_writable cfg s _ hc hh hp
  have hl := writeLoop_progress (s.tls == .open) d rest n ws hn hd
  have hcons := writeLoop_conserves (s.tls == .open) (d :: rest) (.wrote n :: ws)
  have hlen := congrArg List.length hcons
  simp only [List.length_append] at hlen
  rw [hs'] at hc' ⊢
  unfold writePending at hc' ⊢
  simp only [hq] at hc' ⊢
  generalize writeLoop (s.tls == .open) (d :: rest) (.wrote n :: ws) = r at hl hlen hc' ⊢
  have hclosed : ∀ (x : St) (w : Why), (closeNow x w).1.closed = false → False := by
    intro x w h; simp at h
  cases hst : r.stop <;> simp only [hst] at hc' ⊢
  · simp only [St.pending, St.wire, ui_wq, ui_wireRev, flat_rev_append, List.length_append, hq]; omega
  · simp only [St.pending, St.wire, ui_wq, ui_wireRev, flat_rev_append, List.length_append, hq]; omega
  · simp only [St.pending, St.wire, ui_wq, ui_wireRev, flat_rev_append, List.length_append, hq]; omega
  · exact absurd hc' (by simp)

/-- non-vacuity of T3-progress: 3 of 5 pending bytes leave in one event -/
example : let s : St := { wq := [[1, 2], [3, 4, 5]], wantWrite := true, interestOut := true }
    (step {} s (evWritable [.wrote 2, .wrote 1])).1.pending = 2 := by decide

/-- **T3 (draining).** If the environment takes every buffer whole, a single writable event empties the queue and
everything that was pending is on the wire. -/
theorem T3_drains (cfg : Cfg) (s : St) (hc : s.closed = false) (hh : s.tls ≠ .handshake) (hp : s.connectPending = false)
    (hne : ∀ d ∈ s.wq, d ≠ []) :
    let s' := (step cfg s (evWritable (s.wq.map fun d => .wrote d.length))).1
    s'.wq = [] ∧ s'.closed = false ∧ s'.wire = s.wire ++ s.wq.flatten := by
  intro s'
  have hs' : s' = (writePending cfg s _).1 := step_writable cfg s _ hc hh hp
  have hd := writeLoop_drains (s.tls == .open) s.wq hne
  rw [hs']
  unfold writePending
  simp only [hd.2.1]
  refine ⟨by simpa using hd.1, by simpa using hc, ?_⟩
  simp [St.wire, flat_rev_append, hd.2.2]

/-- a closed session ignores every further input -/
theorem run_closed (cfg : Cfg) : ∀ (is : List In) (s : St), s.closed = true → (run cfg s is).1.closed = true
  | [], _, h => h
  | i :: is, s, h => run_closed cfg is _ (step_closed cfg s i h).2.1

/-- **T3 (a fair environment drains the queue).** If every writable event's first write takes at least one byte, then after
as many writable events as there are pending bytes the queue is empty (or the session has been closed by an error the
environment reported) — whatever the cut positions, EAGAINs and errors after the first answer of each event are. Together
with `T3_rearm` (a writable event is always armed while the queue is non-empty) this is "no accepted byte stays queued
forever". -/
theorem T3_fair_drain (cfg : Cfg) : ∀ (evs : List (List WAns)) (s : St),
    (∀ ws ∈ evs, ∃ n rest, ws = .wrote (n + 1) :: rest) →
    s.closed = false → s.tls ≠ .handshake → s.connectPending = false → NonEmptyBufs s.wq →
    s.pending ≤ evs.length →
    (run cfg s (evs.map evWritable)).1.closed = true ∨ (run cfg s (evs.map evWritable)).1.wq = []
  | [], s, _, _, _, _, hne, hlen => by
    right
    simp only [List.map_nil, run]
    cases hq : s.wq with
    | nil => rfl
    | cons d rest =>
      have hd : d ≠ [] := hne d (by simp [hq])
      have hdl : 0 < d.length := List.length_pos_iff.mpr hd
      have hp : s.pending = d.length + rest.flatten.length := by simp [St.pending, hq]
      simp only [List.length_nil] at hlen
      omega
  | ws :: evs, s, hall, hc, hh, hp, hne, hlen => by
    simp only [List.map_cons, run]
    have hs1 : (step cfg s (evWritable ws)).1 = (writePending cfg s ws).1 := step_writable cfg s ws hc hh hp
    rw [hs1]
    by_cases hc1 : (writePending cfg s ws).1.closed = true
    · left; exact run_closed cfg _ _ hc1
    · have hc1' : (writePending cfg s ws).1.closed = false := by simpa using hc1
      have hwq := writePending_wq cfg s ws hc1'
      refine T3_fair_drain cfg evs _ (fun w hw => hall w (by simp [hw])) hc1' (by simpa using hh) (by simpa using hp)
        (by rw [hwq]; exact writeLoop_nonEmpty _ _ _ hne) ?_
      -- the pending byte count went down by at least one
      cases hq : s.wq with
      | nil =>
        have : (writeLoop (s.tls == .open) s.wq ws).wq = [] := by rw [hq]; simp [writeLoop]
        simp [St.pending, hwq, this]
      | cons d rest =>
        obtain ⟨n, rest', hws⟩ := hall ws (by simp)
        have hd : d ≠ [] := hne d (by simp [hq])
        have hprog := T3_progress cfg s d rest (n + 1) rest' hc hh hp hq hd (by omega)
        simp only at hprog
        rw [← hws, hs1] at hprog
        have := (hprog hc1').1
        simp only [List.length_cons] at hlen
        omega

/-- **T3 (fair drain, reachable states).** The same for every state reachable from a fresh session by ANY history: that every
queued buffer is non-empty is not an assumption there but a consequence of `send` not enqueueing `n == 0` (`run_ne`). -/
theorem T3_fair_drain_reachable (cfg : Cfg) (s0 : St) (h0 : s0.Fresh) (is : List In) (evs : List (List WAns))
    (hall : ∀ ws ∈ evs, ∃ n rest, ws = .wrote (n + 1) :: rest) :
    let s := (run cfg s0 is).1
    s.closed = false → s.tls ≠ .handshake → s.connectPending = false → s.pending ≤ evs.length →
    (run cfg s (evs.map evWritable)).1.closed = true ∨ (run cfg s (evs.map evWritable)).1.wq = [] := by
  intro s hc hh hp hlen
  have hne : NonEmptyBufs s.wq := run_ne cfg is s0 (by rw [h0.1]; exact ne_nil)
  exact T3_fair_drain cfg evs s hall hc hh hp hne hlen

/-- non-vacuity of T3-fair: 5 pending bytes, five events that each take one byte and are then refused -/
example : (run {} ({ wq := [[1, 2], [3, 4, 5]], wantWrite := true, interestOut := true } : St)
    ((List.replicate 5 [WAns.wrote 1, WAns.again]).map evWritable)).1.wq = [] := by decide

/-- **T4 (read loop).** For every answer sequence: the data callbacks carry exactly the chunks of the leading data
answers, in order, each once (`deliveries`, and the same chunks are appended to `delivered`/`received`); the loop issues
one more read than it got data answers, i.e. it stops exactly at the first non-data answer (EAGAIN / WANT_* / EOF /
error), consumes it and nothing after it; and the session is closed afterwards iff it was closed before or that answer
is EOF or an error. -/
theorem T4_read_loop (cfg : Cfg) (hd : cfg.readDrains = true) (s : St) (rs : List RAns) :
    let ssl := s.tls == .open
    let r := readAvail cfg s rs
    deliveries r.1.2 = dataPrefix ssl rs ∧
    r.1.1.delivered = s.delivered ++ (dataPrefix ssl rs).flatten ∧
    r.1.1.received = s.received ++ (dataPrefix ssl rs).flatten ∧
    r.2 = (afterData ssl rs).tail ∧
    readCalls r.1.2 = (dataPrefix ssl rs).length + 1 ∧
    r.1.1.closed = (s.closed || ((afterData ssl rs).head?.map (endsSession ssl)).getD false) := by
  have h := readAvail_spec' cfg hd (s.tls == .open) rs s rfl
  refine ⟨h.1, ?_, ?_, h.2.2.2.1, h.2.2.2.2.1, h.2.2.2.2.2⟩
  · simp [St.delivered, h.2.1, List.reverse_append, List.flatten_append]
  · simp [St.received, h.2.2.1, List.reverse_append, List.flatten_append]

/-- non-vacuity of T4: two chunks, then EAGAIN, then answers that must stay untouched -/
example : let r := readAvail {} ({} : St) [.data [1, 2], .data [3], .again, .data [9]]
    deliveries r.1.2 = [[1, 2], [3]] ∧ r.2 = [.data [9]] ∧ r.1.1.closed = false ∧ readCalls r.1.2 = 3 := by decide
example : let r := readAvail {} ({} : St) [.data [1], .eof]
    deliveries r.1.2 = [[1]] ∧ r.1.1.closed = true := by decide

/-- the code as it is reads until the channel blocks in BOTH epoll modes (regenerated from the loop head of `readAvail`) -/
theorem T4_default_drains : ({} : Cfg).readDrains = true ∧ ({ edge := false } : Cfg).readDrains = true := by decide

/-- **T4 over whole histories (delivered = received).** For every input history from a fresh session: the bytes handed to the data
callback are exactly the bytes `recv` / `SSL_read` returned, in order, each once — as state (`delivered = received`) and as
outputs (the payloads of the `deliver` outputs of the whole run, concatenated). Holds for either loop shape. -/
theorem T4_run_delivered_eq_received (cfg : Cfg) (s0 : St) (h0 : s0.Fresh) (is : List In) :
    let r := run cfg s0 is
    r.1.delivered = r.1.received ∧ r.1.delivered = (deliveries r.2).flatten := by
  intro r
  have h := run_rd cfg is s0
  unfold RdInv at h
  rw [h0.2.2.2.1, h0.2.2.2.2.1] at h
  simp only [List.append_nil] at h
  refine ⟨by simp only [St.delivered, St.received]; rw [h.1, h.2], ?_⟩
  simp only [St.delivered]; rw [h.1, List.reverse_reverse]

/-- **T4: one wake-up takes everything the environment holds — the plaintext OpenSSL has buffered included.** The environment
holds `e.buf` (plaintext of a record `SSL_read` has pulled out of the kernel but not returned: no epoll event will ever announce
it) and `e.kern` (records still in the kernel buffer). With the drain loop (`cfg.readDrains`, true for the code as it is in both
epoll modes) and a non-zero `ioReadChunk`, ONE `readAvail` call answered by that environment delivers all of it, in order,
consumes every answer up to the final EAGAIN / WANT_READ, and leaves the session open. -/
theorem T4_wakeup_drains_environment (cfg : Cfg) (hd : cfg.readDrains = true) (hc : 0 < cfg.ioReadChunk) (s : St) (e : Rd.Env) :
    let ssl := s.tls == .open
    let r := readAvail cfg s (e.answers ssl cfg.ioReadChunk)
    r.1.1.delivered = s.delivered ++ e.content ∧ r.2 = [] ∧ r.1.1.closed = s.closed := by
  intro ssl r
  have h4 := T4_read_loop cfg hd s (e.answers ssl cfg.ioReadChunk)
  have ha := Rd.answers_spec ssl cfg.ioReadChunk hc e
  simp only at h4
  refine ⟨by rw [h4.2.1, ha.1], by rw [h4.2.2.2.1, ha.2]; rfl, ?_⟩
  rw [h4.2.2.2.2.2, ha.2]
  cases hs : (s.tls == Tls.open) <;> simp [ssl, hs, endsSession, classifyR]

/-- **T4 over whole histories of the closed receive-side system (delivered = everything the peer sent).** The peer appends
records to the kernel buffer at any time; epoll wakes the I/O thread only while the KERNEL buffer is non-empty; a wake-up is one
`readAvail` call answered by the environment (which may leave plaintext inside OpenSSL if the caller does not drain). With the
drain loop, for every interleaving of peer writes and wake-ups from an environment with nothing buffered: the bytes handed to
the data callback followed by what is still in the kernel buffer are exactly the bytes the peer sent, in order; nothing is ever
left inside OpenSSL between wake-ups; hence whenever epoll is silent, everything the peer sent has been delivered. -/
theorem T4_run_delivered_eq_sent (cfg : Cfg) (hd : cfg.readDrains = true) (hc : 0 < cfg.ioReadChunk) (s0 : St)
    (acts : List Rd.Act) :
    let y := Rd.Sys.run cfg { s := s0 } acts
    y.s.delivered ++ y.e.kern.flatten = s0.delivered ++ y.sent ∧ y.e.buf = [] ∧
    (y.e.epollIn = false → y.s.delivered = s0.delivered ++ y.sent) := by
  have key : ∀ (acts : List Rd.Act) (y : Rd.Sys), y.e.buf = [] → y.s.delivered ++ y.e.kern.flatten = s0.delivered ++ y.sent →
      (Rd.Sys.run cfg y acts).e.buf = [] ∧
      (Rd.Sys.run cfg y acts).s.delivered ++ (Rd.Sys.run cfg y acts).e.kern.flatten = s0.delivered ++ (Rd.Sys.run cfg y acts).sent := by
    intro acts
    induction acts with
    | nil => intro y hb hi; exact ⟨hb, hi⟩
    | cons a as ih =>
      intro y hb hi
      simp only [Rd.Sys.run]
      apply ih
      · cases a with
        | peerWrite r => exact hb
        | wake =>
          simp only [Rd.Sys.step]
          split
          · simp [hd]
          · exact hb
      · cases a with
        | peerWrite r =>
          simp only [Rd.Sys.step, List.flatten_append, List.flatten_cons, List.flatten_nil, List.append_nil]
          rw [← List.append_assoc, hi, List.append_assoc]
        | wake =>
          simp only [Rd.Sys.step]
          split
          · have h := (T4_wakeup_drains_environment cfg hd hc y.s y.e).1
            simp only [hd, if_true, List.flatten_nil, List.append_nil]
            rw [h, ← hi]
            simp [Rd.Env.content, hb]
          · exact hi
  intro y
  have h := key acts { s := s0 } rfl (by simp)
  refine ⟨h.2, h.1, fun he => ?_⟩
  have hk : y.e.kern = [] := by
    have : (!y.e.kern.isEmpty) = false := he
    cases hkk : y.e.kern with
    | nil => rfl
    | cons _ _ => rw [hkk] at this; simp at this
  have h2 := h.2
  rw [show (Rd.Sys.run cfg { s := s0 } acts) = y from rfl, hk] at h2
  simpa using h2

/-- non-vacuity / witness pair: the same history (a 3-byte record, one wake-up, `ioReadChunk` = 2, TLS, level-triggered) delivers
everything with the drain loop and strands the last byte — epoll silent, session open — with one read per wake-up -/
example :
    let acts : List Rd.Act := [.peerWrite [1, 2, 3], .wake, .wake]
    let good := Rd.Sys.run { edge := false, ioReadChunk := 2 } { s := { tls := .open } } acts
    let bad := Rd.Sys.run { edge := false, readDrainsLT := false, ioReadChunk := 2 } { s := { tls := .open } } acts
    good.s.delivered = [1, 2, 3] ∧ good.e.epollIn = false ∧
    bad.s.delivered = [1, 2] ∧ bad.sent = [1, 2, 3] ∧ bad.e.epollIn = false ∧ bad.e.buf = [3] ∧ bad.s.closed = false := by decide

/-- non-vacuity: a 5-byte record, half of it already buffered inside OpenSSL, chunk size 2 -/
example : let e : Rd.Env := { buf := [2, 3], kern := [[4, 5, 6]] }
    let r := readAvail { ioReadChunk := 2 } ({ tls := .open } : St) (e.answers true 2)
    r.1.1.delivered = [2, 3, 4, 5, 6] ∧ deliveries r.1.2 = [[2, 3], [4, 5], [6]] ∧ r.2 = [] := by decide

/-- **T4 needs the drain loop in level-triggered mode.** If `readAvail` took ONE read per readiness notification in
level-triggered mode (`readDrainsLT = false`: the loop conditioned on `useEdgeTriggered`), then on a TLS session with
`ioReadChunk` = 2 and one 3-byte record: the single `SSL_read` pulls the whole record out of the kernel, returns 2 bytes, the
third stays inside OpenSSL, the kernel buffer is empty — epoll stays silent — and the byte is never delivered while the session
stays open. The regenerated fact `readAvailDrainsLevelTriggered = true` (`T4_default_drains`, `gen_conforms`) is load-bearing. -/
theorem T4_one_read_per_wakeup_strands_tls_tail :
    ∃ (cfg : Cfg) (e : Rd.Env), cfg.edge = false ∧ cfg.readDrainsLT = false ∧
      let r := readAvail cfg ({ tls := .open } : St) (e.answers true cfg.ioReadChunk)
      e.content = [1, 2, 3] ∧ r.1.1.closed = false ∧ r.1.1.delivered = [1, 2] ∧ r.2 = [.data [3], .wantR] ∧
      (e.afterOneSslRead cfg.ioReadChunk).epollIn = false ∧ (e.afterOneSslRead cfg.ioReadChunk).buf = [3] :=
  ⟨{ edge := false, readDrainsLT := false, ioReadChunk := 2 }, { kern := [[1, 2, 3]] }, rfl, rfl, by decide⟩

/-- **T5 (per-thread FIFO under one mutex).** `enqueue` = lock `_cmdMutex`, read the end position, store + publish,
unlock; `process` swaps the queue under the same mutex. For every number of sender threads and EVERY schedule of these
micro-steps (a step that is not enabled is a stutter), the commands of each thread `t` in dispatched-then-queued order
are exactly the sequence numbers `0, 1, …, k-1` in order, where `k` is the number of `enqueue` calls of `t` that have
stored their command (`next` completed calls, plus one if `t` stands between its store and its unlock): nothing lost,
duplicated or reordered within a thread; and every queued or dispatched command belongs to one of the `n` threads. So the
accepted order is exactly an interleaving of the per-thread send orders. The lock flag is the one the
translator extracts from `enqueue()`. -/
theorem T5_per_thread_fifo (n : Nat) (sched : List Enq.Actor) (t : Enq.Tid) (ht : t < n) :
    let q := Enq.run Gen.TcpSession.enqueuePushUnderCmdMutex Gen.TcpSession.processSwapUnderCmdMutex Gen.TcpSession.processDispatchesWholeBatch (Enq.init n) sched
    (∃ th, q.thr[t]? = some th ∧
      Enq.seqOf t (q.taken ++ q.cmds) = List.range (th.next + (if th.pc = .stored then 1 else 0))) ∧
    (∀ c ∈ q.taken ++ q.cmds, c.1 < n) := by
  show (∃ th, (Enq.run true true true (Enq.init n) sched).thr[t]? = some th ∧
      Enq.seqOf t ((Enq.run true true true (Enq.init n) sched).taken ++ (Enq.run true true true (Enq.init n) sched).cmds) =
        List.range (th.next + (if th.pc = .stored then 1 else 0))) ∧
    (∀ c ∈ (Enq.run true true true (Enq.init n) sched).taken ++ (Enq.run true true true (Enq.init n) sched).cmds, c.1 < n)
  have hinv : Enq.EInv (Enq.run true true true (Enq.init n) sched) := Enq.run_inv sched (Enq.init n) (Enq.init_inv n)
  have hlen : (Enq.run true true true (Enq.init n) sched).thr.length = n := by
    rw [Enq.run_thr_length]; simp [Enq.init]
  have hlt : t < (Enq.run true true true (Enq.init n) sched).thr.length := by rw [hlen]; exact ht
  refine ⟨⟨_, List.getElem?_eq_getElem hlt, hinv.fifo t _ (List.getElem?_eq_getElem hlt)⟩, ?_⟩
  intro c hc
  have := hinv.dom c hc
  rw [hlen] at this; exact this

/-- **One accepted send is one command.** Corollary of T5: after any schedule, the number of commands of thread `t` in the
dispatched-then-queued list is exactly the number `k` of `send` calls of `t` that have stored their command — one command per
accepted send, never several (a `send` that queued its payload in pieces would contribute more), none twice, and the sequence
numbers present are exactly `0 … k-1`. The source-side half is `gen_conforms`: `send` has no loop, copies all `n` bytes into ONE
`Command::send` and calls `enqueue` once. -/
theorem send_is_one_command (n : Nat) (sched : List Enq.Actor) (t : Enq.Tid) (ht : t < n) :
    let q := Enq.run Gen.TcpSession.enqueuePushUnderCmdMutex Gen.TcpSession.processSwapUnderCmdMutex Gen.TcpSession.processDispatchesWholeBatch (Enq.init n) sched
    ∃ th, q.thr[t]? = some th ∧
      ((q.taken ++ q.cmds).filter (·.1 == t)).length = th.next + (if th.pc = .stored then 1 else 0) ∧
      (Enq.seqOf t (q.taken ++ q.cmds)).Nodup ∧
      ∀ j, j ∈ Enq.seqOf t (q.taken ++ q.cmds) ↔ j < th.next + (if th.pc = .stored then 1 else 0) := by
  intro q
  obtain ⟨⟨th, hth, hseq⟩, _⟩ := T5_per_thread_fifo n sched t ht
  refine ⟨th, hth, ?_, ?_, ?_⟩
  · have := congrArg List.length hseq
    simpa [Enq.seqOf] using this
  · rw [hseq]; exact List.nodup_range
  · intro j; rw [hseq]; exact List.mem_range

/-- **The bytes of one accepted send are contiguous on the wire (T1 ∘ T5).** The session's `accepted` list is exactly the list of
(non-empty) payloads of the Send commands in dispatch order; hence for every history with every fault sequence, and for every
way of singling out one accepted payload `p` (`xs` before it, `ys` after it): while the session is open the wire followed by the
pending bytes is `xs.flatten ++ p ++ ys.flatten`, and always the wire is a prefix of it — the bytes of `p` form one block, the
bytes of every other accepted send lie wholly before or wholly after it. -/
theorem one_send_contiguous_on_wire (cfg : Cfg) (hcob : cfg.closeOnBackpressure = true) (s0 : St) (h0 : s0.Fresh)
    (is : List In) :
    let s := (run cfg s0 is).1
    s.accepted = sentPayloads is ∧
    ∀ xs p ys, sentPayloads is = xs ++ p :: ys →
      (s.closed = false → s.wire ++ s.wq.flatten = xs.flatten ++ p ++ ys.flatten) ∧
      s.wire <+: xs.flatten ++ p ++ ys.flatten := by
  intro s
  have hacc : s.accepted = sentPayloads is := by
    show (run cfg s0 is).1.accepted = _
    rw [run_accepted]; simp [St.accepted, h0.2.2.1]
  refine ⟨hacc, fun xs p ys hsplit => ?_⟩
  have ht1 := T1_exactly_once_in_order cfg hcob s0 h0 is
  have hflat : s.accepted.flatten = xs.flatten ++ p ++ ys.flatten := by
    rw [hacc, hsplit]; simp [List.flatten_append, List.append_assoc]
  simp only at ht1
  rw [hflat] at ht1
  exact ht1

/-- **… for every schedule of any number of senders.** Let `n` sender threads run any schedule of `enqueue` micro-steps; let the
`j`-th `send` of thread `t` carry `pay t j`. If the session's Send commands are the dispatched commands in dispatch order (with
arbitrary events, answers and faults in between), then for every dispatched command `c`, with `a` dispatched before it and `b`
after it: open ⇒ wire ++ pending = (bytes of `a`) ++ `pay c` ++ (bytes of `b`), and always the wire is a prefix of that; and the
commands of each thread among the dispatched ones are its sends `0, 1, …` in order, each once (T5). -/
theorem T5_T1_one_send_contiguous (cfg : Cfg) (hcob : cfg.closeOnBackpressure = true) (s0 : St) (h0 : s0.Fresh)
    (n : Nat) (sched : List Enq.Actor) (pay : Enq.Tid → Nat → Bytes) (is : List In) :
    let q := Enq.run Gen.TcpSession.enqueuePushUnderCmdMutex Gen.TcpSession.processSwapUnderCmdMutex Gen.TcpSession.processDispatchesWholeBatch (Enq.init n) sched
    let bytesOf : List Enq.Cmd → Bytes := fun l => (l.map fun c => pay c.1 c.2).flatten
    sentPayloads is = q.taken.map (fun c => pay c.1 c.2) →
    let s := (run cfg s0 is).1
    ∀ a c b, q.taken = a ++ c :: b →
      (s.closed = false → s.wire ++ s.wq.flatten = bytesOf a ++ pay c.1 c.2 ++ bytesOf b) ∧
      s.wire <+: bytesOf a ++ pay c.1 c.2 ++ bytesOf b := by
  intro q bytesOf hsent s a c b hsplit
  have h := (one_send_contiguous_on_wire cfg hcob s0 h0 is).2
    (a.map fun c => pay c.1 c.2) (pay c.1 c.2) (b.map fun c => pay c.1 c.2)
    (by rw [hsent, hsplit]; simp)
  exact h

/-- example: two senders; thread 0's one send `[1,2,3]` is cut after one byte and refused once, thread 1's `[9]` was dispatched
after it — the wire shows `[1,2,3]` as one block followed by `[9]`, whatever happened in between -/
example :
    let q := Enq.run true true true (Enq.init 2) [.sender 0, .sender 0, .sender 1, .sender 0, .sender 0, .sender 1, .sender 1, .sender 1,
      .sender 1, .io]
    let pay : Enq.Tid → Nat → Bytes := fun t _ => if t = 0 then [1, 2, 3] else [9]
    let is : List In := [.cmdSend [1, 2, 3] (.wrote 1), .cmdSend [9] .again,
      .event { out := true } true .established .done [] [.again],
      .event { out := true } true .established .done [] [.wrote 2, .wrote 1]]
    q.taken = [(0, 0), (1, 0)] ∧ sentPayloads is = q.taken.map (fun c => pay c.1 c.2) ∧
    (run {} (initAccepted false) is).1.wire = [1, 2, 3, 9] ∧ (run {} (initAccepted false) is).1.wq = [] := by decide

/-- `process()` takes the queue under the same mutex (regenerated fact) -/
theorem T5_swap_locked : Gen.TcpSession.processSwapUnderCmdMutex = true := by decide

/-- **T5 needs the swap under the mutex.** If `process()` swapped the queue without `_cmdMutex` (`swapLocked = false`: read the
contents, then clear, as two steps at any time), one sender suffices: its `enqueue` runs between the two halves of the swap, returns,
and its command is neither queued nor dispatched — the translator fact `processSwapUnderCmdMutex` is load-bearing (it is the
second argument of `Enq.run` in T5). -/
theorem T5_needs_locked_swap :
    ∃ sched, let q := Enq.run true false true (Enq.init 1) sched
      (q.thr.map (·.next)) = [1] ∧ (q.thr.map (·.pc)) = [.idle] ∧ q.taken ++ q.cmds = [] ∧ q.ioTmp = none :=
  ⟨[.io, .sender 0, .sender 0, .sender 0, .sender 0, .io], by decide⟩

/-- **T5 needs "one `process()` dispatches the whole swapped batch".** If `process()` worked under a per-wake-up budget and handed the
unprocessed tail back to `_cmds` with `push_back` (`wholeBatch = false`, budget 1 here), ONE sender suffices to break per-thread FIFO:
it enqueues commands 0 and 1, the I/O thread swaps both out, the sender enqueues command 2 while command 0 is dispatched, the tail
`[1]` is re-queued BEHIND it — dispatch order 0, 2, 1 with the session open and no error. The translator fact
`processDispatchesWholeBatch` (dispatch loop without early exit, `_cmds` touched only by the locked swap, no eventfd write in
`process()`) is the third argument of `Enq.run` in T5 and load-bearing. -/
theorem T5_needs_whole_batch_dispatch :
    ∃ sched, let q := Enq.run true true false (Enq.init 1) sched
      q.taken = [(0, 0), (0, 2), (0, 1)] ∧ q.cmds = [] ∧ (q.thr.map (·.next)) = [3] ∧ (q.thr.map (·.pc)) = [.idle] ∧
      Enq.seqOf 0 (q.taken ++ q.cmds) ≠ List.range 3 :=
  ⟨[.sender 0, .sender 0, .sender 0, .sender 0, .sender 0, .sender 0, .sender 0, .sender 0, .io,
    .sender 0, .sender 0, .sender 0, .sender 0, .io, .io, .io, .io, .io], by decide⟩

/-- the code as it is dispatches the whole batch (regenerated from the dispatch loop of `process()`) -/
theorem T5_default_whole_batch : Gen.TcpSession.processDispatchesWholeBatch = true ∧
    Gen.TcpSession.cmdsMutations = ["push_back", "push_back", "swap-arg", "swap-arg"] ∧ Gen.TcpSession.eventFdWrites = 2 := by decide

/-! ## The eventfd wake-up: an accepted command is dispatched -/

/-- **No lost wake-up.** `enqueue` = lock, `push_back`, eventfd write, unlock; the loop's eventfd handler = `drainEvt(); process();`
(both orders regenerated from the source: `enqueueWakeAfterPushUnderLock`, `loopDrainBeforeProcess`). For EVERY schedule of the
micro-steps of any number of senders and the I/O thread: a non-empty command queue is always announced — the eventfd counter is
non-zero (level-triggered `epoll_wait` returns), or the I/O thread stands between `drainEvt()` and `process()` (it swaps next), or
the sender that pushed still holds the lock right before its eventfd write; every pushed command is queued or taken; hence
whenever the I/O thread is asleep (in `epoll_wait`, counter 0, no `enqueue` in flight) the queue is EMPTY and every accepted
command has been handed to the dispatch loop. -/
theorem no_lost_wakeup (sched : List Wake.Actor) :
    let w := Wake.run Gen.TcpSession.enqueueWakeAfterPushUnderLock Gen.TcpSession.loopDrainBeforeProcess Gen.TcpSession.processDispatchesWholeBatch {} sched
    (w.cmds > 0 → w.evt > 0 ∨ w.io = .mid ∨ w.crit = .pushed) ∧ w.accepted = w.taken + w.cmds ∧
    (w.Asleep → w.cmds = 0 ∧ w.taken = w.accepted) := by
  have key : ∀ w : Wake.W, Wake.WInv w →
      (w.cmds > 0 → w.evt > 0 ∨ w.io = .mid ∨ w.crit = .pushed) ∧ w.accepted = w.taken + w.cmds ∧
      (w.Asleep → w.cmds = 0 ∧ w.taken = w.accepted) := by
    intro w h
    refine ⟨h.announced, h.conserved, fun ha => ?_⟩
    obtain ⟨hio, hev, hcr, _⟩ := ha
    have hc0 : w.cmds = 0 := by
      by_cases h0 : w.cmds > 0
      · rcases h.announced h0 with h1 | h1 | h1
        · omega
        · rw [hio] at h1; cases h1
        · rw [hcr] at h1; cases h1
      · omega
    exact ⟨hc0, by have := h.conserved; omega⟩
  exact key _ (Wake.run_inv sched {} Wake.init_inv)

/-- **… and the I/O thread needs at most three of its own steps** (wake, `drainEvt`, `process`) to take everything that is queued,
from every reachable state in which no sender holds the lock. -/
theorem wakeup_dispatches_all (sched : List Wake.Actor) :
    let w := Wake.run Gen.TcpSession.enqueueWakeAfterPushUnderLock Gen.TcpSession.loopDrainBeforeProcess Gen.TcpSession.processDispatchesWholeBatch {} sched
    w.crit = .free →
      (Wake.run true true true w [.io, .io, .io]).cmds = 0 ∧ (Wake.run true true true w [.io, .io, .io]).taken = w.accepted := by
  intro w hf
  exact Wake.io_alone w (Wake.run_inv sched {} Wake.init_inv) hf

/-- `wakeup_dispatches_all` needs the whole-batch dispatch: with a budget of one command per `process()` call two queued commands
are not both taken by the I/O thread's next three steps (the second needs another wake-up, which the re-signalled eventfd provides) -/
theorem wakeup_three_steps_need_whole_batch :
    let w := Wake.run true true false {} [.sender, .sender, .sender, .sender, .sender, .sender, .sender, .sender]
    w.crit = .free ∧ w.accepted = 2 ∧ (Wake.run true true false w [.io, .io, .io]).cmds = 1 ∧
    (Wake.run true true false w [.io, .io, .io]).evt = 1 := by decide

/-- non-vacuity: two senders' enqueues around a wake-up; everything is dispatched, the I/O thread sleeps with an empty queue -/
example : let w := Wake.run true true true {} [.sender, .sender, .sender, .io, .io, .sender, .sender, .sender, .sender, .sender, .io, .io, .io, .io]
    w.accepted = 2 ∧ w.taken = 2 ∧ w.cmds = 0 ∧ w.evt = 0 ∧ w.io = .waiting ∧ w.crit = .free := by decide

/-- **Commands accepted before the loop thread runs are not lost.** `start()` publishes the fresh eventfd and reopens the queue in ONE
`_cmdMutex` section, registers the descriptor level-triggered (`EPOLLIN`, no `EPOLLET`) and only then creates the loop thread (facts
`startPublishesEventFdWithQueueReopenUnderCmdMutex`, `startRegistersEventFdBeforeLoopThread`, `eventFdEpollMask` in `gen_conforms`).
So `enqueue` never accepts a command without a valid descriptor to write to, and a write that precedes the registration — or the
first `epoll_wait` — stays in the counter, which is exactly the model's `evt` (a level, not an edge): any number `k` of complete
`enqueue` calls before the I/O thread's first step leave `evt = k`, and the I/O thread's first three steps dispatch all of them. -/
theorem wakeup_commands_before_loop_start (k : Nat) :
    let w := Wake.run Gen.TcpSession.enqueueWakeAfterPushUnderLock Gen.TcpSession.loopDrainBeforeProcess Gen.TcpSession.processDispatchesWholeBatch {}
      ((List.replicate k [Wake.Actor.sender, .sender, .sender, .sender]).flatten)
    w.io = .waiting ∧ w.crit = .free ∧ w.cmds = k ∧ w.evt = k ∧ w.accepted = k ∧
    (Wake.run true true true w [.io, .io, .io]).cmds = 0 ∧ (Wake.run true true true w [.io, .io, .io]).taken = k := by
  have key : ∀ (k : Nat) (w0 : Wake.W), w0.crit = .free →
      let w := Wake.run true true true w0 ((List.replicate k [Wake.Actor.sender, .sender, .sender, .sender]).flatten)
      w.io = w0.io ∧ w.crit = .free ∧ w.cmds = w0.cmds + k ∧ w.evt = w0.evt + k ∧ w.accepted = w0.accepted + k := by
    intro k
    induction k with
    | zero => intro w0 h; simp [Wake.run, h]
    | succ n ih =>
      intro w0 h
      simp only [List.replicate_succ, List.flatten_cons, List.cons_append, List.nil_append, Wake.run]
      have h1 := ih (Wake.step true true true (Wake.step true true true (Wake.step true true true (Wake.step true true true w0 .sender) .sender) .sender) .sender)
        (by simp [Wake.step, h])
      simp only at h1
      refine ⟨by rw [h1.1]; simp [Wake.step, h], h1.2.1, ?_, ?_, ?_⟩
      · rw [h1.2.2.1]; simp [Wake.step, h]; omega
      · rw [h1.2.2.2.1]; simp [Wake.step, h]; omega
      · rw [h1.2.2.2.2]; simp [Wake.step, h]; omega
  intro w
  have hk := key k {} rfl
  simp only at hk
  have hw : w = Wake.run true true true {} ((List.replicate k [Wake.Actor.sender, .sender, .sender, .sender]).flatten) := rfl
  have hd := wakeup_dispatches_all ((List.replicate k [Wake.Actor.sender, .sender, .sender, .sender]).flatten)
  simp only at hd
  rw [← hw] at hk
  refine ⟨hk.1, hk.2.1, by simpa using hk.2.2.1, by simpa using hk.2.2.2.1, by simpa using hk.2.2.2.2, ?_⟩
  have := hd hk.2.1
  exact ⟨this.1, by rw [this.2]; simpa using hk.2.2.2.2⟩

/-- **The order `drainEvt(); process();` is needed.** With `process(); drainEvt();` a command enqueued between the swap and the
drain is wiped from the eventfd counter: the I/O thread sleeps, the command sits in the queue, nobody is in `enqueue`. -/
theorem wakeup_needs_drain_before_process :
    ∃ sched, let w := Wake.run true false true {} sched
      w.io = .waiting ∧ w.evt = 0 ∧ w.crit = .free ∧ w.pre = 0 ∧ w.cmds = 1 ∧ w.accepted = 2 ∧ w.taken = 1 :=
  ⟨[.sender, .sender, .sender, .sender, .io, .io, .sender, .sender, .sender, .sender, .io], by decide⟩

/-- **The eventfd write must follow the push (inside the lock).** With the write before the lock, the I/O thread can wake, drain and
swap an empty queue before the push happens: asleep with one command queued. -/
theorem wakeup_needs_write_after_push :
    ∃ sched, let w := Wake.run false true true {} sched
      w.io = .waiting ∧ w.evt = 0 ∧ w.crit = .free ∧ w.pre = 0 ∧ w.cmds = 1 ∧ w.accepted = 1 ∧ w.taken = 0 :=
  ⟨[.early, .io, .io, .io, .sender, .sender, .sender], by decide⟩

/-- non-vacuity of T5: two threads interleaved step by step, the I/O thread swapping in between -/
def demoSched : List Enq.Actor :=
  [.sender 0, .sender 1, .sender 0, .sender 0, .sender 0, .io, .sender 1, .sender 1, .sender 1, .sender 1, .sender 0,
   .sender 0, .sender 0, .sender 0]
example : (Enq.run true true true (Enq.init 2) demoSched).taken = [(0, 0)] ∧
    (Enq.run true true true (Enq.init 2) demoSched).cmds = [(1, 0), (0, 1)] := by decide

/-- **T5 needs the mutex.** With `locking = false` there is a two-thread schedule in which both `enqueue` calls return
but only one command is in the queue — the translator fact `enqueuePushUnderCmdMutex` is load-bearing. -/
theorem T5_needs_mutex :
    ∃ sched, let q := Enq.run false true true (Enq.init 2) sched
      (q.thr.map (·.next)) = [1, 1] ∧ (q.thr.map (·.pc)) = [.idle, .idle] ∧ Enq.seqOf 0 (q.taken ++ q.cmds) = [] :=
  ⟨[.sender 0, .sender 1, .sender 0, .sender 1, .sender 0, .sender 1, .sender 0, .sender 1], by decide⟩

/-- **T6 (bytes are dropped only together with a reported close).** Close-on-backpressure policy, any state satisfying
the invariant, any input: after the step either every accepted byte is still accounted for (`wire ++ pending =
accepted`, session open) or the session is closed; it never becomes closed silently — if it was open before and is
closed after, the step's outputs contain the close (epoll DEL + close callback); and a closed session emits nothing,
stays closed and its wire is frozen. -/
theorem T6_drop_only_with_close (cfg : Cfg) (hcob : cfg.closeOnBackpressure = true) (s : St) (i : In) (h : Good cfg s) :
    let r := step cfg s i
    (r.1.closed = false → r.1.wire ++ r.1.wq.flatten = r.1.accepted.flatten) ∧
    (s.closed = false → r.1.closed = true → ∃ w, Out.close w ∈ r.2) ∧
    (s.closed = true → r.2 = [] ∧ r.1.closed = true ∧ r.1.wire = s.wire) := by
  refine ⟨(step_good cfg hcob s i h).1.1, ?_, ?_⟩
  · intro hc hc'
    rcases step_loud cfg s i with hl | hl
    · rw [hl, hc] at hc'; cases hc'
    · exact hl
  · intro hc
    have := step_closed cfg s i hc
    exact ⟨this.1, this.2.1, by simp only [St.wire]; rw [this.2.2]⟩

/-- non-vacuity of T6: with `maxWriteQueue = 1` the second queued payload closes the session and the close is emitted -/
example : let cfg : Cfg := { maxWriteQueue := 1 }
    let s := (run cfg (initAccepted false) [.cmdSend [1, 2] .again]).1
    Good cfg s ∧ (step cfg s (.cmdSend [3] .again)).2 = [.close .backpressure] ∧ (step cfg s (.cmdSend [3] .again)).1.closed = true := by
  refine ⟨run_good _ rfl _ _ (fresh_good _ _ (by simp [initAccepted, St.Fresh])), by decide, by decide⟩

/-- **The Close arm of `process()`: stale timer closes are dropped, everything else closes.** A `Cmd::Close` whose origin is a
timer (connect timeout / handshake timeout / write stall) is ignored — no output, state untouched — exactly when the condition it
was armed for no longer holds (`!connectPending` / `tls ≠ handshake` / `wq` empty, the three conditions regenerated in
`processCloseGuards`); otherwise, and for every application close, it is `closeNow` (T6 covers both: `T6_drop_only_with_close`
quantifies over every input). -/
theorem close_arm_spec (cfg : Cfg) (s : St) (w : Why) (o : Origin) :
    (closeGuardSkips s o = true → step cfg s (.cmdClose w o) = (s, [])) ∧
    (closeGuardSkips s o = false → step cfg s (.cmdClose w o) = closeNow s w) ∧
    closeGuardSkips s .app = false ∧
    (closeGuardSkips s .connectTimeout = !s.connectPending) ∧
    (closeGuardSkips s .handshakeTimeout = (s.tls != .handshake)) ∧
    (closeGuardSkips s .writeStall = s.wq.isEmpty) := by
  refine ⟨fun h => by simp [step, h], fun h => by simp [step, h], rfl, rfl, rfl, rfl⟩

/-- examples: a write-stall close with bytes still queued closes the session (and says so); the same command after the queue has
drained is dropped; a handshake timeout on an open TLS session is dropped -/
example : (step {} ({ wq := [[1]] } : St) (.cmdClose .socket .writeStall)).2 = [.close .socket] ∧
    (step {} ({} : St) (.cmdClose .socket .writeStall)).2 = [] ∧
    (step {} ({} : St) (.cmdClose .socket .writeStall)).1.closed = false ∧
    (step {} ({ tls := .open } : St) (.cmdClose .tlsHandshake .handshakeTimeout)).2 = [] ∧
    (step {} ({ tls := .handshake } : St) (.cmdClose .tlsHandshake .handshakeTimeout)).2 = [.close .tlsHandshake] := by decide

/-- **`shutdownDrain`.** The loop exit closes the session and then takes the residual command queue without dispatching it: the
payloads of Send commands `enqueue` had accepted are dropped — together with the close (the output carries it, if the session was
still open), and the wire is still a prefix of everything accepted, the residual payloads included. -/
theorem T6_shutdown (cfg : Cfg) (hcob : cfg.closeOnBackpressure = true) (s : St) (residual : List Bytes) (h : Good cfg s) :
    let r := step cfg s (.shutdown residual)
    r.1.closed = true ∧ (s.closed = false → r.2 = [.close .shutdown]) ∧
    r.1.accepted = s.accepted ++ residual.filter (!·.isEmpty) ∧ r.1.wire <+: r.1.accepted.flatten := by
  intro r
  refine ⟨by show (closeNow s .shutdown).1.closed = true; simp, fun hc => cn_outs_open s .shutdown hc, ?_,
    (step_good cfg hcob s (.shutdown residual) h).1.2⟩
  show (((residual.filter (!·.isEmpty)).reverse ++ (closeNow s .shutdown).1.acceptedRev).reverse) = _
  simp [St.accepted, List.reverse_append]

/-! ## The same-buffer retry obligation of `SSL_write` (OpenSSL's moving-buffer rule) -/

/-- **Retry with the same buffer.** Close-on-backpressure policy. From every open session whose queue front is `b` — in particular
right after a write of `b` was refused (`retry_block_leaves_front`) — and for every further history: the NEXT `::send` /
`SSL_write` the engine issues, whenever it comes, passes exactly `b` (same bytes, same length); or no write is ever issued again
(the session was closed, which is reported). -/
theorem retry_same_buffer (cfg : Cfg) (hcob : cfg.closeOnBackpressure = true) (s : St) (b : Bytes)
    (hc : s.closed = false) (hq : s.wq.head? = some b) (is : List In) :
    firstWrite (run cfg s is).2 = none ∨ firstWrite (run cfg s is).2 = some b :=
  run_front cfg hcob b is s hc hq

/-- **A refused write leaves its buffer at the front.** (1) `doSend` on an empty queue whose direct write is refused (EAGAIN /
WANT_READ / WANT_WRITE) issued exactly that write first and leaves the session closed (queue limit 0) or with queue `[p]`; (2) a
drain loop that stops on a refusal leaves the refused buffer — the argument of its LAST write — at the front. -/
theorem retry_block_leaves_front (cfg : Cfg) (hcob : cfg.closeOnBackpressure = true) :
    (∀ (s : St) (p : Bytes) (a : WAns) (tw : Bool), s.closed = false → s.tls ≠ .handshake → s.wq = [] →
      classifyW (s.tls == .open) a = .block tw →
      (doSend cfg s p a).2.head? = some (.write (s.tls == .open) p) ∧
      ((doSend cfg s p a).1.closed = true ∨ (doSend cfg s p a).1.wq = [p])) ∧
    (∀ (ssl : Bool) (q : List Bytes) (as : List WAns) (tw : Bool), (writeLoop ssl q as).stop = .blocked tw →
      ∃ d rest, (writeLoop ssl q as).wq = d :: rest ∧ (writeLoop ssl q as).outs.getLast? = some (.write ssl d)) :=
  ⟨fun s p a tw hc hh hq hb => doSend_block_front cfg hcob s p a tw hc hh hq hb, writeLoop_block_front⟩

/-- example: `SSL_write([1,2,3])` answers WANT_WRITE, two more payloads are queued, an event is refused again, then accepted: every
write up to the first success passes `[1,2,3]` -/
example : let s0 : St := { tls := .open }
    let r1 := step {} s0 (.cmdSend [1, 2, 3] .wantW)
    r1.1.wq.head? = some [1, 2, 3] ∧
    firstWrite (run {} r1.1 [.cmdSend [4] .again, .event { inn := true } true .established .done [.wantR] [],
      .event { out := true } true .established .done [] [.wantR]]).2 = some [1, 2, 3] := by decide

/-- **Scope: the drop-oldest policy breaks the rule.** With `closeOnBackpressure = false` the refused buffer can be popped from
the front while OpenSSL still expects it: the next `SSL_write` passes a different buffer. -/
theorem retry_moves_under_drop_oldest :
    ∃ (cfg : Cfg) (s : St) (is : List In), cfg.closeOnBackpressure = false ∧ s.closed = false ∧ s.wq.head? = some [1, 2] ∧
      firstWrite (run cfg s is).2 = some [3] :=
  ⟨{ maxWriteQueue := 1, closeOnBackpressure := false },
   (step { maxWriteQueue := 1, closeOnBackpressure := false } ({ tls := .open } : St) (.cmdSend [1, 2] .wantW)).1,
   [.cmdSend [3] .again, .event { out := true } true .established .done [] [.wrote 1]], rfl, by decide⟩

/-! ## `EventBatchProcessor::processBatch` -/

/-- **Batch order.** The batched loop handles one `epoll_wait` batch in the order `batchOrder special` (special fds — eventfd,
timerfd — first, then the others; the function the acceptor driver uses): it is a permutation of the batch (no event lost or
duplicated), and the events of any class lying wholly on one side — in particular all events of ONE session fd — keep their
relative order. -/
theorem batch_order_is_order_preserving_permutation {α : Type} (special : α → Bool) (evs : List α) :
    (batchOrder special evs).Perm evs ∧
    ∀ p : α → Bool, ((∀ e, p e = true → special e = true) ∨ (∀ e, p e = true → special e = false)) →
      (batchOrder special evs).filter p = evs.filter p :=
  ⟨batchOrder_perm special evs, fun p h => batchOrder_filter special p evs h⟩

example : batchOrder (fun (e : String × Nat) => e.1 = "v" || e.1 = "t") [("s", 1), ("v", 1), ("s", 3), ("t", 1)] =
    [("v", 1), ("t", 1), ("s", 1), ("s", 3)] := by decide

/-- **Scope of T1/T6: the policy matters.** With `closeOnBackpressure = false` ("drop oldest") the engine pops the FRONT
of the queue, which may be the unsent tail of a half-written payload: the wire is then no longer a prefix of the accepted
stream (here: byte 1 of payload `[1,2]` is on the wire, byte 2 is dropped, payload `[3]` follows). The statement of C01
restricts itself to the default close-on-backpressure policy for this reason. -/
theorem T6_drop_oldest_breaks_stream :
    ∃ (cfg : Cfg) (is : List In), cfg.closeOnBackpressure = false ∧
      let s := (run cfg (initAccepted false) is).1
      s.closed = false ∧ s.wire = [1, 3] ∧ s.accepted.flatten = [1, 2, 3] ∧ ¬ s.wire <+: s.accepted.flatten :=
  ⟨{ maxWriteQueue := 1, closeOnBackpressure := false },
   [.cmdSend [1, 2] (.wrote 1), .cmdSend [3] .again, .event { out := true } true .established .done [] [.wrote 1]],
   rfl, by decide⟩

/-- **Source shapes the model mirrors** (regenerated from `tcp_engine.hpp` on every run; a changed offset, queue end,
comparison or lock scope makes this obligation fail to build): `send` copies all `n` bytes into one command and does not
enqueue `n == 0`; both `enqueue` overloads `push_back` under `_cmdMutex`, `process` swaps under it; in `doSend` the
TLS-handshake guard comes before every write call and contains none, the unsent tail is `[begin + n, end)` pushed at the
FRONT, whole payloads are pushed at the BACK, short-write tests are `n < size`, backpressure is `wq.size() > maxWriteQueue`;
`writePending` writes the FRONT buffer, erases exactly `[begin, begin + n)` on a short write and pops the front on a full one;
`updateInterest` computes `EPOLLIN | (ET) | (needWrite ? EPOLLOUT)` with `needWrite = wantWrite || !wq.empty() || (Handshake ?
tlsWantWrite : connectPending)` and ends in ONE unconditional `modEpoll` = `epoll_ctl(EPOLL_CTL_MOD)`, called from exactly the
sites the model has; `tlsMode` and `tlsState` are only ever set together (None/None by default, mode + Handshake in
`onListener`/`doConnect`, Open in `driveHandshake`), which is what lets the model merge them into one field; `sendAsync`
and the `Transport` wrappers — `send`, `sendAsync`, `sendSync`, `sendSyncCancellable` — only delegate to ONE `send` (no loop);
`send` calls nothing but the copy, `Command::send` and one `enqueue` and has two `return`s; the eventfd write follows `push_back`
inside the lock scope and `drainEvt()` precedes `process()` in both loops (eventfd registered level-triggered); `readAvail`'s loop is
the unconditional `for (;;)` with 3 `break` / 5 `return` exits; the Close arm of `process()` has exactly the three stale-timeout
guards the model has; `processBatch` handles special fds inline and the others in a second pass over `normalEvents`;
`shutdownDrain` is `process()`, then for every not yet closed session mark-closed / epoll DEL / close(fd) / close callback (what
`In.shutdown` emits as `.close .shutdown`), then — under `_cmdMutex` — the queue is closed and the residual swapped out, and
nothing of it is dispatched. -/
theorem gen_conforms :
    Gen.TcpSession.enqueuePushUnderCmdMutex = true ∧ Gen.TcpSession.processSwapUnderCmdMutex = true ∧
    Gen.TcpSession.enqueueQueueOps = ["push_back", "push_back"] ∧
    Gen.TcpSession.sendEmptyReturns = "true" ∧ Gen.TcpSession.sendCopyLength = ["n", "n"] ∧ Gen.TcpSession.sendEnqueueCalls = 1 ∧
    Gen.TcpSession.sendLoopCount = 0 ∧
    Gen.TcpSession.doSendTailOffsets = ["n", "n"] ∧ Gen.TcpSession.doSendTailEnds = ["end", "end"] ∧
    Gen.TcpSession.doSendTailPush = ["emplace_front", "emplace_front"] ∧
    Gen.TcpSession.doSendWholePush = ["emplace_back", "emplace_back"] ∧
    Gen.TcpSession.doSendShortTests = ["<", "<"] ∧ Gen.TcpSession.doSendBackpressureTest = ">" ∧
    Gen.TcpSession.doSendHandshakeBranchWrites = 0 ∧ Gen.TcpSession.doSendHandshakeGuardFirst = true ∧
    Gen.TcpSession.writePendingBuffer = ["front"] ∧ Gen.TcpSession.writePendingEraseFrom = [""] ∧
    Gen.TcpSession.writePendingEraseTo = ["n"] ∧ Gen.TcpSession.writePendingPop = ["pop_front"] ∧
    Gen.TcpSession.writePendingShortTests = ["<"] ∧
    Gen.TcpSession.updateInterestSkipsUnchangedMask = false ∧ Gen.TcpSession.modEpollOp = "EPOLL_CTL_MOD" ∧
    Gen.TcpSession.updateInterestBaseMask = "EPOLLIN" ∧
    Gen.TcpSession.updateInterestEdge = ["_config.useEdgeTriggered", "EPOLLET"] ∧
    Gen.TcpSession.updateInterestNeedWrite = "s->wantWrite || !s->wq.empty()" ∧
    Gen.TcpSession.updateInterestStateSplit = ["s->tlsState == TlsState::Handshake", "s->tlsWantWrite", "s->connectPending"] ∧
    Gen.TcpSession.updateInterestOut = ["needWrite", "EPOLLOUT"] ∧
    Gen.TcpSession.updateInterestCallSites =
      [("doSend", 4), ("writePending", 4), ("readAvail", 1), ("driveHandshake", 2), ("onSession", 1)] ∧
    Gen.TcpSession.tlsAssignments = ["onListener:tlsMode=Server", "onListener:tlsState=Handshake",
      "doConnect:tlsMode=Client", "doConnect:tlsState=Handshake", "driveHandshake:tlsState=Open"] ∧
    Gen.TcpSession.tlsDefaults = ["None", "None"] ∧
    Gen.TcpSession.sendAsyncSendCalls = 1 ∧ Gen.TcpSession.transportSendDelegates = ["send", "sendAsync"] ∧
    Gen.TcpSession.enqueueWakeAfterPushUnderLock = true ∧ Gen.TcpSession.loopDrainBeforeProcess = true ∧
    Gen.TcpSession.processCallStatements = 3 ∧ Gen.TcpSession.eventFdEpollMask = "EPOLLIN" ∧
    Gen.TcpSession.sendCallees = ["Command::send", "IORA_LOG_DEBUG", "b", "b.data", "enqueue", "std::memcpy", "std::move"] ∧
    Gen.TcpSession.sendReturnCount = 2 ∧
    Gen.TcpSession.readAvailDrainsLevelTriggered = true ∧ Gen.TcpSession.readAvailBreaks = 3 ∧ Gen.TcpSession.readAvailReturns = 5 ∧
    Gen.TcpSession.processCloseGuards = ["ConnectTimeout:!s->connectPending",
      "HandshakeTimeout:s->tlsState != TlsState::Handshake", "WriteStall:s->wq.empty()"] ∧
    Gen.TcpSession.transportSendSyncDelegates = ["send"] ∧ Gen.TcpSession.transportSendSyncLoops = 0 ∧
    Gen.TcpSession.transportSendSyncCancellableDelegates = ["sendSync"] ∧ Gen.TcpSession.transportSendSyncCancellableLoops = 0 ∧
    Gen.TcpSession.batchProcessorShape = ["special-inline-first-pass", "normalEvents.emplace_back", "second-pass-over:normalEvents"] ∧
    Gen.TcpSession.shutdownDrainSteps = ["process", "skip-closed", "mark-closed", "epoll-del", "close-fd", "close-callback",
      "queue-closed", "residual-swap"] ∧
    Gen.TcpSession.shutdownResidualUnderCmdMutex = true ∧ Gen.TcpSession.shutdownDrainDispatchCalls = 0 := by
  decide

/-- **Source shapes of `start()` the wake-up model relies on** (regenerated): the fresh eventfd is published in `_eventFd` and the
queue reopened (`_cmdsClosed = false`) in ONE `_cmdMutex` section — `enqueue` never accepts a command without a descriptor to wake
the loop with —, the descriptor is published before it is registered, registered exactly once, level-triggered (`EPOLLIN`), and
before the loop thread exists. -/
theorem gen_conforms_start :
    Gen.TcpSession.startPublishesEventFdWithQueueReopenUnderCmdMutex = true ∧
    Gen.TcpSession.startPublishesEventFdBeforeRegistration = true ∧
    Gen.TcpSession.startRegistersEventFdBeforeLoopThread = true ∧ Gen.TcpSession.eventFdRegistrations = 1 ∧
    Gen.TcpSession.eventFdEpollMask = "EPOLLIN" := by decide

/-! ## Observations (true of the code as it is; none contradicts the statement of C01) -/

/-- **Observation: busy polling in the handshake window.** While the TLS handshake waits for the peer (`WANT_READ`) and a
payload is already queued, every event re-registers EPOLLOUT (`needWrite` counts the queue), the socket is writable, so
epoll reports again at once and the state does not change: the I/O thread spins until the peer answers. No byte is lost
or reordered; it costs CPU (seen in the traces as runs of `G:0;H:r;E:M:7` wake-ups). -/
theorem obs_handshake_window_spins (cfg : Cfg) (s : St) (c : CAns) (rs : List RAns) (ws : List WAns)
    (hmod : cfg.modSkipsUnchanged = false) (hc : s.closed = false) (hs : s.tls = .handshake) (hq : s.wq ≠ []) :
    let r := step cfg s (.event { out := true } true c .wantR rs ws)
    r.1.interestOut = true ∧ r.1.wq = s.wq ∧ r.1.tls = .handshake ∧ r.1.closed = false ∧
    r.2 = [.soError, .handshake, .interest true cfg.edge] := by
  have hne : s.wq.isEmpty = false := by
    cases h : s.wq with
    | nil => exact absurd h hq
    | cons _ _ => rfl
  simp [step, onSession, driveHandshake, updateInterest, needWrite, hmod, hc, hs, hne]

/-- **Observation: the queue limit is not applied in the handshake window.** Payloads accepted while the handshake is in
progress are queued without the `maxWriteQueue` test (the handshake branch of `doSend` returns before it). -/
theorem obs_handshake_queue_unbounded (cfg : Cfg) (p : Bytes) (a : WAns) (hp : p ≠ []) : ∀ (n : Nat) (s : St),
    s.tls = .handshake → s.closed = false →
    (run cfg s (List.replicate n (.cmdSend p a))).1.wq.length = s.wq.length + n ∧
    (run cfg s (List.replicate n (.cmdSend p a))).1.closed = false
  | 0, s, _, hc => by simp [run, hc]
  | n + 1, s, hs, hc => by
    have h1 : (step cfg s (.cmdSend p a)).1.tls = .handshake ∧ (step cfg s (.cmdSend p a)).1.closed = false ∧
        (step cfg s (.cmdSend p a)).1.wq.length = s.wq.length + 1 := by
      have hpe : p.isEmpty = false := by cases p <;> simp_all
      simp [step, doSend, hs, hc, hpe]
    have ih := obs_handshake_queue_unbounded cfg p a hp n _ h1.1 h1.2.1
    simp only [List.replicate_succ, run]
    rw [ih.1, h1.2.2]
    exact ⟨by omega, ih.2⟩

/-- **Observation: a read that wants to write is not re-armed once the handshake is over.** `readAvail` records
`SSL_ERROR_WANT_WRITE` in `tlsWantWrite`, but `updateInterest` looks at that flag only in the handshake state: with an
empty queue EPOLLOUT is not registered, so the read resumes only with the next EPOLLIN (renegotiation / KeyUpdate with a
full send buffer; delivery is delayed, nothing is lost or reordered). -/
theorem obs_read_wantWrite_not_armed :
    let s : St := { tls := .open }
    let r := step {} s (.event { inn := true } true .established .done [.wantW] [])
    r.1.tlsWantWrite = true ∧ r.1.interestOut = false ∧ r.1.closed = false := by decide

end Iora.C01
