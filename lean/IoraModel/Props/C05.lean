import IoraModel.Lemmas.Teardown
import IoraModel.Lemmas.EngineQueue
import IoraModel.Model.TsyncFacts
/-!
# C05 — Stopping or destroying a transport never strands, crashes or races   (PARTIAL)

What is decided here is the LOGIC CORE of the teardown handshake, over `Model/Teardown.lean` (one step = one `syncMutex`
critical section of `transport_impl.hpp`) and `Model/EngineQueue.lean` (the command queue of `tcp_engine.hpp`), for ALL step
sequences that respect the environment contract `Disciplined` (no synchronous call BEGINS once the destructor's wait has
completed; `stop()` is not concurrent with destruction):

* T1 no stranded caller, T2 the counters gate destruction and touching `Impl` after its destruction is unreachable, T3 the entry
  fence, T4 enqueue-after-close is refused and every accepted listener promise is fulfilled exactly once, T5 callbacks are
  confined to I/O-thread steps (and the caller-thread flush) and none follows the return of `stop()`.

What a Lean model cannot exhibit and is therefore NOT claimed: use-after-free and data races of the real C++ object graph, and
wall-clock bounds ("within a bounded time" is proved as a bound on the thread's own steps).  Those parts are explored by the
DetSched/ASan/TSan runs of `props/c05.py` — supporting evidence and failing-input search, not the decision.
-/
namespace Iora.C05
open Iora Iora.Teardown

/-- The regenerated skeletons have the facts the models assume: the fence is written and notified under `syncMutex`; the guards
are paired inc/dec + notify of `teardownCv`; every park site checks the fence and constructs its guard(s) under the lock before
waiting; `performTeardown` is fence → `engine->stop()` → wait-out(false) / already stopped → wait-out(true); `enqueue` tests
`_cmdsClosed` under `_cmdMutex`; `shutdownDrain` closes the queue and takes the residual under one acquisition and fails its
promises; `process` fulfils a promise in both arms; `addListener` returns before waiting when refused; `stop()` joins. -/
theorem skeleton_conforms :
    TsyncFacts.fenceUnderLockAndNotifies = true ∧ TsyncFacts.guardsPaired = true ∧ TsyncFacts.parkSitesGuarded = true ∧
    TsyncFacts.teardownOrder = true ∧ TsyncFacts.enqueueChecksClosedUnderLock = true ∧
    TsyncFacts.drainClosesQueueUnderLock = true ∧ TsyncFacts.processFulfilsPromises = true ∧
    TsyncFacts.addListenerRejectsBeforeWaiting = true ∧ TsyncFacts.stopJoins = true := by decide

/-- reachable states: any number of application threads about to make a receive / connect / flush call, any set of open
sessions, any disciplined schedule -/
def Reach (s : State) : Prop :=
  ∃ threads live steps, (∀ t ∈ threads, t.pc = .notStarted) ∧ Disciplined (mk threads live) steps ∧ s = run (mk threads live) steps

theorem reach_inv {s : State} (h : Reach s) : Inv s := by
  obtain ⟨threads, live, steps, h0, hd, rfl⟩ := h
  exact run_inv steps _ (Inv_mk threads live h0) hd

/-- **T1 (finite path).** In every reachable state, every thread that is inside a synchronous call — parked in receiveSync or
connectSync, in connectSync's close window, or anywhere in the flush loop — reaches its return within THREE steps of its own,
whatever the other threads do or do not do (a timed wait can always take its timeout). "Bounded time" is this step bound. -/
theorem T1_finite_path (s : State) (hr : Reach s) (i : Nat) (t : Thread) (hi : s.threads[i]? = some t)
    (hin : inside t.pc = true) :
    ∃ steps : List Step, steps.length ≤ 3 ∧ ∃ t' r, (run s steps).threads[i]? = some t' ∧ t'.pc = .done r :=
  finite_path hi ((reach_inv hr).KP i t hi) hin

/-- **T1 (no lost wake-up).** In every reachable state: once the fence is set every parked connectSync has been notified; a
parked connectSync whose completion was delivered has been notified; a parked receiveSync whose session was closed has been
notified; after a `teardownWaitOut(true)` entry section every parked receiveSync has been notified; and the destructor is never
asleep on `teardownCv` with all three counters at zero. (On the NORMAL path receivers are deliberately not notified by the
fence: `engine->stop()`'s onClose wakes those whose session the engine closes, the others leave by their own timeout — T1_finite_path.) -/
theorem T1_no_lost_wakeup (s : State) (hr : Reach s) :
    (s.shuttingDown = true → ∀ (j : Nat) (t : Thread) (a : Bool), s.threads[j]? = some t → t.kind = .conn → t.pc = .parked a → a = true) ∧
    (∀ (j : Nat) (t : Thread) (a : Bool), s.threads[j]? = some t → t.kind = .conn → t.completed = true → t.pc = .parked a → a = true) ∧
    (∀ (j : Nat) (t : Thread) (sid : Nat) (a : Bool), s.threads[j]? = some t → t.kind = .recv sid → s.closed sid = true →
        t.pc = .parked a → a = true) ∧
    (s.recvNotified = true → ∀ (j : Nat) (t : Thread) (a : Bool), s.threads[j]? = some t → isRecv t = true → t.pc = .parked a → a = true) ∧
    (s.td = .waiting false ∨ s.td = .ioWaiting false → gate s = false) :=
  let I := reach_inv hr
  ⟨I.Wc, I.Wd, I.Wr, I.Wn, I.Wt⟩

/-- **T1 (teardown completes).** When no thread is inside a call any more the gate is open: the destructor's next predicate
check succeeds. -/
theorem T1_gate_opens (s : State) (hr : Reach s)
    (hn : ∀ (j : Nat) (t : Thread), s.threads[j]? = some t → inside t.pc = false) : gate s = true :=
  gate_of_no_inside (reach_inv hr) hn

/-- **T2 (counters gate destruction).** In every reachable state in which `teardownWaitOut` has returned (or `Impl` is gone) all
three counters are 0 and no application thread is inside a call; `Impl` is destroyed only then; and NO schedule touches `Impl`
after its destruction (`uaf` is unreachable). The counters count exactly the threads inside. -/
theorem T2_counters_gate_destruction (s : State) (hr : Reach s) :
    s.uaf = false ∧ (s.implAlive = false → waitCompleted s.td = true) ∧
    (waitCompleted s.td = true → gate s = true ∧ ∀ (j : Nat) (t : Thread), s.threads[j]? = some t → inside t.pc = false) ∧
    s.activeReceives = s.threads.countP countedRecv ∧ s.activeConnects = s.threads.countP countedConn ∧
    s.activeFlushes = s.threads.countP countedFlush := by
  have I := reach_inv hr
  exact ⟨I.UAF, I.IA, fun hw => ⟨gate_of_no_inside I (I.WC hw), I.WC hw⟩, I.CR, I.CC, I.CF⟩

/-- **T3 (entry fence).** A call that performs its entry section after the fence was set returns ShuttingDown (`false` for
setReadMode) in that very section: it does not park and no counter changes. -/
theorem T3_fence_rejects (s : State) (i : Nat) (t : Thread) (hi : s.threads[i]? = some t) (hp : t.pc = .notStarted)
    (hs : s.shuttingDown = true) :
    let s' := step s (.enter i)
    (∃ t' r, s'.threads[i]? = some t' ∧ t'.pc = .done r ∧ (r = .shuttingDown ∨ r = .flushed false)) ∧
    s'.activeReceives = s.activeReceives ∧ s'.activeConnects = s.activeConnects ∧ s'.activeFlushes = s.activeFlushes := by
  obtain ⟨k, pc, c⟩ := t
  simp only at hp; subst hp
  simp only [step, doEnter, hi, touch_sh, hs, if_true, touch_threads, setT]
  refine ⟨⟨_, _, get_set_self hi, rfl, ?_⟩, ?_, ?_, ?_⟩
  · cases k <;> simp
  all_goals (unfold touch; split <;> rfl)

/-- **T4 (enqueue after close).** Once `_cmdsClosed` is set `enqueue` returns false: nothing is queued (a promise-bearing command
is recorded as rejected; `addListener` then returns ShuttingDown without waiting — skeleton fact). -/
theorem T4_enqueue_after_close (s : EngineQueue.State) (c : EngineQueue.Cmd) (hc : s.closed = true) :
    (EngineQueue.step s (.enqueue c)).cmds = s.cmds ∧ (EngineQueue.step s (.enqueue c)).accepted = s.accepted := by
  cases c <;> simp [EngineQueue.step, EngineQueue.doEnqueue, hc]

/-- **T4 (promises).** For every schedule of enqueuers and the I/O thread: a listener promise is never fulfilled twice; a rejected
promise is never fulfilled; and when the I/O thread has terminated every accepted promise has been fulfilled exactly once — by
the dispatch (either arm) or by the residual drain — so a synchronous `addListener` never blocks for ever. -/
theorem T4_promise_exactly_once (steps : List EngineQueue.Step) (hd : EngineQueue.Disciplined EngineQueue.init steps) (p : Nat) :
    let s := EngineQueue.run EngineQueue.init steps
    s.fulfilled p ≤ 1 ∧ (p ∈ s.rejected → s.fulfilled p = 0) ∧
    (s.phase = .exited → s.fulfilled p = if p ∈ s.accepted then 1 else 0) := by
  have I := EngineQueue.run_inv steps _ EngineQueue.Inv_init hd
  have hC := I.C p
  refine ⟨?_, ?_, ?_⟩
  · split at hC <;> omega
  · intro hr; have := I.R p hr; simp [this] at hC; omega
  · intro he
    have h1 := I.P2 (Or.inr he)
    have h2 := I.P3 he
    have h3 := I.Q h1.1
    simp [EngineQueue.pending, h1.2, h2, h3] at hC
    exact hC

/-- **T5 (callback confinement).** A close callback is only ever emitted by a step of the I/O thread while that thread exists;
the data callback of a flush only by the flushing thread's own step. -/
theorem T5_callbacks_confined (s : State) (st : Step) (sid : Nat) (h : Ev.cbClose sid ∈ (step s st).log) :
    Ev.cbClose sid ∈ s.log ∨ (s.ioAlive = true ∧ ((∃ x, st = .ioCloseSess x) ∨ (∃ x, st = .ioDrain x))) :=
  cb_confined s st sid h

/-- **T5 (nothing after stop).** In every reachable state: if `stop()` has returned to its (non-callback) caller the I/O thread has
terminated, hence no later step of any schedule emits a close callback. -/
theorem T5_no_callback_after_stop (s : State) (hr : Reach s) (hs : Ev.stopReturned ∈ s.log) :
    s.ioAlive = false ∧ ∀ (st : Step) (sid : Nat), Ev.cbClose sid ∈ (step s st).log → Ev.cbClose sid ∈ s.log := by
  have hio := (reach_inv hr).IO1 hs
  refine ⟨hio, fun st sid h => ?_⟩
  rcases cb_confined s st sid h with h1 | ⟨h1, _⟩
  · exact h1
  · simp [hio] at h1

/-! ### non-vacuity -/
/-- a receiver on an open session, a connector and a flusher, destroyed on the NORMAL path: the schedule is disciplined, every
call returns, `Impl` is destroyed, nothing touched it afterwards -/
def demoThreads : List Thread := [{ kind := .recv 1 }, { kind := .conn }, { kind := .flush }]
def demoSteps : List Step :=
  [.enter 0, .enter 1, .enter 2, .flushStep 2 true, .tdBegin, .tdStop, .ioDrain (some 1), .ioDrain none, .tdJoined,
   .wake 1 false, .flushStep 2 false, .flushStep 2 false, .flushStep 2 false, .wake 0 false, .tdWake, .tdDestroy]
example : disciplinedB (mk demoThreads [1]) demoSteps = true := by decide
example : (run (mk demoThreads [1]) demoSteps).log =
    [.cbClose 1, .ret 1 .shuttingDown, .cbData 2, .ret 2 (.flushed false), .ret 0 .peerClosed, .destroyed] := by decide
example : (run (mk demoThreads [1]) demoSteps).uaf = false ∧ (run (mk demoThreads [1]) demoSteps).implAlive = false := by decide

end Iora.C05
