import IoraModel.Lemmas.Teardown
import IoraModel.Lemmas.EngineQueue
import IoraModel.Lemmas.FlushFrames
import IoraModel.Lemmas.TeardownRoles
import IoraModel.Lemmas.TeardownRolesFresh
import IoraModel.Model.TsyncFacts
import IoraModel.Model.TeardownFacts
/-!
# C05 — Stopping or destroying a transport never strands, crashes or races   (PARTIAL)

What is decided here is the LOGIC CORE of the teardown handshake, over `Model/Teardown.lean` (one step = one `syncMutex`
critical section of `transport_impl.hpp`) and `Model/EngineQueue.lean` (the command queue of `tcp_engine.hpp` AND
`udp_engine.hpp`), for ALL step sequences that respect the environment contract `Disciplined` (no synchronous call BEGINS once
the destructor's wait has completed; a thread inside `stop()` holds a reference, so the last reference is not dropped while a
`stop()` is joining and `stop()` is not called once destruction has begun):

* T1 no stranded caller (finite path per thread — existential —, no lost wake-up incl. the receive notification of the
  already-stopped and I/O-thread paths, no dead end: destruction and `stop()` can always complete within a bound),
  T2 the counters gate destruction and touching `Impl` after its destruction is unreachable — for all three branches of
  `~Transport` (ordinary thread, I/O thread inside a callback, flusher inside its data callback = FC05a),
  T3 the entry fence, T4 enqueue-after-close is refused and every accepted listener promise is fulfilled exactly once (both
  engines; `_running` cleared by the stop CAS, by detachForTermination or by the Shutdown command; restart),
  T5 callbacks by counting: confined to I/O-thread steps / the flusher's own loop step, at most one close callback per session,
  none after `stop()` returned, none after `Impl` is gone, T6 a synchronous call made from a callback on the I/O thread is refused.

* over `Model/FlushFrames.lean` (ONE application thread, ANY number of transports, the per-thread `FlushFrame` stack with arbitrary
  cross-transport nesting, the walk of `releaseOwnFlushes` taken from the regenerated skeleton): `releaseOwnFlushes_exact` (for every
  stack the walk releases every frame of this `Impl` and touches no frame of another), `T2_nested_flushes`, `T1_nested_completes`,
  and `takeWhile_walk_deadlocks` (a take-while walk leaves the destructor blocked for ever in the two-legged relay program).

What a Lean model cannot exhibit and is therefore NOT claimed: use-after-free and data races of the real C++ object graph, and
wall-clock bounds ("within a bounded time" is proved as a bound on steps).  Those parts are explored by the DetSched/ASan/TSan
runs of `props/c05.py` — supporting evidence and failing-input search, not the decision.
-/
namespace Iora.C05
open Iora Iora.Teardown

/-- The regenerated lock/notify skeletons (`Gen/TsyncSkel.lean`, shared with C03/C04) have the facts the models assume: the fence
is written and notified under `syncMutex`; the guards are paired inc/dec + notify of `teardownCv`; every park site checks the
fence and constructs its guard(s) under the lock before waiting; `performTeardown` is fence → `engine->stop()` → wait-out(false) /
already stopped → wait-out(true); `enqueue` tests `_cmdsClosed` under `_cmdMutex`; `shutdownDrain` closes the queue and takes the
residual under one acquisition and fails its promises; `process` fulfils a promise in both arms; `addListener` returns before
waiting when refused; `stop()` joins. -/
theorem skeleton_conforms :
    TsyncFacts.fenceUnderLockAndNotifies = true ∧ TsyncFacts.guardsPaired = true ∧ TsyncFacts.parkSitesGuarded = true ∧
    TsyncFacts.teardownOrder = true ∧ TsyncFacts.enqueueChecksClosedUnderLock = true ∧
    TsyncFacts.drainClosesQueueUnderLock = true ∧ TsyncFacts.processFulfilsPromises = true ∧
    TsyncFacts.addListenerRejectsBeforeWaiting = true ∧ TsyncFacts.stopJoins = true := by decide

/-- The regenerated statement-level skeletons (`Gen/TeardownSkel.lean`) have the shapes the models mirror — `~Transport` with its
three branches and the argument of every `teardownWaitOut` call, `teardownWaitOut` with `if (notifyReceive)` and a gate over all
three counters, `performTeardown`, `setTeardownFence`, the flush frame (FC05a), the I/O-thread guards of the four synchronous
operations on thread identity alone; for BOTH engines: enqueue, shutdownDrain, process, addListener, stop (CAS → enqueue → join),
detachForTermination (clears `_running` with no command), scheduleSelfDestruct, the thread epilogue (deleter LAST), the loop exits —
and the values the models are instantiated with are the ones the theorems below are about. -/
theorem teardown_skeleton_conforms :
    TeardownFacts.dtorShape = true ∧ TeardownFacts.waitOutShape = true ∧ TeardownFacts.performTeardownShape = true ∧
    TeardownFacts.fenceShape = true ∧ TeardownFacts.flushFrameShape = true ∧ TeardownFacts.ioGuardsShape = true ∧
    TeardownFacts.enqueueRefusesWhenClosed = true ∧ TeardownFacts.drainClosesAndTakesUnderOneLock = true ∧
    TeardownFacts.residualPromisesFailed = true ∧ TeardownFacts.dispatchFulfilsNormalArm = true ∧
    TeardownFacts.dispatchFulfilsCatchArm = true ∧ TeardownFacts.shutdownCommandClearsRunning = true ∧
    TeardownFacts.stopIsCasEnqueueJoin = true ∧ TeardownFacts.detachClearsRunning = true ∧
    TeardownFacts.selfDestructStored = true ∧ TeardownFacts.epilogueRunsDeleterLast = true ∧
    TeardownFacts.loopsExitIntoDrain = true ∧ TeardownFacts.addListenerRejectsBeforeWaiting = true ∧
    TeardownFacts.parkGuardsWholeCall = true ∧ FlushFrames.walkFilters = true ∧
    nrIo = true ∧ nrStopped = true ∧ nrNormal = false ∧
    gated "activeReceives" = true ∧ gated "activeConnects" = true ∧ gated "activeFlushes" = true ∧
    ioBranchIdentityOnly = true ∧ (∀ op, guardIdentityOnly op = true) := by
  refine ⟨by decide, by decide, by decide, by decide, by decide, by decide, by decide, by decide, by decide, by decide, by decide,
    by decide, by decide, by decide, by decide, by decide, by decide, by decide, by decide, by decide, by decide, by decide,
    by decide, by decide, by decide, by decide, by decide, guard_ok⟩

/-- reachable states: any number of application threads about to make a receive / connect / flush call, any set of open
sessions, any disciplined schedule -/
def Reach (s : State) : Prop :=
  ∃ threads live steps, (∀ t ∈ threads, t.pc = .notStarted) ∧ Disciplined (mk threads live) steps ∧ s = run (mk threads live) steps

theorem reach_inv {s : State} (h : Reach s) : Inv s ∧ Inv2 s := by
  obtain ⟨threads, live, steps, h0, hd, rfl⟩ := h
  exact run_inv steps _ (Inv_mk threads live h0) (Inv2_mk threads live h0) hd

/-- reachable states are closed under steps that respect the contract -/
theorem reach_step {s : State} (h : Reach s) (st : Step) (hok : ok s st = true) : Reach (step s st) := by
  obtain ⟨threads, live, steps, h0, hd, rfl⟩ := h
  refine ⟨threads, live, steps ++ [st], h0, ?_, ?_⟩
  · have app : ∀ (l : List Step) (s0 : State), Disciplined s0 l → ok (run s0 l) st = true → Disciplined s0 (l ++ [st]) := by
      intro l
      induction l with
      | nil => intro s0 _ h1; exact ⟨h1, trivial⟩
      | cons a rest ih => intro s0 h1 h2; exact ⟨h1.1, ih _ h1.2 h2⟩
    exact app steps _ hd hok
  · have app : ∀ (l : List Step) (s0 : State), run s0 (l ++ [st]) = step (run s0 l) st := by
      intro l
      induction l with
      | nil => intro s0; rfl
      | cons a rest ih => intro s0; exact ih _
    exact (app steps _).symm

/-- **T1 (finite path; EXISTENTIAL).** In every reachable state, every thread that is inside a synchronous call and counted by
the gate — parked in receiveSync or connectSync, in connectSync's close window, or anywhere in the flush loop — HAS a path to its
return of at most THREE steps of its own, whatever the other threads do or do not do (a timed wait can always take its
timeout). This says a return is always possible, not that every schedule takes it; "bounded time" is this step bound. -/
theorem T1_finite_path (s : State) (hr : Reach s) (i : Nat) (t : Thread) (hi : s.threads[i]? = some t)
    (hin : inside t.pc = true) :
    ∃ steps : List Step, steps.length ≤ 3 ∧ ∃ t' r, (run s steps).threads[i]? = some t' ∧ t'.pc = .done r :=
  finite_path hi ((reach_inv hr).1.KP i t hi) hin

/-- **T1 (no lost wake-up).** In every reachable state: once the fence is set every parked connectSync has been notified; a
parked connectSync whose completion was delivered has been notified; a parked receiveSync whose session was closed has been
notified; after a receive-notifying entry section of `teardownWaitOut` every parked receiveSync has been notified — and that
section HAS run whenever the destructor took the ALREADY-STOPPED path or runs on the I/O thread (on those paths no close
callback will wake a receiver: the I/O thread is gone, or is the one that waits); and the destructor is never asleep on
`teardownCv` with all three counters at zero. (On the NORMAL path receivers are deliberately not notified by the fence:
`engine->stop()`'s onClose wakes those whose session the engine closes, the others leave by their own timeout — T1_finite_path.) -/
theorem T1_no_lost_wakeup (s : State) (hr : Reach s) :
    (s.shuttingDown = true → ∀ (j : Nat) (t : Thread) (a : Bool), s.threads[j]? = some t → t.kind = .conn → t.pc = .parked a → a = true) ∧
    (∀ (j : Nat) (t : Thread) (a : Bool), s.threads[j]? = some t → t.kind = .conn → t.completed = true → t.pc = .parked a → a = true) ∧
    (∀ (j : Nat) (t : Thread) (sid : Nat) (a : Bool), s.threads[j]? = some t → t.kind = .recv sid → s.closed sid = true →
        t.pc = .parked a → a = true) ∧
    (s.recvNotified = true → ∀ (j : Nat) (t : Thread) (a : Bool), s.threads[j]? = some t → isRecv t = true → t.pc = .parked a → a = true) ∧
    (s.path = .stopped ∨ s.path = .io → s.recvNotified = true) ∧
    (∀ a, s.td = .ioWaiting a → s.recvNotified = true) ∧
    (s.td = .waiting false ∨ s.td = .ioWaiting false → gate s = false) :=
  let I := (reach_inv hr).1
  let J := (reach_inv hr).2
  ⟨I.Wc, I.Wd, I.Wr, I.Wn, J.PN, fun a h => J.PN (Or.inr (J.PI (by rw [h]; rfl))), I.Wt⟩

/-- **T1 (the gate opens).** When no thread is inside a call any more the gate is open: the destructor's next predicate
check succeeds. -/
theorem T1_gate_opens (s : State) (hr : Reach s)
    (hn : ∀ (j : Nat) (t : Thread), s.threads[j]? = some t → inside t.pc = false) : gate s = true :=
  gate_of_no_inside (reach_inv hr).1 hn

/-- **T1 (no dead end; destruction completes).** In every reachable state in which destruction has begun — on whichever of the
three branches — and `Impl` is not yet gone: (a) SOME thread can take a step that respects the contract and strictly decreases
`rank` (steps still owed by the threads inside calls, the destructor and the I/O thread), and (b) there is a schedule respecting
the contract, at most `rank s` steps long, after which `Impl` is destroyed. So no schedule, however adversarial so far, has led
to a state from which teardown cannot finish (no deadlock, no stranded caller); that EVERY fair schedule finishes follows only
with a fairness assumption on the scheduler and is not stated. -/
theorem T1_teardown_completes (s : State) (hr : Reach s) (hb : s.td ≠ .idle ∨ s.dtorOn ≠ none) :
    (s.td ≠ .destroyed → ∃ st, ok s st = true ∧ rank (step s st) < rank s) ∧
    (∃ steps : List Step, Disciplined s steps ∧ steps.length ≤ rank s ∧ (run s steps).td = .destroyed ∧
        (run s steps).uaf = false) := by
  have I := reach_inv hr
  have hb' : begun s := by
    rcases hb with hb | hb
    · left; intro h0; apply hb; cases htd : s.td <;> simp [htd, shape] at h0; rfl
    · right; exact hb
  refine ⟨fun hnd => ?_, ?_⟩
  · obtain ⟨st, h1, h2, _⟩ := progress I.1 I.2 hb' hnd
    exact ⟨st, h1, h2⟩
  · obtain ⟨steps, hd, hl, hf⟩ := completes (rank s) s I.1 I.2 hb' (Nat.le_refl _)
    have I' := run_inv steps s I.1 I.2 hd
    exact ⟨steps, hd, hl, hf, I'.1.UAF⟩

/-- **T1 (`stop()` completes).** In every reachable state in which a thread is inside `stop()`, there is a schedule of at most
(open sessions + 2) steps — one close per session, the I/O thread's termination, the join — after which `stop()` has returned. -/
theorem T1_stop_completes (s : State) (hr : Reach s) (hs : s.stopJoining = true) :
    ∃ steps : List Step, steps.length ≤ s.live.length + 2 ∧ Disciplined s steps ∧ Ev.stopReturned ∈ (run s steps).log ∧
      (run s steps).stopJoining = false := by
  have J := (reach_inv hr).2
  obtain ⟨h0, _, hrun⟩ := J.SJ hs
  have htd : s.td = .idle := by cases htd : s.td <;> simp [htd, shape] at h0; rfl
  exact stop_completes s.live.length s (Nat.le_refl _) hs hrun htd

/-- **T2 (counters gate destruction).** In every reachable state in which `teardownWaitOut` has returned (or `Impl` is gone) all
three counters are 0 and no application thread is inside a counted call; `Impl` is destroyed only then; NO schedule touches `Impl`
after its destruction (`uaf` is unreachable) — including the close handlers that run on the I/O thread after an I/O-thread
self-destruct, the join returning into `stop()`, and the flusher that ran the destructor inside its data callback and unwinds
afterwards (it is the one that deletes `Impl`, as its last action); at most one thread is such a flusher. The counters count
exactly the threads inside. -/
theorem T2_counters_gate_destruction (s : State) (hr : Reach s) :
    s.uaf = false ∧ (s.implAlive = false → s.td = .destroyed) ∧
    (waitCompleted s.td = true → gate s = true ∧ ∀ (j : Nat) (t : Thread), s.threads[j]? = some t → inside t.pc = false) ∧
    (∀ (j : Nat) (t : Thread), s.threads[j]? = some t → t.pc = .fdtor → s.dtorOn = some j) ∧
    s.activeReceives = s.threads.countP countedRecv ∧ s.activeConnects = s.threads.countP countedConn ∧
    s.activeFlushes = s.threads.countP countedFlush := by
  have I := (reach_inv hr).1
  have J := (reach_inv hr).2
  refine ⟨I.UAF, I.IA, fun hw => ⟨gate_of_no_inside I (I.WC hw), I.WC hw⟩, ?_, I.CR, I.CC, I.CF⟩
  intro j t hj hpc
  have hfd : fdAt s.threads j = true := by rw [fdAt_of_get hj, hpc]; rfl
  exact J.DT1 j hfd

/-- **T3 (entry fence).** A call that performs its entry section after the fence was set returns ShuttingDown (`false` for
setReadMode) in that very section: it does not park and no counter changes. -/
theorem T3_fence_rejects (s : State) (i : Nat) (t : Thread) (hi : s.threads[i]? = some t) (hp : t.pc = .notStarted)
    (hs : s.shuttingDown = true) :
    let s' := step s (.enter i)
    (∃ t' r, s'.threads[i]? = some t' ∧ t'.pc = .done r ∧ (r = .shuttingDown ∨ r = .flushed false)) ∧
    s'.activeReceives = s.activeReceives ∧ s'.activeConnects = s.activeConnects ∧ s'.activeFlushes = s.activeFlushes := by
  obtain ⟨k, pc, c⟩ := t
  simp only at hp; subst hp
  simp only [step, doEnter, hi, touch_sh, hs, if_true, touch_threads, setT]
  refine ⟨⟨_, _, get_set_self hi, rfl, ?_⟩, ?_, ?_, ?_⟩
  · cases k <;> simp
  all_goals (unfold touch; split <;> rfl)

/-- **T4 (enqueue after close; both engines).** Once the closed flag is set `enqueue` returns false: nothing is queued (a
promise-bearing command is recorded as rejected; `addListener` then returns ShuttingDown without waiting — skeleton fact). -/
theorem T4_enqueue_after_close (s : EngineQueue.State) (c : EngineQueue.Cmd) (hc : s.closed = true) :
    (EngineQueue.step s (.enqueue c)).cmds = s.cmds ∧ (EngineQueue.step s (.enqueue c)).accepted = s.accepted := by
  cases c <;> simp [EngineQueue.step, EngineQueue.doEnqueue, hc, EngineQueue.f_enq]

/-- **T4 (promises; both engines).** For every schedule of enqueuers and the I/O thread — `_running` cleared by `stop()`'s CAS,
by `detachForTermination()` with no command at all, or by a dispatched Shutdown command; any number of stop/start cycles —: a
listener promise is never fulfilled twice; a rejected promise is never fulfilled; and whenever the I/O thread has terminated every
accepted promise has been fulfilled exactly once — by the dispatch (either arm) or by the residual drain — so a synchronous
`addListener` never blocks for ever. -/
theorem T4_promise_exactly_once (steps : List EngineQueue.Step) (hd : EngineQueue.Disciplined EngineQueue.init steps) (p : Nat) :
    let s := EngineQueue.run EngineQueue.init steps
    s.fulfilled p ≤ 1 ∧ (p ∈ s.rejected → s.fulfilled p = 0) ∧
    (s.phase = .exited → s.fulfilled p = if p ∈ s.accepted then 1 else 0) := by
  have I := EngineQueue.run_inv steps _ EngineQueue.Inv_init hd
  have hC := I.C p
  refine ⟨?_, ?_, ?_⟩
  · split at hC <;> omega
  · intro hr; have := I.R p hr; simp [this] at hC; omega
  · intro he
    have h1 := I.P2 (Or.inr he)
    have h2 := I.P3 he
    have h3 := I.Q h1.1
    simp [EngineQueue.pending, h1.2, h2, h3] at hC
    exact hC

/-- **T5 (callback confinement, by counting).** Any state, any step: the number of close callbacks logged for a session grows by
at most one, and grows only in a step of the I/O thread, while that thread exists, for a session the engine still has open; the
number of data callbacks logged for a flusher grows by at most one, and grows only in that flusher's own loop step, before the
fence, while it is between two sections of its flush loop. -/
theorem T5_callbacks_confined (s : State) (st : Step) :
    (∀ sid, (step s st).log.count (.cbClose sid) = s.log.count (.cbClose sid) ∨
       ((step s st).log.count (.cbClose sid) = s.log.count (.cbClose sid) + 1 ∧ s.ioAlive = true ∧ s.live.contains sid = true ∧
         (st = .ioCloseSess sid ∨ st = .ioDrain (some sid)))) ∧
    (∀ i, (step s st).log.count (.cbData i) = s.log.count (.cbData i) ∨
       ((step s st).log.count (.cbData i) = s.log.count (.cbData i) + 1 ∧ s.shuttingDown = false ∧
         (∃ t, s.threads[i]? = some t ∧ t.pc = .floop) ∧ st = .flushStep i true)) :=
  ⟨cbClose_step s st, cbData_step s st⟩

/-- **T5 (one close callback per session).** In every reachable state each session's close callback has run at most once, and
not at all while the engine still has the session open. -/
theorem T5_each_close_once (s : State) (hr : Reach s) (sid : Nat) :
    s.log.count (.cbClose sid) ≤ 1 ∧ (sid ∈ s.live → s.log.count (.cbClose sid) = 0) :=
  (reach_inv hr).2.CL sid

/-- **T5 (nothing after stop).** In every reachable state: if `stop()` has returned to its (non-callback) caller the I/O thread has
terminated, hence no later step of any schedule runs a close callback. (The data callback of a flush runs synchronously inside
the caller's own `setReadMode` call, on the caller's thread; it is not an asynchronous delivery and is not covered by this clause.) -/
theorem T5_no_callback_after_stop (s : State) (hr : Reach s) (hs : Ev.stopReturned ∈ s.log) :
    s.ioAlive = false ∧ ∀ (st : Step) (sid : Nat), (step s st).log.count (.cbClose sid) = s.log.count (.cbClose sid) := by
  have hio := (reach_inv hr).1.IO1 hs
  refine ⟨hio, fun st sid => ?_⟩
  rcases cbClose_step s st sid with h1 | ⟨_, h1, _⟩
  · exact h1
  · rw [hio] at h1; cases h1

/-- **T5 (nothing after destruction).** In every reachable state in which `Impl` is gone, no step of any schedule runs a close
callback or a flush data callback (counts unchanged), on any of the three destruction branches. -/
theorem T5_no_callback_after_destroy (s : State) (hr : Reach s) (hd : s.implAlive = false) (st : Step) :
    (∀ sid, (step s st).log.count (.cbClose sid) = s.log.count (.cbClose sid)) ∧
    (∀ i, (step s st).log.count (.cbData i) = s.log.count (.cbData i)) := by
  have I := (reach_inv hr).1
  have J := (reach_inv hr).2
  have htd := I.IA hd
  have hio := J.DIO (Or.inr (Or.inr (Or.inr (by rw [htd]; rfl))))
  refine ⟨fun sid => ?_, fun i => ?_⟩
  · rcases cbClose_step s st sid with h1 | ⟨_, h1, _⟩
    · exact h1
    · rw [hio] at h1; cases h1
  · rcases cbData_step s st i with h1 | ⟨_, _, ⟨t, ht, hpc⟩, _⟩
    · exact h1
    · have := I.WC (by rw [htd]; rfl) i t ht
      rw [hpc] at this; simp [inside] at this

/-- **T6 (I/O-thread guards).** A synchronous operation (connectSync, receiveSync, sendSync, setReadMode) called from a callback on
the I/O thread is refused by a throw whatever `_running` is — in particular from a close callback of the shutdown drain — and in
no reachable state has the I/O thread entered a blocking operation of its own transport. -/
theorem T6_io_thread_guards (s : State) (op : SyncOp) :
    (ioFree s = true → (step s (.ioSyncCall op)).log = s.log ++ [.refused op] ∧ (step s (.ioSyncCall op)).ioSelfBlock = s.ioSelfBlock) ∧
    (Reach s → s.ioSelfBlock = false) := by
  refine ⟨fun hf => ?_, fun hr => (reach_inv hr).2.SB⟩
  simp only [step, doIoSyncCall, hf, guard_ok, Bool.true_or, if_true]
  exact ⟨trivial, by unfold touch; split <;> rfl⟩

/-! ### nested flushes over several transports (`Model/FlushFrames.lean`) -/

/-- states of the frame model reachable from "nothing in progress", with any number of callers of other threads inside each
transport, by any schedule respecting the contract (no call on a transport whose last reference was dropped; dropped once) -/
def FReach (s : FlushFrames.State) : Prop :=
  ∃ others steps, FlushFrames.Disciplined (FlushFrames.mk others) steps ∧ s = FlushFrames.run (FlushFrames.mk others) steps

theorem freach_inv {s : FlushFrames.State} (h : FReach s) : FlushFrames.Inv s := by
  obtain ⟨others, steps, hd, rfl⟩ := h
  exact FlushFrames.run_inv steps _ (FlushFrames.Inv_mk others) hd

/-- **T2 over several transports, arbitrary nesting on one thread.** ONE application thread nests `setReadMode(Async)` flushes of
any number of transports in any order and depth (a data callback starts the next flush) and drops the last reference of any of
them inside any callback. In every reachable state: `Impl` is never touched after its deletion; every frame on the thread's stack
belongs to a live `Impl`; `activeFlushes` of each transport is exactly the number of its frames with a live guard; once the last
reference of `d` is dropped NONE of this thread's frames is counted for `d` any more (the walk of `releaseOwnFlushes`, as
regenerated, releases ALL of them — so the gate of `d` waits for other threads only); an orphaned frame is the OUTERMOST frame of
its transport (every inner frame of it has unwound, through `Impl`, before `~FlushFrame` deletes it); only released transports are
deleted; and when nothing is in progress every released transport HAS been deleted. -/
theorem T2_nested_flushes (s : FlushFrames.State) (hr : FReach s) :
    s.uaf = false ∧ (∀ f ∈ s.stack, s.alive f.impl = true) ∧ (∀ d, s.flushes d = FlushFrames.cnt d s.stack) ∧
    (∀ d, s.released d = true → s.flushes d = 0) ∧ FlushFrames.orphOK s.stack ∧
    (∀ d, s.alive d = false → s.released d = true) ∧
    (s.dtor = none → s.stack = [] → ∀ d, s.released d = true → s.alive d = false) := by
  have I := freach_inv hr
  exact ⟨I.A, I.B, I.C, fun d h => by rw [I.C d]; exact I.D d h, I.E, I.F, fun h1 h2 d h3 => FlushFrames.released_deleted I h1 h2 d h3⟩

/-- **T1 over several transports (no dead end).** From every reachable state of the frame model a schedule respecting the contract,
at most (callers of other threads inside the transport being destroyed) + 1 + (stack depth) steps long, ends with the destructor
returned, every flush returned, nothing touched after deletion and every released transport deleted. (Existential, as
T1_teardown_completes.) -/
theorem T1_nested_completes (s : FlushFrames.State) (hr : FReach s) :
    ∃ steps : List FlushFrames.Step, FlushFrames.Disciplined s steps ∧
      steps.length ≤ (match s.dtor with | some (d, _) => s.others d + 1 | none => 0) + s.stack.length ∧
      (FlushFrames.run s steps).dtor = none ∧ (FlushFrames.run s steps).stack = [] ∧ (FlushFrames.run s steps).uaf = false ∧
      ∀ d, (FlushFrames.run s steps).released d = true → (FlushFrames.run s steps).alive d = false := by
  obtain ⟨steps, h1, h2, h3, h4, h5⟩ := FlushFrames.completes (freach_inv hr)
  exact ⟨steps, h1, h2, h3, h4, h5.A, fun d hd => FlushFrames.released_deleted h5 h3 h4 d hd⟩

/-- **The walk of `releaseOwnFlushes`, for EVERY stack.** Whatever frames are on the calling thread's stack (any transports, any
nesting, guards alive or already released), the walk as regenerated from the source releases the guard of EVERY frame of this
`Impl` and leaves every frame of another `Impl` exactly as it was, in place (the stack after the walk is the stack mapped by
"`impl == d` ⇒ guard released, else unchanged"); `activeFlushes` drops by exactly the number of this transport's live guards on the
stack; and the destructor takes the flusher branch iff some frame of this `Impl` is ANYWHERE on the stack. -/
theorem releaseOwnFlushes_exact (d : Nat) (l : List FlushFrames.Frame) :
    FlushFrames.resetGuards (FlushFrames.mask FlushFrames.walkFilters d l) l =
      l.map (fun f => if f.impl = d then { f with guard := false } else f) ∧
    FlushFrames.liveMatched (FlushFrames.mask FlushFrames.walkFilters d l) l = FlushFrames.cnt d l ∧
    (FlushFrames.mask FlushFrames.walkFilters d l).any id = l.any (fun f => decide (f.impl = d)) := by
  rw [FlushFrames.walk_filters]
  exact ⟨FlushFrames.reset_eq_map l, FlushFrames.live_eq_cnt l, FlushFrames.mask_any l⟩

/-- a non-trivial stack: [U(live), D(live), U(released), D(live)] walked for D -/
example : FlushFrames.resetGuards (FlushFrames.mask FlushFrames.walkFilters 0 [{ impl := 1 }, { impl := 0 }, { impl := 1, guard := false }, { impl := 0 }])
      [{ impl := 1 }, { impl := 0 }, { impl := 1, guard := false }, { impl := 0 }] =
    [{ impl := 1 }, { impl := 0, guard := false }, { impl := 1, guard := false }, { impl := 0, guard := false }] := by decide
/-- the take-while walk violates it on the two-frame stack [U, D]: D's frame keeps its guard and the ordinary branch is taken -/
example : FlushFrames.resetGuards (FlushFrames.mask false 0 [{ impl := 1 }, { impl := 0 }]) [{ impl := 1 }, { impl := 0 }] =
      [{ impl := 1 }, { impl := 0 }] ∧ (FlushFrames.mask false 0 [{ impl := 1 }, { impl := 0 }]).any id = false := by decide

/-- **The filter is necessary.** With the take-while walk (`f != nullptr && f->impl == this` in the loop condition) the relay
program — D flushes, its callback flushes U, U's callback drops the last reference of D — respects the contract and leaves
`~Transport(D)` blocked for EVERY continuation: whatever the thread or other threads do next, however often the predicate is
re-checked, the destructor does not return (it waits for D's own outer flush, which it did not release). -/
theorem takeWhile_walk_deadlocks (steps : List FlushFrames.Step) :
    (FlushFrames.runW false (FlushFrames.runW false (FlushFrames.mk fun _ => 0) FlushFrames.relay) steps).dtor = some (0, false) :=
  FlushFrames.takeWhile_stuck steps

/-- … while the walk as written completes the same program: the destructor returns, U's flush returns true, D's flush returns
false and D's `Impl` is deleted when D's (outermost) frame unwinds -/
example : FlushFrames.disciplinedB (FlushFrames.mk fun _ => 0) (FlushFrames.relay ++ [.dtorWake, .pop, .pop]) = true := by decide
example : (FlushFrames.run (FlushFrames.mk fun _ => 0) (FlushFrames.relay ++ [.dtorWake, .pop, .pop])).log =
    [.dtorReturned 0, .ret 1 true, .ret 0 false, .deleted 0] := by decide
/-- [D, U, D]: the inner D frame is released too but only the OUTER one deletes `Impl` -/
example : (FlushFrames.run (FlushFrames.mk fun _ => 0) [.push 0, .push 1, .push 0, .release 0, .dtorWake, .pop, .pop, .pop]).log =
    [.dtorReturned 0, .ret 0 false, .ret 1 true, .ret 0 false, .deleted 0] := by decide
/-- control: U released inside D's callback while U has no frame — the ordinary branch, `~Impl` at once -/
example : (FlushFrames.run (FlushFrames.mk fun _ => 0) [.push 0, .release 1, .dtorWake, .pop]).log =
    [.deleted 1, .dtorReturned 1, .ret 0 true] := by decide

/-! ### non-vacuity -/
/-- a receiver on an open session, a connector and a flusher, destroyed on the NORMAL path: the schedule is disciplined, every
call returns, `Impl` is destroyed, nothing touched it afterwards -/
def demoThreads : List Thread := [{ kind := .recv 1 }, { kind := .conn }, { kind := .flush }]
def demoSteps : List Step :=
  [.enter 0, .enter 1, .enter 2, .flushStep 2 true, .tdBegin, .tdStop, .ioDrain (some 1), .ioDrain none, .tdJoined,
   .wake 1 false, .flushStep 2 false, .flushStep 2 false, .flushStep 2 false, .wake 0 false, .tdWake, .tdDestroy]
example : disciplinedB (mk demoThreads [1]) demoSteps = true := by decide
example : (run (mk demoThreads [1]) demoSteps).log =
    [.cbData 2, .cbClose 1, .ret 1 .shuttingDown, .ret 2 (.flushed false), .ret 0 .peerClosed, .destroyed] := by decide
example : (run (mk demoThreads [1]) demoSteps).uaf = false ∧ (run (mk demoThreads [1]) demoSteps).implAlive = false := by decide

/-- FC05a: the sole owner releases the transport inside the data callback of its own flush while a receiver is parked on a
session the engine does not know: the destructor runs on the flusher, waits out the receiver, and `Impl` is deleted when the
flush loop has unwound -/
def demoFlushSelf : List Step :=
  [.enter 0, .enter 1, .flushStep 0 true, .flushSelfDestruct 0, .tdBegin, .tdStop, .ioDrain none, .tdJoined, .wake 1 true,
   .tdWake, .tdOrphan, .flushStep 0 false]
example : disciplinedB (mk [{ kind := .flush }, { kind := .recv 7 }] []) demoFlushSelf = true := by decide
example : (run (mk [{ kind := .flush }, { kind := .recv 7 }] []) demoFlushSelf).log =
    [.cbData 0, .ret 1 .shuttingDown, .ret 0 (.flushed false), .destroyed] := by decide
example : (run (mk [{ kind := .flush }, { kind := .recv 7 }] []) demoFlushSelf).uaf = false := by decide

/-- the sole owner releases the transport inside a close callback on the I/O thread while a receiver and a connector are parked:
both are notified by the destructor's entry section, the drain closes the remaining session, the epilogue deletes `Impl` -/
def demoIoSelf : List Step :=
  [.enter 0, .enter 1, .ioSelfDestruct, .wake 0 false, .wake 1 false, .tdWake, .ioSyncCall .receiveSync, .ioDrain (some 1), .ioDrain none]
example : disciplinedB (mk [{ kind := .recv 9 }, { kind := .conn }] [1]) demoIoSelf = true := by decide
example : (run (mk [{ kind := .recv 9 }, { kind := .conn }] [1]) demoIoSelf).log =
    [.ret 0 .shuttingDown, .ret 1 .shuttingDown, .refused .receiveSync, .cbClose 1, .destroyed] := by decide

/-- engine queue: promise 1 fulfilled by the dispatch, `_running` cleared by detachForTermination (no Shutdown command), promises 2
and 3 accepted after the loop left and failed by the residual drain, promise 4 refused by the closed queue; the I/O thread exits;
after a restart promise 5 is accepted and dispatched again -/
def demoQueue : List EngineQueue.Step :=
  [.enqueue (.addListener 1), .swap, .dispatch false, .enqueue (.addListener 2), .clearRunning, .loopExit,
   .enqueue (.addListener 3), .closeQueue, .enqueue (.addListener 4), .failResidual, .failResidual, .failResidual,
   .restart, .enqueue (.addListener 5), .swap, .dispatch true]
example : EngineQueue.disciplinedB EngineQueue.init demoQueue = true := by decide
example : let s := EngineQueue.run EngineQueue.init (demoQueue.take 12)
    s.phase = .exited ∧ s.accepted = [3, 2, 1] ∧ s.rejected = [4] ∧ (s.fulfilled 1, s.fulfilled 2, s.fulfilled 3, s.fulfilled 4) = (1, 1, 1, 0) := by
  decide
example : let s := EngineQueue.run EngineQueue.init demoQueue
    s.phase = .loop ∧ s.closed = false ∧ s.fulfilled 5 = 1 := by decide

/-! ## thread ROLES that can originate a callback (extension round: the TimerService thread, seed C05-d) -/

section Roles
open Iora.TeardownRoles Iora.Gen.TeardownSkel

/-- callback-capable thread roles of an engine and what each may do, as the inventory regenerated from `tcp_engine.hpp` /
`udp_engine.hpp` shows it (every call site of `_cbs.on*` / `err()` with its member function, exception arm or not, and the thread
roles that function is reachable from over the class-internal call graph; tools/tr_teardownskel.py):
* every TimerService lambda of TcpEngine is a single call of one of the three handlers, each handler is the single statement
  `enqueue(Command::close(sid, …, origin));` with the result discarded, and the timer role reaches exactly those handlers, both
  `enqueue` overloads and `setLastFatal` — in particular NOT `err()`, `closeNow` or any function with a `_cbs.on*` site other than
  the exception arm of `enqueue` (which is past the closed test);
* every other call site is reachable from the I/O thread, or from the API caller inside `start()` (`err()`/`initTls`), only;
  the public entry points other than `start()` reach a callback only through the exception arm of `enqueue`;
* `shutdownDrain` does not cancel the session timers (the model keeps them armed across `stop()`);
* UdpEngine has no TimerService role at all; on the API role it reports through `error()` inside `start()` and inside
  `addListener(tls ≠ None)` (argument error, synchronously in the caller's own call);
* the one `std::async` lambda (DNS lookup) touches no member of the engine;
* because the timer role may be inside `enqueue()` at ANY time — also while the application restarts the engine, which the
  "callers do not enqueue during start()" contract of `start()` does not cover — `start()` publishes the fresh `_eventFd` and reopens
  the queue in ONE `_cmdMutex` critical section and writes neither outside it, and `cleanupStartFail` closes the descriptor under
  that mutex (repair FC05c; the model's `enqueue` is atomic with respect to `apiStart` on that ground). -/
theorem roles_inventory_conforms :
    tcpTimerHandlers.map (·.1) = ["handleConnectTimeout", "handleHandshakeTimeout", "handleWriteStallTimeout"] ∧
    tcpTimerHandlers.all (fun h => h.2.2 == "enqueue-ignored") = true ∧
    tcpTimerRoleFns = ["enqueue", "enqueue#1", "handleConnectTimeout", "handleHandshakeTimeout", "handleWriteStallTimeout", "setLastFatal"] ∧
    tcpCallbackSites.all (fun x => [["io"], ["api"], ["io", "api"], ["timer", "api"]].contains x.2.2.2) = true ∧
    tcpCallbackSites.all (fun x => !timerSiteOutsideEnqueue x) = true ∧
    (tcpCallbackSites.filter (fun x => x.2.2.2 == ["api"] || x.2.2.2 == ["io", "api"])).map (·.1) = ["start", "err", "initTls"] ∧
    tcpApiCallbackEntries.all (fun e => e.1 == "start" || e.2 == "enqueue#1:catch enqueue:catch") = true ∧
    tcpAsyncLambdas ≤ 1 ∧
    udpHasNoTimerRole = true ∧ udpApiCallbackEntries = [("addListener", "error:body"), ("start", "error:body")] ∧
    udpCallbackSites.all (fun x => x.2.2.2 == ["io"] || (x.1 == "error" && x.2.2.2 == ["io", "api"])) = true ∧ udpAsyncLambdas = 0 ∧
    genCfg = { timerCbOnRefusal := false, enqueueCbOnException := true, drainCancelsTimers := false } ∧
    tcpStartLockedStmts = ["_eventFd=efd", "_cmdsClosed=false"] ∧ tcpStartUnlockedQueueWrites = 0 ∧
    tcpStartFailClosesEventFdUnderLock = true := by
  refine ⟨by decide, by decide, by decide, by decide, by decide, by decide, by decide, by decide, by decide, by decide, by decide,
    by decide, by decide, by decide, by decide, by decide⟩

/-- **T5 over ALL thread roles (I/O thread, TimerService thread, API caller).** Every schedule of the three roles from a freshly
constructed engine (any number of start/stop cycles, any commands, any socket events, any timer left armed by the shutdown drain
and expiring at any later point, `enqueue` throwing or not): once a `stop()` has RETURNED to its non-callback caller with the I/O
thread terminated, NO later step of ANY role runs a user callback — and the state stays that way — until the application calls
`start()` again.  The model is instantiated with the regenerated inventory (`genCfg`): the statement fails to build when a timer
handler reaches a callback outside `enqueue`'s exception arm. -/
theorem T5_no_callback_after_stop_any_role (steps later : List TeardownRoles.Step)
    (hq : (TeardownRoles.run genCfg {} steps).quiet = true) (hs : later.all (fun st => !isStart st) = true) :
    (TeardownRoles.run genCfg (TeardownRoles.run genCfg {} steps) later).log = (TeardownRoles.run genCfg {} steps).log ∧
    (TeardownRoles.run genCfg (TeardownRoles.run genCfg {} steps) later).quiet = true :=
  quiet_run_silent genCfg (by decide) later _ (inv_reach genCfg _ ⟨steps, rfl⟩) hq hs

/-- the hypotheses are satisfiable: stop() with a TLS connect pending, whose connect-timeout timer is still armed afterwards and then
expires — twice the queue refuses, nothing is logged after the drain's close callback -/
example : (TeardownRoles.run genCfg {} witnessPrefix).quiet = true ∧ (TeardownRoles.run genCfg {} witnessPrefix).timers = [(1, .connect)] ∧
    (TeardownRoles.run genCfg {} (witnessPrefix ++ [.timerFire 0 false, .apiConnect false true, .apiStop false])).log = [(.io, .close)] := by decide

/-- … for every configuration whose timer handlers stay silent on a refused enqueue (whatever the other two source facts are) -/
theorem T5_any_silent_timer (cfg : Cfg) (hT : cfg.timerCbOnRefusal = false) (s : TeardownRoles.State) (hr : TeardownRoles.Reach cfg s)
    (hq : s.quiet = true) (st : TeardownRoles.Step) (hs : isStart st = false) :
    (TeardownRoles.step cfg s st).log = s.log ∧ (TeardownRoles.step cfg s st).quiet = true :=
  quiet_step_silent cfg hT s (inv_reach cfg s hr) hq st hs

/-- the claim "no role runs a callback after stop() returned" for a given reading of the source -/
def T5_roles_statement (cfg : Cfg) : Prop :=
  ∀ s, TeardownRoles.Reach cfg s → s.quiet = true → ∀ st, isStart st = false → (TeardownRoles.step cfg s st).log = s.log

/-- **Witness (seed C05-d).** A TimerService handler that reports a refused enqueue through a user callback REFUTES the statement:
start; connect; the Connect command leaves its connect-timeout timer armed; stop() — the drain closes the session but not its
timer, closes the queue, the join returns —; the timer expires: `onError` runs on the timer thread after stop() has returned. -/
theorem T5_roles_refuted_by_reporting_timer (cfg : Cfg) (hT : cfg.timerCbOnRefusal = true) (hd : cfg.drainCancelsTimers = false) :
    ¬ T5_roles_statement cfg := by
  intro h
  have a := witness_prefix_quiet cfg hd
  have b := witness_late_callback cfg hd hT
  have c := h _ ⟨witnessPrefix, rfl⟩ a.1 (.timerFire 0 false) rfl
  rw [b, a.2.2.1] at c
  exact absurd c (by decide)

/-- **Role table.** Any state, any step: the log grows only by callbacks whose role is the role of the thread that took the step
(a timer-role step never logs an `io` callback, …), and an I/O-role step logs nothing once the I/O thread has terminated. -/
theorem T5_callbacks_by_role (cfg : Cfg) (s : TeardownRoles.State) (st : TeardownRoles.Step) :
    ∃ l, (TeardownRoles.step cfg s st).log = s.log ++ l ∧ (∀ e ∈ l, e.1 = roleOf st) ∧
      (roleOf st = .io → s.ioAlive = false → l = []) :=
  step_log_role cfg s st

/-- a timer that expires late is harmless on the I/O thread too: the Close arm of `process()` drops a timer-originated close whose
session is gone or whose condition no longer holds (connect completed / handshake done / write queue drained) -/
theorem T5_stale_timer_close_dropped (s : TeardownRoles.State) (sid : Nat) (k : TimerKind) (arm : Bool)
    (h : match findSess s sid with | none => True | some x => stale x (some k) = true) :
    dispatch s (.close sid (some k)) arm = s :=
  stale_timer_close_dropped s sid k arm h
example : dispatch { sessions := [{ sid := 3, connectPending := false }] } (.close 3 (some .connect)) false =
    { sessions := [{ sid := 3, connectPending := false }] } := by
  exact stale_timer_close_dropped _ 3 .connect false (by simp [findSess, stale])

/-- **Session ids are never reused** (why a stale timer of a previous start/stop epoch cannot close a session of a later one): in every
reachable state of the role model the ids of the open sessions and of the queued Connect commands are pairwise distinct and all below
`_nextSessionId`, which `start()` never resets — so an id a timer was armed for names that one session or, once it is closed, none. -/
theorem T5_session_ids_never_reused (cfg : Cfg) (s : TeardownRoles.State) (hr : TeardownRoles.Reach cfg s) :
    (ids s).Nodup ∧ ∀ i ∈ ids s, i < s.nextSid :=
  fresh_reach cfg s hr
example : ids (TeardownRoles.run genCfg {} [.apiStart false, .apiConnect true false, .apiConnect false false, .ioProcess true]) = [1, 2] := by decide

end Roles

end Iora.C05
