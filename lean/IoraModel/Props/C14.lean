import IoraModel.Lemmas.Xml
import IoraModel.Lemmas.XmlEntities
import IoraModel.Lemmas.XmlDom
import IoraModel.Lemmas.XmlRender
import IoraModel.Lemmas.XmlTransfer
import IoraModel.Lemmas.XmlDecodeReads
import IoraModel.Lemmas.XmlDtor
import IoraModel.Lemmas.XmlThrow
/-!
# C14 — The XML parser accepts only balanced documents and reports them faithfully

Property theorems only (helper lemmas live in `Lemmas/Xml*.lean`).  The model is `Model/Xml.lean` (the tokenizer **as repaired
for F29**); constants come from the regenerated `Gen/Xml.lean`.  `tokens o bs` is the whole pull API on the document `bs` with
options `o`: the list of tokens `next()` returned true for, and how the run ended.
-/
namespace Iora.C14
open Iora Iora.Xml

/-- the document `<a>x</a>` and a few others used by the non-vacuity examples -/
def docAXA : Bytes := [0x3C, 0x61, 0x3E, 0x78, 0x3C, 0x2F, 0x61, 0x3E]
/-- `<a b="1"/>` -/
def docAttr : Bytes := [0x3C, 0x61, 0x20, 0x62, 0x3D, 0x22, 0x31, 0x22, 0x2F, 0x3E]
/-- `<a></b>` -/
def docMismatch : Bytes := [0x3C, 0x61, 0x3E, 0x3C, 0x2F, 0x62, 0x3E]

/-- **X1 (balance).** For ARBITRARY bytes and all option values: if the document is accepted (Eof emitted, no error) then its
token list is well nested — every start tag is closed by an end tag with a byte-equal name, in proper nesting (`Nest` is the
grammar `ε | other·N | start·N·end·N`, stated without any stack). -/
theorem X1_balanced (o : Options) (bs : Bytes) (ts : List Token) (t : Token) (s : St)
    (h : tokens o bs = (ts, .accepted t s)) : Nest bs ts := by
  have := (tokens_ok' o bs).stack
  rw [h] at this
  exact sm_nest bs ts this

/-- non-vacuity: `<a>x</a>` is accepted with the tokens Start, Text, End; `<a></b>` is not accepted -/
example : (tokens {} docAXA).1.map (·.kind) = [.startElement, .text, .endElement] ∧
    (match (tokens {} docAXA).2 with | .accepted _ _ => true | _ => false) = true := by decide +kernel
example : (match (tokens {} docMismatch).2 with | .error .mismatch _ _ => true | _ => false) = true := by decide

/-- **X1 (DOM).** `DomBuilder::build` run on the tokenizer's own output never takes its "unbalanced end element" exit and never
finishes with open elements: its result is a document (only for an accepted input), the tokenizer's error, or a value that
does not decode.  Never one of the two DOM-only errors, never an out-of-range read. -/
theorem X1_dom_never_unbalanced (o : Options) (bs : Bytes) :
    match domBuild o bs with
    | .doc _ => ∃ t s, (tokens o bs).2 = .accepted t s
    | .null e _ _ _ => e.isDom = false
    | .bad _ => False := by
  have hok := tokens_ok' o bs
  unfold domBuild domOf
  cases hout : (tokens o bs).2 with
  | accepted t s =>
    have hst := hok.stack
    rw [hout] at hst
    have := domFold_balanced bs (tokens o bs).1 [] [] {} hst rfl
    cases hf : domFold bs {} (tokens o bs).1 with
    | inl d =>
      rw [hf] at this
      simp only at this ⊢
      cases hop : d.open_ with
      | nil => simp only; exact ⟨t, s, rfl⟩
      | cons _ _ => rw [hop] at this; simp at this
    | inr r =>
      rw [hf] at this
      cases r with
      | doc _ => exact this.elim
      | null e _ _ _ => simp only at this ⊢; cases e <;> simp_all [ErrKind.isDecode, ErrKind.isDom]
      | bad _ => exact this.elim
  | error e c s =>
    have hst := hok.stack
    have hfin := hok.final
    rw [hout] at hst hfin
    have := domFold_balanced bs (tokens o bs).1 [] s.stack {} hst rfl
    cases hf : domFold bs {} (tokens o bs).1 with
    | inl d => simp only; exact hfin.2.2.2
    | inr r =>
      rw [hf] at this
      cases r with
      | doc _ => exact this.elim
      | null e _ _ _ => simp only at this ⊢; cases e <;> simp_all [ErrKind.isDecode, ErrKind.isDom]
      | bad _ => exact this.elim
  | bad b => exact (hok.notBad b hout).elim

/-- **X2 (slices).** For arbitrary bytes: every slice reported in every token — name, text, every attribute name and value — and
the token's own offset lie inside the input; the Eof token sits at the end of the input and an error offset is inside it. -/
theorem X2_slices_in_bounds (o : Options) (bs : Bytes) :
    (∀ t ∈ (tokens o bs).1, t.Below bs.length) ∧
    (match (tokens o bs).2 with
     | .accepted t _ => t.offset = bs.length
     | .error _ c _ => c.pos ≤ bs.length
     | .bad _ => False) := by
  have hok := tokens_ok' o bs
  refine ⟨hok.below, ?_⟩
  have hf := hok.final
  cases hout : (tokens o bs).2 with
  | accepted t s => rw [hout] at hf; exact hf.2.1
  | error e c s => rw [hout] at hf; exact hf.1
  | bad b => exact (hok.notBad b hout).elim

/-- **X2 (the reads are indexed reads of the input, the guards comparisons with its size).** In a state whose cursor is
consistent with the input `bs`, `peek()` is `bs[_cur]?`, `_input[_cur + i]` is `bs[_cur + i]?` — `none`, which every caller turns
into `bad oob`, exactly when the index is `≥ size` — and the guards `eof()` and `_cur + i >= size` are those comparisons. -/
theorem X2_reads_are_indexed (bs : Bytes) (c : Cur) (h : c.At bs) (i : Nat) :
    c.peek = bs[c.pos]? ∧ c.at i = bs[c.pos + i]? ∧ (c.at i = none ↔ bs.length ≤ c.pos + i) ∧
    (c.eof = true ↔ bs.length ≤ c.pos) ∧ (c.beyond i = true ↔ bs.length ≤ c.pos + i) := by
  refine ⟨?_, Cur.at_eq_get h i, ?_, Cur.eof_iff h, Cur.beyond_iff h i⟩
  · rw [Cur.peek_eq_at, Cur.at_eq_get h 0]; simp
  · rw [Cur.at_eq_get h i]; simp

/-- **X2 (no out-of-range read).** The tokenizer of `Model/Xml.lean` performs every read the C++ performs — `peek()`, `advance()`,
`_input[_cur + i]`, `_input[pos]` — as a partial function, under exactly the guards the C++ has (`Gen.Xml.readSites`, regenerated
from the header, lists each read with its guard; `gen_conformance` ties it to the table the model implements); an unguarded or
wrongly guarded read at the end of the input yields `bad oob`, an exhausted loop budget `bad fuel`, the `sv.empty()` re-entry of
`readText` `bad dead`.  None of them happens: not in a single `next()` from any state whose cursor is consistent with the input
(arbitrary bytes, arbitrary position, all option values), and not in a whole run.  (The proof goes through function-by-function
equations between the explicit loops and their closed forms, `Lemmas/XmlExplicit.lean`; dropping a guard from the model breaks
the corresponding equation.) -/
theorem X2_no_oob_read (o : Options) (bs : Bytes) :
    (∀ s : St, s.cur.At bs → ∀ b, next o s ≠ .bad b) ∧ (∀ b, (tokens o bs).2 ≠ .bad b) := by
  refine ⟨?_, (tokens_ok' o bs).notBad⟩
  intro s hat b h
  have := next_sat' bs o s hat
  rw [h] at this
  exact this

/-- **X2 (no out-of-range read inside `decodeEntities` / `appendCharRef`).** The decoder written read by read — `in[i]`, `ent[0]`,
`entBody[1]`, `entBody[i]` as partial indexed reads (`oob` for an index `≥ size`) under exactly the guards the C++ has
(`Gen.Xml.decodeReadSites`, regenerated from the header and tied to the model's table by `gen_conformance`) — equals the decoder the
X5 theorems are about, on every input: no read is out of range and no loop budget is exhausted. -/
theorem X2_decode_reads (inp : Bytes) :
    decodeEntitiesI inp = .ok (decodeEntities inp) ∧ (∀ ent, appendCharRefI ent = .ok (appendCharRef ent)) :=
  ⟨decodeEntitiesI_eq inp, appendCharRefI_eq⟩

/-- not vacuous: the read primitive does answer out-of-range — with the size test of `appendCharRef` removed (`ent[1]?` on `#`) the
read is `none` -/
example : ([0x23] : Bytes)[1]? = none ∧ decodeEntitiesI [0x26, 0x23, 0x3B] = .ok (.err .badCharRef 0) := by decide

/-- the outcome is not vacuous: at the end of the input the read primitives do answer "out of range" (`advance()` on an exhausted
cursor is `bad oob`, `peek()` and `_input[_cur + 0]` are `none`) — it is the guards that keep `next` away from them -/
example : (match advR 1 ⟨1, 1, 2, []⟩ with | .bad .oob => true | _ => false) = true ∧
    (⟨1, 1, 2, []⟩ : Cur).peek = none ∧ (⟨1, 1, 2, []⟩ : Cur).at 0 = none := by decide

/-- **X3 (progress).** Every call of `next()` that returns a token has moved the cursor strictly forward, and not past the end. -/
theorem X3_next_advances (o : Options) (bs : Bytes) (s s' : St) (t : Token) (hat : s.cur.At bs)
    (h : next o s = .tok t s') : s.cur.pos < s'.cur.pos ∧ s'.cur.pos ≤ bs.length ∧ s'.cur.At bs := by
  have := next_sat' bs o s hat
  rw [h] at this
  have hat' := Cur.Reach.at hat this.1
  exact ⟨this.2.1, hat'.1, hat'⟩

/-- **X3 (termination).** A run produces at most `length` tokens and then ends with Eof or an error: `length + 2` calls of
`next()` always suffice (the budget `tokens` gives `run` is never exhausted). -/
theorem X3_token_count (o : Options) (bs : Bytes) :
    (tokens o bs).1.length ≤ bs.length ∧ (tokens o bs).2 ≠ .bad .fuel := by
  have hok := tokens_ok' o bs
  exact ⟨by have := hok.count; simpa [St.init, Cur.init] using this, hok.notBad _⟩

/-- **X3 (the public `next()` with its latches `_hasError` / `_emittedEof`).** Calling `Parser::next()` `length + 2` times — and ANY
number of times more — returns true exactly for the tokens of the run, in order; afterwards the object holds the recorded error
(tokenizer state untouched by the failing call) or the Eof latch, and every further call returns false and changes nothing. -/
theorem X3_public_next (o : Options) (bs : Bytes) (extra : Nat) :
    (match (tokens o bs).2 with
     | .accepted _ s' => pcalls o (bs.length + 2 + extra) ⟨St.init bs, none, false⟩ = ((tokens o bs).1, ⟨s', none, true⟩)
     | .error e c s' => pcalls o (bs.length + 2 + extra) ⟨St.init bs, none, false⟩ = ((tokens o bs).1, ⟨s', some (e, c), false⟩)
     | .bad _ => False) ∧
    ∀ p : PSt, (p.error.isSome = true ∨ p.emittedEof = true) → pnext o p = (none, p) := by
  refine ⟨?_, pnext_latched o⟩
  have h := pcalls_run o (bs.length + 2) (St.init bs) extra
  have hnb := (tokens_ok' o bs).notBad
  unfold tokens at hnb ⊢
  cases hout : (run o (bs.length + 2) (St.init bs)).2 with
  | accepted t s' => rw [hout] at h; exact h
  | error e c s' => rw [hout] at h; exact h
  | bad b => exact (hnb b hout).elim

/-- non-vacuity: on `<a></b>` three more calls than needed still give the one token and the recorded mismatch -/
example : (pcalls {} (docMismatch.length + 2 + 3) ⟨St.init docMismatch, none, false⟩).1.map (·.kind) = [.startElement] ∧
    ((pcalls {} (docMismatch.length + 2 + 3) ⟨St.init docMismatch, none, false⟩).2.error.map (·.1)) = some .mismatch := by
  decide +kernel

/-- **X4 (limits).** For all option values, every token that is produced — accepted document or not — respects every limit:
element depth ≤ `maxDepth`, attributes per element ≤ `maxAttrsPerElement`, element/attribute/PI names ≤ `maxNameLength`,
text spans and attribute values ≤ `maxTextSpan`, and the number of tokens ≤ `maxTotalTokens` unless that is 0.  Each limit is
tested before the token is handed out, so no consumer ever sees an offending token. -/
theorem X4_limits (o : Options) (bs : Bytes) :
    (∀ t ∈ (tokens o bs).1, t.LimitsAll o) ∧ (o.maxTokens ≠ 0 → (tokens o bs).1.length ≤ o.maxTokens) := by
  have hok := tokens_ok' o bs
  refine ⟨hok.limits, ?_⟩
  intro h
  have := hok.budget h
  simpa [St.init] using this

/-- non-vacuity: with `maxDepth = 0` the single element of `<a>x</a>` is refused before any token is produced -/
example : (tokens { maxDepth := 0 } docAXA).1 = [] ∧
    (match (tokens { maxDepth := 0 } docAXA).2 with | .error .depthExceeded _ _ => true | _ => false) = true := by decide

/-- **X5 (only the five predefined entities and numeric references decode).** Whenever `decodeEntities` succeeds, its output
is the input with literal bytes copied, `&lt; &gt; &amp; &apos; &quot;` replaced by their character and `&#…;` replaced by the
UTF-8 encoding of the code point (`Dec` has no other rule, so nothing else is ever expanded). -/
theorem X5_decode_sound (inp out : Bytes) (h : decodeEntities inp = .ok out) : Dec inp out :=
  decodeEntities_sound inp out h

/-- **X5 (completeness).** Conversely, every string that is well formed in the sense of `Dec` — literal bytes, references to the five
predefined entities, numeric references whose code point encodes — is decoded, to exactly the `Dec` image: `decodeEntities`
succeeds *iff* the input is well formed, and its output is *the* decoded text. -/
theorem X5_decode_complete (inp out : Bytes) : decodeEntities inp = .ok out ↔ Dec inp out :=
  ⟨decodeEntities_sound inp out, decodeEntities_complete inp out⟩

/-- non-vacuity: `&lt;&#65;` decodes to `<A` -/
example : decodeEntities [0x26, 0x6C, 0x74, 0x3B, 0x26, 0x23, 0x36, 0x35, 0x3B] = .ok [0x3C, 0x41] := by decide

/-- **X5 (undefined entities are errors).** A reference `&name;` whose name is none of the five and does not start with `#` makes
`decodeEntities` fail with "unknown entity" at the offset of its `&`, whatever surrounds it.  Entities declared in a DOCTYPE —
internal or external — are in this class: the tokenizer never reads declarations. -/
theorem X5_unknown_entity_rejected (pre name post : Bytes) (hpre : 0x26 ∉ pre) (hname : 0x3B ∉ name)
    (hfive : ∀ b, (name, b) ∉ fiveEntities) (hnum : name.head? ≠ some 0x23) :
    decodeEntities (pre ++ 0x26 :: name ++ 0x3B :: post) = .err .unknownEntity pre.length :=
  decode_unknown_entity pre name post hpre hname hfive hnum

/-- non-vacuity: `a&xxe;b` -/
example : decodeEntities [0x61, 0x26, 0x78, 0x78, 0x65, 0x3B, 0x62] = .err .unknownEntity 1 := by decide

/-- **X5 (UTF-8).** For every Unicode scalar value, `encodeUtf8` produces exactly the UTF-8 encoding (Lean's own
`String.utf8EncodeChar` is the independent definition). -/
theorem X5_encodeUtf8_scalar (c : Char) : encodeUtf8 c.val = some (String.utf8EncodeChar c) :=
  encodeUtf8_char c

/-- **X5 (UTF-8, rejection).** `encodeUtf8` fails exactly on the surrogate range and above U+10FFFF. -/
theorem X5_encodeUtf8_rejects (cp : UInt32) :
    encodeUtf8 cp = none ↔ (0xD800 ≤ cp.toNat ∧ cp.toNat ≤ 0xDFFF) ∨ 0x10FFFF < cp.toNat :=
  encodeUtf8_none cp

/-- **X5 (what a numeric reference denotes).** The code point of `&#x…;` / `&#X…;` is the hexadecimal value of the digits, that of
`&#…;` the decimal value — computed in a 32-bit accumulator, i.e. **reduced modulo 2^32** (`numValue` is the unbounded value, defined
without machine arithmetic); a byte that is not a digit of the base makes the reference invalid.  For every value below 2^32 the
reduction is the identity, so every well-formed reference denotes exactly its code point; the wrap is visible only on
ill-formed input (observation: `&#x100000041;` decodes like `&#x41;`, and `&#x;` denotes 0). -/
theorem X5_numeric_value (x : UInt8) (ds : Bytes) :
    ((x = 0x78 ∨ x = 0x58) → charRefCode (0x23 :: x :: ds) = (numValue 16 hexDigit? ds 0).map UInt32.ofNat) ∧
    ((x ≠ 0x78 ∧ x ≠ 0x58) → charRefCode (0x23 :: x :: ds) = (numValue 10 decDigit (x :: ds) 0).map UInt32.ofNat) :=
  ⟨charRefCode_hex x ds, charRefCode_dec x ds⟩

/-- the two observations, and an ordinary reference (`#x20AC`, `#8364` → U+20AC → `e2 82 ac`) -/
example : charRefCode [0x23, 0x78, 0x31, 0x30, 0x30, 0x30, 0x30, 0x30, 0x30, 0x34, 0x31] = some 0x41 ∧
    charRefCode [0x23, 0x78] = some 0 ∧
    appendCharRef [0x23, 0x78, 0x32, 0x30, 0x41, 0x43] = some [0xE2, 0x82, 0xAC] ∧
    appendCharRef [0x23, 0x38, 0x33, 0x36, 0x34] = some [0xE2, 0x82, 0xAC] := by decide

/-- `decodeEntities` terminates within its loop budget on every input. -/
theorem X5_decode_terminates (inp : Bytes) : decodeEntities inp ≠ .fuel := decodeEntities_ne_fuel inp

/-- **X6 (SAX dispatch).** For every subset `reg` of the nine `SaxCallbacks` members that hold a callable: the tokens handed to
callbacks are the pull token list filtered by "the member this kind is dispatched to is registered", in the same order; each
one went to the member of its own kind; a token whose member is empty is skipped (nothing is called, nothing thrown); and the
result is `true` exactly when the document is accepted. -/
theorem X6_sax_dispatch (reg : Registered) (o : Options) (bs : Bytes) :
    (runSax reg o bs).1.map (·.2) = (tokens o bs).1.filter (fun t => reg.wants t.kind) ∧
    (∀ e ∈ (runSax reg o bs).1, slotOf e.2.kind = some e.1 ∧ reg e.1 = true) ∧
    ((runSax reg o bs).2 = true ↔ ∃ t s, (tokens o bs).2 = .accepted t s) := by
  unfold runSax
  refine ⟨(filterMap_saxDispatch reg _).1, (filterMap_saxDispatch reg _).2, ?_⟩
  cases h : (tokens o bs).2 <;> simp [h]

/-- **X6 (SAX, everything registered).** With all nine members registered the callback sequence is the whole pull token list: every
token `next()` returns has a member to go to (`Eof` and `Invalid`, the two kinds without one, are never returned). -/
theorem X6_sax_is_token_list (o : Options) (bs : Bytes) :
    (runSax (fun _ => true) o bs).1.map (·.2) = (tokens o bs).1 := by
  rw [(X6_sax_dispatch _ o bs).1, List.filter_eq_self]
  intro t ht
  have := tokens_have_slot o bs t ht
  unfold Registered.wants
  cases hs : slotOf t.kind with
  | none => rw [hs] at this; cases this
  | some _ => rfl

/-- non-vacuity: on `<a>x</a>` with only `onText` registered exactly the Text token is delivered -/
example : ((runSax (fun sl => sl = .onText) {} docAXA).1.map fun e => (e.1, e.2.kind)) = [(.onText, .text)] := by
  decide +kernel

/-- **X6 (DOM).** When `DomBuilder::build` returns a document, walking it in document order gives exactly the pull token list
with names copied and attribute values / text decoded (`<a/>` and `<a></a>` both read `open, close`; DOCTYPE tokens are skipped) —
same order, same nesting. -/
theorem X6_dom_flatten (o : Options) (bs : Bytes) (ch : List Node) (h : domBuild o bs = .doc ch) :
    evsOf bs (tokens o bs).1 = some (flattenList ch) := by
  unfold domBuild domOf at h
  cases hf : domFold bs {} (tokens o bs).1 with
  | inr r =>
    rw [hf] at h
    simp only at h
    subst h
    obtain ⟨fin, hfin⟩ := tokens_sm' o bs
    have := domFold_balanced bs (tokens o bs).1 [] fin {} hfin rfl
    rw [hf] at this
    exact this.elim
  | inl d =>
    rw [hf] at h
    simp only at h
    obtain ⟨es, hes, hflat⟩ := domFold_flat bs _ _ _ hf
    cases hout : (tokens o bs).2 with
    | accepted t s =>
      rw [hout] at h
      simp only at h
      cases hop : d.open_ with
      | nil =>
        rw [hop] at h
        simp only [DomRes.doc.injEq] at h
        subst h
        rw [hes]
        simp [DomSt.flat, hop, flatOpen, flattenList] at hflat
        rw [hflat]
      | cons _ _ => rw [hop] at h; cases h
    | error e c s => rw [hout] at h; cases h
    | bad b => rw [hout] at h; cases h

/-- **X7 (faithfulness), element/attribute skeleton.** Take ANY sequence of tags — start tags, empty-element tags, end tags —
written with any formatting the supported subset allows: arbitrary white space before each tag, before each attribute, around
`=`, before `>` / `/>` and inside end tags; either quote character per attribute; raw values that do not contain their quote;
names of name characters; all within the configured limits; arbitrary trailing white space.  If the sequence is well nested
(`specRun`, a definition that never looks at the parser, yields its events `vs` and leaves nothing open), then the pull API accepts
the rendered document and reports exactly `vs`: the same elements with the same names, the same attributes with the same
values in the same order, at the same depths.  (Every document *tree* renders to such a sequence, `<a/>` or `<a></a>` per
element.)  Text, references, CDATA, comments, PIs and DOCTYPE inside the rendered document are not covered by this theorem
(see `not_proved`); they are checked differentially. -/
theorem X7_skeleton_faithful (o : Options) (ps : List Piece) (trail : Bytes) (vs : List View)
    (hwf : ∀ p ∈ ps, p.WF o) (htrail : AllSpace trail) (hbud : o.maxTokens = 0 ∨ ps.length < o.maxTokens)
    (hspec : specRun o [] ps = some (vs, [])) :
    (tokens o (renderPieces ps ++ trail)).1.map (Token.view (renderPieces ps ++ trail)) = vs ∧
    ∃ t s, (tokens o (renderPieces ps ++ trail)).2 = .accepted t s :=
  skeleton_faithful' o ps trail vs hwf htrail hbud hspec

/-- non-vacuity: ` <a b = '1'><c /></a >` with a newline after it -/
def exAttr : FAttr := { pre := [0x20], name := [0x62], ws1 := [0x20], ws2 := [0x20], quote := 0x27, value := [0x31] }
def exPieces : List Piece :=
  [⟨[0x20], .start [0x61] [exAttr] []⟩, ⟨[], .empty [0x63] [] [0x20]⟩, ⟨[], .close [0x61] [0x20]⟩]
example : (∀ p ∈ exPieces, p.WF {}) ∧ AllSpace [0x0A] ∧
    specRun {} [] exPieces = some ([⟨.startElement, [0x61], [([0x62], [0x31])], 1⟩, ⟨.emptyElement, [0x63], [], 2⟩,
      ⟨.endElement, [0x61], [], 1⟩], []) := by
  have vn : ∀ b : UInt8, isNameStart b = true → ValidName [b] := fun b h => ⟨b, [], rfl, h, by simp⟩
  have sp : AllSpace [0x20] := by intro x hx; simp at hx; subst hx; decide
  have sp0 : AllSpace [] := by intro x hx; simp at hx
  refine ⟨?_, by intro x hx; simp at hx; subst hx; decide, by decide⟩
  intro p hp
  simp only [exPieces, List.mem_cons, List.mem_nil_iff, or_false] at hp
  rcases hp with rfl | rfl | rfl
  · refine ⟨sp, vn _ (by decide), by decide, ?_, by decide, sp0⟩
    intro a ha
    simp only [List.mem_cons, List.mem_nil_iff, or_false] at ha
    subst ha
    exact ⟨sp, by decide, vn _ (by decide), by decide, sp, sp, Or.inr rfl, by decide, by decide⟩
  · exact ⟨sp0, vn _ (by decide), by decide, by simp, by decide, sp⟩
  · exact ⟨sp0, vn _ (by decide), by decide, sp⟩

/-- **X7 for element trees.** Every forest of element trees `es` (an element is `<name attrs>children</name>` or `<name attrs/>`,
attributes and white space formatted freely as above), of height within `maxDepth`, is accepted, and the pull API reports exactly
its pre-order events `eventsList 1 es` — names, attributes, values, order, nesting depth. -/
theorem X7_tree_faithful (o : Options) (es : List FElem) (trail : Bytes) (hwf : WFList o es) (htrail : AllSpace trail)
    (hh : heightList es ≤ o.maxDepth) (hbud : o.maxTokens = 0 ∨ (piecesList es).length < o.maxTokens) :
    (tokens o (renderForest es trail)).1.map (Token.view (renderForest es trail)) = eventsList 1 es ∧
    ∃ t s, (tokens o (renderForest es trail)).2 = .accepted t s :=
  forest_faithful' o es trail hwf htrail hh hbud

/-- non-vacuity: the tree `<a b = '1'><c /></a >` is the piece list of the example above -/
example : piecesList [.node [0x20] [0x61] [exAttr] [] [.leaf [] [0x63] [] [0x20]] [] [0x20]] = exPieces ∧
    heightList [.node [0x20] [0x61] [exAttr] [] [.leaf [] [0x63] [] [0x20]] [] [0x20]] = 2 := by
  constructor <;> rfl

/-- **X7 ∘ X6 (the DOM of a rendered forest is the forest).** If `DomBuilder::build` returns a document for the rendering of the
element trees `es` (any formatting, within the limits), then walking that document in document order gives exactly the
forest's own events with every attribute value entity-decoded (`viewsEvs (eventsList 1 es)`, a definition that never looks at the
parser or the builder): same elements, same attribute names, decoded values, same order and nesting. -/
theorem X7_dom_of_tree (o : Options) (es : List FElem) (trail : Bytes) (ch : List Node) (hwf : WFList o es)
    (htrail : AllSpace trail) (hh : heightList es ≤ o.maxDepth)
    (hbud : o.maxTokens = 0 ∨ (piecesList es).length < o.maxTokens)
    (h : domBuild o (renderForest es trail) = .doc ch) :
    viewsEvs (eventsList 1 es) = some (flattenList ch) := by
  have h1 := X6_dom_flatten o _ ch h
  have h2 := (forest_faithful' o es trail hwf htrail hh hbud).1
  rw [← h2, ← h1]
  symm
  apply evsOf_views
  intro t ht
  have : t.view (renderForest es trail) ∈ eventsList 1 es := by
    rw [← h2]; exact List.mem_map_of_mem ht
  exact eventsList_tags 1 es _ this

/-- **X7 (text keeps its leading white space — F29 repaired).** When the bytes after a piece of markup are white space followed
by a non-space byte other than `<`, the Text token `next()` returns starts *at the white space* and runs up to the next `<`:
nothing of the text node is dropped.  (The unrepaired `skipWhitespaceOutsideText` consumed the white space first, so that
`<a>  x y </a>` reported `"x y "` and `one <b>two</b> three` lost the space before `three`.) -/
theorem X7_leading_space_kept (o : Options) (s : St) (w r : Bytes) (x : UInt8) (hw : AllSpace w)
    (hx : isSpace x = false) (hlt : x ≠ 0x3C) (hrest : s.cur.rest = w ++ x :: r)
    (hbud : o.maxTokens = 0 ∨ s.produced < o.maxTokens) (hlen : spanLen notLt (w ++ x :: r) ≤ o.maxText) :
    ∃ t s', next o s = .tok t s' ∧ t.kind = .text ∧ t.text = ⟨s.cur.pos, spanLen notLt (w ++ x :: r)⟩ ∧
      t.offset = s.cur.pos ∧ s'.cur.pos = s.cur.pos + spanLen notLt (w ++ x :: r) :=
  next_text_keeps_leading_space' o s w r x hw hx hlt hrest hbud hlen

/-- non-vacuity and the witness of F29: `<a>  x y </a>` reports the 6-byte text `  x y ` at offset 3 -/
example : ((tokens {} [0x3C, 0x61, 0x3E, 0x20, 0x20, 0x78, 0x20, 0x79, 0x20, 0x3C, 0x2F, 0x61, 0x3E]).1.map
    fun t => (t.kind, t.text)) = [(.startElement, ⟨0, 0⟩), (.text, ⟨3, 6⟩), (.endElement, ⟨0, 0⟩)] := by decide +kernel

/-- non-vacuity of X6 (DOM): `<a>x</a>` and `<a b="1"/>` build documents -/
example : (match domBuild {} docAXA with | .doc [.elem _ [] [.text _]] => true | _ => false) = true ∧
    (match domBuild {} docAttr with | .doc [.elem _ [_] []] => true | _ => false) = true := by decide +kernel

/-! ### X7 beyond the skeleton: content tokens, documents with every node kind, the DOM that is built -/

/-- **"first occurrence" means first.** `findSub pat r = some k` says exactly: `pat` is a prefix of `r` from index `k` on, and of `r`
from no smaller index on (`startsWith` is the prefix relation, `startsWith_iff`); and the first such index is what `findSub` returns.
This is the search `readUntil` (comments, CDATA) and `_input.find("?>", _cur)` (PIs) perform. -/
theorem X7_first_occurrence (pat r : Bytes) (k : Nat) (hk : k < r.length) :
    findSub pat r = some k ↔
      ((∃ t, r.drop k = pat ++ t) ∧ ∀ j, j < k → ¬ ∃ t, r.drop j = pat ++ t) := by
  constructor
  · intro h
    obtain ⟨h1, h2⟩ := findSub_first pat r k h
    refine ⟨(startsWith_iff _ _).1 h1, ?_⟩
    intro j hj hex
    have := h2 j hj
    rw [(startsWith_iff _ _).2 hex] at this
    cases this
  · rintro ⟨h1, h2⟩
    apply findSub_of_first pat r k hk ((startsWith_iff _ _).2 h1)
    intro j hj
    cases hs : startsWith pat (r.drop j) with
    | false => rfl
    | true => exact (h2 j hj ((startsWith_iff _ _).1 hs)).elim

/-- **Comment token, exactly.** In any state consistent with the input, when the unread input is white space, `<!--` and then `r`:
if `-->` occurs in `r`, `next()` returns a Comment token whose text is the slice of `r` up to the FIRST `-->` (offset and length
stated), the cursor stands right after that `-->`, depth/stack are untouched and one token is counted; if `-->` does not occur the
call fails with "unterminated comment". -/
theorem next_comment_exact (bs : Bytes) (o : Options) (s : St) (lead r : Bytes) (hi : SkInv bs o s) (hlead : AllSpace lead)
    (hrest : s.cur.rest = lead ++ 0x3C :: 0x21 :: 0x2D :: 0x2D :: r) (hbud : o.maxTokens = 0 ∨ s.produced < o.maxTokens) :
    match findSub [0x2D, 0x2D, 0x3E] r with
    | some k => ∃ t s', next o s = .tok t s' ∧
        ContentStep bs o s t s' .comment (s.cur.pos + lead.length) (s.cur.pos + lead.length + 4) (r.take k) (r.drop (k + 3)) ∧
        t.name = ⟨0, 0⟩
    | none => ∃ c, next o s = .err .unterminatedComment c := by
  rw [next_eq]; exact next_comment bs o s lead r hi hlead hrest hbud

/-- **CDATA token, exactly**: the slice up to the FIRST `]]>` after `<![CDATA[`. -/
theorem next_cdata_exact (bs : Bytes) (o : Options) (s : St) (lead r : Bytes) (hi : SkInv bs o s) (hlead : AllSpace lead)
    (hrest : s.cur.rest = lead ++ 0x3C :: 0x21 :: 0x5B :: 0x43 :: 0x44 :: 0x41 :: 0x54 :: 0x41 :: 0x5B :: r)
    (hbud : o.maxTokens = 0 ∨ s.produced < o.maxTokens) :
    match findSub [0x5D, 0x5D, 0x3E] r with
    | some k => ∃ t s', next o s = .tok t s' ∧
        ContentStep bs o s t s' .cdata (s.cur.pos + lead.length) (s.cur.pos + lead.length + 9) (r.take k) (r.drop (k + 3)) ∧
        t.name = ⟨0, 0⟩
    | none => ∃ c, next o s = .err .unterminatedCData c := by
  rw [next_eq]; exact next_cdata bs o s lead r hi hlead hrest hbud

/-- **PI token, exactly**: name = the target, text = everything after the target up to the FIRST `?>` (separator white space
included). -/
theorem next_pi_exact (bs : Bytes) (o : Options) (s : St) (lead target d : Bytes) (hi : SkInv bs o s) (hlead : AllSpace lead)
    (hn : ValidName target) (hnl : target.length ≤ o.maxName) (hd : StartsNon isNameChar d)
    (hrest : s.cur.rest = lead ++ 0x3C :: 0x3F :: (target ++ d)) (hbud : o.maxTokens = 0 ∨ s.produced < o.maxTokens) :
    match findSub [0x3F, 0x3E] d with
    | some k => ∃ t s', next o s = .tok t s' ∧
        ContentStep bs o s t s' .pi (s.cur.pos + lead.length) (s.cur.pos + lead.length + 2 + target.length) (d.take k)
          (d.drop (k + 2)) ∧ t.name = ⟨s.cur.pos + lead.length + 2, target.length⟩ ∧ t.name.bytes bs = target
    | none => ∃ c, next o s = .err .unterminatedPi c := by
  rw [next_eq]; exact next_pi bs o s lead target d hi hlead hn hnl hd hrest hbud

/-- **DOCTYPE token, exactly**: the keyword in any letter case followed by a boundary byte (white space — CR included —, `>` or `[`);
text = the slice up to the first `>` outside `[...]` (`doctypeScan`). -/
theorem next_doctype_exact (bs : Bytes) (o : Options) (s : St) (lead kw d' : Bytes) (x : UInt8) (hi : SkInv bs o s)
    (hlead : AllSpace lead) (hkw : startsWithCI doctypeWord kw = true) (hkwl : kw.length = 7)
    (hx : (isSpace x || x = 0x3E || x = 0x5B) = true)
    (hrest : s.cur.rest = lead ++ 0x3C :: 0x21 :: (kw ++ x :: d')) (hbud : o.maxTokens = 0 ∨ s.produced < o.maxTokens) :
    match doctypeScan (x :: d') 0 with
    | some k => ∃ t s', next o s = .tok t s' ∧
        ContentStep bs o s t s' .doctype (s.cur.pos + lead.length) (s.cur.pos + lead.length + 9) ((x :: d').take k)
          ((x :: d').drop (k + 1)) ∧ t.name = ⟨0, 0⟩
    | none => ∃ c, next o s = .err .unterminatedDoctype c := by
  rw [next_eq]; exact next_doctype bs o s lead kw d' x hi hlead hkw hkwl hx hrest hbud

/-- **Text token, exactly**: a run `raw` without `<` that contains a byte that is not white space, within `maxTextSpan`, followed by
`<` or the end of the input, is ONE Text token with exactly the bytes `raw` — leading and trailing white space included. -/
theorem next_text_exact (bs : Bytes) (o : Options) (s : St) (raw after : Bytes) (hi : SkInv bs o s)
    (hraw : ∀ x ∈ raw, x ≠ 0x3C) (hns : ∃ x ∈ raw, isSpace x = false) (hafter : StartsNon notLt after)
    (hrest : s.cur.rest = raw ++ after) (hbud : o.maxTokens = 0 ∨ s.produced < o.maxTokens) (hlen : raw.length ≤ o.maxText) :
    ∃ t s', next o s = .tok t s' ∧ ContentStep bs o s t s' .text s.cur.pos s.cur.pos raw after ∧ t.name = ⟨0, 0⟩ := by
  rw [next_eq]; exact next_text bs o s raw after hi hraw hns hafter hrest hbud hlen

/-- non-vacuity, and the FIRST occurrence made visible: in `<a><!--x-->--></a>` the comment is `x` (slice 7+1), and the second
`-->` is reported as text; in `<a><![CDATA[]]]]>]]></a>` the section is `]]` (slice 12+2, ended by the first `]]>`), then the text `]]>`. -/
example : ((tokens {} [0x3C, 0x61, 0x3E, 0x3C, 0x21, 0x2D, 0x2D, 0x78, 0x2D, 0x2D, 0x3E, 0x2D, 0x2D, 0x3E, 0x3C, 0x2F, 0x61, 0x3E]).1.map
    fun t => (t.kind, t.text)) = [(.startElement, ⟨0, 0⟩), (.comment, ⟨7, 1⟩), (.text, ⟨11, 3⟩), (.endElement, ⟨0, 0⟩)] := by
  decide +kernel
example : ((tokens {} [0x3C, 0x61, 0x3E, 0x3C, 0x21, 0x5B, 0x43, 0x44, 0x41, 0x54, 0x41, 0x5B, 0x5D, 0x5D, 0x5D, 0x5D, 0x3E, 0x5D, 0x5D,
    0x3E, 0x3C, 0x2F, 0x61, 0x3E]).1.map fun t => (t.kind, t.text)) =
    [(.startElement, ⟨0, 0⟩), (.cdata, ⟨12, 2⟩), (.text, ⟨17, 3⟩), (.endElement, ⟨0, 0⟩)] := by
  decide +kernel

/-- **X7 in full (faithfulness for every node kind).** Take ANY sequence of constructs — tags with any formatting (as in
`X7_skeleton_faithful`), text runs, CDATA sections, comments, processing instructions, DOCTYPE declarations — each within the
supported subset (`CItem.WF`: text without `<` containing a byte that is not white space; CDATA / comment / PI bodies that do not
contain their terminator; a readable PI target; DOCTYPE in any letter case with a `>`-free or bracketed body), formatting white
space before every construct except text, every text run followed directly by markup or the end (`TextOk`), trailing white space.
If the tag structure is well nested (`specRunC`, which never looks at the parser, yields the events `vs` and leaves nothing open)
then the pull API accepts the rendered document and reports exactly `vs`: every element, attribute, text run, CDATA section,
comment, PI (target and data) and DOCTYPE body, byte for byte, in document order, at its depth.  The formatting white space
(`lead`, `trail`) produces NO event: white-space-only character data between markup is not reported by this parser — such text
nodes are outside the supported subset (see the level note); every other text node is reported whole. -/
theorem X7_content_faithful (o : Options) (ps : List CPiece) (trail : Bytes) (vs : List CView)
    (hwf : ∀ p ∈ ps, p.WF o) (htext : TextOk ps trail) (htrail : AllSpace trail)
    (hbud : o.maxTokens = 0 ∨ ps.length < o.maxTokens) (hspec : specRunC o [] ps = some (vs, [])) :
    (tokens o (renderC ps ++ trail)).1.map (Token.cview (renderC ps ++ trail)) = vs ∧
    ∃ t s, (tokens o (renderC ps ++ trail)).2 = .accepted t s :=
  content_faithful' o ps trail vs hwf htext htrail hbud hspec

/-- **X7 for document trees with every node kind.** Every forest of trees `es` — elements with attributes and children, text,
CDATA, comments, PIs, DOCTYPE, each formatted freely within the supported subset — of height within `maxDepth` is accepted, and the
pull API reports exactly its pre-order events `ceventsList 1 es`. -/
theorem X7_document_faithful (o : Options) (es : List CElem) (trail : Bytes) (hwf : CWFList o es)
    (htext : TextOk (cpiecesList es) trail) (htrail : AllSpace trail)
    (hh : cheightList es ≤ o.maxDepth) (hbud : o.maxTokens = 0 ∨ (cpiecesList es).length < o.maxTokens) :
    (tokens o (renderDoc es trail)).1.map (Token.cview (renderDoc es trail)) = ceventsList 1 es ∧
    ∃ t s, (tokens o (renderDoc es trail)).2 = .accepted t s :=
  doc_faithful' o es trail hwf htext htrail hh hbud

/-- **The boundary of the supported subset, stated as a theorem (review F3).** Character data that consists of white space only is
NOT reported: for every white-space run `w`, every readable name and all option values that allow one element, the pull API reports
`<n>w</n>` exactly as it reports `<n></n>` — a start tag and an end tag, no Text token — and accepts it.  (A text run that contains
any other byte is reported whole, white space included: `next_text_exact`; a text whose DECODED value is white space only, such as
`&#32;`, is a Text token and a DOM Text node.)  For mixed content this means that the space in `<b>x</b> <i>y</i>` is lost
(candidate finding FC14b: see `X7_all_text_statement` / `_refuted` / `_partial` below).  Reporting white space inside elements would
add Text tokens and DOM nodes to every pretty-printed document; it is the documented behaviour of `skipWhitespaceOutsideText`
("only skip if the next thing is markup or the end of input") and is treated here as the boundary of the supported subset. -/
theorem X7_space_only_text_not_reported (o : Options) (n w : Bytes) (hn : ValidName n) (hnl : n.length ≤ o.maxName)
    (hw : AllSpace w) (hd : 1 ≤ o.maxDepth) (hbud : o.maxTokens = 0 ∨ 2 < o.maxTokens) :
    (tokens o (0x3C :: (n ++ 0x3E :: (w ++ 0x3C :: 0x2F :: (n ++ [0x3E]))))).1.map
        (Token.cview (0x3C :: (n ++ 0x3E :: (w ++ 0x3C :: 0x2F :: (n ++ [0x3E]))))) =
      [⟨.startElement, n, [], [], 1⟩, ⟨.endElement, n, [], [], 1⟩] ∧
    ∃ t s, (tokens o (0x3C :: (n ++ 0x3E :: (w ++ 0x3C :: 0x2F :: (n ++ [0x3E]))))).2 = .accepted t s := by
  have sp0 : AllSpace [] := by intro x hx; simp at hx
  have h := content_faithful' o [⟨[], .tag (.start n [] [])⟩, ⟨w, .tag (.close n [])⟩] []
    [⟨.startElement, n, [], [], 1⟩, ⟨.endElement, n, [], [], 1⟩]
    (by
      intro p hp
      simp only [List.mem_cons, List.mem_nil_iff, or_false] at hp
      rcases hp with rfl | rfl
      · exact ⟨sp0, hn, hnl, by simp, by simp, sp0⟩
      · exact ⟨hw, hn, hnl, sp0⟩)
    (by simp [TextOk, CItem.isText]) sp0 (by simpa using hbud)
    (by simp [specRunC, hd])
  have hr : renderC [⟨[], .tag (.start n [] [])⟩, ⟨w, .tag (.close n [])⟩] ++ [] =
      0x3C :: (n ++ 0x3E :: (w ++ 0x3C :: 0x2F :: (n ++ [0x3E]))) := by
    simp [renderC, CItem.render, Item.render, renderAttrs]
  rw [hr] at h
  exact h

/-- `<a>raw</a>` -/
def docAText (raw : Bytes) : Bytes := 0x3C :: 0x61 :: 0x3E :: (raw ++ [0x3C, 0x2F, 0x61, 0x3E])

/-- the text clause of X7 WITHOUT the restriction of the supported subset: every non-empty run of character data without `<` —
white-space-only runs included, as XML 1.0 §2.10 asks of a processor — is reported as a Text token with exactly its bytes -/
def X7_all_text_statement : Prop :=
  ∀ raw : Bytes, raw ≠ [] → (∀ x ∈ raw, x ≠ 0x3C) → raw.length ≤ ({} : Options).maxText →
    (tokens {} (docAText raw)).1.map (Token.cview (docAText raw)) =
      [⟨.startElement, [0x61], [], [], 1⟩, ⟨.text, [], raw, [], 1⟩, ⟨.endElement, [0x61], [], [], 1⟩]

/-- refuted by `<a> </a>`: no Text token (candidate finding FC14b; the check treats it as the boundary of the supported subset) -/
theorem X7_all_text_refuted : ¬ X7_all_text_statement := by
  intro h
  have := h [0x20] (by simp) (by decide) (by decide)
  revert this
  decide +kernel

/-- the strongest true form: the same statement for every run that contains a byte that is not white space -/
theorem X7_all_text_partial (raw : Bytes) (hraw : ∀ x ∈ raw, x ≠ 0x3C) (hns : ∃ x ∈ raw, isSpace x = false)
    (hlen : raw.length ≤ ({} : Options).maxText) :
    (tokens {} (docAText raw)).1.map (Token.cview (docAText raw)) =
      [⟨.startElement, [0x61], [], [], 1⟩, ⟨.text, [], raw, [], 1⟩, ⟨.endElement, [0x61], [], [], 1⟩] := by
  have sp0 : AllSpace [] := by intro x hx; simp at hx
  have vn : ValidName [0x61] := ⟨0x61, [], rfl, by decide, by simp⟩
  have h := content_faithful' {} [⟨[], .tag (.start [0x61] [] [])⟩, ⟨[], .text raw⟩, ⟨[], .tag (.close [0x61] [])⟩] []
    [⟨.startElement, [0x61], [], [], 1⟩, ⟨.text, [], raw, [], 1⟩, ⟨.endElement, [0x61], [], [], 1⟩]
    (by
      intro p hp
      simp only [List.mem_cons, List.mem_nil_iff, or_false] at hp
      rcases hp with rfl | rfl | rfl
      · exact ⟨sp0, vn, by decide, by simp, by simp, sp0⟩
      · exact ⟨sp0, hraw, hns, hlen⟩
      · exact ⟨sp0, vn, by decide, sp0⟩)
    (by
      simp only [TextOk, CItem.isText, Bool.false_eq_true, false_implies, true_and, and_true, forall_const]
      intro x r hx
      simp [renderC, CItem.render, Item.render] at hx
      rw [← hx.1]; decide)
    sp0 (Or.inl rfl) (by simp [specRunC]; decide)
  have hr : renderC [⟨[], .tag (.start [0x61] [] [])⟩, ⟨[], .text raw⟩, ⟨[], .tag (.close [0x61] [])⟩] ++ [] = docAText raw := by
    simp [renderC, CItem.render, Item.render, renderAttrs, docAText]
  rw [hr] at h
  exact h.1

/-- **X7 (the DOM is built, and is the document).** For ARBITRARY bytes: if the document is accepted and every attribute value and
every text run decodes (`evsOf … = some es`: the token list read as document-order events with values decoded), then
`DomBuilder::build` returns a document — it has no other way to fail — and walking it in document order gives exactly `es`. -/
theorem X7_dom_built (o : Options) (bs : Bytes) (t : Token) (s : St) (es : List Ev) (hacc : (tokens o bs).2 = .accepted t s)
    (hdec : evsOf bs (tokens o bs).1 = some es) : ∃ ch, domBuild o bs = .doc ch ∧ flattenList ch = es :=
  dom_built o bs t s es hacc hdec

/-- **X7 ∘ X6 for document trees.** For a rendered forest with every node kind (hypotheses of `X7_document_faithful`): if the
forest's own events decode (`cviewsEvs (ceventsList 1 es) = some evs` — attribute values and text runs entity-decoded, DOCTYPE
dropped, a text that decodes to nothing dropped; a definition that looks neither at the parser nor at the builder) then the DOM IS
built and, walked in document order, is exactly `evs`. -/
theorem X7_dom_of_document (o : Options) (es : List CElem) (trail : Bytes) (evs : List Ev) (hwf : CWFList o es)
    (htext : TextOk (cpiecesList es) trail) (htrail : AllSpace trail)
    (hh : cheightList es ≤ o.maxDepth) (hbud : o.maxTokens = 0 ∨ (cpiecesList es).length < o.maxTokens)
    (hdec : cviewsEvs (ceventsList 1 es) = some evs) :
    ∃ ch, domBuild o (renderDoc es trail) = .doc ch ∧ flattenList ch = evs := by
  obtain ⟨h1, t, s, h2⟩ := doc_faithful' o es trail hwf htext htrail hh hbud
  apply dom_built o _ t s evs h2
  rw [evsOf_cviews, h1]
  exact hdec

/-- non-vacuity of the full X7: the document `<!DOCTYPE a><a> x<!--c--><![CDATA[d]]><?p q?></a>` + newline as a tree -/
def exDoc : List CElem :=
  [.doctype [] doctypeWord [0x20, 0x61],
   .node [] [0x61] [] [] [.text [0x20, 0x78], .comment [] [0x63], .cdata [] [0x64], .pi [] [0x70] [0x20, 0x71]] [] []]
example : CWFList {} exDoc ∧ TextOk (cpiecesList exDoc) [0x0A] ∧ AllSpace [0x0A] ∧ cheightList exDoc = 1 ∧
    ceventsList 1 exDoc = [⟨.doctype, [], [0x20, 0x61], [], 0⟩, ⟨.startElement, [0x61], [], [], 1⟩, ⟨.text, [], [0x20, 0x78], [], 1⟩,
      ⟨.comment, [], [0x63], [], 1⟩, ⟨.cdata, [], [0x64], [], 1⟩, ⟨.pi, [0x70], [0x20, 0x71], [], 1⟩, ⟨.endElement, [0x61], [], [], 1⟩] ∧
    cviewsEvs (ceventsList 1 exDoc) = some [.open_ [0x61] [], .text [0x20, 0x78], .comment [0x63], .cdata [0x64],
      .pi [0x70] [0x20, 0x71], .close] := by
  have vn : ∀ b : UInt8, isNameStart b = true → ValidName [b] := fun b h => ⟨b, [], rfl, h, by simp⟩
  have sp0 : AllSpace [] := by intro x hx; simp at hx
  have nl : AllSpace [0x0A] := by intro x hx; simp at hx; subst hx; decide
  refine ⟨?_, ?_, nl, by decide, by decide, by decide +kernel⟩
  · refine ⟨⟨sp0, by decide, by decide, by decide, ?_⟩, ⟨sp0, vn _ (by decide), by decide, by simp, by decide, sp0, ?_, sp0, sp0⟩, trivial⟩
    · intro x r h; cases h; decide
    · refine ⟨⟨?_, ⟨0x78, by simp, by decide⟩, by decide⟩, ⟨sp0, by simp only [CItem.WF]; decide⟩, ⟨sp0, by simp only [CItem.WF]; decide⟩, ⟨sp0, vn _ (by decide), by decide, ?_, by decide⟩, trivial⟩
      · intro x hx; simp at hx; rcases hx with rfl | rfl <;> decide
      · intro x r h; cases h; decide
  · simp only [exDoc, cpiecesList, CElem.pieces, List.cons_append, List.nil_append, List.append_nil, TextOk, CItem.isText,
      Bool.false_eq_true, false_implies, true_and, and_true, forall_const]
    intro x r h
    simp [renderC, CItem.render, commentEnd] at h
    rw [← h.1]; decide

/-- **`Node::~Node` as repaired (FC14a).** Destroying a node runs the work-list loop over its subtree: the loop lets go of every node of
the subtree EXACTLY ONCE (the dropped nodes are a permutation of the pre-order listing of all descendants — nothing leaked, nothing
freed twice), in exactly as many iterations as there are descendants, and every node is childless at the moment it is dropped, so
its implicit member destruction never recurses — whatever the nesting depth.  (The loop mirrored is the regenerated
`Gen.Xml.nodeDtorBody`; the implicit destructor this replaced recursed once per nesting level.) -/
theorem X8_destructor_visits_once (n : Node) :
    ((n.destroy).map (·.node)).Perm (n.labels) ∧ n.destroy.length = n.size ∧
    ∀ d ∈ n.destroy, d.kidsLeft = 0 ∧ d.node.kids = [] := by
  have hp := destroyLoop_perm (sizeList n.kids) n.kids (Nat.le_refl _)
  have hperm : ((n.destroy).map (·.node)).Perm (n.labels) := by
    rw [Node.labels_eq]
    simp only [Node.destroy, List.map_append, List.map_cons, List.map_nil]
    exact (List.perm_append_comm).trans (List.Perm.cons _ hp)
  refine ⟨hperm, ?_, ?_⟩
  · have := hperm.length_eq
    simp only [List.length_map] at this
    rw [this]
    have h2 := (mutual_len [n]).2 n (by simp)
    exact h2
  · intro d hd
    simp only [Node.destroy, List.mem_append, List.mem_cons, List.mem_nil_iff, or_false] at hd
    rcases hd with hd | rfl
    · exact destroyLoop_childless _ _ d hd
    · exact ⟨rfl, by cases n <;> rfl⟩

/-- non-vacuity: the DOM of `<a><b><c/></b>x</a>` is destroyed in 4 drops (3 loop iterations, then the node itself), each of a childless node -/
example : ((Node.elem [0x61] [] [.elem [0x62] [] [.elem [0x63] [] []], .text [0x78]]).destroy.map fun d => d.node.size) = [1, 1, 1, 1] := by
  decide

/-- **The two builds (`IORA_XML_THROW_ON_ERROR` = 0 and 1).** Every theorem above quantifies over `Options` including `throwing`, so
each holds for both builds.  This one relates them: for arbitrary bytes and option values, one call of `next()` gives the same token
and state in both builds, and a whole document gives exactly the same token list and ends the same way — the exception of the throwing
build carries the error the default build records, at the same cursor — with ONE exception: where the default build reports
"invalid start tag / end tag / attribute name / PI target" for a name longer than `maxNameLength`, the throwing build reports
"name too long" (`readName`'s own `fail()` ends the call before the caller can substitute its message).  SAX delivers the same events; `DomBuilder::build` returns the same value, or lets
the exception out where the default build returns `nullptr` with the tokenizer's error. -/
theorem X9_throwing_build (o : Options) (bs : Bytes) :
    (∀ s : St, SRel (next o s) (next o.thr s)) ∧
    (tokens o.thr bs).1 = (tokens o bs).1 ∧ ORel (tokens o bs).2 (tokens o.thr bs).2 ∧
    -- SAX: the same callbacks with the same tokens, for every subset of registered members
    (∀ reg, (runSax reg o.thr bs).1 = (runSax reg o bs).1) ∧
    -- DOM: a returned value is the default build's value; an exception stands for the default build's `nullptr` + tokenizer error
    (match domBuildT o bs with
     | .ret r => domBuild o bs = r
     | .thrown e c => ∃ e', domBuild o bs = .null e' c.pos c.line c.col ∧ (e = e' ∨ (e'.isNameErr = true ∧ e = .nameTooLong))) :=
  ⟨next_thr o, (tokens_thr o bs).1, (tokens_thr o bs).2, fun reg => runSax_thr reg o bs, domBuildT_spec o bs⟩

/-- non-vacuity: `<abc>` with `maxNameLength = 2`: "invalid start tag name" in the default build, "name too long" when throwing,
both at offset 4 -/
example : (match (tokens { maxName := 2 } [0x3C, 0x61, 0x62, 0x63, 0x3E]).2 with
      | .error .badStartName c _ => c.pos == 4 | _ => false) = true ∧
    (match (tokens ({ maxName := 2 } : Options).thr [0x3C, 0x61, 0x62, 0x63, 0x3E]).2 with
      | .error .nameTooLong c _ => c.pos == 4 | _ => false) = true := by decide +kernel

/-- **Qualified names.** `Token::splitQName` splits a name at its FIRST colon: a result `(k, l)` means `name = prefix ++ ":" ++ local`
with `|prefix| = k`, `|local| = l` and no colon in the prefix; no result means the name has no colon; and every
`prefix:local` with a colon-free prefix splits back into exactly those two parts. -/
theorem N1_splitQName (name pre loc : Bytes) :
    (∀ k l, splitQName name = some (k, l) →
      ∃ p q, name = p ++ 0x3A :: q ∧ p.length = k ∧ q.length = l ∧ 0x3A ∉ p) ∧
    (splitQName name = none → 0x3A ∉ name) ∧
    (0x3A ∉ pre → splitQName (pre ++ 0x3A :: loc) = some (pre.length, loc.length)) :=
  ⟨splitQName_some name, splitQName_none name, splitQName_roundtrip pre loc⟩

/-- membership in the character classes the translator read off `isNameStart` / `isNameChar` -/
def inClass (singles : List Nat) (ranges : List (Nat × Nat)) (n : Nat) : Bool :=
  singles.contains n || ranges.any fun r => decide (r.1 ≤ n) && decide (n ≤ r.2)

/-- **Gen conformance.** What the translator regenerates from `xml.hpp` on every run is what the model uses: the `TokenKind`
enumerators and their values, the `Options` defaults, the two option fields nobody reads, the predefined-entity chain, the
white-space set (all three written-out copies: `skipSpaces`, `skipWhitespaceOutsideText`, the DOCTYPE word boundary), both
name-character classes, the UTF-8 range bounds and the surrogate range, every error message, every raw read of the input with the guard
that dominates it, `eof()`, the compile-time throw switch, every test of an `Options` member, the `switch` of `runSax`, and the
`switch` of `DomBuilder::build` (node type per token kind, decoded-into-a-fresh-string vs. raw values, the guard on Text nodes). -/
theorem gen_conformance :
    Gen.Xml.tokenKinds = Kind.all.map (fun k => (k.cxxName, k.toNat)) ∧
    (({} : Options).maxDepth, ({} : Options).maxAttrs, ({} : Options).maxName, ({} : Options).maxText, ({} : Options).maxTokens) =
      (Gen.Xml.defaultMaxDepth, Gen.Xml.defaultMaxAttrsPerElement, Gen.Xml.defaultMaxNameLength, Gen.Xml.defaultMaxTextSpan,
       Gen.Xml.defaultMaxTotalTokens) ∧
    Gen.Xml.unusedOptionFields = ["permissive", "namespaceProcessing"] ∧
    Gen.Xml.entityBytes.map (fun e => (e.1.map UInt8.ofNat, UInt8.ofNat e.2)) = fiveEntities ∧
    (∀ n, n < 256 → isSpace (UInt8.ofNat n) = Gen.Xml.whitespace.contains n) ∧
    (∀ n, n < 256 → isNameStart (UInt8.ofNat n) = inClass Gen.Xml.nameStartSingles Gen.Xml.nameStartRanges n) ∧
    (∀ n, n < 256 → isNameChar (UInt8.ofNat n) =
      (inClass Gen.Xml.nameStartSingles Gen.Xml.nameStartRanges n || inClass Gen.Xml.nameCharSingles Gen.Xml.nameCharRanges n)) ∧
    Gen.Xml.utf8Bounds = [0x7F, 0x7FF, 0xFFFF, 0x10FFFF] ∧ Gen.Xml.surrogateLo = 0xD800 ∧ Gen.Xml.surrogateHi = 0xDFFF ∧
    Gen.Xml.errorMessages = ErrKind.all.map ErrKind.message ∧
    Gen.Xml.readSites = readSites ∧
    -- the two separately written copies of the white-space test, and the DOCTYPE word boundary
    (∀ n, n < 256 → isSpace (UInt8.ofNat n) = Gen.Xml.whitespaceOutsideText.contains n) ∧
    (∀ n, n < 256 → (isSpace (UInt8.ofNat n) || UInt8.ofNat n = 0x3E || UInt8.ofNat n = 0x5B) = Gen.Xml.doctypeBoundary.contains n) ∧
    Gen.Xml.eofBody = "return _cur >= _input.size();" ∧
    -- the default build does not throw; `Options.throwing` is defined from the regenerated default
    Gen.Xml.throwOnErrorDefault = 0 ∧ ({} : Options).throwing = false ∧
    -- `decodeEntities` clears its output first (the model's decoder starts from the empty output), and `DomBuilder::build` decodes
    -- every value into a fresh string, copies CDATA/comment/PI text raw, and keeps a Text node iff the decoded value is non-empty
    Gen.Xml.decodeFirstStatement = "out.clear();" ∧
    Gen.Xml.domCases = domCases ∧
    Gen.Xml.saxSwitch = saxSwitch ∧
    Gen.Xml.limitTests = limitTests ∧
    Gen.Xml.decodeReadSites = decodeReadSites ∧
    Gen.Xml.nodeDtorBody = nodeDtorBody := by
  refine ⟨by decide, by decide, by decide, by decide, by decide +kernel, by decide +kernel, by decide +kernel, by decide, by decide, by decide,
    by decide, by decide +kernel, by decide +kernel, by decide +kernel, by decide, by decide, by decide, by decide, by decide +kernel,
    by decide +kernel, by decide +kernel, by decide +kernel⟩

end Iora.C14
