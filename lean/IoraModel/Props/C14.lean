import IoraModel.Lemmas.Xml
import IoraModel.Lemmas.XmlEntities
import IoraModel.Lemmas.XmlDom
import IoraModel.Lemmas.XmlRender
import IoraModel.Lemmas.XmlTransfer
/-!
# C14 — The XML parser accepts only balanced documents and reports them faithfully

Property theorems only (helper lemmas live in `Lemmas/Xml*.lean`).  The model is `Model/Xml.lean` (the tokenizer **as repaired
for F29**); constants come from the regenerated `Gen/Xml.lean`.  `tokens o bs` is the whole pull API on the document `bs` with
options `o`: the list of tokens `next()` returned true for, and how the run ended.
-/
namespace Iora.C14
open Iora Iora.Xml

/-- the document `<a>x</a>` and a few others used by the non-vacuity examples -/
def docAXA : Bytes := [0x3C, 0x61, 0x3E, 0x78, 0x3C, 0x2F, 0x61, 0x3E]
/-- `<a b="1"/>` -/
def docAttr : Bytes := [0x3C, 0x61, 0x20, 0x62, 0x3D, 0x22, 0x31, 0x22, 0x2F, 0x3E]
/-- `<a></b>` -/
def docMismatch : Bytes := [0x3C, 0x61, 0x3E, 0x3C, 0x2F, 0x62, 0x3E]

/-- **X1 (balance).** For ARBITRARY bytes and all option values: if the document is accepted (Eof emitted, no error) then its
token list is well nested — every start tag is closed by an end tag with a byte-equal name, in proper nesting (`Nest` is the
grammar `ε | other·N | start·N·end·N`, stated without any stack). -/
theorem X1_balanced (o : Options) (bs : Bytes) (ts : List Token) (t : Token) (s : St)
    (h : tokens o bs = (ts, .accepted t s)) : Nest bs ts := by
  have := (tokens_ok' o bs).stack
  rw [h] at this
  exact sm_nest bs ts this

/-- non-vacuity: `<a>x</a>` is accepted with the tokens Start, Text, End; `<a></b>` is not accepted -/
example : (tokens {} docAXA).1.map (·.kind) = [.startElement, .text, .endElement] ∧
    (match (tokens {} docAXA).2 with | .accepted _ _ => true | _ => false) = true := by decide +kernel
example : (match (tokens {} docMismatch).2 with | .error .mismatch _ _ => true | _ => false) = true := by decide

/-- **X1 (DOM).** `DomBuilder::build` run on the tokenizer's own output never takes its "unbalanced end element" exit and never
finishes with open elements: its result is a document (only for an accepted input), the tokenizer's error, or a value that
does not decode.  Never one of the two DOM-only errors, never an out-of-range read. -/
theorem X1_dom_never_unbalanced (o : Options) (bs : Bytes) :
    match domBuild o bs with
    | .doc _ => ∃ t s, (tokens o bs).2 = .accepted t s
    | .null e _ _ _ => e.isDom = false
    | .bad _ => False := by
  have hok := tokens_ok' o bs
  unfold domBuild domOf
  cases hout : (tokens o bs).2 with
  | accepted t s =>
    have hst := hok.stack
    rw [hout] at hst
    have := domFold_balanced bs (tokens o bs).1 [] [] {} hst rfl
    cases hf : domFold bs {} (tokens o bs).1 with
    | inl d =>
      rw [hf] at this
      simp only at this ⊢
      cases hop : d.open_ with
      | nil => simp only; exact ⟨t, s, rfl⟩
      | cons _ _ => rw [hop] at this; simp at this
    | inr r =>
      rw [hf] at this
      cases r with
      | doc _ => exact this.elim
      | null e _ _ _ => simp only at this ⊢; cases e <;> simp_all [ErrKind.isDecode, ErrKind.isDom]
      | bad _ => exact this.elim
  | error e c s =>
    have hst := hok.stack
    have hfin := hok.final
    rw [hout] at hst hfin
    have := domFold_balanced bs (tokens o bs).1 [] s.stack {} hst rfl
    cases hf : domFold bs {} (tokens o bs).1 with
    | inl d => simp only; exact hfin.2.2.2
    | inr r =>
      rw [hf] at this
      cases r with
      | doc _ => exact this.elim
      | null e _ _ _ => simp only at this ⊢; cases e <;> simp_all [ErrKind.isDecode, ErrKind.isDom]
      | bad _ => exact this.elim
  | bad b => exact (hok.notBad b hout).elim

/-- **X2 (slices).** For arbitrary bytes: every slice reported in every token — name, text, every attribute name and value — and
the token's own offset lie inside the input; the Eof token sits at the end of the input and an error offset is inside it. -/
theorem X2_slices_in_bounds (o : Options) (bs : Bytes) :
    (∀ t ∈ (tokens o bs).1, t.Below bs.length) ∧
    (match (tokens o bs).2 with
     | .accepted t _ => t.offset = bs.length
     | .error _ c _ => c.pos ≤ bs.length
     | .bad _ => False) := by
  have hok := tokens_ok' o bs
  refine ⟨hok.below, ?_⟩
  have hf := hok.final
  cases hout : (tokens o bs).2 with
  | accepted t s => rw [hout] at hf; exact hf.2.1
  | error e c s => rw [hout] at hf; exact hf.1
  | bad b => exact (hok.notBad b hout).elim

/-- **X2 (the reads are indexed reads of the input, the guards comparisons with its size).** In a state whose cursor is
consistent with the input `bs`, `peek()` is `bs[_cur]?`, `_input[_cur + i]` is `bs[_cur + i]?` — `none`, which every caller turns
into `bad oob`, exactly when the index is `≥ size` — and the guards `eof()` and `_cur + i >= size` are those comparisons. -/
theorem X2_reads_are_indexed (bs : Bytes) (c : Cur) (h : c.At bs) (i : Nat) :
    c.peek = bs[c.pos]? ∧ c.at i = bs[c.pos + i]? ∧ (c.at i = none ↔ bs.length ≤ c.pos + i) ∧
    (c.eof = true ↔ bs.length ≤ c.pos) ∧ (c.beyond i = true ↔ bs.length ≤ c.pos + i) := by
  refine ⟨?_, Cur.at_eq_get h i, ?_, Cur.eof_iff h, Cur.beyond_iff h i⟩
  · rw [Cur.peek_eq_at, Cur.at_eq_get h 0]; simp
  · rw [Cur.at_eq_get h i]; simp

/-- **X2 (no out-of-range read).** The tokenizer of `Model/Xml.lean` performs every read the C++ performs — `peek()`, `advance()`,
`_input[_cur + i]`, `_input[pos]` — as a partial function, under exactly the guards the C++ has (`Gen.Xml.readSites`, regenerated
from the header, lists each read with its guard; `gen_conformance` ties it to the table the model implements); an unguarded or
wrongly guarded read at the end of the input yields `bad oob`, an exhausted loop budget `bad fuel`, the `sv.empty()` re-entry of
`readText` `bad dead`.  None of them happens: not in a single `next()` from any state whose cursor is consistent with the input
(arbitrary bytes, arbitrary position, all option values), and not in a whole run.  (The proof goes through function-by-function
equations between the explicit loops and their closed forms, `Lemmas/XmlExplicit.lean`; dropping a guard from the model breaks
the corresponding equation.) -/
theorem X2_no_oob_read (o : Options) (bs : Bytes) :
    (∀ s : St, s.cur.At bs → ∀ b, next o s ≠ .bad b) ∧ (∀ b, (tokens o bs).2 ≠ .bad b) := by
  refine ⟨?_, (tokens_ok' o bs).notBad⟩
  intro s hat b h
  have := next_sat' bs o s hat
  rw [h] at this
  exact this

/-- the outcome is not vacuous: at the end of the input the read primitives do answer "out of range" (`advance()` on an exhausted
cursor is `bad oob`, `peek()` and `_input[_cur + 0]` are `none`) — it is the guards that keep `next` away from them -/
example : (match advR 1 ⟨1, 1, 2, []⟩ with | .bad .oob => true | _ => false) = true ∧
    (⟨1, 1, 2, []⟩ : Cur).peek = none ∧ (⟨1, 1, 2, []⟩ : Cur).at 0 = none := by decide

/-- **X3 (progress).** Every call of `next()` that returns a token has moved the cursor strictly forward, and not past the end. -/
theorem X3_next_advances (o : Options) (bs : Bytes) (s s' : St) (t : Token) (hat : s.cur.At bs)
    (h : next o s = .tok t s') : s.cur.pos < s'.cur.pos ∧ s'.cur.pos ≤ bs.length ∧ s'.cur.At bs := by
  have := next_sat' bs o s hat
  rw [h] at this
  have hat' := Cur.Reach.at hat this.1
  exact ⟨this.2.1, hat'.1, hat'⟩

/-- **X3 (termination).** A run produces at most `length` tokens and then ends with Eof or an error: `length + 2` calls of
`next()` always suffice (the budget `tokens` gives `run` is never exhausted). -/
theorem X3_token_count (o : Options) (bs : Bytes) :
    (tokens o bs).1.length ≤ bs.length ∧ (tokens o bs).2 ≠ .bad .fuel := by
  have hok := tokens_ok' o bs
  exact ⟨by have := hok.count; simpa [St.init, Cur.init] using this, hok.notBad _⟩

/-- **X4 (limits).** For all option values, every token that is produced — accepted document or not — respects every limit:
element depth ≤ `maxDepth`, attributes per element ≤ `maxAttrsPerElement`, element/attribute/PI names ≤ `maxNameLength`,
text spans and attribute values ≤ `maxTextSpan`, and the number of tokens ≤ `maxTotalTokens` unless that is 0.  Each limit is
tested before the token is handed out, so no consumer ever sees an offending token. -/
theorem X4_limits (o : Options) (bs : Bytes) :
    (∀ t ∈ (tokens o bs).1, t.LimitsAll o) ∧ (o.maxTokens ≠ 0 → (tokens o bs).1.length ≤ o.maxTokens) := by
  have hok := tokens_ok' o bs
  refine ⟨hok.limits, ?_⟩
  intro h
  have := hok.budget h
  simpa [St.init] using this

/-- non-vacuity: with `maxDepth = 0` the single element of `<a>x</a>` is refused before any token is produced -/
example : (tokens { maxDepth := 0 } docAXA).1 = [] ∧
    (match (tokens { maxDepth := 0 } docAXA).2 with | .error .depthExceeded _ _ => true | _ => false) = true := by decide

/-- **X5 (only the five predefined entities and numeric references decode).** Whenever `decodeEntities` succeeds, its output
is the input with literal bytes copied, `&lt; &gt; &amp; &apos; &quot;` replaced by their character and `&#…;` replaced by the
UTF-8 encoding of the code point (`Dec` has no other rule, so nothing else is ever expanded). -/
theorem X5_decode_sound (inp out : Bytes) (h : decodeEntities inp = .ok out) : Dec inp out :=
  decodeEntities_sound inp out h

/-- **X5 (completeness).** Conversely, every string that is well formed in the sense of `Dec` — literal bytes, references to the five
predefined entities, numeric references whose code point encodes — is decoded, to exactly the `Dec` image: `decodeEntities`
succeeds *iff* the input is well formed, and its output is *the* decoded text. -/
theorem X5_decode_complete (inp out : Bytes) : decodeEntities inp = .ok out ↔ Dec inp out :=
  ⟨decodeEntities_sound inp out, decodeEntities_complete inp out⟩

/-- non-vacuity: `&lt;&#65;` decodes to `<A` -/
example : decodeEntities [0x26, 0x6C, 0x74, 0x3B, 0x26, 0x23, 0x36, 0x35, 0x3B] = .ok [0x3C, 0x41] := by decide

/-- **X5 (undefined entities are errors).** A reference `&name;` whose name is none of the five and does not start with `#` makes
`decodeEntities` fail with "unknown entity" at the offset of its `&`, whatever surrounds it.  Entities declared in a DOCTYPE —
internal or external — are in this class: the tokenizer never reads declarations. -/
theorem X5_unknown_entity_rejected (pre name post : Bytes) (hpre : 0x26 ∉ pre) (hname : 0x3B ∉ name)
    (hfive : ∀ b, (name, b) ∉ fiveEntities) (hnum : name.head? ≠ some 0x23) :
    decodeEntities (pre ++ 0x26 :: name ++ 0x3B :: post) = .err .unknownEntity pre.length :=
  decode_unknown_entity pre name post hpre hname hfive hnum

/-- non-vacuity: `a&xxe;b` -/
example : decodeEntities [0x61, 0x26, 0x78, 0x78, 0x65, 0x3B, 0x62] = .err .unknownEntity 1 := by decide

/-- **X5 (UTF-8).** For every Unicode scalar value, `encodeUtf8` produces exactly the UTF-8 encoding (Lean's own
`String.utf8EncodeChar` is the independent definition). -/
theorem X5_encodeUtf8_scalar (c : Char) : encodeUtf8 c.val = some (String.utf8EncodeChar c) :=
  encodeUtf8_char c

/-- **X5 (UTF-8, rejection).** `encodeUtf8` fails exactly on the surrogate range and above U+10FFFF. -/
theorem X5_encodeUtf8_rejects (cp : UInt32) :
    encodeUtf8 cp = none ↔ (0xD800 ≤ cp.toNat ∧ cp.toNat ≤ 0xDFFF) ∨ 0x10FFFF < cp.toNat :=
  encodeUtf8_none cp

/-- **X5 (what a numeric reference denotes).** The code point of `&#x…;` / `&#X…;` is the hexadecimal value of the digits, that of
`&#…;` the decimal value — computed in a 32-bit accumulator, i.e. **reduced modulo 2^32** (`numValue` is the unbounded value, defined
without machine arithmetic); a byte that is not a digit of the base makes the reference invalid.  For every value below 2^32 the
reduction is the identity, so every well-formed reference denotes exactly its code point; the wrap is visible only on
ill-formed input (observation: `&#x100000041;` decodes like `&#x41;`, and `&#x;` denotes 0). -/
theorem X5_numeric_value (x : UInt8) (ds : Bytes) :
    ((x = 0x78 ∨ x = 0x58) → charRefCode (0x23 :: x :: ds) = (numValue 16 hexDigit? ds 0).map UInt32.ofNat) ∧
    ((x ≠ 0x78 ∧ x ≠ 0x58) → charRefCode (0x23 :: x :: ds) = (numValue 10 decDigit (x :: ds) 0).map UInt32.ofNat) :=
  ⟨charRefCode_hex x ds, charRefCode_dec x ds⟩

/-- the two observations, and an ordinary reference (`#x20AC`, `#8364` → U+20AC → `e2 82 ac`) -/
example : charRefCode [0x23, 0x78, 0x31, 0x30, 0x30, 0x30, 0x30, 0x30, 0x30, 0x34, 0x31] = some 0x41 ∧
    charRefCode [0x23, 0x78] = some 0 ∧
    appendCharRef [0x23, 0x78, 0x32, 0x30, 0x41, 0x43] = some [0xE2, 0x82, 0xAC] ∧
    appendCharRef [0x23, 0x38, 0x33, 0x36, 0x34] = some [0xE2, 0x82, 0xAC] := by decide

/-- `decodeEntities` terminates within its loop budget on every input. -/
theorem X5_decode_terminates (inp : Bytes) : decodeEntities inp ≠ .fuel := decodeEntities_ne_fuel inp

/-- **X6 (SAX dispatch).** For every subset `reg` of the nine `SaxCallbacks` members that hold a callable: the tokens handed to
callbacks are the pull token list filtered by "the member this kind is dispatched to is registered", in the same order; each
one went to the member of its own kind; a token whose member is empty is skipped (nothing is called, nothing thrown); and the
result is `true` exactly when the document is accepted. -/
theorem X6_sax_dispatch (reg : Registered) (o : Options) (bs : Bytes) :
    (runSax reg o bs).1.map (·.2) = (tokens o bs).1.filter (fun t => reg.wants t.kind) ∧
    (∀ e ∈ (runSax reg o bs).1, slotOf e.2.kind = some e.1 ∧ reg e.1 = true) ∧
    ((runSax reg o bs).2 = true ↔ ∃ t s, (tokens o bs).2 = .accepted t s) := by
  unfold runSax
  refine ⟨(filterMap_saxDispatch reg _).1, (filterMap_saxDispatch reg _).2, ?_⟩
  cases h : (tokens o bs).2 <;> simp [h]

/-- **X6 (SAX, everything registered).** With all nine members registered the callback sequence is the whole pull token list: every
token `next()` returns has a member to go to (`Eof` and `Invalid`, the two kinds without one, are never returned). -/
theorem X6_sax_is_token_list (o : Options) (bs : Bytes) :
    (runSax (fun _ => true) o bs).1.map (·.2) = (tokens o bs).1 := by
  rw [(X6_sax_dispatch _ o bs).1, List.filter_eq_self]
  intro t ht
  have := tokens_have_slot o bs t ht
  unfold Registered.wants
  cases hs : slotOf t.kind with
  | none => rw [hs] at this; cases this
  | some _ => rfl

/-- non-vacuity: on `<a>x</a>` with only `onText` registered exactly the Text token is delivered -/
example : ((runSax (fun sl => sl = .onText) {} docAXA).1.map fun e => (e.1, e.2.kind)) = [(.onText, .text)] := by
  decide +kernel

/-- **X6 (DOM).** When `DomBuilder::build` returns a document, walking it in document order gives exactly the pull token list
with names copied and attribute values / text decoded (`<a/>` and `<a></a>` both read `open, close`; DOCTYPE tokens are skipped) —
same order, same nesting. -/
theorem X6_dom_flatten (o : Options) (bs : Bytes) (ch : List Node) (h : domBuild o bs = .doc ch) :
    evsOf bs (tokens o bs).1 = some (flattenList ch) := by
  unfold domBuild domOf at h
  cases hf : domFold bs {} (tokens o bs).1 with
  | inr r =>
    rw [hf] at h
    simp only at h
    subst h
    obtain ⟨fin, hfin⟩ := tokens_sm' o bs
    have := domFold_balanced bs (tokens o bs).1 [] fin {} hfin rfl
    rw [hf] at this
    exact this.elim
  | inl d =>
    rw [hf] at h
    simp only at h
    obtain ⟨es, hes, hflat⟩ := domFold_flat bs _ _ _ hf
    cases hout : (tokens o bs).2 with
    | accepted t s =>
      rw [hout] at h
      simp only at h
      cases hop : d.open_ with
      | nil =>
        rw [hop] at h
        simp only [DomRes.doc.injEq] at h
        subst h
        rw [hes]
        simp [DomSt.flat, hop, flatOpen, flattenList] at hflat
        rw [hflat]
      | cons _ _ => rw [hop] at h; cases h
    | error e c s => rw [hout] at h; cases h
    | bad b => rw [hout] at h; cases h

/-- **X7 (faithfulness), element/attribute skeleton.** Take ANY sequence of tags — start tags, empty-element tags, end tags —
written with any formatting the supported subset allows: arbitrary white space before each tag, before each attribute, around
`=`, before `>` / `/>` and inside end tags; either quote character per attribute; raw values that do not contain their quote;
names of name characters; all within the configured limits; arbitrary trailing white space.  If the sequence is well nested
(`specRun`, a definition that never looks at the parser, yields its events `vs` and leaves nothing open), then the pull API accepts
the rendered document and reports exactly `vs`: the same elements with the same names, the same attributes with the same
values in the same order, at the same depths.  (Every document *tree* renders to such a sequence, `<a/>` or `<a></a>` per
element.)  Text, references, CDATA, comments, PIs and DOCTYPE inside the rendered document are not covered by this theorem
(see `not_proved`); they are checked differentially. -/
theorem X7_skeleton_faithful (o : Options) (ps : List Piece) (trail : Bytes) (vs : List View)
    (hwf : ∀ p ∈ ps, p.WF o) (htrail : AllSpace trail) (hbud : o.maxTokens = 0 ∨ ps.length < o.maxTokens)
    (hspec : specRun o [] ps = some (vs, [])) :
    (tokens o (renderPieces ps ++ trail)).1.map (Token.view (renderPieces ps ++ trail)) = vs ∧
    ∃ t s, (tokens o (renderPieces ps ++ trail)).2 = .accepted t s :=
  skeleton_faithful' o ps trail vs hwf htrail hbud hspec

/-- non-vacuity: ` <a b = '1'><c /></a >` with a newline after it -/
def exAttr : FAttr := { pre := [0x20], name := [0x62], ws1 := [0x20], ws2 := [0x20], quote := 0x27, value := [0x31] }
def exPieces : List Piece :=
  [⟨[0x20], .start [0x61] [exAttr] []⟩, ⟨[], .empty [0x63] [] [0x20]⟩, ⟨[], .close [0x61] [0x20]⟩]
example : (∀ p ∈ exPieces, p.WF {}) ∧ AllSpace [0x0A] ∧
    specRun {} [] exPieces = some ([⟨.startElement, [0x61], [([0x62], [0x31])], 1⟩, ⟨.emptyElement, [0x63], [], 2⟩,
      ⟨.endElement, [0x61], [], 1⟩], []) := by
  have vn : ∀ b : UInt8, isNameStart b = true → ValidName [b] := fun b h => ⟨b, [], rfl, h, by simp⟩
  have sp : AllSpace [0x20] := by intro x hx; simp at hx; subst hx; decide
  have sp0 : AllSpace [] := by intro x hx; simp at hx
  refine ⟨?_, by intro x hx; simp at hx; subst hx; decide, by decide⟩
  intro p hp
  simp only [exPieces, List.mem_cons, List.mem_nil_iff, or_false] at hp
  rcases hp with rfl | rfl | rfl
  · refine ⟨sp, vn _ (by decide), by decide, ?_, by decide, sp0⟩
    intro a ha
    simp only [List.mem_cons, List.mem_nil_iff, or_false] at ha
    subst ha
    exact ⟨sp, by decide, vn _ (by decide), by decide, sp, sp, Or.inr rfl, by decide, by decide⟩
  · exact ⟨sp0, vn _ (by decide), by decide, by simp, by decide, sp⟩
  · exact ⟨sp0, vn _ (by decide), by decide, sp⟩

/-- **X7 for element trees.** Every forest of element trees `es` (an element is `<name attrs>children</name>` or `<name attrs/>`,
attributes and white space formatted freely as above), of height within `maxDepth`, is accepted, and the pull API reports exactly
its pre-order events `eventsList 1 es` — names, attributes, values, order, nesting depth. -/
theorem X7_tree_faithful (o : Options) (es : List FElem) (trail : Bytes) (hwf : WFList o es) (htrail : AllSpace trail)
    (hh : heightList es ≤ o.maxDepth) (hbud : o.maxTokens = 0 ∨ (piecesList es).length < o.maxTokens) :
    (tokens o (renderForest es trail)).1.map (Token.view (renderForest es trail)) = eventsList 1 es ∧
    ∃ t s, (tokens o (renderForest es trail)).2 = .accepted t s :=
  forest_faithful' o es trail hwf htrail hh hbud

/-- non-vacuity: the tree `<a b = '1'><c /></a >` is the piece list of the example above -/
example : piecesList [.node [0x20] [0x61] [exAttr] [] [.leaf [] [0x63] [] [0x20]] [] [0x20]] = exPieces ∧
    heightList [.node [0x20] [0x61] [exAttr] [] [.leaf [] [0x63] [] [0x20]] [] [0x20]] = 2 := by
  constructor <;> rfl

/-- **X7 ∘ X6 (the DOM of a rendered forest is the forest).** If `DomBuilder::build` returns a document for the rendering of the
element trees `es` (any formatting, within the limits), then walking that document in document order gives exactly the
forest's own events with every attribute value entity-decoded (`viewsEvs (eventsList 1 es)`, a definition that never looks at the
parser or the builder): same elements, same attribute names, decoded values, same order and nesting. -/
theorem X7_dom_of_tree (o : Options) (es : List FElem) (trail : Bytes) (ch : List Node) (hwf : WFList o es)
    (htrail : AllSpace trail) (hh : heightList es ≤ o.maxDepth)
    (hbud : o.maxTokens = 0 ∨ (piecesList es).length < o.maxTokens)
    (h : domBuild o (renderForest es trail) = .doc ch) :
    viewsEvs (eventsList 1 es) = some (flattenList ch) := by
  have h1 := X6_dom_flatten o _ ch h
  have h2 := (forest_faithful' o es trail hwf htrail hh hbud).1
  rw [← h2, ← h1]
  symm
  apply evsOf_views
  intro t ht
  have : t.view (renderForest es trail) ∈ eventsList 1 es := by
    rw [← h2]; exact List.mem_map_of_mem ht
  exact eventsList_tags 1 es _ this

/-- **X7 (text keeps its leading white space — F29 repaired).** When the bytes after a piece of markup are white space followed
by a non-space byte other than `<`, the Text token `next()` returns starts *at the white space* and runs up to the next `<`:
nothing of the text node is dropped.  (The unrepaired `skipWhitespaceOutsideText` consumed the white space first, so that
`<a>  x y </a>` reported `"x y "` and `one <b>two</b> three` lost the space before `three`.) -/
theorem X7_leading_space_kept (o : Options) (s : St) (w r : Bytes) (x : UInt8) (hw : AllSpace w)
    (hx : isSpace x = false) (hlt : x ≠ 0x3C) (hrest : s.cur.rest = w ++ x :: r)
    (hbud : o.maxTokens = 0 ∨ s.produced < o.maxTokens) (hlen : spanLen notLt (w ++ x :: r) ≤ o.maxText) :
    ∃ t s', next o s = .tok t s' ∧ t.kind = .text ∧ t.text = ⟨s.cur.pos, spanLen notLt (w ++ x :: r)⟩ ∧
      t.offset = s.cur.pos ∧ s'.cur.pos = s.cur.pos + spanLen notLt (w ++ x :: r) :=
  next_text_keeps_leading_space' o s w r x hw hx hlt hrest hbud hlen

/-- non-vacuity and the witness of F29: `<a>  x y </a>` reports the 6-byte text `  x y ` at offset 3 -/
example : ((tokens {} [0x3C, 0x61, 0x3E, 0x20, 0x20, 0x78, 0x20, 0x79, 0x20, 0x3C, 0x2F, 0x61, 0x3E]).1.map
    fun t => (t.kind, t.text)) = [(.startElement, ⟨0, 0⟩), (.text, ⟨3, 6⟩), (.endElement, ⟨0, 0⟩)] := by decide +kernel

/-- non-vacuity of X6 (DOM): `<a>x</a>` and `<a b="1"/>` build documents -/
example : (match domBuild {} docAXA with | .doc [.elem _ [] [.text _]] => true | _ => false) = true ∧
    (match domBuild {} docAttr with | .doc [.elem _ [_] []] => true | _ => false) = true := by decide +kernel

/-- **Qualified names.** `Token::splitQName` splits a name at its FIRST colon: a result `(k, l)` means `name = prefix ++ ":" ++ local`
with `|prefix| = k`, `|local| = l` and no colon in the prefix; no result means the name has no colon; and every
`prefix:local` with a colon-free prefix splits back into exactly those two parts. -/
theorem N1_splitQName (name pre loc : Bytes) :
    (∀ k l, splitQName name = some (k, l) →
      ∃ p q, name = p ++ 0x3A :: q ∧ p.length = k ∧ q.length = l ∧ 0x3A ∉ p) ∧
    (splitQName name = none → 0x3A ∉ name) ∧
    (0x3A ∉ pre → splitQName (pre ++ 0x3A :: loc) = some (pre.length, loc.length)) :=
  ⟨splitQName_some name, splitQName_none name, splitQName_roundtrip pre loc⟩

/-- membership in the character classes the translator read off `isNameStart` / `isNameChar` -/
def inClass (singles : List Nat) (ranges : List (Nat × Nat)) (n : Nat) : Bool :=
  singles.contains n || ranges.any fun r => decide (r.1 ≤ n) && decide (n ≤ r.2)

/-- **Gen conformance.** What the translator regenerates from `xml.hpp` on every run is what the model uses: the `TokenKind`
enumerators and their values, the `Options` defaults, the two option fields nobody reads, the predefined-entity chain, the
white-space set, both name-character classes, the UTF-8 range bounds and the surrogate range, every error message, and every
raw read of the input with the guard that dominates it. -/
theorem gen_conformance :
    Gen.Xml.tokenKinds = Kind.all.map (fun k => (k.cxxName, k.toNat)) ∧
    (({} : Options).maxDepth, ({} : Options).maxAttrs, ({} : Options).maxName, ({} : Options).maxText, ({} : Options).maxTokens) =
      (Gen.Xml.defaultMaxDepth, Gen.Xml.defaultMaxAttrsPerElement, Gen.Xml.defaultMaxNameLength, Gen.Xml.defaultMaxTextSpan,
       Gen.Xml.defaultMaxTotalTokens) ∧
    Gen.Xml.unusedOptionFields = ["permissive", "namespaceProcessing"] ∧
    Gen.Xml.entityBytes.map (fun e => (e.1.map UInt8.ofNat, UInt8.ofNat e.2)) = fiveEntities ∧
    (∀ n, n < 256 → isSpace (UInt8.ofNat n) = Gen.Xml.whitespace.contains n) ∧
    (∀ n, n < 256 → isNameStart (UInt8.ofNat n) = inClass Gen.Xml.nameStartSingles Gen.Xml.nameStartRanges n) ∧
    (∀ n, n < 256 → isNameChar (UInt8.ofNat n) =
      (inClass Gen.Xml.nameStartSingles Gen.Xml.nameStartRanges n || inClass Gen.Xml.nameCharSingles Gen.Xml.nameCharRanges n)) ∧
    Gen.Xml.utf8Bounds = [0x7F, 0x7FF, 0xFFFF, 0x10FFFF] ∧ Gen.Xml.surrogateLo = 0xD800 ∧ Gen.Xml.surrogateHi = 0xDFFF ∧
    Gen.Xml.errorMessages = ErrKind.all.map ErrKind.message ∧
    Gen.Xml.readSites = readSites := by
  refine ⟨by decide, by decide, by decide, by decide, by decide +kernel, by decide +kernel, by decide +kernel, by decide, by decide, by decide,
    by decide, by decide +kernel⟩

end Iora.C14
