import IoraModel.Lemmas.HttpClient
import IoraModel.Lemmas.HttpServer
import IoraModel.Lemmas.HttpExact
import IoraModel.Lemmas.HttpServerExact
import IoraModel.Lemmas.HttpServerConn
/-!
# C15 — HTTP/1.1 message framing is exact, segmentation-independent and bounded

Property theorems only; helper lemmas live in `Lemmas/Http*.lean`.  Models: `Model/HttpClientFraming.lean`
(response framing of `http_client.hpp`), `Model/HttpServerFraming.lean` (request framing of `http_server.hpp` as
repaired by F25/F26/F27 + `HttpRequest::fromWireFormat`); constants from the regenerated `Gen/Http.lean`.
-/
namespace Iora.C15
open Iora Iora.Http

/-! ## Client -/

open Iora.Http.Spec in
/-- **F1 (exactness, self-delimiting bodies).** For every well-formed final response `m` of the reference syntax
(`Model/Http1Spec.lean`: status line, arbitrary field lines with OWS padding around the framing field, body framed by
Content-Length, by chunked coding with chunk extensions and a trailer section, or absent for HEAD/204/304), preceded by any
number of interim 1xx responses and followed by any surplus bytes `x`, one read of the whole stream returns exactly the
status, reason, version, header map and body of `m`, and `forceEvict` is set iff `x ≠ []`. -/
theorem F1_exact (method : Bytes) (cap : Nat) (is : List Interim) (m : Response) (x : Bytes)
    (his : ∀ i ∈ is, InterimWF i) (hm : RespWF method cap m) (hnc : ∀ b, m.body ≠ .untilClose b)
    (hcap : (renderInterims is ++ m.render ++ x).length ≤ cap) :
    (recvStep method cap {} (.data (renderInterims is ++ m.render ++ x))).2 =
      .response { status := m.sl.status, text := m.sl.reason.getD [], version := m.sl.version,
                  headers := headerMap m.fields, body := m.body.content } (decide (x ≠ [])) :=
  recv_exact method cap is m x his hm hnc hcap

open Iora.Http.Spec in
/-- **F1′ (exactness, close-delimited body).** Without Content-Length/Transfer-Encoding the body is everything up to the
peer's close; the connection is never reused (`forceEvict`). -/
theorem F1_exact_close (method : Bytes) (cap : Nat) (is : List Interim) (m : Response) (b x : Bytes)
    (his : ∀ i ∈ is, InterimWF i) (hm : RespWF method cap m) (hb : m.body = .untilClose b)
    (hcap : (renderInterims is ++ m.render ++ x).length ≤ cap) :
    (runLoop method cap {} [.data (renderInterims is ++ m.render ++ x), .peerClosed]).2 =
      .response { status := m.sl.status, text := m.sl.reason.getD [], version := m.sl.version,
                  headers := headerMap m.fields, body := b ++ x } true :=
  recv_exact_close method cap is m b x his hm hb hcap

open Iora.Http.Spec in
/-- non-vacuity: `HTTP/1.1 200 OK`, `Transfer-Encoding: gzip, chunked`, chunks `3;a=b CRLF abc`, last chunk `00 ;x` with a
trailer line, is a well-formed response for `GET` under a 1 MiB cap; `HTTP/1.1 100 Continue` is a well-formed interim -/
example : RespWF (ascii "GET") 1048576
    { sl := { minor := 1, status := 200, reason := some (ascii "OK") }, before := [], after := [],
      body := .chunked (ascii "gzip, chunked") [{ tok := ascii "3", ext := ascii ";a=b", data := ascii "abc" }]
                { tok := ascii "00", ext := ascii " ;x", trailers := [ascii "X-T: 1"] } } where
  sl_ok := ⟨by decide, by decide, by intro r hr; cases hr; decide⟩
  final := by decide
  before_ok := by intro f hf; cases hf
  after_ok := by intro f hf; cases hf
  not_connect := by decide
  body_ok := by
    refine ⟨by decide, by decide, by decide, by decide, ?_, ?_⟩
    · intro c hc
      simp only [List.mem_singleton] at hc
      subst hc
      exact ⟨by decide, by decide, by decide, by decide, Or.inr ⟨[], ascii "a=b", by decide, by decide, by decide⟩⟩
    · exact ⟨by decide, Or.inr ⟨[32], ascii "x", by decide, by decide, by decide⟩, by
        intro t ht; simp only [List.mem_singleton] at ht; subst ht; exact ⟨by decide, by decide⟩⟩
example : InterimWF { sl := { minor := 1, status := 100, reason := some (ascii "Continue") } } :=
  ⟨⟨by decide, by decide, by intro r hr; cases hr; decide⟩, by decide, by intro f hf; cases hf⟩

/-- **F2a (any segmentation = the whole buffer).** Feeding the receive loop ANY segmentation `ss` of a byte stream, one
read at a time through the carried state (`headerScanPos`, `ChunkState`, …), gives what framing the whole stream in one
buffer gives: the same "need more" state (the carried state is a function of the accumulated bytes), the same framing
error, or the same response - where the surplus flag of the segmented run may still be off because the surplus had not
arrived when the message completed.  Hypothesis: the stream fits the cap (so no prefix trips the cap check). -/
theorem F2_any_segmentation_eq_whole (method : Bytes) (cap : Nat) (ss : List Bytes) (hcap : ss.flatten.length ≤ cap) :
    Rel (runLoop method cap {} (dataReads ss)) (obs (frameResponse method cap { data := ss.flatten })) := by
  have h0 : frameResponse method cap { data := [] } = ({}, .needMore) := FR_empty method cap { data := [] } rfl rfl
  simpa using runLoop_segments method cap ss [] {} {} (by simpa using hcap) h0 rfl

/-- **F2 (segmentation independence).** Two segmentations of one byte stream (followed by the peer's close) end the receive
loop with the same outcome: the same response (status, reason, version, header map, body), the same framing error, or the
same "closed early" failure. -/
theorem F2_segmentation_independent (method : Bytes) (cap : Nat) (ss ts : List Bytes) (h : ss.flatten = ts.flatten)
    (hcap : ss.flatten.length ≤ cap) :
    SameOutcome (runLoop method cap {} (dataReads ss ++ [.peerClosed])).2
                (runLoop method cap {} (dataReads ts ++ [.peerClosed])).2 := by
  rw [runLoop_append, runLoop_append]
  have a := Rel_close method cap _ _ (F2_any_segmentation_eq_whole method cap ss hcap)
  have b := Rel_close method cap _ _ (F2_any_segmentation_eq_whole method cap ts (by rw [← h]; exact hcap))
  rw [← h] at b
  exact SameOutcome_trans_symm a b

/-- non-vacuity: a 1-byte drip and a single read of a 19-byte response are segmentations of the same stream -/
example : ([[72], [84], [84, 80]] : List Bytes).flatten = ([[72, 84, 84, 80]] : List Bytes).flatten := rfl

/-- **F3a (bounded buffer).** Whenever the receive loop goes on to another read, the accumulation buffer holds at most
`cap` bytes; whatever a read of `n` bytes does, the buffer never exceeds `cap + n` (`n ≤ 8192 = Gen.Http.clientReadSize`
in `executeRequest`). -/
theorem F3_buffer_bounded (method : Bytes) (cap : Nat) (st st' : St) (r : Recv) (o : LoopOut)
    (h0 : st.data.length ≤ cap) (h : recvStep method cap st r = (st', o)) :
    (o = .more → st'.data.length ≤ cap) ∧
    (∀ seg, r = .data seg → st'.data.length ≤ cap + seg.length) ∧ (r = .peerClosed → st' = st) := by
  cases r with
  | peerClosed =>
    simp only [recvStep] at h
    split at h <;> (cases h; simp [h0])
  | timeout => simp only [recvStep] at h; cases h; simp [h0]
  | overflow => simp only [recvStep] at h; cases h; simp [h0]
  | shuttingDown => simp only [recvStep] at h; cases h; simp [h0]
  | otherError => simp only [recvStep] at h; cases h; simp [h0]
  | data seg =>
    simp only [recvStep] at h
    split at h
    · cases h; simp; omega
    · split at h
      · cases h; simp; omega
      · rename_i hcap
        simp only [reduceCtorEq, false_imp_iff, and_true, Recv.data.injEq, forall_eq']
        cases hfr : frameResponse method cap { st with data := st.data ++ seg } with
        | mk st2 o2 =>
          have hle := FR_data_le method cap _ _ _ hfr
          simp only [List.length_append] at hle hcap
          rw [hfr] at h
          cases o2 <;> (simp only at h; cases h; constructor <;> (intros; omega))

/-- **F1+F2 (exactness under ANY segmentation).** However the stream `interims ++ render m ++ x` is cut into network reads,
the receive loop (followed by the peer's close) returns exactly the response encoded in `m` (up to the surplus flag, which
depends on whether `x` had arrived when the message completed). -/
theorem F1_exact_any_segmentation (method : Bytes) (cap : Nat) (is : List Spec.Interim) (m : Spec.Response) (x : Bytes)
    (his : ∀ i ∈ is, InterimWF i) (hm : RespWF method cap m) (hnc : ∀ b, m.body ≠ .untilClose b)
    (hcap : (Spec.renderInterims is ++ m.render ++ x).length ≤ cap) (ss : List Bytes)
    (hss : ss.flatten = Spec.renderInterims is ++ m.render ++ x) :
    SameOutcome (runLoop method cap {} (dataReads ss ++ [.peerClosed])).2
      (.response { status := m.sl.status, text := m.sl.reason.getD [], version := m.sl.version,
                   headers := Spec.headerMap m.fields, body := m.body.content } false) := by
  have h2 := F2_segmentation_independent method cap ss [Spec.renderInterims is ++ m.render ++ x] (by simpa using hss)
    (by rw [hss]; exact hcap)
  have h1 := recv_exact method cap is m x his hm hnc hcap
  have hw : (runLoop method cap {} (dataReads [Spec.renderInterims is ++ m.render ++ x] ++ [.peerClosed])).2 =
      .response { status := m.sl.status, text := m.sl.reason.getD [], version := m.sl.version,
                  headers := Spec.headerMap m.fields, body := m.body.content } (decide (x ≠ [])) := by
    simp only [dataReads, List.map_cons, List.map_nil, List.cons_append, List.nil_append, runLoop]
    cases hp : recvStep method cap {} (.data (Spec.renderInterims is ++ m.render ++ x)) with
    | mk st o =>
      rw [hp] at h1
      simp only at h1
      subst h1
      rfl
  rw [hw] at h2
  cases ha : (runLoop method cap {} (dataReads ss ++ [.peerClosed])).2 <;> rw [ha] at h2 <;> simp_all [SameOutcome]

open Iora.Http.Spec in
/-- **F1″ (responses that never have a body).** For `HEAD` requests and 204/304 statuses ANY well-formed field list -
including `Content-Length` (all equal) and `Transfer-Encoding` lines - is accepted, the message ends with the header section
and no body is read (RFC 9112 §6.3 rule 1). -/
theorem F1_exact_nobody (method : Bytes) (cap : Nat) (is : List Interim) (sl : StatusLine) (fs : List Field) (x : Bytes)
    (his : ∀ i ∈ is, InterimWF i) (hsl : sl.WF) (hfin : isInterim sl.status = false) (hfs : ∀ f ∈ fs, f.WF)
    (hcl : CLcons none fs) (hm : method ≠ ascii "CONNECT")
    (hnb : method = ascii "HEAD" ∨ sl.status = 204 ∨ sl.status = 304)
    (hcap : (renderInterims is ++ (joinCRLF (sl.render :: fs.map Field.line) ++ crlf2) ++ x).length ≤ cap) :
    (recvStep method cap {} (.data (renderInterims is ++ (joinCRLF (sl.render :: fs.map Field.line) ++ crlf2) ++ x))).2 =
      .response { status := sl.status, text := sl.reason.getD [], version := sl.version, headers := headerMap fs, body := [] }
        (decide (x ≠ [])) :=
  recv_exact_nobody method cap is sl fs x his hsl hfin hfs hcl hm hnb hcap

/-- **F3d (every receive error ends the loop).** A read that is not data never continues the loop: Timeout, ShuttingDown and
any other error end it with the corresponding non-framing failure, BufferOverflow with the non-retryable framing error, and
PeerClosed with the response exactly when the headers are done and the body is close-delimited (else "closed early"); the
state is untouched. -/
theorem F3_loop_ends_on_error (method : Bytes) (cap : Nat) (st : St) :
    recvStep method cap st .timeout = (st, .failed .timeout) ∧
    recvStep method cap st .overflow = (st, .framingError .overflow) ∧
    recvStep method cap st .shuttingDown = (st, .failed .shuttingDown) ∧
    recvStep method cap st .otherError = (st, .failed .closedEarly) ∧
    (recvStep method cap st .peerClosed).2 ≠ .more ∧
    ((recvStep method cap st .peerClosed).2 ≠ .failed .closedEarly →
      st.headersDone = true ∧ st.framing.mode = .closeDelimited) := by
  refine ⟨rfl, rfl, rfl, rfl, ?_, ?_⟩
  · simp only [recvStep]; split <;> simp
  · simp only [recvStep]; split
    · rename_i h; intro _; exact h
    · intro h; exact absurd rfl h

/-- **F3e (what follows the loop).** `executeRequest` keeps the connection only for a response without surplus, with a
self-delimiting body and with nothing left unread in the transport (`residualDataPending`); every other outcome (framing
error, timeout, shutting down, closed early) and every response with `forceEvict` drops it, as does a client configured not
to reuse connections. -/
theorem F3_connection_dropped (method : Bytes) (a b : Nat) (reuse : Bool) (script : List Recv) (o : LoopOut) (closed : Bool)
    (h : executeReceive method a b reuse script = (o, closed)) :
    (∀ r ev, o = .response r ev → ev = true → closed = true) ∧ ((∀ r ev, o ≠ .response r ev) → closed = true) ∧
    (reuse = false → closed = true) := by
  unfold executeReceive at h
  simp only at h
  cases hr : runScript method (effectiveCap a b) {} script with
  | mk st rest =>
    obtain ⟨lo, residual⟩ := rest
    rw [hr] at h
    cases lo with
    | response r ev =>
      simp only [Prod.mk.injEq] at h
      obtain ⟨h1, h2⟩ := h
      subst h1
      refine ⟨?_, fun hn => absurd rfl (hn r ev), ?_⟩
      · intro r' ev' he hev; cases he; subst hev; rw [← h2]; simp
      · intro hru; subst hru; rw [← h2]; simp
    | more => simp only [Prod.mk.injEq] at h; obtain ⟨h1, h2⟩ := h; subst h1; subst h2; simp
    | framingError k => simp only [Prod.mk.injEq] at h; obtain ⟨h1, h2⟩ := h; subst h1; subst h2; simp
    | failed f => simp only [Prod.mk.injEq] at h; obtain ⟨h1, h2⟩ := h; subst h1; subst h2; simp

/-- **F3b (progress).** Every iteration of the chunk loop that continues moves the parse position strictly forward (it is
bounded by the buffer length: the measure `buf.length - pos` of `advanceChunked` strictly decreases). -/
theorem F3_chunk_loop_progress (buf : Bytes) (cap : Nat) (st st' : ChunkState) (h : chunkStep buf cap st = .next st') :
    st.pos < st'.pos :=
  chunkStep_next_lt buf cap st st' h

/-- **F3c (no re-scan from zero, no loss).** An interim (1xx) response only ever shrinks the buffer: the bytes carried after
any `frameResponse` call are at most the bytes it was given. -/
theorem F3_frame_never_grows (method : Bytes) (cap : Nat) (st st' : St) (o : Out)
    (h : frameResponse method cap st = (st', o)) : st'.data.length ≤ st.data.length :=
  FR_data_le method cap st st' o h

/-- **F4a (Content-Length is numeric or rejected).** A Content-Length value is accepted only if EVERY comma-separated element,
OWS-trimmed, is a non-empty token of decimal digits with a value below 2^64, and all elements denote the same number: no sign,
no inner white space, no trailing junk, no overflow, no differing duplicates. -/
theorem F4_content_length_sound (v : Bytes) (n : Nat) (h : parseContentLength v = .ok n) :
    ∀ e ∈ splitOn 44 v, parseFullUInt 10 (trim e) = some n ∧ trim e ≠ [] ∧
      (∀ c ∈ trim e, (digitVal 10 c).isSome = true) ∧ n < 2 ^ 64 := by
  intro e he
  have hp := (parseCLElems_sound _ none n h).1 e he
  exact ⟨hp, parseFullUInt_sound 10 _ n hp⟩

/-- **F4a′ (numbers are unbounded values, overflow is an explicit reject).** `parseFullUInt` - the model of `std::from_chars`
(client) and of the all-digits test + `std::stoull` (server Content-Length) - is stated over digit strings of ANY length and
natural numbers, never over a machine word that could wrap: if it accepts, the result IS the value of the digit string
(most significant digit first, `Spec.tokValue`, unbounded) and that value is below 2^64; conversely a digit string whose value is
`>= 2^64` is rejected - whatever that value is congruent to modulo 2^64. -/
theorem F4_number_is_unbounded_value (base : Nat) (s : Bytes) :
    (∀ n, parseFullUInt base s = some n → Spec.tokValue base s = some n ∧ n < 2 ^ 64) ∧
    (∀ v, Spec.tokValue base s = some v → 2 ^ 64 ≤ v → parseFullUInt base s = none) := by
  have key : ∀ (t : Bytes) (acc n : Nat), parseDigits base t acc = some n → Spec.tokFold base t acc = some n := by
    intro t
    induction t with
    | nil => intro acc n h; simpa [parseDigits, Spec.tokFold] using h
    | cons c cs ih =>
      intro acc n h
      simp only [parseDigits] at h
      simp only [Spec.tokFold]
      cases hd : digitVal base c with
      | none => rw [hd] at h; cases h
      | some v =>
        rw [hd] at h
        simp only at h ⊢
        split at h
        · exact ih _ _ h
        · cases h
  have h1 : ∀ n, parseFullUInt base s = some n → Spec.tokValue base s = some n ∧ n < 2 ^ 64 := by
    intro n h
    refine ⟨?_, (parseFullUInt_sound base s n h).2.2⟩
    unfold parseFullUInt at h
    unfold Spec.tokValue
    split at h
    · cases h
    · rename_i hne
      simp only [hne, Bool.false_eq_true, ↓reduceIte]
      exact key s 0 n h
  refine ⟨h1, ?_⟩
  intro v hv hge
  cases hp : parseFullUInt base s with
  | none => rfl
  | some n =>
    have := h1 n hp
    rw [hv] at this
    have hvn : v = n := by simpa using this.1
    omega

open Iora.Http.Srv in
/-- the text of the seeded change: `18446744073709551621` = 2^64 + 5 is an all-digit string whose value is congruent to 5; it
is NOT the length 5 - both endpoints reject it (client: framing error; server: the header scan closes the connection), as they
do `36893488147419103237` = 2·2^64 + 5 and the 25-digit `1000000000000000000000005`; the hex `10000000000000005` = 2^64 + 5 is
malformed as a chunk size on both endpoints; while a small value with more than 20 digits of leading zeros is VALID and is
accepted exactly -/
example : Spec.tokValue 10 (ascii "18446744073709551621") = some (2 ^ 64 + 5) ∧
    parseFullUInt 10 (ascii "18446744073709551621") = none ∧
    (parseContentLength (ascii "18446744073709551621")).toOption = none ∧
    scanHeaderLines [ascii "Content-Length: 18446744073709551621"] {} = none ∧
    scanHeaderLines [ascii "Content-Length: 36893488147419103237"] {} = none ∧
    scanHeaderLines [ascii "Content-Length: 1000000000000000000000005"] {} = none ∧
    sizeLine (ascii "10000000000000005\r\nhello") 1048576 0 = .bad ∧
    Srv.sizeLine 10485760 (ascii "10000000000000005") = none ∧
    (parseContentLength (ascii "000000000000000000000005")).toOption = some 5 ∧
    scanHeaderLines [ascii "Content-Length: 000000000000000000000005"] {} =
      some { contentLength := 5, haveCL := true, isChunked := false, haveTE := false } ∧
    sizeLine (ascii "00000000000000000000005\r\nhello") 1048576 0 = .ok 5 25 ∧
    Srv.sizeLine 10485760 (ascii "00000000000000000000005") = some 5 :=
  ⟨by decide, by decide, by decide, by decide, by decide, by decide, by decide, by decide, by decide, by decide, by decide,
    by decide⟩

/-- **F4b (the framing decision never guesses).** `determineFraming` answers "Content-Length framing with length `n`" only if
there is NO Transfer-Encoding field, the Content-Length value is valid (F4a) with value `n`, and `n` is within the cap. -/
theorem F4_framing_sound (method : Bytes) (resp : Resp) (cap n : Nat)
    (h : determineFraming method resp cap = .ok { mode := .contentLength, contentLength := n }) :
    hdrFind resp.headers (ascii "Transfer-Encoding") = none ∧
    ∃ cl, hdrFind resp.headers (ascii "Content-Length") = some cl ∧ parseContentLength cl = .ok n ∧ n ≤ cap := by
  unfold determineFraming at h
  split at h
  · cases h
  · split at h
    · cases h
    · split at h
      · cases h
      · split at h <;> cases h
      · rename_i cl hte hcl
        cases hp : parseContentLength cl with
        | error k => rw [hp] at h; cases h
        | ok m =>
          rw [hp] at h
          simp only at h
          split at h
          · cases h
          · rename_i hle
            cases h
            exact ⟨hte, cl, hcl, hp, by omega⟩
      · cases h

/-- **F4c (Content-Length together with Transfer-Encoding is rejected)** whenever the response can have a body. -/
theorem F4_cl_and_te_rejected (method : Bytes) (resp : Resp) (cap : Nat) (te cl : Bytes)
    (hm : method ≠ ascii "CONNECT")
    (hb : ¬ (method = ascii "HEAD" ∨ Gen.Http.clientNoBodyStatuses.contains resp.status = true ∨ isInterim resp.status = true))
    (h1 : hdrFind resp.headers (ascii "Transfer-Encoding") = some te)
    (h2 : hdrFind resp.headers (ascii "Content-Length") = some cl) :
    determineFraming method resp cap = .error .clAndTe := by
  unfold determineFraming
  simp only [hm, ↓reduceIte, hb, h1, h2]

/-- **F4d (chunk sizes).** A chunk-size line is accepted only with a size within the cap (and below 2^64: an overflowing
hex token is malformed); in particular `ffffffffffffffec` is malformed under every cap below 2^64 - 20. -/
theorem F4_chunk_size_sound (buf : Bytes) (cap pos n ds : Nat) (h : sizeLine buf cap pos = .ok n ds) :
    n ≤ cap ∧ n < 2 ^ 64 :=
  sizeLine_sound buf cap pos n ds h

/-- witnesses for the rejected chunk-size shapes (cap 1 MiB): overflow, over-cap, sign, `0x`, bare LF, junk, BWS before CRLF -/
example : sizeLine (ascii "10000000000000000\r\nzz") 1048576 0 = .bad ∧ sizeLine (ascii "ffffffffffffffec\r\nzz") 1048576 0 = .bad ∧
    sizeLine (ascii "-3\r\nabc") 1048576 0 = .bad ∧ sizeLine (ascii "0x3\r\nabc") 1048576 0 = .bad ∧
    sizeLine (ascii "3\nabc") 1048576 0 = .bad ∧ sizeLine (ascii "3x\r\nabc") 1048576 0 = .bad ∧
    sizeLine (ascii "3 \r\nabc") 1048576 0 = .bad ∧ sizeLine (ascii "3 ;a\r\nabc") 1048576 0 = .ok 3 6 := by decide

/-! ## Server (`handleIncomingData` as repaired by F25/F26/F27) -/

open Iora.Http.Srv in
/-- **S1/S4/S5 (exact extraction).** For every well-formed request of the reference syntax - any request line without CR/LF whose text before its first `:`
(if any) is not a framing field name,
arbitrary field lines around the framing field, body absent, framed by `Content-Length`, or CHUNKED with chunk extensions
and a trailer section - followed by arbitrary bytes, the extractor cuts exactly at the end of the message and hands the
request parser the header section followed by the DECODED body (chunk framing, extensions and trailers removed). -/
theorem S1_extract_exact (r : ReqSpec) (h : r.OK) (rest : Bytes) :
    extractOne (r.render ++ rest) = .request r.raw r.render.length :=
  extract_exact r.line r.before r.after r.body h.1 h.2 rest

open Iora.Http.Srv in
/-- **S1 (pipelines, any segmentation).** A pipeline of well-formed requests (at most `MAX_BUFFER_SIZE` bytes in total), cut
into network reads in ANY way, makes `handleIncomingData` dispatch exactly those requests, in order, each as header
section + decoded body, and leaves the session open with an empty buffer. -/
theorem S1_pipeline_exact (rs : List ReqSpec) (hall : ∀ r ∈ rs, r.OK) (ss : List Bytes)
    (hss : ss.flatten = renderAll rs) (hb : (renderAll rs).length ≤ Gen.Http.serverMaxBufferSize) :
    (srvFeed {} ss).1 = rs.map (fun r => dispatch r.raw) ∧ (srvFeed {} ss).2 = { buffer := [], alive := true } :=
  pipeline_any_segmentation rs hall ss hss hb

open Iora.Http.Srv Iora.Http.Spec in
/-- **S1 (what the handler sees).** For a complete request of the reference syntax - method from the method table, ANY request
target without SP/CTL/DEL (origin-form, absolute-form `http://h:80/…`, authority-form `h:443`, queries with `:` - that the
header scan never takes the request line for a framing field is `reqLine_facts`), `HTTP/1.<minor>`, field lines incl.
exactly one non-empty `Host`, body absent / Content-Length / chunked with extensions and trailers - the extractor cuts
exactly at the end of the message, and the bytes it hands over parse to exactly: the method, the target, the header map built
by `addOrCombineHeader` over the field lines in order (last value wins, list-valued fields combine), and the decoded body. -/
theorem S1_request_exact (r : FullReq) (hrl : r.rl.WF)
    (hb : ∀ f ∈ r.before, PlainField f) (ha : ∀ f ∈ r.after, PlainField f)
    (hbody : match r.body with
      | .empty => True
      | .sized tok b => tokValue 10 tok = some b.length ∧ b.length ≤ Gen.Http.serverMaxBodySize
      | .chunked te cs l =>
        lastToken (splitOn 44 (lower te)) [] = ascii "chunked" ∧ NoCRLF te ∧ Trimmed te ∧
          (∀ c ∈ cs, c.WF Gen.Http.serverMaxBodySize) ∧ l.WF
      | .untilClose _ => False)
    (hhead : (reqHead r.rl.render r.before r.after r.body).length ≤ Gen.Http.serverMaxHeaderSize)
    (hhost : hostCount r.fields = 1) (hhv : hdrFind (reqHeaders r.fields []) (ascii "Host") ≠ some []) (rest : Bytes) :
    extractOne (r.spec.render ++ rest) = .request r.spec.raw r.spec.render.length ∧
    fromWireFormat r.spec.raw =
      .ok { method := r.rl.method, uri := r.rl.target, minor := r.rl.minor, headers := reqHeaders r.fields [],
            body := r.body.content } := by
  have hok : r.spec.OK := ⟨reqWF_of_line r.rl hrl r.before r.after r.body hb ha hbody, hhead⟩
  exact ⟨extract_exact _ _ _ _ hok.1 hok.2 rest, fromWireFormat_exact r hrl hok hhost hhv⟩

open Iora.Http.Srv in
/-- non-vacuity of the hypotheses of `S1_request_exact`: absolute-form `POST http://h:80/a?t=1:2 HTTP/1.1`, `Host: h`, `Via: x`,
`Content-Length: 2`, body `hi` -/
def exampleReq : FullReq :=
  { rl := { method := 1, target := ascii "http://h:80/a?t=1:2", minor := 1 },
    before := [{ name := ascii "Host", value := ascii "h" }, { name := ascii "Via", value := ascii "x" }],
    body := .sized (ascii "2") (ascii "hi") }

open Iora.Http.Srv Iora.Http.Spec in
example : exampleReq.rl.WF ∧ hostCount exampleReq.fields = 1 ∧
    hdrFind (reqHeaders exampleReq.fields []) (ascii "Host") ≠ some [] ∧
    exampleReq.rl.render = ascii "POST http://h:80/a?t=1:2 HTTP/1.1" ∧
    (tokValue 10 (ascii "2") = some (ascii "hi").length ∧ (ascii "hi").length ≤ Gen.Http.serverMaxBodySize) := by
  refine ⟨⟨by decide, by decide, by decide, by decide, by decide⟩, by decide, by decide, by decide, by decide⟩

open Iora.Http.Srv Iora.Http.Spec in
/-- non-vacuity: `POST /x HTTP/1.1`, `Host: a`, `Transfer-Encoding: chunked`, chunk `3 abc`, last chunk with a trailer -/
example : ReqWF (ascii "POST /x HTTP/1.1") [{ name := ascii "Host", value := ascii "a" }] []
    (.chunked (ascii "chunked") [{ tok := ascii "3", data := ascii "abc" }] { trailers := [ascii "X-T: 1"] }) where
  line_ne := by decide
  line_ok := by decide
  line_key := by
    intro colon hc
    have : indexOf? (· == 58) (ascii "POST /x HTTP/1.1") = none := by decide
    rw [this] at hc; cases hc
  before_ok := by
    intro f hf; simp only [List.mem_singleton] at hf; subst hf
    exact ⟨⟨by decide, by decide, by decide, by decide, by decide, by decide⟩, by decide, by decide⟩
  after_ok := by intro f hf; cases hf
  body_ok := by
    refine ⟨by decide, by decide, by decide, ?_, ⟨by decide, Or.inl rfl, ?_⟩⟩
    · intro c hc; simp only [List.mem_singleton] at hc; subst hc
      exact ⟨by decide, by decide, by decide, by decide, Or.inl rfl⟩
    · intro t ht; simp only [List.mem_singleton] at ht; subst ht; exact ⟨by decide, by decide⟩

open Iora.Http.Srv Iora.Http.Spec in
/-- non-vacuity for request lines WITH colons: absolute-form `GET http://h:80/a?t=1:2 HTTP/1.1` and authority-form
`CONNECT h:443 HTTP/1.1` satisfy `line_ok`/`line_key` (what precedes the first `:` is not a framing field name) -/
example : (∀ c ∈ ascii "GET http://h:80/a?t=1:2 HTTP/1.1", c ≠ 13 ∧ c ≠ 10) ∧
    indexOf? (· == 58) (ascii "GET http://h:80/a?t=1:2 HTTP/1.1") = some 8 ∧
    lower (trim ((ascii "GET http://h:80/a?t=1:2 HTTP/1.1").take 8)) = ascii "get http" ∧
    indexOf? (· == 58) (ascii "CONNECT h:443 HTTP/1.1") = some 9 ∧
    lower (trim ((ascii "CONNECT h:443 HTTP/1.1").take 9)) = ascii "connect h" := by decide

open Iora.Http.Srv in
/-- **S2a (the extractor is a stable frame parser).** For ARBITRARY buffers: once `extractOne` has answered with a request
or with "close", appending more bytes never changes that answer, and an extracted request occupies a non-empty prefix of
the buffer.  This is hypothesis (A) of the generic theorem (`Common/Framing.lean`) with `G = True`; it covers
Content-Length, body-less AND chunked requests. -/
theorem S2_extractor_stable (buf x : Bytes) (r : Extract) (h : extractOne buf = r) (hr : r ≠ .needMore) :
    extractOne (buf ++ x) = r ∧ ∀ raw n, r = .request raw n → 0 < n ∧ n ≤ buf.length :=
  extractOne_spec buf x r h hr

open Iora.Http.Srv in
/-- **S2 (segmentation independence of the I/O thread's extraction).** Any two segmentations of one byte stream of at most
`MAX_BUFFER_SIZE` bytes make `handleIncomingData` dispatch exactly the same requests in the same order, and leave the session
equally open/closed BY THE I/O THREAD (limit exceeded, invalid length information, malformed chunked body) and, if open, with
the same buffered remainder.  (Instance of `Framing.segmentation_independent`.)
Scope: `srvFeed` models the closes `handleIncomingData` itself performs.  The close a WORKER performs after it answered a
request that failed to parse (`processHttpRequest`, 4xx + close - C16) is asynchronous to the extraction loop: requests
pipelined behind a rejected one are dispatched or not depending on when that close lands, so for streams containing a
parser-rejected request only the events up to that request are segmentation-independent.  (The driver erases the session
after an op in which a worker closed it; `srvFeed {} [bad, good]` keeps `alive = true`.) -/
theorem S2_segmentation_independent (ss ts : List Bytes) (h : ss.flatten = ts.flatten)
    (hb : ss.flatten.length ≤ Gen.Http.serverMaxBufferSize) :
    (srvFeed {} ss).1 = (srvFeed {} ts).1 ∧ (srvFeed {} ss).2.alive = (srvFeed {} ts).2.alive ∧
    ((srvFeed {} ss).2.alive = true → (srvFeed {} ss).2 = (srvFeed {} ts).2) := by
  have hnil : stableParser.p [] = .more := rfl
  have a := srvFeed_eq_feed ss {} (.alive []) rfl (by simpa [carryLen] using hb)
  have b := srvFeed_eq_feed ts {} (.alive []) rfl (by rw [← h]; simpa [carryLen] using hb)
  have e := Framing.segmentation_independent stableParser hnil ss ts h trivial
  rw [← e] at b
  refine ⟨by rw [a.1, b.1], ?_, ?_⟩
  · cases hc : (Framing.feed stableParser (.alive []) ss).2 with
    | dead => rw [hc] at a b; simp only [Corr] at a b; rw [a.2, b.2]
    | alive r => rw [hc] at a b; simp only [Corr] at a b; rw [a.2, b.2]
  · intro halive
    cases hc : (Framing.feed stableParser (.alive []) ss).2 with
    | dead => rw [hc] at a; simp only [Corr] at a; rw [a.2] at halive; cases halive
    | alive r => rw [hc] at a b; simp only [Corr] at a b; rw [a.2, b.2]

open Iora.Http.Srv in
/-- **S2b (… and equals one read of the whole stream).** -/
theorem S2_feed_eq_whole (ss : List Bytes) (hb : ss.flatten.length ≤ Gen.Http.serverMaxBufferSize) :
    (srvFeed {} ss).1 = (Framing.drain stableParser ss.flatten).1.filterMap id := by
  have a := srvFeed_eq_feed ss {} (.alive []) rfl (by simpa [carryLen] using hb)
  rw [a.1, Framing.feed_eq_whole stableParser rfl ss trivial]

open Iora.Http.Srv in
/-- **S3b (the header-size cap is per request, not per pass).** For EVERY pipeline of well-formed requests each of whose OWN
header section is at most `MAX_HEADER_SIZE` bytes - with no bound whatever on where in the pipeline a request starts: the only
other hypothesis is that the whole pipeline fits the buffer cap - and for every segmentation of it (in particular: all of it
in ONE read, so that later requests are extracted in the same pass behind more than 64 KiB of earlier bytes), every request
is extracted and dispatched, in order, and the connection stays open with an empty buffer.  (This is `S1_pipeline_exact`
with its hypotheses spelled out; the example below instantiates it with a 70 000-byte first request.) -/
theorem S3b_header_cap_per_request (rs : List ReqSpec)
    (hwf : ∀ r ∈ rs, ReqWF r.line r.before r.after r.body)
    (hhdr : ∀ r ∈ rs, (reqHead r.line r.before r.after r.body).length ≤ Gen.Http.serverMaxHeaderSize)
    (ss : List Bytes) (hss : ss.flatten = renderAll rs) (hb : (renderAll rs).length ≤ Gen.Http.serverMaxBufferSize) :
    (srvFeed {} ss).1 = rs.map (fun r => dispatch r.raw) ∧ (srvFeed {} ss).2 = { buffer := [], alive := true } :=
  S1_pipeline_exact rs (fun r hr => ⟨hwf r hr, hhdr r hr⟩) ss hss hb

/-- `POST /big` with a 70 000-byte Content-Length body, and the `GET /two` pipelined behind it -/
def bigBody : Bytes := List.replicate 70000 120
theorem bigBody_length : bigBody.length = 70000 := List.length_replicate ..
def bigReq : Srv.ReqSpec :=
  { line := ascii "POST /big HTTP/1.1", before := [{ name := ascii "Host", value := ascii "a" }],
    body := .sized (ascii "70000") bigBody }
def followReq : Srv.ReqSpec :=
  { line := ascii "GET /two HTTP/1.1", before := [{ name := ascii "Host", value := ascii "a" }], body := .empty }

open Iora.Http.Srv Iora.Http.Spec in
/-- non-vacuity beyond 64 KiB: the first request alone is longer than `MAX_HEADER_SIZE`, both requests arrive in ONE read (one
extraction pass), and both are dispatched - the second one's header terminator lies at absolute offset > 65536 of that read -/
example : bigReq.render.length > Gen.Http.serverMaxHeaderSize ∧
    (srvFeed {} [renderAll [bigReq, followReq]]).1 = [dispatch bigReq.raw, dispatch followReq.raw] ∧
    (srvFeed {} [renderAll [bigReq, followReq]]).2 = { buffer := [], alive := true } := by
  have hostOK : PlainField { name := ascii "Host", value := ascii "a" } :=
    ⟨⟨by decide, by decide, by decide, by decide, by decide, by decide⟩, by decide, by decide⟩
  have w1 : ReqWF bigReq.line bigReq.before bigReq.after bigReq.body :=
    { line_ne := by decide, line_ok := by decide,
      line_key := by
        intro colon hc
        have : indexOf? (· == 58) bigReq.line = none := by decide
        rw [this] at hc; cases hc
      before_ok := by intro f hf; simp only [bigReq, List.mem_singleton] at hf; subst hf; exact hostOK
      after_ok := by intro f hf; cases hf
      body_ok := by
        show tokValue 10 (ascii "70000") = some bigBody.length ∧ bigBody.length ≤ Gen.Http.serverMaxBodySize
        rw [bigBody_length]; decide }
  have w2 : ReqWF followReq.line followReq.before followReq.after followReq.body :=
    { line_ne := by decide, line_ok := by decide,
      line_key := by
        intro colon hc
        have : indexOf? (· == 58) followReq.line = none := by decide
        rw [this] at hc; cases hc
      before_ok := by intro f hf; simp only [followReq, List.mem_singleton] at hf; subst hf; exact hostOK
      after_ok := by intro f hf; cases hf
      body_ok := trivial }
  have h1 : (reqHead bigReq.line bigReq.before bigReq.after bigReq.body).length = 50 := by decide
  have h2 : (reqHead followReq.line followReq.before followReq.after followReq.body).length = 26 := by decide
  have hw1 : bigReq.body.wire = bigBody := rfl
  have hw2 : followReq.body.wire = [] := rfl
  have hc : crlf2.length = 4 := rfl
  have hl1 : bigReq.render.length = 50 + 4 + 70000 := by
    simp only [ReqSpec.render, reqRender, List.length_append, h1, hw1, bigBody_length, hc]
  have hl2 : followReq.render.length = 26 + 4 + 0 := by
    simp only [ReqSpec.render, reqRender, List.length_append, h2, hw2, List.length_nil, hc]
  have hlen : (renderAll [bigReq, followReq]).length = 50 + 4 + 70000 + (26 + 4 + 0) := by
    simp only [renderAll, List.map_cons, List.map_nil, List.flatten_cons, List.flatten_nil, List.append_nil,
      List.length_append, hl1, hl2]
  refine ⟨?_, ?_⟩
  · rw [hl1]; decide
  · have := S3b_header_cap_per_request [bigReq, followReq]
      (by intro r hr; simp only [List.mem_cons, List.not_mem_nil, or_false] at hr; rcases hr with rfl | rfl; exact w1; exact w2)
      (by
        intro r hr; simp only [List.mem_cons, List.not_mem_nil, or_false] at hr
        rcases hr with rfl | rfl
        · rw [h1]; decide
        · rw [h2]; decide)
      [renderAll [bigReq, followReq]] (by simp) (by rw [hlen]; decide)
    simpa using this

/-- **Gen conformance (extraction loop).** The statement skeleton of `handleIncomingData`'s pipelining loop regenerated from the
working tree is the one the model was written from: the header terminator is searched from offset 0 of a buffer that is trimmed
after every request, so `headerEnd`, the header-size limit, the chunk-scan start and the request end are all relative to the
start of the CURRENT request (`extractOne`/`drainLoop`).  A loop that walks the buffer with a running offset, or any other
change to what an offset is relative to, makes this fail to build. -/
theorem gen_extract_loop : Gen.Http.serverExtractLoop = Srv.extractLoopModelled := by decide

set_option maxRecDepth 4096 in
/-- **Gen conformance (length parsers).** The statement skeletons of the four length conversions regenerated from the working
tree - the server's Content-Length (all-digits test, `std::stoull`, `catch (...)`, limit), the client's `parseFullUInt`
(`std::from_chars`, `errc`, end pointer), `parseContentLength`, the client's chunk size (`parseFullUInt` + cap) and the server's
chunk-size digit loop (limit check right after every shift) - are the ones the models' number parsers were written from.
Replacing a conversion by an unchecked accumulator loop (which computes the value modulo 2^64) makes this fail to build. -/
theorem gen_number_parsers : Gen.Http.numberParsers = Srv.numberParsersModelled := by decide

open Iora.Http.Srv in
/-- **S3a (bounded buffer).** The session buffer never exceeds `MAX_BUFFER_SIZE`; a read that would exceed it closes the
connection without being buffered. -/
theorem S3_buffer_bounded (s : Sess) (seg : Bytes) (h0 : s.buffer.length ≤ Gen.Http.serverMaxBufferSize) :
    (handleIncomingData s seg).1.buffer.length ≤ Gen.Http.serverMaxBufferSize ∧
    (s.alive = true → s.buffer.length + seg.length > Gen.Http.serverMaxBufferSize →
      handleIncomingData s seg = ({ s with alive := false }, [], true)) := by
  constructor
  · unfold handleIncomingData
    split
    · exact h0
    · split
      · exact h0
      · rename_i hlim
        have := drainLoop_rest_le ((s.buffer ++ seg).length + 1) (s.buffer ++ seg)
        simp only [List.length_append] at this hlim ⊢
        omega
  · intro ha hlim
    simp [handleIncomingData, ha, hlim]

open Iora.Http.Srv in
/-- **S3b (header and body limits).** A request is only ever dispatched if its header section is at most `MAX_HEADER_SIZE`
bytes and its declared Content-Length at most `MAX_BODY_SIZE`; a longer header section closes the connection. -/
theorem S3_limits (buf raw : Bytes) (n : Nat) (h : extractOne buf = .request raw n) :
    ∃ he hs, find crlf2 buf 0 = some he ∧ he ≤ Gen.Http.serverMaxHeaderSize ∧
      scanHeaderLines (getLines (buf.take he)) {} = some hs ∧ hs.contentLength ≤ Gen.Http.serverMaxBodySize := by
  unfold extractOne at h
  cases hf : find crlf2 buf 0 with
  | none => rw [hf] at h; cases h
  | some he =>
    rw [hf] at h
    simp only at h
    split at h
    · cases h
    · rename_i hle
      cases hs : scanHeaderLines (getLines (buf.take he)) {} with
      | none => rw [hs] at h; cases h
      | some hsr =>
        exact ⟨he, hsr, rfl, by omega, hs, (scanHeaderLines_spec _ _ _ hs (by simp [Gen.Http.serverMaxBodySize])).1⟩

open Iora.Http.Srv in
theorem S3_header_too_long (buf : Bytes) (he : Nat) (hf : find crlf2 buf 0 = some he)
    (h : he > Gen.Http.serverMaxHeaderSize) : extractOne buf = .close := by
  unfold extractOne; rw [hf]; simp [h]

open Iora.Http.Srv in
/-- **S6 (invalid length information is rejected, never framed by guesswork).** If a request is dispatched then
(a) EVERY `Content-Length` line of its header section carries a full decimal token (`1*DIGIT`, value `< 2^64`) and all of
them denote the same number - the one used for framing;
(b) if the header section has any `Transfer-Encoding` line, the FINAL coding of the last one is exactly `chunked` (after
FC15a: `notchunkedy`, `gzip`, `chunked, gzip` close the connection instead of being framed as chunked / as body-less) and
(c) then there is no Content-Length at all.
(Contrapositive: `12abc`, `+5`, `-1`, an overflowing value, two differing values, CL together with TE, or a transfer coding
the server cannot decode close the connection.) -/
theorem S6_lengths_valid (buf raw : Bytes) (n : Nat) (h : extractOne buf = .request raw n) :
    ∃ he hs, find crlf2 buf 0 = some he ∧ scanHeaderLines (getLines (buf.take he)) {} = some hs ∧
      (∀ l ∈ getLines (buf.take he), ∀ v, clValue? l = some v → parseFullUInt 10 v = some hs.contentLength) ∧
      (∀ t, lastTE (getLines (buf.take he)) none = some t → t = ascii "chunked" ∧ hs.haveCL = false) ∧
      (lastTE (getLines (buf.take he)) none = none → hs.isChunked = false) := by
  unfold extractOne at h
  cases hf : find crlf2 buf 0 with
  | none => rw [hf] at h; cases h
  | some he =>
    rw [hf] at h
    simp only at h
    split at h
    · cases h
    · cases hs : scanHeaderLines (getLines (buf.take he)) {} with
      | none => rw [hs] at h; cases h
      | some hsr =>
        rw [hs] at h
        simp only at h
        obtain ⟨_, _, d⟩ := scanHeaderLines_spec _ _ _ hs (by simp [Gen.Http.serverMaxBodySize])
        obtain ⟨t1, t2, t3⟩ := scanHeaderLines_te _ {} hsr none hs rfl (by intro t ht; cases ht)
        refine ⟨he, hsr, rfl, hs, fun l hl v hv => (d l hl v hv).2, ?_, fun hn => t3 hn⟩
        intro t ht
        have hte : hsr.haveTE = true := by rw [t1, ht]; rfl
        have hch := t2 t ht
        by_cases hc : hsr.isChunked = true
        · have htc : t = ascii "chunked" := by
            rw [hc] at hch
            simpa using hch.symm
          refine ⟨htc, ?_⟩
          cases hcl : hsr.haveCL with
          | false => rfl
          | true => simp [hte, hc, hcl] at h
        · simp [hte, hc] at h

open Iora.Http.Srv in
/-- **S6b (chunk sizes, server).** A chunk-size line is accepted only with a size of at most `MAX_BODY_SIZE`: the digit loop
compares every prefix value with the limit before shifting in the next digit, so a long digit run can neither wrap the
accumulator (`10000000000000000`) nor come back as a small number; with S7 this is what replaced the `stoul` parse of F26. -/
theorem S6b_chunk_size_sound (maxBody : Nat) (line : Bytes) (n : Nat) (h : sizeLine maxBody line = some n) : n ≤ maxBody :=
  sizeLine_le maxBody line n h

open Iora.Http.Srv in
/-- witnesses (limit 10 MiB): 17 hex digits, `ffffffffffffffec`, a sign, `0x`, junk, BWS before CRLF are malformed -/
example : sizeLine 10485760 (ascii "10000000000000000") = none ∧ sizeLine 10485760 (ascii "ffffffffffffffec") = none ∧
    sizeLine 10485760 (ascii "-14") = none ∧ sizeLine 10485760 (ascii "0x3") = none ∧ sizeLine 10485760 (ascii "3x") = none ∧
    sizeLine 10485760 (ascii "3 ") = none ∧ sizeLine 10485760 (ascii "a00001") = none ∧
    sizeLine 10485760 (ascii "A00000 ;x") = some 10485760 := by decide

open Iora.Http.Srv in
/-- witnesses for the Transfer-Encoding rule: only a final coding that is exactly `chunked` is framed as chunked -/
example : teFinal? (ascii "Transfer-Encoding: notchunkedy") = some (ascii "notchunkedy") ∧
    teFinal? (ascii "transfer-encoding: gzip, Chunked ") = some (ascii "chunked") ∧
    teFinal? (ascii "Transfer-Encoding: chunked, gzip") = some (ascii "gzip") := by decide

/-- `parseFullUInt 10` accepts exactly non-empty all-digit tokens below 2^64: witnesses for the rejected shapes -/
example : parseFullUInt 10 (ascii "12abc") = none ∧ parseFullUInt 10 (ascii "+5") = none ∧
    parseFullUInt 10 (ascii "-1") = none ∧ parseFullUInt 10 (ascii " 5") = none ∧ parseFullUInt 10 [] = none ∧
    parseFullUInt 10 (ascii "18446744073709551616") = none ∧
    parseFullUInt 10 (ascii "18446744073709551615") = some 18446744073709551615 := by decide

open Iora.Http.Srv in
/-- **S7 (the chunk scan terminates on arbitrary bytes).** `chunkScan` is a total function whose every continuing
iteration moves `pos` strictly forward, bounded by the buffer length (measure `data.length - pos`). -/
theorem S7_chunk_scan_progress (maxBody : Nat) (data : Bytes) (pos p : Nat) (c : Bytes)
    (h : scanStep maxBody data pos = .next p c) : pos < p ∧ p ≤ data.length :=
  ⟨scanStep_next_lt maxBody data pos p c h, (scanStep_bounds maxBody data pos).2 p c h⟩

/-- why the unrepaired arithmetic looped (F26): in `size_t` arithmetic the 18-byte line `ffffffffffffffec\r\n` at offset `s`
makes `pos = s + 18; pos += chunkSize + 2` come back to `s` -/
theorem F26_original_arithmetic_wraps (s : UInt64) : s + 18 + ((0xffffffffffffffec : UInt64) + 2) = s := by
  have : (18 : UInt64) + ((0xffffffffffffffec : UInt64) + 2) = 0 := by decide
  rw [UInt64.add_assoc, this, UInt64.add_zero]

/-! ## Server, connection level (extension round): closes, long connections, pool oracle, worker schedule -/

open Iora.Http.Srv in
/-- **S8a (nothing after a terminal close - FC15b).** Once `handleIncomingData` has closed the connection from the I/O thread
(a read that would exceed `MAX_BUFFER_SIZE`, a header section over `MAX_HEADER_SIZE`, invalid length information, a malformed
chunked body), NO later read dispatches anything or changes the session, whatever it contains and however many follow - the
session is forgotten at the moment of the close (`rejectSession`), not when the transport's queued close lands. -/
theorem S8_nothing_after_io_close (s : Sess) (seg : Bytes) (ss : List Bytes)
    (h : (handleIncomingData s seg).2.2 = true) :
    srvFeed (handleIncomingData s seg).1 ss = ([], (handleIncomingData s seg).1) := by
  apply srvFeed_dead
  unfold handleIncomingData at h ⊢
  split
  · rename_i hd; simp [hd] at h
  · rename_i hd
    split
    · rfl
    · rename_i hl; simp only [hd, hl] at h ⊢; simp at h ⊢; exact h

open Iora.Http.Srv in
/-- **S8 (what is dispatched is the greedy framing of a CONTIGUOUS PREFIX of the input - every segmentation, no cap
hypothesis).** For EVERY list of reads `ss` - including reads that trip the buffer cap, streams of any total length, invalid
and hostile streams - there is a `j` such that the requests `handleIncomingData` dispatches are exactly, in order, the frames
the generic greedy receive loop (`Framing.drain`: cut a frame at the front, drop exactly its bytes, repeat) cuts out of the
concatenation of the first `j` reads, and that concatenation is a prefix of the whole input.  `j` is the number of reads up to
the one that made the I/O thread close, all of them if none did.  In particular no request is ever framed across a dropped
read (the defect FC15b repaired: a read dropped for the cap followed by a smaller read that was appended behind the old
buffer). -/
theorem S8_dispatch_is_prefix_framing (ss : List Bytes) :
    ∃ j, j ≤ ss.length ∧
      (srvFeed {} ss).1 = (Framing.drain stableParser (ss.take j).flatten).1.filterMap id ∧
      (ss.take j).flatten ++ (ss.drop j).flatten = ss.flatten := by
  obtain ⟨j, hj, he⟩ := srvFeed_prefix ss {} (.alive []) rfl
  refine ⟨j, hj, ?_, take_flatten_prefix ss j⟩
  rw [he, Framing.feed_eq_whole stableParser rfl (ss.take j) trivial]

open Iora.Http.Srv in
/-- **S8c (every dispatched request is read off a CONTIGUOUS range of the concatenated input).** For EVERY list of reads `ss`
(any segmentation, any total length, reads that trip a cap, hostile bytes) and every request `raw` handed to
`processHttpRequest`: there is an offset `off` of the concatenated input `ss.flatten` at which the extractor, run on the TRUE
stream from there on, yields exactly `raw`, consuming the `n` bytes `[off, off + n)` - no byte of a dropped read is skipped and
no request is assembled from bytes that were not adjacent on the wire. -/
theorem S8_dispatched_is_contiguous_slice (ss : List Bytes) (raw : Bytes) (h : raw ∈ (srvFeedRaw {} ss).1) :
    ∃ off n, off + n ≤ ss.flatten.length ∧ extractOne (ss.flatten.drop off) = .request raw n := by
  have := srvFeedRaw_slices ss {} [] 0 (Nat.le_refl _) rfl raw h
  simpa using this

open Iora.Http.Srv in
/-- … and `srvFeedRaw` is `srvFeed` before `dispatch`: S8c speaks about everything `handleIncomingData` dispatches -/
theorem S8_raw_view (ss : List Bytes) : (srvFeed {} ss).1 = (srvFeedRaw {} ss).1.map dispatch := by
  rw [srvFeed_raw]

open Iora.Http.Srv in
/-- witness for S8a/S8 with a read that trips the cap: a session that holds `MAX_BUFFER_SIZE` bytes gets a 1-byte read - the
read is dropped, the session is gone, and whatever reads follow (e.g. a complete request) dispatch nothing -/
example (b : Bytes) (hb : b.length = Gen.Http.serverMaxBufferSize) (ss : List Bytes) :
    srvFeed { buffer := b, alive := true } ([98] :: ss) = ([], { buffer := b, alive := false }) := by
  have h2 : handleIncomingData { buffer := b, alive := true } [98] = ({ buffer := b, alive := false }, [], true) := by
    simp [handleIncomingData, hb]
  simp only [srvFeed, h2]
  rw [srvFeed_dead ss _ rfl]
  rfl

open Iora.Http.Srv in
/-- **S2L (segmentation independence without a bound on the connection's total).** The hypothesis "the whole stream is at most
`MAX_BUFFER_SIZE`" of S2 is replaced by the per-step one the code actually checks: every read, when it arrives, fits the cap
together with what the session still holds (`fits`).  Any two such segmentations of one stream - of ANY total length, e.g. a
keep-alive connection that carries gigabytes - dispatch the same requests in the same order and leave the same session. -/
theorem S2_long_segmentation_independent (ss ts : List Bytes) (h : ss.flatten = ts.flatten)
    (hs : fits {} ss) (ht : fits {} ts) :
    (srvFeed {} ss).1 = (srvFeed {} ts).1 ∧ (srvFeed {} ss).2.alive = (srvFeed {} ts).2.alive ∧
    ((srvFeed {} ss).2.alive = true → (srvFeed {} ss).2 = (srvFeed {} ts).2) := by
  have hnil : stableParser.p [] = .more := rfl
  have a := srvFeed_eq_feed_fits ss {} (.alive []) rfl hs
  have b := srvFeed_eq_feed_fits ts {} (.alive []) rfl ht
  have e := Framing.segmentation_independent stableParser hnil ss ts h trivial
  rw [← e] at b
  refine ⟨by rw [a.1, b.1], ?_, ?_⟩
  · cases hc : (Framing.feed stableParser (.alive []) ss).2 with
    | dead => rw [hc] at a b; simp only [Corr] at a b; rw [a.2, b.2]
    | alive r => rw [hc] at a b; simp only [Corr] at a b; rw [a.2, b.2]
  · intro halive
    cases hc : (Framing.feed stableParser (.alive []) ss).2 with
    | dead => rw [hc] at a; simp only [Corr] at a; rw [a.2] at halive; cases halive
    | alive r => rw [hc] at a b; simp only [Corr] at a b; rw [a.2, b.2]

open Iora.Http.Srv in
/-- S2L's hypothesis is weaker than S2's: a stream that fits the cap as a whole fits it read by read -/
theorem S2_fits_of_total (ss : List Bytes) (hb : ss.flatten.length ≤ Gen.Http.serverMaxBufferSize) : fits {} ss :=
  fits_of_total ss {} (by simpa using hb)

open Iora.Http.Srv in
/-- **S1K (long keep-alive connections are framed exactly).** ANY pipeline of well-formed requests, each at most `R` bytes on
the wire, delivered in reads of at most `L` bytes with `R + L ≤ MAX_BUFFER_SIZE` - NO bound on the number of requests or on the
total length of the connection - is dispatched completely, in order, each request as header section + decoded body, and the
connection stays open with an empty buffer.  (With the engine's 64 KiB reads: every request up to 960 KiB.) -/
theorem S1_keepalive_exact (rs : List ReqSpec) (R L : Nat) (hall : ∀ r ∈ rs, r.OK ∧ r.render.length ≤ R)
    (ss : List Bytes) (hseg : ∀ seg ∈ ss, seg.length ≤ L) (hRL : R + L ≤ Gen.Http.serverMaxBufferSize)
    (hss : ss.flatten = renderAll rs) :
    (srvFeed {} ss).1 = rs.map (fun r => dispatch r.raw) ∧ (srvFeed {} ss).2 = { buffer := [], alive := true } := by
  obtain ⟨m, b', hf, ht, hp⟩ := keepalive_feed ss rs [] [] R L hall hseg hRL (Or.inl rfl) (by simpa using hss)
  have hb' : b' = renderAll (rs.drop m) := by simpa using ht
  have hdrop : rs.drop m = [] := by
    rcases hp with h | ⟨r, rest, hrs, hlt⟩
    · exact renderAll_nil_iff _ (by rw [← hb', h])
    · exfalso
      rw [hb', hrs] at hlt
      simp only [renderAll, List.map_cons, List.flatten_cons, List.length_append] at hlt
      omega
  have hm : rs.take m = rs := by
    have := List.take_append_drop m rs
    rw [hdrop, List.append_nil] at this
    exact this
  have hf' : srvFeedRaw {} ss = ((rs.take m).map ReqSpec.raw, { buffer := b', alive := true }) := hf
  rw [srvFeed_raw, hf', hm, hb', hdrop]
  simp [renderAll, List.map_map, Function.comp_def]

/-- the numbers of S1K for the engine's read size: 960 KiB requests in 64 KiB reads -/
example : 983040 + 65536 ≤ Gen.Http.serverMaxBufferSize := by decide

open Iora.Http.Srv in
/-- **S9a (one pass: the pool decides where a request goes, never what is extracted).** For every session state, read and
number of free queue slots: the requests `handleIncomingData` cuts out of the buffer in that call are the same - accepted
ones are queued, refused ones are answered 503, and the extraction loop continues over its local copy either way. -/
theorem S9_pass_extraction_independent_of_pool (c : Conn) (seg : Bytes) (slots : Nat) :
    extracted (connData c seg slots).2.1 = (ioStep c.sess seg).2.1 := by
  simp only [connData, extracted_append, route_extracted]
  split <;> simp [extracted]

open Iora.Http.Srv in
/-- **S9 (pool refusals, worker schedule and the moment a close lands never change the framing).** For EVERY interleaving of
reads (`data seg slots`, with an arbitrary number of free queue slots each time), worker runs (`work`) and the engine's close
callback (`closed`): the requests the I/O thread extracts (handed to the pool or answered 503), in order, are exactly what the
I/O thread ALONE extracts from the first `j` reads, for some `j`.  The oracles decide only where the connection stops; the
bytes before that point are framed as if there were no pool and no workers (and by S8 that framing is the greedy framing of a
contiguous prefix of the input). -/
theorem S9_extraction_oracle_independent (ops : List COp) :
    ∃ j, j ≤ (segsOf ops).length ∧
      extracted (crun {} ops).1 = (srvFeedRaw {} ((segsOf ops).take j)).1 ∧
      (extracted (crun {} ops).1).map dispatch = (srvFeed {} ((segsOf ops).take j)).1 := by
  obtain ⟨j, hj, he⟩ := crun_extracted ops {}
  exact ⟨j, hj, he, by rw [he, srvFeed_raw]⟩

open Iora.Http.Srv in
/-- **S9b (workers see every accepted request once, in acceptance order).** At any point of any interleaving: what the workers
have handled so far, followed by what is still queued, is `processHttpRequest` applied to the accepted requests in order. -/
theorem S9_workers_fifo (ops : List COp) :
    workerEvs (crun {} ops).1 ++ (crun {} ops).2.pending.map dispatch = (accepted (crun {} ops).1).map dispatch := by
  simpa using crun_workers ops {}

open Iora.Http.Srv in
/-- with enough free slots nothing is refused and the session is exactly the I/O thread's -/
theorem S9_no_refusal (c : Conn) (seg : Bytes) (slots : Nat) (h : (ioStep c.sess seg).2.1.length ≤ slots) :
    (connData c seg slots).1.sess = (ioStep c.sess seg).1 ∧
    (connData c seg slots).1.pending = c.pending ++ (ioStep c.sess seg).2.1 := by
  obtain ⟨_, b, cc⟩ := route_all_accepted (ioStep c.sess seg).2.1 slots h
  simp [connData, b, cc]

open Iora.Http.Srv in
/-- non-vacuity of S9: a read with two requests and ONE free slot - the first is queued, the second refused (503), both are
extracted; the refusal erases the session, the next read is ignored; the worker then handles the queued one -/
example :
    let g := ascii "GET / HTTP/1.1\r\nHost: a\r\n\r\n"
    let r := crun {} [.data (g ++ g) 1, .data g 5, .work]
    extracted r.1 = [g, g] ∧ accepted r.1 = [g] ∧ r.2.sess.alive = false ∧ (workerEvs r.1).length = 1 := by decide

/-- **Gen conformance (terminal closes).** Every close `handleIncomingData` performs goes through `rejectSession`, and
`rejectSession` erases the session under `_sessionMutex` before it asks the transport to close - what `ioStep`/`handleIncomingData`
(`alive := false` at the moment of the close) were written from.  A plain `closeSession(sid)` on any of these paths makes this
fail to build. -/
theorem gen_io_close : Gen.Http.serverIoClose = Srv.ioCloseModelled := by decide

/-- **Gen conformance (case folding).** `handleIncomingData` folds field names and transfer codings with an ASCII-only map
(`asciiLower`; the model's `lower`), not with `::tolower` applied to plain `char` (undefined for bytes ≥ 0x80 where `char` is
signed, and locale dependent) - FC15c. -/
theorem gen_case_fold : Gen.Http.serverCaseFold = "ascii" := by decide

/-- **Gen conformance (query conversion).** The statements of `processHttpRequest` that fill `req.params` are the ones
`Srv.queryParams` was written from (first `?`, pieces cut at `&`, first `=` splits, no `=` is skipped, assignment = last wins). -/
theorem gen_query_params : Gen.Http.serverQueryParams = Srv.queryParamsModelled := by decide

/-- **Gen conformance (client header store).** `parseHeaderBlock` ASSIGNS a field line to `resp.headers[name]` (the last line
of a repeated field wins - in particular the framing decision reads the LAST `Transfer-Encoding` line) and combines only
repeated `Connection` lines - what `hdrAdd`/`parseHeaderBlock` of the client model were written from.  `emplace` (first line
wins) or any other store makes this fail to build. -/
theorem gen_client_header_store : Gen.Http.clientHeaderStore =
    ["auto prevConnection = ciEquals(name, \"Connection\") ? resp.headers.find(name) : resp.headers.end()",
     "if (prevConnection != resp.headers.end())", "prevConnection->second += \", \" + value",
     "resp.headers[name] = value"] := by decide

/-- **Gen conformance (whitespace before the colon).** `HttpRequest::fromWireFormat` answers 400 to a field line with SP/HTAB
between the field name and the colon (RFC 9112 §5.1) BEFORE it trims the name - what `parseReqLines`/`nameEndsWithOWS` were
written from (FC15d: `Content-Length : 5` used to be read as Content-Length). -/
theorem gen_field_name_ws : Gen.Http.requestRejectsWsBeforeColon = true := by decide

open Iora.Http.Srv in
/-- **S6c (no whitespace between field name and colon).** A request any of whose field lines has SP/HTAB right before its first
colon is never handed to a handler: the request parser answers 400 (and the worker closes). -/
theorem S6c_ws_before_colon_rejected (before : List Bytes) (line : Bytes) (rest : List Bytes) (h : Headers) (n colon : Nat)
    (hb : ∃ h' n', parseReqLines before h n = .ok (h', n') ∧ ∀ tail, parseReqLines (before ++ tail) h n = parseReqLines tail h' n')
    (h0 : ∀ c, line.head? = some c → c ≠ 32 ∧ c ≠ 9) (hne : line ≠ [])
    (hc : indexOf? (· == 58) line = some colon) (hw : nameEndsWithOWS (line.take colon) = true) :
    parseReqLines (before ++ line :: rest) h n = .error 400 := by
  obtain ⟨h', n', _, hcont⟩ := hb
  rw [hcont]
  cases hl : line with
  | nil => exact absurd hl hne
  | cons c0 tl =>
    rw [hl] at hc hw h0
    have := h0 c0 rfl
    unfold parseReqLines
    simp [this.1, this.2, hc, hw]

open Iora.Http.Srv in
/-- witnesses: `Content-Length : 5`, `Content-Length<HTAB>: 5`, `Host : a`, `Transfer-Encoding : chunked` are 400 -/
example : dispatch (ascii "POST /x HTTP/1.1\r\nHost: a\r\nContent-Length : 5\r\n\r\nhello") = .rejected 400 ∧
    dispatch (ascii "POST /x HTTP/1.1\r\nHost: a\r\nContent-Length\t: 5\r\n\r\nhello") = .rejected 400 ∧
    dispatch (ascii "GET /x HTTP/1.1\r\nHost : a\r\n\r\n") = .rejected 400 ∧
    dispatch (ascii "POST /x HTTP/1.1\r\nHost: a\r\nTransfer-Encoding : chunked\r\n\r\nhello") = .rejected 400 ∧
    (match dispatch (ascii "GET /x HTTP/1.1\r\nHost: a\r\nX: y z : w\r\n\r\n") with | .handled _ _ => true | _ => false) = true := by
  refine ⟨by decide, by decide, by decide, by decide, by decide⟩

open Iora.Http.Srv in
theorem parseMethod_status (m : Bytes) (s : Nat) (h : parseMethod m = .error s) : s = 501 ∨ s = 400 := by
  unfold parseMethod at h
  split at h
  · cases h
  · split at h <;> cases h <;> simp

open Iora.Http.Srv in
theorem parseReqLines_status : ∀ (lines : List Bytes) (hd : Headers) (n s : Nat),
    parseReqLines lines hd n = .error s → s = 400 := by
  intro lines
  induction lines with
  | nil => intro hd n s h; simp [parseReqLines] at h
  | cons line rest ih =>
    intro hd n s h
    unfold parseReqLines at h
    split at h
    · exact ih _ _ _ h
    · split at h
      · cases h; rfl
      · split at h
        · exact ih _ _ _ h
        · split at h
          · cases h; rfl
          · exact ih _ _ _ h

open Iora.Http.Srv in
theorem parseRequestLine_status (line : Bytes) (s : Nat) (h : parseRequestLine line = .error s) :
    s = 400 ∨ s = 414 ∨ s = 501 ∨ s = 505 := by
  unfold parseRequestLine at h
  split at h
  · cases h; simp
  · split at h
    · cases h; simp
    · simp only at h
      split at h
      · cases h; simp
      · split at h
        · cases h; simp
        · split at h
          · cases h; simp
          · split at h
            · cases h; simp
            · split at h
              · cases h; simp
              · split at h
                · rename_i hm
                  cases h
                  rcases parseMethod_status _ _ hm with rfl | rfl <;> simp
                · split at h
                  · cases h; simp
                  · split at h
                    · cases h; simp
                    · cases h

open Iora.Http.Srv in
/-- **the request parser's error statuses are exactly the ones the source throws** (`Gen.Http.requestErrorStatuses`, collected by
the translator from every `HttpRequestError(status, …)` of `fromWireFormat` / `parseRequestLine` / `parseMethod`): whatever bytes
the extractor hands over, a rejected request is answered with one of these statuses (or the generic 500 of a non-HTTP
exception, which cannot occur after extraction). -/
theorem S6d_reject_status (data : Bytes) (s : Nat) (h : fromWireFormat data = .error s) :
    s = 500 ∨ s ∈ Gen.Http.requestErrorStatuses := by
  have hmem : ∀ t, (t = 400 ∨ t = 414 ∨ t = 501 ∨ t = 505) → t ∈ Gen.Http.requestErrorStatuses := by
    intro t ht; rcases ht with rfl | rfl | rfl | rfl <;> decide
  unfold fromWireFormat at h
  split at h
  · cases h; exact Or.inl rfl
  · simp only at h
    split at h
    · cases h; exact Or.inr (hmem 400 (by simp))
    · split at h
      · rename_i hrl
        cases h
        exact Or.inr (hmem _ (parseRequestLine_status _ _ hrl))
      · split at h
        · rename_i hpl
          cases h
          exact Or.inr (hmem _ (Or.inl (parseReqLines_status _ _ _ _ hpl)))
        · split at h
          · cases h; exact Or.inr (hmem 400 (by simp))
          · split at h
            · cases h; exact Or.inr (hmem 400 (by simp))
            · split at h
              · cases h; exact Or.inr (hmem 400 (by simp))
              · cases h

open Iora.Http.Srv in
/-- each of the four statuses is reachable (the lockstep `server-reach` family drives the real parser through the same inputs) -/
example : dispatch (ascii "GET /x HTTP/1.1\r\n\r\n") = .rejected 400 ∧
    dispatch (ascii "BREW /x HTTP/1.1\r\nHost: a\r\n\r\n") = .rejected 501 ∧
    dispatch (ascii "GET /x HTTP/2.0\r\nHost: a\r\n\r\n") = .rejected 505 := by decide

open Iora.Http.Srv in
/-- `req.params` witnesses: last value wins, a piece without `=` is skipped, the first `=` splits, nothing is decoded -/
example : queryParams (ascii "/a?x=1&y=2&x=3&z") = [(ascii "x", ascii "3"), (ascii "y", ascii "2")] ∧
    queryParams (ascii "/a?t=1=2&&=v&k=") = [(ascii "t", ascii "1=2"), ([], ascii "v"), (ascii "k", [])] ∧
    queryParams (ascii "/a") = [] ∧ queryParams (ascii "/a?") = [] ∧
    queryParams (ascii "/a?x=%20+?&y") = [(ascii "x", ascii "%20+?")] := by decide

/-! ## Server with the upgrade hold (FC18f): what follows an Upgrade request is not framed as HTTP

`handleIncomingData` since FC18f is `Srv.connDataU` (`Model/HttpServerConn.lean`).  `handleIncomingData`/`srvFeed`/`ioStep`/
`connData`/`crun` of the sections above are that function for passes in which no Upgrade request is extracted
(`U0_pass_without_upgrade_is_http_only`); the statements below hold for EVERY run of the function as it is. -/

open Iora.Http.Srv in
/-- **S8U (what is extracted is the greedy framing of a contiguous prefix of the TRUE stream - every schedule, every oracle).**
For EVERY interleaving of reads (any segmentation, any total length, reads that trip the cap, arbitrary free queue slots),
worker runs, close callbacks - and therefore every way upgrade holds are set and released: the requests the I/O thread cuts out
of the stream, in order, are a greedy chain of the concatenated input from offset 0: the first is what the extractor yields at
offset 0, each next one is what it yields right behind the previous one, up to some offset `o'`.  Nothing is skipped, nothing
is framed twice, no request is assembled across a dropped read, and bytes the server never frames (behind a close, behind an
Upgrade request whose hold is never released) are a SUFFIX of the input. -/
theorem S8U_extraction_is_greedy_chain (ops : List COp) :
    ∃ o', chainTo (segsOf ops).flatten 0 (extracted (crunU {} ops).1) o' := by
  have := crunU_chain ops {} [] 0 (Nat.le_refl _) (fun _ => rfl)
  simpa using this

open Iora.Http.Srv in
/-- **U1 (the hold).** While an Upgrade request of the session is being processed (`_upgradePending`), a read is never scanned:
nothing is extracted, nothing is dispatched. -/
theorem U1_hold_extracts_nothing (c : ConnU) (seg : Bytes) (slots : Nat) (h : c.hold = true) :
    extracted (connDataU c seg slots).2.1 = [] := connDataU_hold c seg slots h

open Iora.Http.Srv in
/-- **U1b (the hold is bounded and keeps arrival order).** A held read is appended behind what is already stored - unless it would
exceed `MAX_BUFFER_SIZE`: then the read is dropped, the session is forgotten and closed (`rejectSession`). -/
theorem U1_hold_appends_or_rejects (c : ConnU) (seg : Bytes) (slots : Nat) (h : c.hold = true) (ha : c.sess.alive = true) :
    (c.sess.buffer.length + seg.length ≤ Gen.Http.serverMaxBufferSize →
      (connDataU c seg slots).1.sess = { buffer := c.sess.buffer ++ seg, alive := true } ∧ (connDataU c seg slots).1.hold = true) ∧
    (c.sess.buffer.length + seg.length > Gen.Http.serverMaxBufferSize →
      (connDataU c seg slots).1.sess.alive = false ∧ (connDataU c seg slots).2.1 = [.ioClose]) := by
  constructor
  · intro hle
    have : ¬ (c.sess.buffer.length + seg.length > Gen.Http.serverMaxBufferSize) := by omega
    unfold connDataU
    simp [h, ha, this]
  · intro hgt
    unfold connDataU
    simp [h, ha, hgt]

open Iora.Http.Srv in
/-- **U2 (the request loop stops behind an Upgrade request).** If the request at the front of the buffer carries an Upgrade
field, the pass extracts exactly that request and leaves EVERYTHING behind it in the buffer, unscanned - even complete
requests, even bytes containing CR LF CR LF. -/
theorem U2_pass_stops_behind_upgrade (f : Nat) (buf raw : Bytes) (n : Nat) (he : extractOne buf = .request raw n)
    (hu : hasUpgrade buf = true) : drainRawU (f + 1) buf = ([raw], false, buf.drop n, true) := by
  have hn := ((extractOne_spec buf [] _ he (by simp)).2 raw n rfl).1
  have hn0 : n ≠ 0 := by omega
  simp [drainRawU, he, hn0, hu]

open Iora.Http.Srv in
/-- **U0 (without an Upgrade request the function is the HTTP-only one).** A pass of a session without hold that does not stop
behind an Upgrade request extracts, closes and keeps exactly what `ioStep` does - the function S1-S9 above are about; with
enough free queue slots the session afterwards is `ioStep`'s too. -/
theorem U0_pass_without_upgrade_is_http_only (c : ConnU) (seg : Bytes) (slots : Nat) (hh : c.hold = false)
    (hs : (drainRawU ((c.sess.buffer ++ seg).length + 1) (c.sess.buffer ++ seg)).2.2.2 = false) :
    extracted (connDataU c seg slots).2.1 = (ioStep c.sess seg).2.1 ∧
    ((routeU (tagLast (ioStep c.sess seg).2.1 false) slots).2.2.2 = false → (connDataU c seg slots).1.sess = (ioStep c.sess seg).1) ∧
    (connDataU c seg slots).1.hold = false := by
  have hd := drainRawU_no_stop _ _ hs
  unfold connDataU ioStep
  simp only [hh, Bool.false_eq_true, ↓reduceIte]
  split
  · simp [extracted, hh]
  · split
    · simp [extracted, hh]
    · simp only [hd, hs, extracted_append, routeU_extracted, tagLast_fst, Bool.false_and]
      refine ⟨by split <;> simp [extracted], ?_, trivial⟩
      intro hr
      simp only [List.length_append] at hr
      simp [hr]

/-- **Gen conformance (upgrade hold).** The statements of `handleIncomingData` that mention `_upgradePending` / `haveUpgrade`, the
`break` that is the whole body of the last `if (haveUpgrade)` of the request loop, and the erasures of `handleSessionClosed` are
the ones `connDataU` / `connClosedU` were written from. -/
theorem gen_upgrade_hold : Gen.Http.serverUpgradeHold = Srv.upgradeHoldModelled ∧ Gen.Http.serverUpgradeBreak = true ∧
    Gen.Http.serverSessionClosed = Srv.sessionClosedModelled := by decide

open Iora.Http.Srv in
/-- non-vacuity: an Upgrade request and a pipelined GET in ONE read with the worker parked - only the Upgrade request is
extracted and the hold is set; a later read (here a WebSocket-looking frame containing CR LF CR LF) is held, not framed; the
worker releases the hold; the next read frames the GET (the plain server declined the upgrade) -/
example :
    let u := ascii "GET /ws HTTP/1.1\r\nHost: a\r\nUpgrade: websocket\r\n\r\n"
    let g := ascii "GET / HTTP/1.1\r\nHost: a\r\n\r\n"
    let r1 := crunU {} [.data (u ++ g) 9]
    let r2 := crunU {} [.data (u ++ g) 9, .data g 9]
    let r3 := crunU {} [.data (u ++ g) 9, .data g 9, .work, .data [] 9]
    extracted r1.1 = [u] ∧ r1.2.hold = true ∧ r1.2.sess.buffer = g ∧
    extracted r2.1 = [u] ∧ r2.2.sess.buffer = g ++ g ∧
    extracted r3.1 = [u, g, g] ∧ r3.2.hold = false := by decide

end Iora.C15
